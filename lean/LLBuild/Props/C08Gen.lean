/-
C08 over histories WITH DESCRIPTION EDITS.

"... after any sequence of observable edits to source files, deletion or tampering of outputs, AND EDITS TO THE
DESCRIPTION ITSELF (commands added, removed, rewired, or changed; inputs becoming produced nodes and vice versa), a
successful build leaves every output reachable from the built target with exactly the contents the CURRENT
description's commands compute from the current contents of the files no command produces."

Props/C08.lean instantiates the engine theorem C01 for ONE description.  Here the engine theorems over program
generations (Lemmas/Engine/Generations.lean, Props/C01Gen.lean) are instantiated for a SEQUENCE of descriptions
`ds : Nat → Desc` — generation `g` is the `g`-th description the tool is started with, `PP g = client H (ds g)` —:
a history is a list of `GEvent`s: engine events judged by the rule set of the current description (`mutate` = an
edit of the file system between builds, builds of any target or node key, restarts, crashes) and `reprogram g'` =
the tool is started again on the same database with description `ds g'`.

Proved here:
* `C08_client_SigCoversValid` / `C08_client_SelfStable` — the two client obligations of the generation theorems
  (`SigCoversValid`: equal signature ⇒ equal task, for every rule that can accept a stored value at all);
* `C08_outputs_clean_gen`, `C08_outputs_eval_gen`, `C08_inputs_current_gen` — after any such history a successful
  build returns / hands to every task the clean value of the CURRENT description in the current file-system state
  (= what `cleanEval (ds g)` computes);
* `C08_command_sig_tracks_definition`, `C08_changed_definition_reruns_gen` — a command (node) whose definition
  (type / producers) differs from the one its stored result was computed with cannot be declared up to date.

Hypotheses (all explicit):
* `hH` — the signature hash does not collide (as in `C08_node_sig_changes`);
* NOTHING about targets: the BuildSystem gives a target rule no signature and relies on `isResultValid = false`; the
  engine obligation `SigCoversValid` binds only rules that can accept a stored value, so the target table may be
  edited freely (`TargetEditExample`).  The stronger obligation `SigCovers` (`C08_client_SigCovers`) does need
  `TargetsStable ds` — it FAILS for an edited target, `C08_SigCovers_needs_TargetsStable` — which is why the weaker
  obligation is the right one; both are kept as documentation.
* `ProducerStable ds` — a command that stays THE producer of a VIRTUAL node keeps its tool class (phony / symlink /
  other).  Nothing is asked for non-virtual nodes: a successful command's value records its output list like the real
  BuildValue (`successValue`, `C08_value_records_outputs`), a produced node looks its record up in the value, so
  reordering, adding or dropping outputs of a command changes the command's value and re-runs the nodes
  (`ReorderExample`).  For a virtual node `getResultForOutput` looks at the producer's tool class and neither the node
  signature (`BuildNode::getSignature`: type + producer names) nor the value covers that: without the hypothesis the
  ENGINE-LEVEL statement is false (`C08_gen_needs_ProducerStable`: phony `C0` with a missing input — it is skipped,
  its virtual output is `VirtualInput` anyway — is turned into a shell command: `C0` re-runs and is skipped again
  with the same Failed value, the node stays `VirtualInput` although a clean build gives `FailedInput`); the
  command-line tool reports both builds as failed, see notes/C08.md.
-/
import LLBuild.Props.C08
import LLBuild.Props.C01Gen
import LLBuild.Lemmas.BuildSystemClientGen
import LLBuild.Lemmas.FailPropClient

set_option linter.unusedVariables false

namespace LLBuild.BuildSystemClient
open LLBuild.Engine
open LLBuild.Generated.BuildSystemRules

/-- the target table does not change across description edits (an edited target is a new target index) -/
def TargetsStable (ds : Nat → Desc) : Prop := ∀ g g', (ds g).targets = (ds g').targets

/-- a command that is THE producer of a VIRTUAL node in two generations has the same tool class in both
(`getResultForOutput` has a PhonyCommand and a SymlinkCommand override); nothing is asked for non-virtual nodes -/
def ProducerStable (ds : Nat → Desc) : Prop :=
  ∀ g g' i c, (ds g).producers i = [c] → (ds g').producers i = [c] →
    (ds g).isVirtual i = true → (ds g').isVirtual i = true →
    (((ds g).cmd c).tool = .phony ↔ ((ds g').cmd c).tool = .phony) ∧
    (((ds g).cmd c).tool = .symlink ↔ ((ds g').cmd c).tool = .symlink)

/-- descriptions without virtual nodes need no such hypothesis -/
theorem ProducerStable.of_no_virtual {ds : Nat → Desc} (h : ∀ g i, (ds g).isVirtual i = false) : ProducerStable ds :=
  fun g g' i c _ _ hv _ => by rw [h g i] at hv; cases hv

/-- **C08_value_records_outputs.**  A successful command's value records its output list, like the real BuildValue
(the list of the outputs' stat records): the record a produced node finds for itself in the value its producer
computes under its CURRENT definition is the one at the node's position among the producer's outputs
(`getNthOutputInfo(idx)`), namely `mix h idx`; and two successful values with different output lists differ — an
edited output list changes the command's value, so its consumers are re-run. -/
theorem C08_value_records_outputs (c c' : Cmd) (h h' i : Nat) :
    recordedPos (successValue c h / 8) i = c.outputs.idxOf i ∧
    mix (successValue c h / 8) (recordedPos (successValue c h / 8) i) = mix h (c.outputs.idxOf i) ∧
    (successValue c h = successValue c' h' → c.outputs = c'.outputs) :=
  ⟨recordedPos_successValue c h i, by rw [recordedPos_successValue, mix_successValue],
   fun e => successValue_outputs e⟩

/-- the command signature term covers the command's whole definition: equal terms ⇒ the command exists in both
descriptions or in neither, with the same tool, inputs, outputs, arguments (`salt`), read mask and
always-out-of-date flag (C09: "a command re-runs exactly when its definition changed", term level) -/
theorem C08_command_sig_tracks_definition (d d' : Desc) (c : Nat)
    (h : sigTerm d (cmdKey c) = sigTerm d' (cmdKey c)) :
    (c < d.cmds.length ↔ c < d'.cmds.length) ∧ d.cmd c = d'.cmd c := by
  have h1 := cmdKey_md c
  rw [sigTerm_mod1 d h1.1, sigTerm_mod1 d' h1.1, h1.2] at h
  have hdef : ∀ e : Desc, ¬ c < e.cmds.length → e.cmd c = {} := by
    intro e he
    unfold Desc.cmd
    rw [List.getElem?_eq_none (by omega)]
    rfl
  by_cases a : c < d.cmds.length <;> by_cases b : c < d'.cmds.length
  · simp only [a, b, if_true] at h
    exact ⟨⟨fun _ => b, fun _ => a⟩, cmdTerm_inj h⟩
  · simp only [a, b, if_true, if_false] at h
    exact absurd h (cmdTerm_ne_nil _ _)
  · simp only [a, b, if_true, if_false] at h
    exact absurd h.symm (cmdTerm_ne_nil _ _)
  · exact ⟨⟨fun x => absurd x a, fun x => absurd x b⟩, by rw [hdef d a, hdef d' b]⟩

/-- equal (collision-free) signatures ⇒ equal requests and result function, for node and command keys outright and
for a target key when the two generations have the same target table -/
theorem client_covers (H : List Nat → Nat) (hH : ∀ a b, H a = H b → a = b) (ds : Nat → Desc) (hP : ProducerStable ds)
    (g g' : Nat) (k : Key) (env env' : Env) (hT2 : k % 3 = 2 → (ds g).targets = (ds g').targets)
    (h : (client H (ds g)).sig env k = (client H (ds g')).sig env' k) :
    (client H (ds g)).next k = (client H (ds g')).next k ∧ (client H (ds g)).disc k = (client H (ds g')).disc k ∧
      ∀ e r, (client H (ds g)).out k e r = (client H (ds g')).out k e r := by
  have ht : sigTerm (ds g) k = sigTerm (ds g') k := hH _ _ h
  show (fun _ => nextOf (ds g) k) = (fun _ => nextOf (ds g') k) ∧ (fun _ => ([] : List Key)) = (fun _ => []) ∧
    ∀ e r, outOf (ds g) k e r = outOf (ds g') k e r
  have hlt : k % 3 < 3 := Nat.mod_lt _ (by decide)
  have hk3 : 3 * (k / 3) + k % 3 = k := Nat.div_add_mod k 3
  cases hm : k % 3 with
  | zero =>
    have hk : nodeKey (k / 3) = k := by
      rw [hm] at hk3
      exact hk3
    obtain ⟨hv, hp⟩ := C08_node_sig_tracks_producers (ds g) (ds g') (k / 3) (by rw [hk]; exact ht)
    refine ⟨by rw [nextOf_node_congr hm hv hp], rfl, fun e r => ?_⟩
    refine outOf_node_congr hm hv hp (fun c hc cv => ?_) e r
    cases hvi : (ds g).isVirtual (k / 3) with
    | false => exact resultForOutput_nonvirtual hvi (by rw [← hv]; exact hvi) cv
    | true =>
      have hvi' : (ds g').isVirtual (k / 3) = true := by rw [← hv]; exact hvi
      obtain ⟨h1, h2⟩ := hP g g' (k / 3) c (by rw [hp]; exact hc) hc hvi hvi'
      exact resultForOutput_virtual hvi hvi' h1 h2 cv
  | succ m1 =>
    cases m1 with
    | zero =>
      have hm' : k % 3 = 1 := hm
      have hk : cmdKey (k / 3) = k := by
        rw [hm'] at hk3
        exact hk3
      obtain ⟨hl, hc⟩ := C08_command_sig_tracks_definition (ds g) (ds g') (k / 3) (by rw [hk]; exact ht)
      obtain ⟨hn, ho⟩ := command_congr hm' hl hc
      exact ⟨by rw [hn], rfl, ho⟩
    | succ m2 =>
      cases m2 with
      | zero =>
        have hm' : k % 3 = 2 := hm
        obtain ⟨hn, ho⟩ := target_congr hm' (hT2 hm')
        exact ⟨by rw [hn], rfl, ho⟩
      | succ m3 =>
        rw [hm] at hlt
        exact absurd hlt (Nat.not_lt.2 (Nat.le_add_left 3 m3))

/-- **C08_client_SigCovers.**  The rule sets of a sequence of descriptions meet the STRONG engine obligation "the
signature covers the definition" for every rule — two generations that give a rule the same (collision-free)
signature give it the same requests and the same result function — provided the target table is not edited
(`C08_SigCovers_needs_TargetsStable`: it fails otherwise, a target rule has no signature).  Kept as documentation;
the theorems below use the weaker obligation `C08_client_SigCoversValid`. -/
theorem C08_client_SigCovers (H : List Nat → Nat) (hH : ∀ a b, H a = H b → a = b) (ds : Nat → Desc)
    (hT : TargetsStable ds) (hP : ProducerStable ds) : SigCovers (fun g => client H (ds g)) :=
  ⟨fun g => C08_client_WF H (ds g), fun g g' k env env' h => client_covers H hH ds hP g g' k env env' (fun _ => hT g g') h⟩

/-- a target key (existing target or not) never accepts a stored value: `TargetTask::isResultValid` is `false` -/
theorem validOf_target (d : Desc) (env : Env) {k : Key} (hm : k % 3 = 2) (v : Val) : validOf d env k v = false := by
  unfold validOf
  rw [ruleOf_mod2_eq d hm]
  unfold targetRule
  cases decide (k / 3 < d.targets.length) <;> simp [targetValid]

/-- **C08_client_SigCoversValid.**  The engine obligation of the generation theorems, WITHOUT any hypothesis on
targets: every generation satisfies `Program.WF`, and two generations that give a rule THAT CAN ACCEPT A STORED VALUE
the same (collision-free) signature give it the same requests and the same result function.  A target rule never
accepts a stored value, so its node list may be edited under its constant (empty) signature. -/
theorem C08_client_SigCoversValid (H : List Nat → Nat) (hH : ∀ a b, H a = H b → a = b) (ds : Nat → Desc)
    (hP : ProducerStable ds) : SigCoversValid (fun g => client H (ds g)) := by
  refine ⟨fun g => C08_client_WF H (ds g), ?_⟩
  intro g g' k env env' hv h
  refine client_covers H hH ds hP g g' k env env' (fun hm => ?_) h
  obtain ⟨e, v, hval⟩ := hv
  have : validOf (ds g') e k v = true := hval
  rw [validOf_target (ds g') e hm v] at this
  cases this

/-- **C08_client_SelfStable.**  The input rules of the BuildSystem (file-input nodes) read the file system in the
same way in every description: the stat record of the node's own path. -/
theorem C08_client_SelfStable (H : List Nat → Nat) (ds : Nat → Desc) : SelfStable (fun g => client H (ds g)) := by
  intro g g' d env hs hs'
  have h1 : (ruleOf (ds g) d == .fileInputNodeTask) = true := hs
  have h2 : (ruleOf (ds g') d == .fileInputNodeTask) = true := hs'
  have hr : ruleOf (ds g) d = .fileInputNodeTask := by simpa using h1
  have hr' : ruleOf (ds g') d = .fileInputNodeTask := by simpa using h2
  show outOf (ds g) d env [] = outOf (ds g') d env []
  unfold outOf
  simp only [hr, hr']

/-- **C08_outputs_clean_gen.**  C08 on the model, with description edits: after ANY history of file-system changes
(`mutate`), description edits (`reprogram`), builds of any target or node, restarts and crashes, a successful build
returns the value a clean build of the CURRENT description computes in the current file-system state — and that
value is unique. -/
theorem C08_outputs_clean_gen (H : List Nat → Nat) (hH : ∀ a b, H a = H b → a = b) (ds : Nat → Desc)
    (hP : ProducerStable ds) {gevs : List GEvent} {g0 : Nat} {s s' : St} {g : Nat} {v : Val}
    (hrun : runG (fun g => client H (ds g)) ({}, g0) gevs = some (s, g))
    (hret : step (client H (ds g)) s (.ret v) = some s') (hnd : s'.pendingDropped = false)
    (hok : s.cancelled = false ∧ s.cycleSeen = false ∧ s.errSeen = false) :
    ∃ root, s.target = some root ∧ Clean (client H (ds g)) s.env root v ∧
      ∀ w, Clean (client H (ds g)) s.env root w → w = v :=
  C01_value_unique_gen (PP := fun g => client H (ds g)) (C08_client_SigCoversValid H hH ds hP)
    (C08_client_SelfStable H ds) (client_Det H (ds g)) hrun hret hnd hok

/-- ... hence exactly what the executable clean evaluator of the CURRENT description computes from the current
sources (the function the driver compares with the files the real tool leaves behind). -/
theorem C08_outputs_eval_gen (H : List Nat → Nat) (hH : ∀ a b, H a = H b → a = b) (ds : Nat → Desc)
    (hP : ProducerStable ds) {gevs : List GEvent} {g0 : Nat} {s s' : St} {g : Nat} {v : Val}
    (hrun : runG (fun g => client H (ds g)) ({}, g0) gevs = some (s, g))
    (hret : step (client H (ds g)) s (.ret v) = some s') (hnd : s'.pendingDropped = false)
    (hok : s.cancelled = false ∧ s.cycleSeen = false ∧ s.errSeen = false) :
    ∃ root, s.target = some root ∧ ∀ f w, cleanEval (ds g) s.env f root = some w → v = w := by
  obtain ⟨root, ht, hc, _⟩ := C08_outputs_clean_gen H hH ds hP hrun hret hnd hok
  exact ⟨root, ht, fun f w he => C08_clean_is_eval H (ds g) s.env f root v w hc he⟩

/-- **C08_inputs_current_gen.**  Every value handed to a task in any build of such a history (each node of the built
target, each command input, each node's producer) is the clean value for the CURRENT description — never one left
over from an earlier description or an earlier file-system state. -/
theorem C08_inputs_current_gen (H : List Nat → Nat) (hH : ∀ a b, H a = H b → a = b) (ds : Nat → Desc)
    (hP : ProducerStable ds) {gevs : List GEvent} {g0 : Nat} {s s' : St} {g : Nat}
    {k : Key} {id : Nat} {key : Key} {v : Val} {reqs : List Req}
    (hrun : runG (fun g => client H (ds g)) ({}, g0) gevs = some (s, g)) (hnd : s.pendingDropped = false)
    (hprov : step (client H (ds g)) s (.provide k id key v reqs) = some s') :
    Clean (client H (ds g)) s.env key v ∧ ∀ f w, cleanEval (ds g) s.env f key = some w → v = w := by
  have hc := C01_inputs_gen (PP := fun g => client H (ds g)) (C08_client_SigCoversValid H hH ds hP)
    (C08_client_SelfStable H ds) hrun hnd hprov
  exact ⟨hc, fun f w he => C08_clean_is_eval H (ds g) s.env f key v w hc he⟩

/-- **C08_changed_definition_reruns_gen.**  (History half of C09 for the BuildSystem's rules.)  If the result stored
for a rule carries the signature description `ds g1` gives it and the signature TERM of the rule differs in the
current description — for a command: its definition changed, it was added or removed
(`C08_command_sig_tracks_definition`); for a node: its type or its producers changed
(`C08_node_sig_tracks_producers`) — then the engine can neither declare the rule up to date nor ask it whether its
stored value is valid; the only verdict is "needs to run" (never built / signature changed). -/
theorem C08_changed_definition_reruns_gen (H : List Nat → Nat) (hH : ∀ a b, H a = H b → a = b) (ds : Nat → Desc)
    (hP : ProducerStable ds) {gevs : List GEvent} {g0 : Nat} {s : St} {g : Nat} {k : Key}
    (hrun : runG (fun g => client H (ds g)) ({}, g0) gevs = some (s, g)) (hnd : s.pendingDropped = false)
    (hreg : s.registered k = true) {g1 : Nat} (hrec : (s.mem.res k).sig = H (sigTerm (ds g1) k))
    (hchg : sigTerm (ds g1) k ≠ sigTerm (ds g) k) :
    step (client H (ds g)) s (.upToDate k) = none ∧ (∀ v b, step (client H (ds g)) s (.valid k v b) = none) ∧
    (∀ reason input s', step (client H (ds g)) s (.needs k reason input) = some s' →
      input = none ∧ (reason = 0 ∨ reason = 1) ∧ s'.status k = .needsRun) := by
  have hi := (reachG_inv (PP := fun g => client H (ds g)) (C08_client_SigCoversValid H hH ds hP)
    (C08_client_SelfStable H ds) hrun hnd).1
  obtain ⟨env', he'⟩ := hi.sigAtOk k hreg
  have he : H (sigTerm (ds g) k) = s.sigAt k := he'
  refine C09_changed_definition_reruns (PP := fun g => client H (ds g)) hrun ?_
  intro heq
  exact hchg (hH _ _ (hrec.symm.trans (heq.trans he.symm)))

theorem isVirtual_false_of_all {d : Desc} (h : d.virt.all (fun b => !b) = true) (i : Nat) : d.isVirtual i = false := by
  unfold Desc.isVirtual
  rw [List.getD_eq_getElem?_getD]
  cases e : d.virt[i]? with
  | none => rfl
  | some b =>
    have hm := List.mem_of_getElem? e
    have := List.all_eq_true.1 h b hm
    simpa using this

/-! ### non-vacuity: a command is added and a source becomes a produced node -/

namespace GenExample

/-- generation 0: sources 0 and 2, `C0: 0 -> 1` -/
def dA : Desc :=
  { virt := [false, false, false],
    cmds := [{ tool := .shell, inputs := [0], outputs := [1], salt := 5 }],
    targets := [[1, 2]] }

/-- generation ≥ 1: command `C1: 1 -> 2` added — node 2, a source so far, is now produced -/
def dB : Desc :=
  { virt := [false, false, false],
    cmds := [{ tool := .shell, inputs := [0], outputs := [1], salt := 5 },
             { tool := .shell, inputs := [1], outputs := [2], salt := 9 }],
    targets := [[1, 2]] }

def ds (g : Nat) : Desc := if g = 0 then dA else dB
def PP (g : Nat) : Program := client godel (ds g)

theorem ds_cases (g : Nat) : ds g = dA ∨ ds g = dB := by
  unfold ds; by_cases h : g = 0 <;> simp [h]

example : dA.wf = true ∧ dB.wf = true := by decide

theorem ds_TargetsStable : TargetsStable ds := by
  intro g g'
  rcases ds_cases g with a | a <;> rcases ds_cases g' with b | b <;> rw [a, b] <;> rfl

theorem ds_ProducerStable : ProducerStable ds := by
  apply ProducerStable.of_no_virtual
  intro g i
  rcases ds_cases g with a | a <;> rw [a] <;> exact isVirtual_false_of_all (by decide) i

def sA (k : Key) : Nat := godel (sigTerm dA k)
def sB (k : Key) : Nat := godel (sigTerm dB k)
/-- values: source 0 (record 10), `C0`, node 1, source 2 (record 20), `C1`, produced node 2 -/
def v0 : Val := fileValue 11
def vC0 : Val := successValue { tool := .shell, inputs := [0], outputs := [1], salt := 5 } (mix 5 10)
def v1 : Val := vExisting (mix (mix 5 10) 0)
def v2s : Val := fileValue 21
def vC1 : Val := successValue { tool := .shell, inputs := [1], outputs := [2], salt := 9 } (mix 9 (mix (mix 5 10) 0))
def v2p : Val := vExisting (mix (mix 9 (mix (mix 5 10) 0)) 0)

/-- generation 0: the sources are written; node 1 is built (through `C0` from source 0); the file `C0` wrote
appears; node 2 (a source) is built; then the description is edited and the tool started again -/
def histA : List GEvent :=
  ([.mutate 0 11, .mutate 6 21,
    .buildStart 3, .queueCreated, .dbIter 1, .lookup 3, .scanning 3, .needs 3 0 none, .create 3, .start 3 [⟨1, 0, 0⟩],
    .lookup 1, .scanning 1, .needs 1 0 none, .create 1, .start 1 [⟨0, 0, 0⟩],
    .lookup 0, .scanning 0, .needs 0 0 none, .create 0, .start 0 [], .inputsAvail 0 [], .complete 0 v0 false,
    .finished 0 { value := v0, sig := sA 0, computedAt := 1, builtAt := 1, deps := [] },
    .provide 1 0 0 v0 [], .inputsAvail 1 [], .complete 1 vC0 false,
    .finished 1 { value := vC0, sig := sA 1, computedAt := 1, builtAt := 1, deps := [⟨0, false, false⟩] },
    .provide 3 0 1 vC0 [], .inputsAvail 3 [], .complete 3 v1 false,
    .finished 3 { value := v1, sig := sA 3, computedAt := 1, builtAt := 1, deps := [⟨1, false, false⟩] },
    .ret v1, .dbEnd, .tail 0 0,
    .mutate 3 (mix (mix 5 10) 0 + 1),
    .buildStart 6, .queueCreated, .dbIter 2, .lookup 6, .scanning 6, .needs 6 0 none, .create 6, .start 6 [],
    .inputsAvail 6 [], .complete 6 v2s false,
    .finished 6 { value := v2s, sig := sA 6, computedAt := 2, builtAt := 2, deps := [] },
    .ret v2s, .dbEnd, .tail 0 0] : List Event).map .ev ++ [.reprogram 1]

/-- generation 1: node 2 is built again: its signature changed (it has a producer now), so it re-runs (`needs 6 1`);
the new command `C1` has never been built; node 1, `C0` and source 0 are found up to date -/
def histB : List GEvent :=
  ([.buildStart 6, .queueCreated, .dbIter 3, .lookup 6, .scanning 6, .needs 6 1 none, .create 6, .start 6 [⟨4, 0, 0⟩],
    .lookup 4, .scanning 4, .needs 4 0 none, .create 4, .start 4 [⟨3, 0, 0⟩],
    .lookup 3, .scanning 3, .valid 3 v1 true, .lookup 1, .scanning 1, .valid 1 vC0 true,
    .lookup 0, .scanning 0, .valid 0 v0 true, .upToDate 0, .upToDate 1, .upToDate 3,
    .provide 4 0 3 v1 [], .inputsAvail 4 [], .complete 4 vC1 false,
    .finished 4 { value := vC1, sig := sB 4, computedAt := 3, builtAt := 3, deps := [⟨3, false, false⟩] },
    .provide 6 0 4 vC1 [], .inputsAvail 6 [], .complete 6 v2p false,
    .finished 6 { value := v2p, sig := sB 6, computedAt := 3, builtAt := 3, deps := [⟨4, false, false⟩] }] : List Event).map .ev

set_option maxRecDepth 8192 in
/-- non-vacuity of `C08_outputs_clean_gen` / `C08_outputs_eval_gen`: all hypotheses hold for an accepted history
with a description edit, ending in generation 1 in a successful `ret` of the value the clean evaluator of the NEW
description computes for node 2 from the current sources -/
example : ∃ s s', runG (fun g => client godel (ds g)) ({}, 0) (histA ++ histB) = some (s, 1) ∧
    step (client godel (ds 1)) s (.ret v2p) = some s' ∧ s'.pendingDropped = false ∧
    (s.cancelled = false ∧ s.cycleSeen = false ∧ s.errSeen = false) ∧
    (∀ a b, godel a = godel b → a = b) ∧ TargetsStable ds ∧ ProducerStable ds ∧
    s.target = some (nodeKey 2) ∧ cleanEval (ds 1) s.env 8 (nodeKey 2) = some v2p := by
  have h : ((runG PP ({}, 0) (histA ++ histB)).bind (fun sg =>
      (step (PP 1) sg.1 (.ret v2p)).map (fun s' => (sg.2 == 1 && !s'.pendingDropped && !sg.1.cancelled &&
        !sg.1.cycleSeen && !sg.1.errSeen && sg.1.target == some (nodeKey 2) &&
        cleanEval (ds 1) sg.1.env 8 (nodeKey 2) == some v2p)))) = some true := by decide
  cases h1 : runG PP ({}, 0) (histA ++ histB) with
  | none => rw [h1] at h; cases h
  | some sg =>
    obtain ⟨s, g⟩ := sg
    rw [h1] at h
    simp only [Option.bind] at h
    cases h2 : step (PP 1) s (.ret v2p) with
    | none => rw [h2] at h; cases h
    | some s' =>
      rw [h2] at h
      simp only [Option.map, Option.some.injEq, Bool.and_eq_true, beq_iff_eq, Bool.not_eq_eq_eq_not,
        Bool.not_true] at h
      obtain ⟨⟨⟨⟨⟨⟨a, b⟩, c⟩, d⟩, e⟩, f⟩, i⟩ := h
      subst a
      exact ⟨s, s', h1, h2, b, ⟨c, d, e⟩, godel_inj, ds_TargetsStable, ds_ProducerStable, f, i⟩

set_option maxRecDepth 8192 in
/-- non-vacuity of `C08_inputs_current_gen` and `C08_changed_definition_reruns_gen`: in generation 1, while node 2 is
being scanned, its stored signature is generation 0's, its signature term differs now, and the engine's `needs 6 1`
(signature changed) is accepted; later the value of node 1 is handed to the new command `C1` -/
example : (∃ s, runG (fun g => client godel (ds g)) ({}, 0) (histA ++ histB.take 5) = some (s, 1) ∧
      s.pendingDropped = false ∧ s.registered (nodeKey 2) = true ∧
      (s.mem.res (nodeKey 2)).sig = godel (sigTerm (ds 0) (nodeKey 2)) ∧
      sigTerm (ds 0) (nodeKey 2) ≠ sigTerm (ds 1) (nodeKey 2) ∧
      (step (client godel (ds 1)) s (.needs (nodeKey 2) 1 none)).isSome = true) ∧
    (∃ s, runG (fun g => client godel (ds g)) ({}, 0) (histA ++ histB.take 25) = some (s, 1) ∧
      s.pendingDropped = false ∧ (step (client godel (ds 1)) s (.provide 4 0 3 v1 [])).isSome = true) := by
  have h : ((runG PP ({}, 0) (histA ++ histB.take 5)).map (fun sg =>
      (sg.2 == 1 && !sg.1.pendingDropped && sg.1.registered (nodeKey 2) &&
        (sg.1.mem.res (nodeKey 2)).sig == godel (sigTerm (ds 0) (nodeKey 2)) &&
        (step (PP 1) sg.1 (.needs (nodeKey 2) 1 none)).isSome))) = some true := by decide
  have h' : ((runG PP ({}, 0) (histA ++ histB.take 25)).map (fun sg =>
      (sg.2 == 1 && !sg.1.pendingDropped && (step (PP 1) sg.1 (.provide 4 0 3 v1 [])).isSome))) = some true := by
    decide
  constructor
  · cases h1 : runG PP ({}, 0) (histA ++ histB.take 5) with
    | none => rw [h1] at h; cases h
    | some sg =>
      obtain ⟨s, g⟩ := sg
      rw [h1] at h
      simp only [Option.map, Option.some.injEq, Bool.and_eq_true, beq_iff_eq, Bool.not_eq_eq_eq_not,
        Bool.not_true] at h
      obtain ⟨⟨⟨⟨a, b⟩, c⟩, d⟩, e⟩ := h
      subst a
      exact ⟨s, h1, b, c, d, by decide, e⟩
  · cases h1 : runG PP ({}, 0) (histA ++ histB.take 25) with
    | none => rw [h1] at h'; cases h'
    | some sg =>
      obtain ⟨s, g⟩ := sg
      rw [h1] at h'
      simp only [Option.map, Option.some.injEq, Bool.and_eq_true, beq_iff_eq, Bool.not_eq_eq_eq_not,
        Bool.not_true] at h'
      obtain ⟨⟨a, b⟩, c⟩ := h'
      subst a
      exact ⟨s, h1, b, c⟩

end GenExample

/-! ### non-vacuity: the outputs of a command are reordered -/

namespace ReorderExample

def c0 : Cmd := { tool := .shell, inputs := [0], outputs := [1, 2], salt := 5 }
def c1 : Cmd := { tool := .shell, inputs := [0], outputs := [2, 1], salt := 5 }
/-- generation 0: `C0: 0 -> 1, 2` -/
def d0 : Desc := { virt := [false, false, false], cmds := [c0], targets := [] }
/-- generation ≥ 1: the same command with its outputs listed in the other order -/
def d1 : Desc := { virt := [false, false, false], cmds := [c1], targets := [] }

def ds (g : Nat) : Desc := if g = 0 then d0 else d1
def PP (g : Nat) : Program := client godel (ds g)

theorem ds_cases (g : Nat) : ds g = d0 ∨ ds g = d1 := by
  unfold ds; by_cases h : g = 0 <;> simp [h]

theorem ds_TargetsStable : TargetsStable ds := by
  intro g g'
  rcases ds_cases g with a | a <;> rcases ds_cases g' with b | b <;> rw [a, b] <;> rfl

theorem ds_ProducerStable : ProducerStable ds := by
  apply ProducerStable.of_no_virtual
  intro g i
  rcases ds_cases g with a | a <;> rw [a] <;> exact isVirtual_false_of_all (by decide) i

def v0 : Val := fileValue 11
def vC : Val := successValue c0 (mix 5 10)
def vC' : Val := successValue c1 (mix 5 10)
def v1 : Val := vExisting (mix (mix 5 10) 0)
def v1' : Val := vExisting (mix (mix 5 10) 1)

/-- node 1 is built; the outputs are reordered; node 1 is built again: `C0` re-runs (its signature changed) and
completes with ANOTHER value (same records, other output list), so node 1 — signature unchanged — re-runs because
its input was rebuilt (`needs 3 3 (some 1)`) and takes the record of output position 1 -/
def hist : List GEvent :=
  ([.mutate 0 11,
    .buildStart 3, .queueCreated, .dbIter 1, .lookup 3, .scanning 3, .needs 3 0 none, .create 3, .start 3 [⟨1, 0, 0⟩],
    .lookup 1, .scanning 1, .needs 1 0 none, .create 1, .start 1 [⟨0, 0, 0⟩],
    .lookup 0, .scanning 0, .needs 0 0 none, .create 0, .start 0 [], .inputsAvail 0 [], .complete 0 v0 false,
    .finished 0 { value := v0, sig := godel (sigTerm d0 0), computedAt := 1, builtAt := 1, deps := [] },
    .provide 1 0 0 v0 [], .inputsAvail 1 [], .complete 1 vC false,
    .finished 1 { value := vC, sig := godel (sigTerm d0 1), computedAt := 1, builtAt := 1, deps := [⟨0, false, false⟩] },
    .provide 3 0 1 vC [], .inputsAvail 3 [], .complete 3 v1 false,
    .finished 3 { value := v1, sig := godel (sigTerm d0 3), computedAt := 1, builtAt := 1, deps := [⟨1, false, false⟩] },
    .ret v1, .dbEnd, .tail 0 0] : List Event).map .ev ++ [.reprogram 1] ++
  ([.buildStart 3, .queueCreated, .dbIter 2, .lookup 3, .scanning 3, .valid 3 v1 true,
    .lookup 1, .scanning 1, .needs 1 1 none, .create 1, .start 1 [⟨0, 0, 0⟩],
    .lookup 0, .scanning 0, .valid 0 v0 true, .upToDate 0,
    .provide 1 0 0 v0 [], .inputsAvail 1 [], .complete 1 vC' false,
    .finished 1 { value := vC', sig := godel (sigTerm d1 1), computedAt := 2, builtAt := 2, deps := [⟨0, false, false⟩] },
    .needs 3 3 (some 1), .create 3, .start 3 [⟨1, 0, 0⟩], .prior 3 v1, .provide 3 0 1 vC' [], .inputsAvail 3 [],
    .complete 3 v1' false,
    .finished 3 { value := v1', sig := godel (sigTerm d1 3), computedAt := 2, builtAt := 2, deps := [⟨1, false, false⟩] }] :
    List Event).map .ev

set_option maxRecDepth 8192 in
/-- an edit that only reorders the outputs of a command satisfies all hypotheses, and the accepted history ends in a
successful `ret` of node 1's NEW record (what `cleanEval` of the new description computes); with the previous form of
the model (the command's value did not record its output list) this very edit returned the stale record -/
example : ∃ s s', runG (fun g => client godel (ds g)) ({}, 0) hist = some (s, 1) ∧
    step (client godel (ds 1)) s (.ret v1') = some s' ∧ s'.pendingDropped = false ∧
    (s.cancelled = false ∧ s.cycleSeen = false ∧ s.errSeen = false) ∧
    TargetsStable ds ∧ ProducerStable ds ∧ vC ≠ vC' ∧ v1 ≠ v1' ∧
    s.target = some (nodeKey 1) ∧ cleanEval (ds 1) s.env 8 (nodeKey 1) = some v1' := by
  have h : ((runG PP ({}, 0) hist).bind (fun sg =>
      (step (PP 1) sg.1 (.ret v1')).map (fun s' => (sg.2 == 1 && !s'.pendingDropped && !sg.1.cancelled &&
        !sg.1.cycleSeen && !sg.1.errSeen && sg.1.target == some (nodeKey 1) &&
        cleanEval (ds 1) sg.1.env 8 (nodeKey 1) == some v1')))) = some true := by decide
  cases h1 : runG PP ({}, 0) hist with
  | none => rw [h1] at h; cases h
  | some sg =>
    obtain ⟨s, g⟩ := sg
    rw [h1] at h
    simp only [Option.bind] at h
    cases h2 : step (PP 1) s (.ret v1') with
    | none => rw [h2] at h; cases h
    | some s' =>
      rw [h2] at h
      simp only [Option.map, Option.some.injEq, Bool.and_eq_true, beq_iff_eq, Bool.not_eq_eq_eq_not,
        Bool.not_true] at h
      obtain ⟨⟨⟨⟨⟨⟨a, b⟩, c⟩, d⟩, e⟩, f⟩, i⟩ := h
      subst a
      exact ⟨s, s', h1, h2, b, ⟨c, d, e⟩, ds_TargetsStable, ds_ProducerStable, by decide, by decide, f, i⟩

end ReorderExample

/-! ### `ProducerStable` cannot be dropped (engine-level statement) -/

namespace NeedProducerStable

/-- generation 0: phony `C0: 0 -> <1>` (node 1 is virtual) -/
def d0 : Desc := { virt := [false, true], cmds := [{ tool := .phony, inputs := [0], outputs := [1] }], targets := [] }
/-- generation ≥ 1: `C0` is a shell command now -/
def d1 : Desc := { virt := [false, true], cmds := [{ tool := .shell, inputs := [0], outputs := [1] }], targets := [] }

def ds (g : Nat) : Desc := if g = 0 then d0 else d1
def PP (g : Nat) : Program := client godel (ds g)

theorem ds_TargetsStable : TargetsStable ds := by
  intro g g'
  unfold ds
  by_cases a : g = 0 <;> by_cases b : g' = 0 <;> simp [a, b, d0, d1]

/-- source 0 is MISSING.  Node 1 is built: phony `C0` is skipped (Failed), its virtual output is `VirtualInput`
whatever `C0`'s value.  `C0` becomes a shell command; node 1 is built again: `C0` re-runs (its signature changed) and
is skipped again with the SAME value, so node 1 — signature unchanged: same type, same producer — is declared up to
date with `VirtualInput`, while the output of a failed shell command is `FailedInput` -/
def hist : List GEvent :=
  ([.buildStart 3, .queueCreated, .dbIter 1, .lookup 3, .scanning 3, .needs 3 0 none, .create 3, .start 3 [⟨1, 0, 0⟩],
    .lookup 1, .scanning 1, .needs 1 0 none, .create 1, .start 1 [⟨0, 0, 0⟩],
    .lookup 0, .scanning 0, .needs 0 0 none, .create 0, .start 0 [], .inputsAvail 0 [], .complete 0 vMissingInput false,
    .finished 0 { value := vMissingInput, sig := godel (sigTerm d0 0), computedAt := 1, builtAt := 1, deps := [] },
    .provide 1 0 0 vMissingInput [], .inputsAvail 1 [], .complete 1 vFailedCmd false,
    .finished 1 { value := vFailedCmd, sig := godel (sigTerm d0 1), computedAt := 1, builtAt := 1, deps := [⟨0, false, false⟩] },
    .provide 3 0 1 vFailedCmd [], .inputsAvail 3 [], .complete 3 vVirtual false,
    .finished 3 { value := vVirtual, sig := godel (sigTerm d0 3), computedAt := 1, builtAt := 1, deps := [⟨1, false, false⟩] },
    .ret vVirtual, .dbEnd, .tail 0 0] : List Event).map .ev ++ [.reprogram 1] ++
  ([.buildStart 3, .queueCreated, .dbIter 2, .lookup 3, .scanning 3, .valid 3 vVirtual true,
    .lookup 1, .scanning 1, .needs 1 1 none, .create 1, .start 1 [⟨0, 0, 0⟩],
    .lookup 0, .scanning 0, .valid 0 vMissingInput true, .upToDate 0,
    .provide 1 0 0 vMissingInput [], .inputsAvail 1 [], .complete 1 vFailedCmd false,
    .finished 1 { value := vFailedCmd, sig := godel (sigTerm d1 1), computedAt := 1, builtAt := 2, deps := [⟨0, false, false⟩] },
    .upToDate 3] : List Event).map .ev

set_option maxRecDepth 8192 in
/-- **C08_gen_needs_ProducerStable.**  Without `ProducerStable` the conclusion of `C08_outputs_clean_gen` fails at the
engine level: with a collision-free hash, well-formed descriptions and an unchanged target table, an accepted
history (no cancellation, cycle or engine error — a failed COMMAND is a value, not an engine error) ends in a
successful `ret` of `VirtualInput` for node 1 while the clean value of the current description is `FailedInput`.
(The command-line tool cancels a build at the first failed command and exits ≠ 0, so this is not a successful build
of the tool: C08's clause is about successful builds.) -/
theorem C08_gen_needs_ProducerStable : ∃ (s s' : St), (∀ a b, godel a = godel b → a = b) ∧ TargetsStable ds ∧
    (∀ g, (ds g).wf = true) ∧
    runG (fun g => client godel (ds g)) ({}, 0) hist = some (s, 1) ∧
    step (client godel (ds 1)) s (.ret vVirtual) = some s' ∧ s'.pendingDropped = false ∧
    (s.cancelled = false ∧ s.cycleSeen = false ∧ s.errSeen = false) ∧ s.target = some (nodeKey 1) ∧
    ¬ Clean (client godel (ds 1)) s.env (nodeKey 1) vVirtual := by
  have h : ((runG PP ({}, 0) hist).bind (fun sg =>
      (step (PP 1) sg.1 (.ret vVirtual)).map (fun s' => (sg.2 == 1 && !s'.pendingDropped && !sg.1.cancelled &&
        !sg.1.cycleSeen && !sg.1.errSeen && sg.1.target == some (nodeKey 1) &&
        cleanEval (ds 1) sg.1.env 8 (nodeKey 1) == some vFailedInput)))) = some true := by decide
  have hwf : ∀ g, (ds g).wf = true := by
    intro g; unfold ds; by_cases a : g = 0 <;> simp [a] <;> decide
  cases h1 : runG PP ({}, 0) hist with
  | none => rw [h1] at h; cases h
  | some sg =>
    obtain ⟨s, g⟩ := sg
    rw [h1] at h
    simp only [Option.bind] at h
    cases h2 : step (PP 1) s (.ret vVirtual) with
    | none => rw [h2] at h; cases h
    | some s' =>
      rw [h2] at h
      simp only [Option.map, Option.some.injEq, Bool.and_eq_true, beq_iff_eq, Bool.not_eq_eq_eq_not,
        Bool.not_true] at h
      obtain ⟨⟨⟨⟨⟨⟨a, b⟩, c⟩, d⟩, e⟩, f⟩, i⟩ := h
      subst a
      refine ⟨s, s', godel_inj, ds_TargetsStable, hwf, h1, h2, b, ⟨c, d, e⟩, f, ?_⟩
      intro hcl
      have := C08_clean_is_eval godel (ds 1) s.env 8 (nodeKey 1) vVirtual _ hcl i
      exact absurd this (by decide)

end NeedProducerStable

/-! ### non-vacuity: the node list of a target is edited -/

namespace TargetEditExample

def c0 : Cmd := { tool := .shell, inputs := [0], outputs := [1], salt := 5 }
def c1 : Cmd := { tool := .shell, inputs := [0], outputs := [2], salt := 9 }
/-- generation 0: `C0: 0 -> 1`, `C1: 0 -> 2`, target 0 = [1] -/
def d0 : Desc := { virt := [false, false, false], cmds := [c0, c1], targets := [[1]] }
/-- generation ≥ 1: target 0 = [1, 2] -/
def d1 : Desc := { virt := [false, false, false], cmds := [c0, c1], targets := [[1, 2]] }

def ds (g : Nat) : Desc := if g = 0 then d0 else d1
def PP (g : Nat) : Program := client godel (ds g)

theorem ds_cases (g : Nat) : ds g = d0 ∨ ds g = d1 := by
  unfold ds; by_cases h : g = 0 <;> simp [h]

theorem ds_ProducerStable : ProducerStable ds := by
  apply ProducerStable.of_no_virtual
  intro g i
  rcases ds_cases g with a | a <;> rw [a] <;> exact isVirtual_false_of_all (by decide) i

/-- the target table IS edited -/
theorem ds_not_TargetsStable : ¬ TargetsStable ds := fun h => absurd (h 0 1) (by decide)

def v0 : Val := fileValue 11
def vC0 : Val := successValue c0 (mix 5 10)
def v1 : Val := vExisting (mix (mix 5 10) 0)
def vC1 : Val := successValue c1 (mix 9 10)
def v2 : Val := vExisting (mix (mix 9 10) 0)

/-- generation 0: target 0 (key 2) is built: node 1 through `C0`; the file `C0` wrote appears; the description is edited -/
def histA : List GEvent :=
  ([.mutate 0 11,
    .buildStart 2, .queueCreated, .dbIter 1, .lookup 2, .scanning 2, .needs 2 0 none, .create 2, .start 2 [⟨3, 0, 0⟩],
    .lookup 3, .scanning 3, .needs 3 0 none, .create 3, .start 3 [⟨1, 0, 0⟩],
    .lookup 1, .scanning 1, .needs 1 0 none, .create 1, .start 1 [⟨0, 0, 0⟩],
    .lookup 0, .scanning 0, .needs 0 0 none, .create 0, .start 0 [], .inputsAvail 0 [], .complete 0 v0 false,
    .finished 0 { value := v0, sig := godel (sigTerm d0 0), computedAt := 1, builtAt := 1, deps := [] },
    .provide 1 0 0 v0 [], .inputsAvail 1 [], .complete 1 vC0 false,
    .finished 1 { value := vC0, sig := godel (sigTerm d0 1), computedAt := 1, builtAt := 1, deps := [⟨0, false, false⟩] },
    .provide 3 0 1 vC0 [], .inputsAvail 3 [], .complete 3 v1 false,
    .finished 3 { value := v1, sig := godel (sigTerm d0 3), computedAt := 1, builtAt := 1, deps := [⟨1, false, false⟩] },
    .provide 2 0 3 v1 [], .inputsAvail 2 [], .complete 2 vTarget false,
    .finished 2 { value := vTarget, sig := godel (sigTerm d0 2), computedAt := 1, builtAt := 1, deps := [⟨3, false, false⟩] },
    .ret vTarget, .dbEnd, .tail 0 0, .mutate 3 (mix (mix 5 10) 0 + 1)] : List Event).map .ev ++ [.reprogram 1]

/-- generation 1: target 0 is built again.  Its signature is unchanged (a target has none) and the engine asks the
rule: `valid 2 _ false`, so it re-runs (`needs 2 2`, invalid value) with the NEW request list `[node 1, node 2]`; node 1,
`C0`, source 0 are up to date; node 2 and `C1` have never been built -/
def histB : List GEvent :=
  ([.buildStart 2, .queueCreated, .dbIter 2, .lookup 2, .scanning 2, .valid 2 vTarget false, .needs 2 2 none, .create 2,
    .start 2 [⟨3, 0, 0⟩, ⟨6, 1, 0⟩], .prior 2 vTarget,
    .lookup 3, .scanning 3, .valid 3 v1 true, .lookup 1, .scanning 1, .valid 1 vC0 true,
    .lookup 0, .scanning 0, .valid 0 v0 true, .upToDate 0, .upToDate 1, .upToDate 3, .provide 2 0 3 v1 [],
    .lookup 6, .scanning 6, .needs 6 0 none, .create 6, .start 6 [⟨4, 0, 0⟩],
    .lookup 4, .scanning 4, .needs 4 0 none, .create 4, .start 4 [⟨0, 0, 0⟩], .provide 4 0 0 v0 [], .inputsAvail 4 [],
    .complete 4 vC1 false,
    .finished 4 { value := vC1, sig := godel (sigTerm d1 4), computedAt := 2, builtAt := 2, deps := [⟨0, false, false⟩] },
    .provide 6 0 4 vC1 [], .inputsAvail 6 [], .complete 6 v2 false,
    .finished 6 { value := v2, sig := godel (sigTerm d1 6), computedAt := 2, builtAt := 2, deps := [⟨4, false, false⟩] }] :
    List Event).map .ev

/-- ... the value of node 2 is handed to the target, which completes -/
def histC : List GEvent :=
  ([.provide 2 1 6 v2 [], .inputsAvail 2 [], .complete 2 vTarget false,
    .finished 2 { value := vTarget, sig := godel (sigTerm d1 2), computedAt := 1, builtAt := 2,
                  deps := [⟨3, false, false⟩, ⟨6, false, false⟩] }] : List Event).map .ev

set_option maxRecDepth 8192 in
/-- non-vacuity of `C08_outputs_clean_gen` / `C08_inputs_current_gen` WITH AN EDITED TARGET: the hypotheses hold
(`ProducerStable`, collision-free hash) although `TargetsStable` does not; the history is accepted; the node the target
did not list before is built and its clean value (`cleanEval` of the new description) is handed to the target
(`provide 2 1 6 v2`), and the build of the target succeeds -/
example : (∀ a b, godel a = godel b → a = b) ∧ ProducerStable ds ∧ ¬ TargetsStable ds ∧
    (∃ s, runG (fun g => client godel (ds g)) ({}, 0) (histA ++ histB) = some (s, 1) ∧ s.pendingDropped = false ∧
      (step (client godel (ds 1)) s (.provide 2 1 6 v2 [])).isSome = true ∧
      cleanEval (ds 1) s.env 8 (nodeKey 2) = some v2) ∧
    (∃ s s', runG (fun g => client godel (ds g)) ({}, 0) (histA ++ histB ++ histC) = some (s, 1) ∧
      step (client godel (ds 1)) s (.ret vTarget) = some s' ∧ s'.pendingDropped = false ∧
      (s.cancelled = false ∧ s.cycleSeen = false ∧ s.errSeen = false) ∧ s.target = some (tgtKey 0)) := by
  have h : ((runG PP ({}, 0) (histA ++ histB)).map (fun sg =>
      (sg.2 == 1 && !sg.1.pendingDropped && (step (PP 1) sg.1 (.provide 2 1 6 v2 [])).isSome &&
        cleanEval (ds 1) sg.1.env 8 (nodeKey 2) == some v2))) = some true := by decide
  have h' : ((runG PP ({}, 0) (histA ++ histB ++ histC)).bind (fun sg =>
      (step (PP 1) sg.1 (.ret vTarget)).map (fun s' => (sg.2 == 1 && !s'.pendingDropped && !sg.1.cancelled &&
        !sg.1.cycleSeen && !sg.1.errSeen && sg.1.target == some (tgtKey 0))))) = some true := by decide
  refine ⟨godel_inj, ds_ProducerStable, ds_not_TargetsStable, ?_, ?_⟩
  · cases h1 : runG PP ({}, 0) (histA ++ histB) with
    | none => rw [h1] at h; cases h
    | some sg =>
      obtain ⟨s, g⟩ := sg
      rw [h1] at h
      simp only [Option.map, Option.some.injEq, Bool.and_eq_true, beq_iff_eq, Bool.not_eq_eq_eq_not,
        Bool.not_true] at h
      obtain ⟨⟨⟨a, b⟩, c⟩, d⟩ := h
      subst a
      exact ⟨s, h1, b, c, d⟩
  · cases h1 : runG PP ({}, 0) (histA ++ histB ++ histC) with
    | none => rw [h1] at h'; cases h'
    | some sg =>
      obtain ⟨s, g⟩ := sg
      rw [h1] at h'
      simp only [Option.bind] at h'
      cases h2 : step (PP 1) s (.ret vTarget) with
      | none => rw [h2] at h'; cases h'
      | some s' =>
        rw [h2] at h'
        simp only [Option.map, Option.some.injEq, Bool.and_eq_true, beq_iff_eq, Bool.not_eq_eq_eq_not,
          Bool.not_true] at h'
        obtain ⟨⟨⟨⟨⟨a, b⟩, c⟩, d⟩, e⟩, f⟩ := h'
        subst a
        exact ⟨s, s', h1, h2, b, ⟨c, d, e⟩, f⟩

end TargetEditExample

/-! ### `TargetsStable` is needed for `SigCovers` (not for the conclusion) -/

/-- **C08_SigCovers_needs_TargetsStable.**  A target rule has no signature, so two descriptions that list different
nodes under the same target give the target rule the same signature and different requests: the engine obligation
`SigCovers` fails for EVERY hash as soon as a target's node list is edited.  (The stored result of a target is never
reused — `C08_never_valid` — so the conclusion of `C08_outputs_clean_gen` is not refuted by this: the obligation the
engine theorems really need is `SigCoversValid`, which `C08_client_SigCoversValid` proves without `TargetsStable`.) -/
theorem C08_SigCovers_needs_TargetsStable (H : List Nat → Nat) :
    ¬ SigCovers (fun g => client H (if g = 0 then { targets := [[0]] } else { targets := [[1]] })) := by
  intro hC
  have h := (hC.covers 0 1 (tgtKey 0) (fun _ => 0) (fun _ => 0) rfl).1
  have h' : nextOf ({ targets := [[0]] } : Desc) (tgtKey 0) = nextOf ({ targets := [[1]] } : Desc) (tgtKey 0) :=
    congrFun h []
  exact absurd h' (by decide)

end LLBuild.BuildSystemClient
