/-
C01 — Incremental build result equals a from-scratch build.

"For any set of rules whose tasks are deterministic functions of the inputs they request
(statically, dynamically, or as discovered dependencies), after any sequence of changes to external
state and any sequence of earlier builds of any targets - in the same engine or through an attached
database - a successful build of a key returns exactly the value a brand-new engine with no history
would compute for that key in the current external state.  Every input value handed to a task
during that build is the current value of that input, never one left over from an earlier state."

Model: LLBuild/Model/Engine.lean (`step`: the abstract engine over observable events; the real
engine's traces are replayed through it on every run).  `Clean` is the specification of a brand-new
engine.  Histories are arbitrary accepted event lists: builds of any keys with any completion
order, cancellations, cycles, `mutate` between builds, `restart` (new engine over the database).
Hypotheses: `Program.WF` (DESIGN.md §4.3) and the ghost flag `pendingDropped = false`: no failed
build ended while a discovered dependency of an already finished task was still waiting to be
brought up to date (known finding F22, see known_findings.json).
-/
import LLBuild.Lemmas.Engine.Run
import LLBuild.Lemmas.Engine.Fingerprint
import LLBuild.Model.EngineDSL
import LLBuild.Lemmas.Engine.DSLDet

namespace LLBuild.Engine

/-- A successful build returns the value a brand-new engine computes in the current external state. -/
theorem C01_value {P : Program} (hP : P.WF) {evs : List Event} {s s' : St} {v : Val}
    (hrun : run P {} evs = some s) (hret : step P s (.ret v) = some s')
    (hnd : s'.pendingDropped = false)
    (hok : s.cancelled = false ∧ s.cycleSeen = false ∧ s.errSeen = false) :
    ∃ root, s.target = some root ∧ Clean P s.env root v := by
  simp only [step] at hret
  split at hret
  · cases hret
  · rename_i root htgt
    split at hret
    · cases hret
    · split at hret
      · rename_i hc
        cases hret
        have hi := reach_inv hP hrun hnd
        simp only [Bool.and_eq_true] at hc
        obtain ⟨⟨⟨_, _⟩, hdry⟩, _⟩ := hc
        obtain ⟨⟨⟨hd, hv⟩, _⟩, _⟩ := hdry
        refine ⟨root, htgt, ?_⟩
        rw [eq_of_beq hv]
        exact hi.clean root (by simpa [isDone] using hd)
      · split at hret
        · rename_i hc
          simp [hok.1, hok.2.1, hok.2.2] at hc
        · cases hret

/-- ... and for clients whose requests are monotone with distinct ids (`Program.Det`) that value is
unique: the build returns EXACTLY the value a brand-new engine computes. -/
theorem C01_value_unique {P : Program} (hP : P.WF) (hD : P.Det) {evs : List Event} {s s' : St} {v : Val}
    (hrun : run P {} evs = some s) (hret : step P s (.ret v) = some s')
    (hnd : s'.pendingDropped = false)
    (hok : s.cancelled = false ∧ s.cycleSeen = false ∧ s.errSeen = false) :
    ∃ root, s.target = some root ∧ Clean P s.env root v ∧ ∀ w, Clean P s.env root w → w = v := by
  obtain ⟨root, ht, hc⟩ := C01_value hP hrun hret hnd hok
  exact ⟨root, ht, hc, fun w hw => Clean_unique hD hw hc⟩

/-- Every input value handed to a task is the current (clean) value of that input. -/
theorem C01_inputs {P : Program} (hP : P.WF) {evs : List Event} {s s' : St}
    {k : Key} {id : Nat} {key : Key} {v : Val} {reqs : List Req}
    (hrun : run P {} evs = some s) (hnd : s.pendingDropped = false)
    (hprov : step P s (.provide k id key v reqs) = some s') :
    Clean P s.env key v := by
  have hi := reach_inv hP hrun hnd
  simp only [step] at hprov
  split at hprov
  · split at hprov
    · cases hprov
    · split at hprov
      · rename_i hc
        simp only [Bool.and_eq_true, beq_iff_eq] at hc
        obtain ⟨⟨hd, hv⟩, _⟩ := hc
        rw [hv]
        exact hi.clean key (by simpa [isDone] using hd)
      · cases hprov
  · cases hprov

/-- A rule declared up to date without running has the clean value (the pivotal step). -/
theorem C01_up_to_date_is_clean {P : Program} (hP : P.WF) {evs : List Event} {s s' : St} {k : Key}
    (hrun : run P {} evs = some s) (hnd : s.pendingDropped = false)
    (hup : step P s (.upToDate k) = some s') :
    Clean P s'.env k (s'.mem.res k).value := by
  have hi := reach_inv hP hrun hnd
  have hnd' : s'.pendingDropped = false := by
    simp only [step] at hup; split at hup
    · cases hup; exact hnd
    · cases hup
  have hi' := step_inv hP hup hi (reach_invC hP hrun hnd) hnd'
  apply hi'.clean
  simp only [step] at hup; split at hup
  · cases hup; simp
  · cases hup

/-! ### The DSL programs of the correspondence harness satisfy `WF` when `DSL.wf` says so -/

namespace DSL

theorem specOf_key (rules : List RuleSpec) (k : Key) : (specOf rules k).key = k := by
  unfold specOf
  cases hf : rules.find? (fun s => s.key == k) with
  | none => rfl
  | some sp => have := List.find?_some hf; simpa using this

theorem specOf_wf {rules : List RuleSpec} (h : wf rules = true) (k : Key) :
    ((specOf rules k).kind ≠ 0 ∨ ((specOf rules k).statics = [] ∧ (specOf rules k).whens = [] ∧ (specOf rules k).discs = [])) ∧
    ∀ d ∈ (specOf rules k).discs, (specOf rules d.2).kind = 0 := by
  cases hf : rules.find? (fun s => s.key == k) with
  | none =>
    have hk : specOf rules k = { key := k, kind := 0 } := by unfold specOf; rw [hf]
    rw [hk]
    exact ⟨Or.inr ⟨rfl, rfl, rfl⟩, fun d hd => by cases hd⟩
  | some sp =>
    have hk : specOf rules k = sp := by unfold specOf; rw [hf]
    rw [hk]
    have hm := List.mem_of_find?_eq_some hf
    have hw := List.all_eq_true.1 h sp hm
    rw [Bool.and_eq_true] at hw
    obtain ⟨h1, h2⟩ := hw
    refine ⟨?_, fun d hd => eq_of_beq (List.all_eq_true.1 h2 d hd)⟩
    rw [Bool.or_eq_true] at h1
    rcases h1 with a | a
    · left; simpa using a
    · right
      rw [Bool.and_eq_true, Bool.and_eq_true] at a
      exact ⟨List.isEmpty_iff.1 a.1.1, List.isEmpty_iff.1 a.1.2, List.isEmpty_iff.1 a.2⟩

theorem foldl_mix_congr (env env' : Env) (l : List Key) : ∀ (h : Nat), (∀ d ∈ l, env d = env' d) →
    l.foldl (fun h d => mix (mix h d) (env d)) h = l.foldl (fun h d => mix (mix h d) (env' d)) h := by
  induction l with
  | nil => intro _ _; simp only [List.foldl_nil]
  | cons d ds ih =>
    intro h hd
    rw [List.foldl_cons, List.foldl_cons, hd d List.mem_cons_self]
    exact ih _ (fun x hx => hd x (List.mem_cons_of_mem _ hx))

theorem program_WF {rules : List RuleSpec} (h : wf rules = true) : (program rules).WF := by
  constructor
  · intro k env env' recv hd hs
    show outValue (specOf rules k) env recv = outValue (specOf rules k) env' recv
    have hd' : ∀ d ∈ discKeys (specOf rules k) recv, env d = env' d := hd
    have hs' : ((specOf rules k).kind == 0) = true → env k = env' k := hs
    unfold outValue
    split
    · rename_i hk; rw [specOf_key]; exact hs' hk
    · simp only []
      rw [foldl_mix_congr env env' _ _ hd']
  · intro k env v hs hv
    have hs' : ((specOf rules k).kind == 0) = true := hs
    have hv' : validOf (specOf rules k) env v = true := hv
    show v = outValue (specOf rules k) env []
    unfold validOf at hv'; unfold outValue
    rw [if_pos hs'] at hv' ⊢
    exact eq_of_beq hv'
  · intro k recv hs
    have hs' : ((specOf rules k).kind == 0) = true := hs
    show nextReqs (specOf rules k) recv = []
    rcases (specOf_wf h k).1 with a | ⟨a, b, _⟩
    · exact absurd (eq_of_beq hs') a
    · simp [nextReqs, a, b]
  · intro k recv hs
    have hs' : ((specOf rules k).kind == 0) = true := hs
    show discKeys (specOf rules k) recv = []
    rcases (specOf_wf h k).1 with a | ⟨_, _, c⟩
    · exact absurd (eq_of_beq hs') a
    · simp [discKeys, c]
  · intro k recv d hd
    have hd' : d ∈ discKeys (specOf rules k) recv := hd
    show ((specOf rules d).kind == 0) = true
    unfold discKeys at hd'
    obtain ⟨dd, hdd, rfl⟩ := List.mem_map.1 hd'
    have := (specOf_wf h k).2 dd (List.mem_filter.1 hdd).1
    simp [this]
  · intro d env env' hs ho
    have hs' : ((specOf rules d).kind == 0) = true := hs
    have ho' : outValue (specOf rules d) env [] = outValue (specOf rules d) env' [] := ho
    unfold outValue at ho'
    rw [if_pos hs', if_pos hs', specOf_key] at ho'
    exact ho'

end DSL

/-- C01 for the programs the correspondence harness runs. -/
theorem C01_value_dsl {rules : List DSL.RuleSpec} (hw : DSL.wf rules = true) {evs : List Event} {s s' : St} {v : Val}
    (hrun : run (DSL.program rules) {} evs = some s) (hret : step (DSL.program rules) s (.ret v) = some s')
    (hnd : s'.pendingDropped = false)
    (hok : s.cancelled = false ∧ s.cycleSeen = false ∧ s.errSeen = false) :
    ∃ root, s.target = some root ∧ Clean (DSL.program rules) s.env root v :=
  C01_value (DSL.program_WF hw) hrun hret hnd hok

end LLBuild.Engine
