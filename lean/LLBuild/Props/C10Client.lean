/-
C10 (engine level, instance) — the BuildSystem's rule set satisfies `Engine.FailureClient`.

`BuildSystemClient.client H d` (LLBuild/Model/BuildSystemClient.lean, the client model of C08: one engine rule per
node / command / target key of a build description `d`; validity chains and rule dispatch GENERATED from
BuildSystem.cpp into Generated/BuildSystemRules.lean on every run) is shown to have the two failure facts, for EVERY
description, hash and external state; the engine-level C10 theorems of Props/C10Engine.lean then hold for it.

Which table theorem of Props/C10.lean (over Generated/FailTables.lean, extracted from the same sources) says the same
about the real classes, field by field — `C10_client_tables_agree` below checks the correspondence of the two encodings:
  bad (command key)      value 6 = FailedCommand / PropagatedFailureCommand / CancelledCommand   (`isFailureKind`)
  bad (node key)         value 4 = FailedInput
  bad_invalid            `C10_never_up_to_date`  (leading guards of isResultValid; ProducedNodeTask::isResultValid)
  bad_propagates, node   `C10_failure_maps_to_failed_input`  (getResultForOutput; exception `orderingOnlyEdge` = F16)
  bad_propagates, cmd    `C10_failed_input_skips`  (provideValue fold + skip block of execute)
In this client model a command has no failure of its own (its function always succeeds); the failure cause is a
missing source file (`MissingInput` ⇒ the consumer skips with value 6).  Commands that fail by exit status or signal are
covered by the generic theorems (any `Program` with a `FailureClient`), by the tables (`C10_process_outcomes`) and end
to end.
-/
import LLBuild.Props.C10
import LLBuild.Props.C10Engine
import LLBuild.Props.C08
import LLBuild.Lemmas.FailPropClient

set_option linter.unusedVariables false

namespace LLBuild.BuildSystemClient
open LLBuild.Engine
open LLBuild.Generated.BuildSystemRules

/-- failed values by key class: `FailedInput` at a node key, the failure value at a command key -/
def badOf (k : Key) (v : Val) : Bool :=
  (k % 3 == 0 && v == vFailedInput) || (k % 3 == 1 && v == vFailedCmd)

/-- data edges: a command over its (value-carrying) inputs; a produced node over its producer unless the producer
is a phony command and the node is virtual (ordering-only edge, F16).  Targets consume nothing as data. -/
def carriesOf (d : Desc) (k : Key) (_src : Key) : Bool :=
  match ruleOf d k with
  | .commandTask => true
  | .producedNodeTask =>
    match d.producers (k / 3) with
    | [c] => !(decide ((d.cmd c).tool = .phony) && d.isVirtual (k / 3))
    | _ => false
  | _ => false

theorem badOf_invalid (d : Desc) (env : Env) (k : Key) (v : Val) (hb : badOf k v = true) :
    validOf d env k v = false := by
  unfold badOf at hb
  simp only [Bool.or_eq_true, Bool.and_eq_true, beq_iff_eq] at hb
  rcases hb with ⟨_, hv⟩ | ⟨hk, hv⟩
  · -- FailedInput is rejected by every rule class
    subst hv
    unfold validOf
    cases hr : ruleOf d k <;> simp only []
    case fileInputNodeTask => simp [fileInputValid, vFailedInput, vMissingInput, isExisting]
    case virtualInputNodeTask => simp [virtualInputValid, vFailedInput, vVirtual]
    case producedNodeTask => simp [producedNodeValid]
    case targetTask => rfl
    case commandTask =>
      cases (d.cmd (k / 3)).tool <;>
        simp [mkdirValid, symlinkValid, externalCommandValid, externalCommandGuards, isSuccess, vFailedInput]
  · subst hv
    unfold validOf
    rcases ruleOf_mod1 d hk with hr | hr <;> simp only [hr]
    cases (d.cmd (k / 3)).tool <;>
      simp [mkdirValid, symlinkValid, externalCommandValid, externalCommandGuards, isSuccess, vFailedCmd]

theorem badOf_propagates (H : List Nat → Nat) (d : Desc) (env : Env) (k : Key) (seq : Seq) (q : Req) (v : Val)
    (hv : validSeq (client H d) k seq = true) (hm : (q, v) ∈ seq) (hk : q.kind = 0)
    (hc : carriesOf d k q.key = true) (hb : badOf q.key v = true) :
    badOf k ((client H d).out k env (recvOf seq)) = true := by
  have hs : ∀ recv, (client H d).next k recv = nextOf d k := fun _ => rfl
  have hq : q ∈ nextOf d k := validSeq_mem hs hv hm
  rw [client_out]
  unfold carriesOf at hc
  cases hr : ruleOf d k <;> simp only [hr] at hc <;> try (cases hc; done)
  case commandTask =>
    have hk1 := ruleOf_command hr
    have hsym : (d.cmd (k / 3)).tool ≠ .symlink := by
      intro e
      have hq' := hq
      simp only [nextOf, hr, e, if_true] at hq'
      rw [mem_reqsFrom_kind hq'] at hk; cases hk
    have hL : nextOf d k = reqsFrom 0 0 (d.cmd (k / 3)).inputs := by simp [nextOf, hr, hsym]
    rw [hL] at hq
    have hs' : ∀ recv, (client H d).next k recv = reqsFrom 0 0 (d.cmd (k / 3)).inputs := fun r => by rw [hs r, hL]
    obtain ⟨j, n, hjn, hqe⟩ := mem_reqsFrom.1 hq
    have hget := delivered_recv hs' hv hm hk (fun q' hq' hid => reqsFrom_id_inj hq hq' hid)
    -- the delivered value is a node's: bad means FailedInput
    have hv4 : v = vFailedInput := by
      have hkey : q.key % 3 = 0 := by rw [hqe]; exact (nodeKey_md n).1
      unfold badOf at hb
      simp only [hkey, Bool.or_eq_true, Bool.and_eq_true, beq_iff_eq] at hb
      rcases hb with ⟨_, h⟩ | ⟨h, _⟩
      · exact h
      · cases h
    have hid : q.id = j := by rw [hqe]; simp
    have hlt : j < (d.cmd (k / 3)).inputs.length := by
      rcases List.getElem?_eq_some_iff.1 hjn with ⟨h, _⟩; exact h
    rw [hid, hv4] at hget
    have hout : outOf d k env (recvOf seq) = vFailedCmd := by
      unfold outOf
      simp only [hr]
      exact cmdOut_failed _ _ hlt hget hsym
    rw [hout]
    simp [badOf, hk1]
  case producedNodeTask =>
    have hk0 := ruleOf_produced hr
    cases hp : d.producers (k / 3) with
    | nil => simp only [hp] at hc; cases hc
    | cons c rest =>
      cases rest with
      | cons c2 r2 => simp only [hp] at hc; cases hc
      | nil =>
        simp only [hp] at hc
        have hL : nextOf d k = [⟨cmdKey c, 0, 0⟩] := by simp [nextOf, hr, hp]
        rw [hL, List.mem_singleton] at hq
        have hs' : ∀ recv, (client H d).next k recv = [⟨cmdKey c, 0, 0⟩] := fun r => by rw [hs r, hL]
        have hget := delivered_recv hs' hv hm hk (by intro q' hq' _; rw [List.mem_singleton] at hq'; rw [hq', hq])
        have hv6 : v = vFailedCmd := by
          have hkey : q.key % 3 = 1 := by rw [hq]; exact (cmdKey_md c).1
          unfold badOf at hb
          simp only [hkey, Bool.or_eq_true, Bool.and_eq_true, beq_iff_eq] at hb
          rcases hb with ⟨h, _⟩ | ⟨_, h⟩
          · cases h
          · exact h
        have hid : q.id = 0 := by rw [hq]
        rw [hid, hv6] at hget
        have hnot : ¬ ((d.cmd c).tool = .phony ∧ d.isVirtual (k / 3) = true) := by
          intro ⟨h1, h2⟩; simp [h1, h2] at hc
        have hout : outOf d k env (recvOf seq) = vFailedInput := by
          unfold outOf
          simp only [hr, hp, hget]
          unfold resultForOutput
          simp [hnot]
        rw [hout]
        simp [badOf, hk0]

/-- **C10_client_failure.**  The BuildSystem's rule set has the failure facts, for every description. -/
def C10_client_failure (H : List Nat → Nat) (d : Desc) : FailureClient (client H d) where
  bad := badOf
  carries := carriesOf d
  bad_invalid := badOf_invalid d
  bad_propagates := badOf_propagates H d

theorem client_no_disc (H : List Nat → Nat) (d : Desc) : ∀ k r, (client H d).disc k r = [] := fun _ _ => rfl

/-! ### the engine-level clauses for the BuildSystem's rule set

No hypothesis is left besides acceptance of the trace by the engine monitor: `Program.WF` is `C08_client_WF`,
`Program.Det` is `client_Det`, and the F22 ghost flag cannot be set because the client model reports no discovered
dependencies (`reach_not_dropped`). -/

/-- "the recorded result is never treated as up to date": in every accepted history of the BuildSystem client the
engine never declares a command with a stored failure value, or a node with a stored FailedInput, up to date -/
theorem C10_client_failed_never_up_to_date (H : List Nat → Nat) (d : Desc) {evs : List Event} {s s' : St} {k : Key}
    (hrun : run (client H d) {} evs = some s) (hup : step (client H d) s (.upToDate k) = some s') :
    badOf k (s.mem.res k).value = false :=
  C10_failed_never_up_to_date_any_client (C10_client_failure H d) hrun hup

/-- "the next build re-attempts it": once such a rule is scanned in a build and the build completes it, its task
was created (the command / node was processed again) -/
theorem C10_client_failed_is_rerun (H : List Nat → Nat) (d : Desc) {k : Key} {evs0 evs : List Event} {s s' : St}
    (hrun : run (client H d) {} evs0 = some s) (hscan : s.status k = .scanning)
    (hbad : badOf k (s.mem.res k).value = true)
    (hcont : run (client H d) s evs = some s') (hb : ∀ e ∈ evs, endsBuild e = false)
    (hdone : s'.status k = .done) : k ∈ created evs :=
  C10_failed_is_rerun (C10_client_failure H d) evs hrun (Or.inl ⟨hscan, hbad⟩) hcont hb hdone

/-- "no command that directly or transitively consumes its outputs is executed": whenever a key downstream of a failed
command (through data edges) is complete in a build, its value is the failure value (a command: the skip value, never
`SuccessfulCommand`; a node: `FailedInput`, never `ExistingInput`) -/
theorem C10_client_downstream_done_is_bad (H : List Nat → Nat) (d : Desc) {evs : List Event} {s : St}
    {src k : Key} {v : Val} (hrun : run (client H d) {} evs = some s) (hdone : s.status k = .done)
    (h : Downstream (C10_client_failure H d) s.env src k v) : badOf k (s.mem.res k).value = true :=
  C10_downstream_done_is_bad (C10_client_failure H d) (C08_client_WF H d) (client_Det H d) hrun
    (reach_not_dropped (client_no_disc H d) hrun) hdone h

/-- ... and every value handed to a task for such a key is the failure value -/
theorem C10_client_downstream_delivers_bad (H : List Nat → Nat) (d : Desc) {evs : List Event} {s s' : St}
    {src c : Key} {id : Nat} {k : Key} {v w : Val} {reqs : List Req}
    (hrun : run (client H d) {} evs = some s) (hprov : step (client H d) s (.provide c id k v reqs) = some s')
    (h : Downstream (C10_client_failure H d) s.env src k w) : badOf k v = true :=
  C10_downstream_delivers_bad (C10_client_failure H d) (C08_client_WF H d) (client_Det H d) hrun
    (reach_not_dropped (client_no_disc H d) hrun) hprov h

/-- "once the cause is removed, the next build converges to the clean-build state" -/
theorem C10_client_converges (H : List Nat → Nat) (d : Desc) {evs : List Event} {s s' : St} {v : Val}
    (hrun : run (client H d) {} evs = some s) (hret : step (client H d) s (.ret v) = some s')
    (hok : s.cancelled = false ∧ s.cycleSeen = false ∧ s.errSeen = false) :
    ∃ root, s.target = some root ∧ Clean (client H d) s.env root v ∧
      (∀ w, Clean (client H d) s.env root w → w = v) ∧
      ((∀ w, Clean (client H d) s.env root w → badOf root w = false) → badOf root v = false) :=
  C10_converges (C10_client_failure H d) (C08_client_WF H d) (client_Det H d) hrun hret
    (step_not_dropped (client_no_disc H d) hrun hret) hok

/-! ### the value encoding of the client model against the generated decision tables of Props/C10.lean -/

open LLBuild.Generated.FailTables in
/-- value kinds of the client model's encoding (6 stands for the three failure kinds) -/
def kindOfVal (v : Val) : Kind :=
  if v = vMissingInput then .missingInput
  else if v = vVirtual then .virtualInput
  else if v = vFailedInput then .failedInput
  else if v = vFailedCmd then .propagatedFailureCommand
  else if v = vTarget then .target
  else if isExisting v then .existingInput
  else if isSuccess v then .successfulCommand
  else .invalid

open LLBuild.Generated.FailTables in
def classOf : Tool → CommandClass
  | .shell => .shellCommand
  | .phony => .phonyCommand
  | .mkdir => .mkdirCommand
  | .symlink => .symlinkCommand

open LLBuild.Generated.FailTables LLBuild.FailProp in
/-- **C10_client_tables_agree.**  The three places where the client model decides about failures agree with the
decision tables extracted from the sources:
(1) `foldInputs` skips exactly on the input values for which the table of `getSkipValueForInput` (missing inputs not
    allowed) blocks the consumer;
(2) the node value the model derives from a failed producer is the one `getResultForOutput` of the corresponding
    command class gives for each of the three failure kinds (including the ordering-only exception);
(3) the failure value is not a successful kind, so the leading guards of `isResultValid` reject it for every class. -/
theorem C10_client_tables_agree :
    (∀ v : Val, (v = vMissingInput ∨ v = vFailedInput) ↔ blocksConsumer false (kindOfVal v) = true) ∧
    (∀ (d : Desc) (c : Cmd) (i : Nat) (k : Kind) (miss : Bool), isFailureKind k = true →
      Res.eval (Generated.FailTables.resultForOutput (classOf c.tool) k (d.isVirtual i) false miss) k =
        some (kindOfVal (resultForOutput d c i vFailedCmd))) ∧
    (isFailureKind (kindOfVal vFailedCmd) = true ∧
      ∀ (cls : CommandClass) (e : ValidEnv) (k : Kind), isFailureKind k = true → resultValidGuards cls k e = some false) := by
  refine ⟨?_, ?_, by decide, ?_⟩
  · intro v
    unfold kindOfVal blocksConsumer
    by_cases h1 : v = vMissingInput
    · simp [h1]
    · by_cases h2 : v = vVirtual
      · subst h2; simp [vVirtual, vMissingInput, vFailedInput]
      · by_cases h3 : v = vFailedInput
        · subst h3; simp [vMissingInput, vFailedInput, vVirtual]
        · simp only [h1, h2, h3, if_false, or_self, false_iff]
          repeat' split
          all_goals decide
  · intro d c i k miss hk
    have hc : neverAProducer (classOf c.tool) = false := by cases c.tool <;> decide
    rw [C10_failure_maps_to_failed_input _ k _ _ miss hk hc]
    unfold resultForOutput orderingOnlyEdge
    cases ht : c.tool <;> cases hv : d.isVirtual i <;> simp [classOf, kindOfVal, vFailedCmd, vFailedInput, vVirtual, vMissingInput]
  · intro cls e k hk
    exact C10_never_up_to_date.1 cls k e (C10_never_up_to_date.2.1 k hk)

/-! ### non-vacuity on the description of Props/C08.lean
`exDesc`: sources 0, 1; `C0: 0,1 -> 2,3`; `C1: 2 -> 4`; phony `C2: 4 -> <5>`.  With source 0 missing, `C0` fails. -/

/-- external state in which source 0 is missing and source 1 is present -/
def envMissing : Env := fun k => if k = 3 then 21 else 0

example : cleanEval exDesc envMissing 8 (cmdKey 0) = some vFailedCmd := by decide
example : cleanEval exDesc envMissing 8 (nodeKey 2) = some vFailedInput := by decide
example : cleanEval exDesc envMissing 8 (cmdKey 1) = some vFailedCmd := by decide
example : cleanEval exDesc envMissing 8 (nodeKey 4) = some vFailedInput := by decide
-- the ordering-only edge does not carry the failure (F16)
example : cleanEval exDesc envMissing 8 (nodeKey 5) = some vVirtual := by decide
example : carriesOf exDesc (nodeKey 5) (cmdKey 2) = false ∧ carriesOf exDesc (nodeKey 2) (cmdKey 0) = true ∧
    carriesOf exDesc (cmdKey 1) (nodeKey 2) = true := by decide
example : badOf (cmdKey 0) vFailedCmd = true ∧ badOf (nodeKey 2) vFailedInput = true ∧
    badOf (nodeKey 2) (vExisting 7) = false ∧ badOf (cmdKey 0) (vSuccess 7) = false := by decide
example : validOf exDesc envMissing (cmdKey 0) vFailedCmd = false :=
  badOf_invalid exDesc envMissing (cmdKey 0) vFailedCmd (by decide)

section
private def H0 : List Nat → Nat := fun _ => 0

theorem ex_clean_src0 : Clean (client H0 exDesc) envMissing (nodeKey 0) vMissingInput :=
  (C08_clean_source H0 exDesc envMissing (nodeKey 0) _ (by decide)).2 (by decide)
theorem ex_clean_src1 : Clean (client H0 exDesc) envMissing (nodeKey 1) (vExisting 20) :=
  (C08_clean_source H0 exDesc envMissing (nodeKey 1) _ (by decide)).2 (by decide)

/-- `C0` fails in a from-scratch build (its first input is missing) -/
theorem ex_clean_c0 : Clean (client H0 exDesc) envMissing (cmdKey 0) vFailedCmd :=
  Clean.mk (P := client H0 exDesc) (env := envMissing) (cmdKey 0)
    [(⟨nodeKey 1, 1, 0⟩, vExisting 20), (⟨nodeKey 0, 0, 0⟩, vMissingInput)] (by decide) (by decide)
    (by
      intro q v h _
      simp only [List.mem_cons, Prod.mk.injEq, List.not_mem_nil, or_false] at h
      rcases h with ⟨rfl, rfl⟩ | ⟨rfl, rfl⟩
      · exact ex_clean_src1
      · exact ex_clean_src0)

/-- node 2, command `C1` and node 4 are downstream of the failed `C0` (hypothesis of the `Downstream` theorems) -/
theorem ex_down_n2 : Downstream (C10_client_failure H0 exDesc) envMissing (cmdKey 0) (nodeKey 2) vFailedInput :=
  Downstream.step (F := C10_client_failure H0 exDesc) (env := envMissing) (src := cmdKey 0) (nodeKey 2)
    [(⟨cmdKey 0, 0, 0⟩, vFailedCmd)] ⟨cmdKey 0, 0, 0⟩ vFailedCmd (by decide) (by decide)
    (by intro q v h _; simp only [List.mem_singleton, Prod.mk.injEq] at h; obtain ⟨rfl, rfl⟩ := h; exact ex_clean_c0)
    (by simp) rfl (by decide) (Downstream.here vFailedCmd ex_clean_c0 (by decide))

theorem ex_down_c1 : Downstream (C10_client_failure H0 exDesc) envMissing (cmdKey 0) (cmdKey 1) vFailedCmd :=
  Downstream.step (F := C10_client_failure H0 exDesc) (env := envMissing) (src := cmdKey 0) (cmdKey 1)
    [(⟨nodeKey 2, 0, 0⟩, vFailedInput)] ⟨nodeKey 2, 0, 0⟩ vFailedInput (by decide) (by decide)
    (by
      intro q v h _; simp only [List.mem_singleton, Prod.mk.injEq] at h; obtain ⟨rfl, rfl⟩ := h
      exact (C10_no_downstream_value _ ex_down_n2).1)
    (by simp) rfl (by decide) ex_down_n2

example : badOf (cmdKey 1) vFailedCmd = true := (C10_no_downstream_value _ ex_down_c1).2
end

/-! ### non-vacuity on traces: `src 0 -> C0 -> 1 -> C1 -> 2`, target `[2]`, source 0 missing

Keys: nodes 0, 3, 6; commands 1, 4; target 2.  First build: `C0` fails (value 6), node 1 is FailedInput (4), `C1` is
skipped (6), node 2 is FailedInput, the target completes.  Second build, nothing changed: up to the scan of `C1`. -/
section
def exChain : Desc :=
  { virt := [false, false, false],
    cmds := [{ tool := .shell, inputs := [0], outputs := [1], salt := 5 },
             { tool := .shell, inputs := [1], outputs := [2], salt := 9 }],
    targets := [[2]] }

private def row (v c b : Nat) (deps : List Dep) : Res := { value := v, sig := 0, computedAt := c, builtAt := b, deps := deps }
private def fresh (k : Key) (reqs : List Req) : List Event :=
  [.lookup k, .dbGet k false, .scanning k, .needs k 0 none, .create k, .start k reqs]
private def fin (k : Key) (v : Val) (c b : Nat) (deps : List Dep) : List Event :=
  [.inputsAvail k [], .complete k v false, .finished k (row v c b deps)]

/-- the work of the first build -/
def exBuild1 : List Event :=
  [.buildStart 2, .queueCreated] ++ fresh 2 [⟨6, 0, 0⟩] ++ fresh 6 [⟨4, 0, 0⟩] ++ fresh 4 [⟨3, 0, 0⟩] ++ fresh 3 [⟨1, 0, 0⟩]
   ++ fresh 1 [⟨0, 0, 0⟩] ++ fresh 0 [] ++ fin 0 1 1 1 []
   ++ [.provide 1 0 0 1 []] ++ fin 1 6 1 1 [⟨0, false, false⟩]
   ++ [.provide 3 0 1 6 []] ++ fin 3 4 1 1 [⟨1, false, false⟩]
   ++ [.provide 4 0 3 4 []] ++ fin 4 6 1 1 [⟨3, false, false⟩]
   ++ [.provide 6 0 4 6 []] ++ fin 6 4 1 1 [⟨4, false, false⟩]
   ++ [.provide 2 0 6 4 []] ++ fin 2 7 1 1 [⟨6, false, false⟩]

def exBuild1End : List Event := [.dbIter 1, .dbEnd, .ret 7, .tail 0 0]

/-- the second build up to the scan of the skipped command `C1` (key 4) -/
def exBuild2a : List Event :=
  [.buildStart 2, .queueCreated, .scanning 2, .valid 2 7 false, .needs 2 2 none, .create 2, .start 2 [⟨6, 0, 0⟩], .prior 2 7,
   .scanning 6, .valid 6 4 false, .needs 6 2 none, .create 6, .start 6 [⟨4, 0, 0⟩], .prior 6 4,
   .scanning 4, .valid 4 6 false]

/-- ... and its continuation until `C1` is complete again -/
def exBuild2b : List Event :=
  [.needs 4 2 none, .create 4, .start 4 [⟨3, 0, 0⟩], .prior 4 6,
   .scanning 3, .valid 3 4 false, .needs 3 2 none, .create 3, .start 3 [⟨1, 0, 0⟩], .prior 3 4,
   .scanning 1, .valid 1 6 false, .needs 1 2 none, .create 1, .start 1 [⟨0, 0, 0⟩], .prior 1 6,
   .scanning 0, .valid 0 1 true, .upToDate 0,
   .provide 1 0 0 1 []] ++ fin 1 6 1 2 [⟨0, false, false⟩]
   ++ [.provide 3 0 1 6 []] ++ fin 3 4 1 2 [⟨1, false, false⟩]
   ++ [.provide 4 0 3 4 []] ++ fin 4 6 1 2 [⟨3, false, false⟩]

/-- hypotheses of `C10_client_failed_never_up_to_date` / `C10_client_failed_is_rerun`: in the second build the skipped
command is being scanned with its failure value stored -/
theorem ex_chain_scanning : ∃ s, run (client H0 exChain) {} (exBuild1 ++ exBuild1End ++ exBuild2a) = some s ∧
    s.status 4 = .scanning ∧ badOf 4 (s.mem.res 4).value = true := by
  obtain ⟨s, hs, hp⟩ := run_facts (P := client H0 exChain) (s0 := {}) (evs := exBuild1 ++ exBuild1End ++ exBuild2a)
    (p := fun s => s.status 4 == .scanning && badOf 4 (s.mem.res 4).value) (by decide +kernel)
  simp only [Bool.and_eq_true, beq_iff_eq] at hp
  exact ⟨s, hs, hp.1, hp.2⟩

-- the monitor rejects "up to date" there
example : (run (client H0 exChain) {} (exBuild1 ++ exBuild1End ++ exBuild2a ++ [.upToDate 4])).isNone = true := by
  decide +kernel

-- and the continuation in which `C1` completes contains its re-creation
example : 4 ∈ created exBuild2b := by
  obtain ⟨s, hs, hsc, hb⟩ := ex_chain_scanning
  obtain ⟨s', hs', hp⟩ := run_facts (P := client H0 exChain) (s0 := {})
    (evs := (exBuild1 ++ exBuild1End ++ exBuild2a) ++ exBuild2b) (p := fun s => s.status 4 == .done) (by decide +kernel)
  rw [run_append_some hs] at hs'
  exact C10_client_failed_is_rerun H0 exChain hs hsc hb hs' (by decide) (by simpa using hp)

/-- `C1` (key 4) is downstream of the failed `C0` (key 1) in every external state where source 0 is missing -/
theorem ex_chain_downstream (env : Env) (h0 : env 0 = 0) :
    Downstream (C10_client_failure H0 exChain) env 1 4 vFailedCmd := by
  have c0 : Clean (client H0 exChain) env 0 vMissingInput :=
    (C08_clean_source H0 exChain env 0 _ (by decide)).2 (by simp [fileValue, h0])
  have c1 : Clean (client H0 exChain) env 1 vFailedCmd :=
    Clean.mk (P := client H0 exChain) (env := env) 1 [(⟨0, 0, 0⟩, vMissingInput)] (by decide) (by decide)
      (by intro q v h _; simp only [List.mem_singleton, Prod.mk.injEq] at h; obtain ⟨rfl, rfl⟩ := h; exact c0)
  have d3 : Downstream (C10_client_failure H0 exChain) env 1 3 vFailedInput :=
    Downstream.step (F := C10_client_failure H0 exChain) (env := env) (src := 1) 3
      [(⟨1, 0, 0⟩, vFailedCmd)] ⟨1, 0, 0⟩ vFailedCmd (by decide) (by decide)
      (by intro q v h _; simp only [List.mem_singleton, Prod.mk.injEq] at h; obtain ⟨rfl, rfl⟩ := h; exact c1)
      (by simp) rfl (by decide) (Downstream.here vFailedCmd c1 (by decide))
  exact Downstream.step (F := C10_client_failure H0 exChain) (env := env) (src := 1) 4
      [(⟨3, 0, 0⟩, vFailedInput)] ⟨3, 0, 0⟩ vFailedInput (by decide) (by decide)
      (by
        intro q v h _; simp only [List.mem_singleton, Prod.mk.injEq] at h; obtain ⟨rfl, rfl⟩ := h
        exact (C10_no_downstream_value _ d3).1)
      (by simp) rfl (by decide) d3

-- `C10_client_downstream_done_is_bad` applies at the end of the first build's work
example : ∃ s, run (client H0 exChain) {} exBuild1 = some s ∧ badOf 4 (s.mem.res 4).value = true := by
  obtain ⟨s, hs, hp⟩ := run_facts (P := client H0 exChain) (s0 := {}) (evs := exBuild1)
    (p := fun s => s.status 4 == .done && s.env 0 == 0) (by decide +kernel)
  simp only [Bool.and_eq_true, beq_iff_eq] at hp
  exact ⟨s, hs, C10_client_downstream_done_is_bad H0 exChain hs hp.1 (ex_chain_downstream s.env hp.2)⟩
end

end LLBuild.BuildSystemClient
