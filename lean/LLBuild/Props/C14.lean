/-
C14 — Stale-file removal deletes exactly the obsolete outputs inside the allowed roots.

"The stale-file-removal tool removes a path only if it was listed as an expected
output by the previous successful run of that command and is not listed now, and
- when roots are configured - only if the path is absolute and lexically lies at
or beneath one of the roots by whole path components, a root spelled with or
without a trailing separator behaving the same.  Every path meeting those
conditions is removed, and nothing outside those paths is ever touched."

Property theorems only.  Model: LLBuild/Model/StalePath.lean (hand-written,
corresponded against the real `pathIsPrefixedByPath` and the real command);
separator set: LLBuild/Generated/PathSeps.lean (extracted).
-/
import LLBuild.Lemmas.StalePath

namespace LLBuild.StalePath

/-- `computeFilesToDelete` is exactly "listed before and not listed now". -/
theorem C14_set_difference (prior expected : List Bytes) (p : Bytes) :
    p ∈ filesToDelete prior expected ↔ p ∈ prior ∧ p ∉ expected := by
  unfold filesToDelete
  simp [mem_toSet]

/-- Soundness: whatever the predicate accepts lies at or beneath the root. -/
theorem C14_prefix_sound (p r : Bytes) (h : pathIsPrefixedByPath p r = true) : under r p = true := by
  unfold pathIsPrefixedByPath at h
  rw [under_iff]
  split at h
  · -- the root is longer than the path: "/foo/" over "/foo"
    split at h
    · rename_i l hl
      obtain ⟨ys, rfl⟩ := List.getLast?_eq_some_iff.1 hl
      simp only [List.dropLast_concat, Bool.and_eq_true, beq_iff_eq] at h
      obtain ⟨hd, hs⟩ := h
      rw [rootCanon_concat_sep ys l hs, hd]
      exact ⟨[], by simp, Or.inl rfl⟩
    · simp at h
  · rename_i hlen
    have hlen : r.length ≤ p.length := by omega
    obtain ⟨t, hp, hrest⟩ := mismatchTail_sound false r p hlen h
    by_cases he : endsSep false r = true
    · -- the root ends in a separator: its canonical form is one byte shorter
      obtain ⟨ys, l, rfl, hs⟩ := (endsSep_false_iff r).1 he
      rw [rootCanon_concat_sep ys l hs]
      exact ⟨l :: t, by simp [hp], Or.inr ⟨l, t, rfl, hs⟩⟩
    · have he' : endsSep false r = false := by simpa using he
      rw [rootCanon_of_not_endsSep r he']
      refine ⟨t, hp, ?_⟩
      rcases hrest with h1 | h2 | h3
      · left; exact h1
      · right; exact h2
      · exact absurd h3 he

/-- Completeness: every path at or beneath the root is accepted, whether or not
the root is spelled with a trailing separator.  (False before the repair of
`pathIsPrefixedByPath`: "/foo/" did not cover "/foo/bar"; see known_findings.json.) -/
theorem C14_prefix_complete (p r : Bytes) (h : under r p = true) : pathIsPrefixedByPath p r = true := by
  rw [under_iff] at h
  obtain ⟨t, ht, hrest⟩ := h
  unfold pathIsPrefixedByPath
  by_cases he : endsSep false r = true
  · obtain ⟨ys, l, rfl, hs⟩ := (endsSep_false_iff r).1 he
    rw [rootCanon_concat_sep ys l hs] at ht
    rcases hrest with h0 | ⟨c, rest, hc, hcs⟩
    · -- p is the root without its separator
      subst h0
      simp only [List.append_nil] at ht
      subst ht
      simp [hs]
    · have hcl : c = l := by rw [(isSep_iff c).1 hcs, (isSep_iff l).1 hs]
      subst hcl hc
      have hp : p = (ys ++ [c]) ++ rest := by simp [ht]
      have hlen : ¬ (ys ++ [c]).length > p.length := by rw [hp]; simp
      simp only [hlen, ↓reduceIte]
      rw [hp]
      apply mismatchTail_complete
      right; right; exact he
  · have he' : endsSep false r = false := by simpa using he
    rw [rootCanon_of_not_endsSep r he'] at ht
    have hlen : ¬ r.length > p.length := by rw [ht]; simp
    simp only [hlen, ↓reduceIte]
    rw [ht]
    apply mismatchTail_complete
    rcases hrest with h | h
    · left; exact h
    · right; left; exact h

/-- The predicate *is* the component-wise specification, for all byte strings. -/
theorem C14_prefix_iff (p r : Bytes) : pathIsPrefixedByPath p r = under r p := by
  apply Bool.eq_iff_iff.2
  exact ⟨C14_prefix_sound p r, C14_prefix_complete p r⟩

/-- A root spelled with or without one trailing separator behaves the same. -/
theorem C14_trailing_separator_agnostic (p r : Bytes) (hr : endsSep false r = false) :
    pathIsPrefixedByPath p (r ++ [47]) = pathIsPrefixedByPath p r := by
  rw [C14_prefix_iff, C14_prefix_iff]
  unfold under
  rw [rootCanon_concat_sep r 47 isSep_47, rootCanon_of_not_endsSep r hr]

theorem mem_removals (prior expected roots : List Bytes) (p : Bytes) :
    p ∈ removals prior expected roots ↔
      p ∈ filesToDelete prior expected ∧ decide1 roots p = .remove p := by
  unfold removals actions
  simp only [List.mem_filterMap, List.mem_map]
  constructor
  · rintro ⟨a, ⟨q, hq, rfl⟩, ha⟩
    have hqp : decide1 roots q = .remove p := by
      cases hd : decide1 roots q <;> simp [hd] at ha
      subst ha; rfl
    have : q = p := by
      unfold decide1 at hqp
      split at hqp
      · cases hqp
      · split at hqp
        · cases hqp; rfl
        · cases hqp
    subst this
    exact ⟨hq, hqp⟩
  · rintro ⟨hq, hd⟩
    exact ⟨.remove p, ⟨p, hq, hd⟩, rfl⟩

theorem decide1_remove_iff (roots : List Bytes) (p : Bytes) :
    decide1 roots p = .remove p ↔
      (roots = [] ∨ (isSep (firstChar p) = true ∧ ∃ r ∈ roots, under r p = true)) := by
  unfold decide1
  by_cases hr : roots = []
  · subst hr; simp
  · have hpos : 0 < roots.length := List.length_pos_iff.2 hr
    have hne : (roots.length == 0) = false := by simp [hr]
    by_cases hf : isSep (firstChar p) = true
    · by_cases hany : roots.any (fun r => pathIsPrefixedByPath p r) = true
      · have hex : ∃ r' ∈ roots, under r' p = true := by
          obtain ⟨r', hr', h⟩ := List.any_eq_true.1 hany
          exact ⟨r', hr', by rw [← C14_prefix_iff]; exact h⟩
        simp only [hf, hany, hne]
        simp [hex]
      · have hex : ¬ ∃ r' ∈ roots, under r' p = true := by
          rintro ⟨r', hr', h⟩
          exact hany (List.any_eq_true.2 ⟨r', hr', by rw [C14_prefix_iff]; exact h⟩)
        have hany' : roots.any (fun r => pathIsPrefixedByPath p r) = false := by simpa using hany
        simp only [hf, hany', hne]
        simp [hr, hex]
    · have hf' : isSep (firstChar p) = false := by simpa using hf
      simp [hf', hr, hpos]

/-- Safety and completeness of the tool's decision, for every triple of lists:
a path is removed **iff** it was listed by the previous run, is not listed now,
and (when roots are configured) is absolute and lies at or beneath a root. -/
theorem C14_removes_exactly (prior expected roots : List Bytes) (p : Bytes) :
    p ∈ removals prior expected roots ↔
      (p ∈ prior ∧ p ∉ expected) ∧
      (roots = [] ∨ (isSep (firstChar p) = true ∧ ∃ r ∈ roots, under r p = true)) := by
  rw [mem_removals, C14_set_difference, decide1_remove_iff]

/-! Non-vacuity: concrete triples exercising each clause. -/

-- "/foo/" covers "/foo/bar" (the pre-repair counterexample), "/foo" and "/foo/"; not "/foobar".
example : pathIsPrefixedByPath [47,102,111,111,47,98,97,114] [47,102,111,111,47] = true := by decide
example : pathIsPrefixedByPath [47,102,111,111] [47,102,111,111,47] = true := by decide
example : pathIsPrefixedByPath [47,102,111,111,98,97,114] [47,102,111,111,47] = false := by decide
example : pathIsPrefixedByPath [47,102,111,111,98,97,114] [47,102,111,111] = false := by decide
example : pathIsPrefixedByPath [47,120] [47] = true := by decide
-- prior = ["/r/a", "/r/b", "/o/c", "r/d"], expected = ["/r/b"], roots = ["/r/"]  ⇒ removes exactly "/r/a"
example : removals [[47,114,47,97],[47,114,47,98],[47,111,47,99],[114,47,100]] [[47,114,47,98]] [[47,114,47]]
    = [[47,114,47,97]] := by decide

end LLBuild.StalePath
