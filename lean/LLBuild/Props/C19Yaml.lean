/-
C19 (build-description clause) — "… and for every well-formed YAML document of any shape given as a build description,
loading terminates, reads no memory outside the supplied buffer, and reports problems only through its error callbacks."

The theorems are about `LLBuild.BuildFileLoader.load` (Model/BuildFileLoader.lean), the transliteration of
`BuildFileImpl` of lib/BuildSystem/BuildFile.cpp, for ALL node trees (all shapes: any node kind anywhere, any keys in
any order, any depth, any number of documents) and ALL delegates (every answer of the `BuildFileDelegate` and of the
tools / nodes / commands it creates is a universally quantified function of an arbitrary delegate state).
The model is tied to the real loader on every run by the `yamlmodel` stream of vlib/props/c19.py.

  terminates                         C19_yaml_loader_total (total function, structural recursion, ≤ #nodes + 2 events),
                                     C19_yaml_depth_irrelevant (never looks below depth 4: deep nesting is inert)
  reads no memory outside the buffer C19_yaml_error_token_in_tree (every token it hands out is the source range of a node
                                     of the tree the YAML parser built; the parser itself is trusted), C19_yaml_no_crash
  problems only through callbacks    C19_yaml_null_implies_error (+ the negation of the unconditional statement, and the
                                     strongest unconditional `_partial`), C19_yaml_error_classes,
                                     C19_yaml_recoverable_classes
  what the loader enforces           C19_yaml_section_order, C19_yaml_unknown_key_reported, C19_yaml_duplicate_reported,
                                     C19_yaml_duplicates_silently_accepted, C19_yaml_delegate_protocol
-/
import LLBuild.Lemmas.BuildFileLoader

namespace LLBuild.BuildFileLoader

/-! ### concrete documents and delegates for the non-vacuity examples -/

/-- every answer is "yes" -/
def okDelegate : Delegate Unit where
  configureClient s _ _ _ := (⟨true, []⟩, s)
  lookupTool s _ := (true, s)
  toolAttr s _ _ _ := (⟨true, []⟩, s)
  createCommand s _ _ := (true, s)
  createNode s _ _ := s
  nodeAttr s _ _ _ := (⟨true, []⟩, s)
  cmdInputs s _ _ := ([], s)
  cmdOutputs s _ _ := ([], s)
  cmdDescription s _ _ := ([], s)
  cmdAttr s _ _ _ := (⟨true, []⟩, s)
  loadedTarget s _ _ := s
  loadedDefaultTarget s _ := s
  loadedCommand s _ := s
  cmdInfo _ _ := ⟨[], false, false⟩
  nodeVirtual _ _ := false
  cmdOrder l := l

/-- like `okDelegate`, but `Tool::configureAttribute` returns false WITHOUT calling `ctx.error` -/
def silentDelegate : Delegate Unit := { okDelegate with toolAttr := fun s _ _ _ => (⟨false, []⟩, s) }

/-- like `okDelegate`, but every `configureAttribute` reports "no" through its context and returns false -/
def strictDelegate : Delegate Unit :=
  { okDelegate with
    toolAttr := fun s _ _ _ => (⟨false, [[110, 111]]⟩, s)
    nodeAttr := fun s _ _ _ => (⟨false, [[110, 111]]⟩, s)
    cmdAttr := fun s _ _ _ => (⟨false, [[110, 111]]⟩, s) }

/-- `client: {name: a}` -/
def clientEntry : YNode × YNode := (.scalar kClient, .mapping [(.scalar kName, .scalar [97])])

/-- `client: {name: a}  tools: {t: {x: y}}  targets: {"": [n]}  default: ""  nodes: {n: {}}
    commands: {c: {tool: t, inputs: [n], outputs: [o]}}` -/
def docValid : YNode := .mapping [clientEntry,
  (.scalar kTools, .mapping [(.scalar [116], .mapping [(.scalar [120], .scalar [121])])]),
  (.scalar kTargets, .mapping [(.scalar [], .sequence [.scalar [110]])]),
  (.scalar kDefault, .scalar []),
  (.scalar kNodes, .mapping [(.scalar [110], .mapping [])]),
  (.scalar kCommands, .mapping [(.scalar [99], .mapping [(.scalar kTool, .scalar [116]),
    (.scalar kInputs, .sequence [.scalar [110]]), (.scalar kOutputs, .sequence [.scalar [111]])])])]

/-- `client: {name: a}  tools: {t: {x: y}}` -/
def docTool : YNode := .mapping [clientEntry,
  (.scalar kTools, .mapping [(.scalar [116], .mapping [(.scalar [120], .scalar [121])])])]

/-- `client: {name: a, version: x}  targets: {[k]: [n], t: [n, *a], t: []}  commands: {c: {tool: t}, c: {tool: t}, d: {}, e: {x: y}}`:
six recoverable errors, and a description is returned -/
def docRecoverable : YNode := .mapping [
  (.scalar kClient, .mapping [(.scalar kName, .scalar [97]), (.scalar kVersion, .scalar [120])]),
  (.scalar kTargets, .mapping [(.sequence [.scalar [107]], .sequence [.scalar [110]]),
    (.scalar [116], .sequence [.scalar [110], .other .alias]), (.scalar [116], .sequence [])]),
  (.scalar kCommands, .mapping [(.scalar [99], .mapping [(.scalar kTool, .scalar [116])]),
    (.scalar [99], .mapping [(.scalar kTool, .scalar [116])]), (.scalar [100], .mapping []),
    (.scalar [101], .mapping [(.scalar [120], .scalar [121])])])]

/-- `client: {name: a}  targets: {}  extra: {}  commands: {}` (an unknown key at entry 2) -/
def docUnknownKey : YNode := .mapping [clientEntry, (.scalar kTargets, .mapping []), (.scalar [101, 120], .mapping []),
  (.scalar kCommands, .mapping [])]

/-- `client: {name: a}  targets: {}  targets: {}` -/
def docDuplicateSection : YNode := .mapping [clientEntry, (.scalar kTargets, .mapping []), (.scalar kTargets, .mapping [])]

/-- `client: {name: a}  commands: {}  targets: {}` -/
def docMisordered : YNode := .mapping [clientEntry, (.scalar kCommands, .mapping []), (.scalar kTargets, .mapping [])]

/-- `client: {name: a, name: b}  tools: {t: {x: y}, t: {x: z}}  targets: {t: [n], t: [m]}  nodes: {n: {}, n: {}}
    commands: {c: {tool: t, inputs: [n], inputs: [m], k: v, k: w}}` -/
def docSilentDuplicates : YNode := .mapping [
  (.scalar kClient, .mapping [(.scalar kName, .scalar [97]), (.scalar kName, .scalar [98])]),
  (.scalar kTools, .mapping [(.scalar [116], .mapping [(.scalar [120], .scalar [121])]),
    (.scalar [116], .mapping [(.scalar [120], .scalar [122])])]),
  (.scalar kTargets, .mapping [(.scalar [116], .sequence [.scalar [110]]), (.scalar [116], .sequence [.scalar [109]])]),
  (.scalar kNodes, .mapping [(.scalar [110], .mapping []), (.scalar [110], .mapping [])]),
  (.scalar kCommands, .mapping [(.scalar [99], .mapping [(.scalar kTool, .scalar [116]),
    (.scalar kInputs, .sequence [.scalar [110]]), (.scalar kInputs, .sequence [.scalar [109]]),
    (.scalar [107], .scalar [118]), (.scalar [107], .scalar [119])])])]

/-! ### terminates -/

/-- **loading terminates**: `load` is a total function defined by structural recursion over the lists of entries of the
node tree (no fuel, no well-founded recursion: the C++ has only iterator loops, each of which advances on every path),
and the number of delegate calls plus error callbacks is at most the number of nodes of the stream plus two. -/
theorem C19_yaml_loader_total {σ : Type} (d : Delegate σ) (input : Option (List (Option YNode))) (s : σ) :
    ∃ o : Outcome σ, load d input s = o ∧ o.trace.length ≤ streamSize (input.getD []) + 2 :=
  ⟨_, rfl, load_len d input s⟩

example : (load okDelegate (some [some docValid]) ()).trace.length = 12 ∧ streamSize [some docValid] = 34 := by decide

/-- **deep nesting is inert**: emptying every collection at depth ≥ 4 of every document changes neither the calls, nor
the errors, nor the result.  (This is why the correspondence harness may stop printing the tree at depth 6.) -/
theorem C19_yaml_depth_irrelevant {σ : Type} (d : Delegate σ) (docs : List (Option YNode)) (s : σ) (n : Nat) :
    load d (some (docs.map (Option.map (cut (n + 4))))) s = load d (some docs) s :=
  load_cut d docs s n

example : cut 4 (.mapping [(.scalar [1], .sequence [.mapping [(.scalar [2], .sequence [.sequence [.scalar [3]]])]])]) =
    .mapping [(.scalar [1], .sequence [.mapping [(.scalar [2], .sequence [.sequence []])]])] := by
  simp [cut]

/-! ### reads no memory outside the supplied buffer -/

/-- **every token lies inside the tree**: the token of every error callback — and of every `ConfigureContext` handed to a
tool / node / command, hence of every error they report through it — is either absent (`BuildFileToken{nullptr, 0}`:
only "unable to open" and "missing document") or the source range of a node (or key/value pair) of the tree the YAML
parser built for this buffer. -/
theorem C19_yaml_error_token_in_tree {σ : Type} (d : Delegate σ) (input : Option (List (Option YNode))) (s : σ) :
    ∀ e ∈ (load d input s).trace, e.loc.valid (input.getD []) = true :=
  load_locs d input s

example : Event.error .trailingSection (at0 [.entry 2]) ∈ (load okDelegate (some [some docUnknownKey]) ()).trace ∧
    (at0 [.entry 2]).valid [some docUnknownKey] = true ∧ (at0 [.entry 4]).valid [some docUnknownKey] = false := by decide

/-- **no null dereference on well-formed streams**: the one place where `load()` dereferences a pointer the parser may
have left null (`it->getRoot()` of an additional document) is reached only if that document has no root, which the
parser produces only for input it rejects. -/
theorem C19_yaml_no_crash {σ : Type} (d : Delegate σ) (docs : List (Option YNode)) (s : σ)
    (hwf : ∀ r ∈ docs, r ≠ none) : (load d (some docs) s).result ≠ .crash := by
  unfold load
  split
  · simp
  · simp
  · simp
  · rename_i root more heq
    simp only [Option.some.injEq] at heq
    cases hok : (parseRoot d root s {}).ok
    · simp [hok]
    · simp only [hok, Bool.not_true, Bool.false_eq_true, if_false]
      cases more with
      | nil => simp only []; split <;> (try split) <;> simp
      | cons r2 rest =>
        cases r2 with
        | none => exact absurd rfl (hwf none (by simp [heq]))
        | some t => simp

example : (load okDelegate (some [some docTool, none]) ()).result = .crash := by decide

/-! ### reports problems only through its error callbacks -/

/-- **a failed load has reported a problem**, for every delegate that follows the discipline of all in-tree tools, nodes
and commands (`configureAttribute` returns false only after `ctx.error`): if `load()` returns null, at least one problem
reached the client through `delegate.error` (directly, or through a `ConfigureContext`) or through
`cannotLoadDueToMultipleProducers`. -/
theorem C19_yaml_null_implies_error {σ : Type} (d : Delegate σ) (hd : d.Reports) (input : Option (List (Option YNode))) (s : σ)
    (h : (load d input s).result = .null) : ∃ e ∈ (load d input s).trace, e.reports = true := by
  obtain ⟨m', hrun, hdead⟩ := load_monitor d input s
  obtain ⟨pre, e, htr, hf, _⟩ := MS.run_dead_last hrun rfl (hdead.mpr h)
  have hmem : e ∈ (load d input s).trace := by rw [htr]; simp
  have hh := load_honest d input s e hmem
  refine ⟨e, hmem, ?_⟩
  cases e <;> simp_all [Event.fatal, Event.reports, Event.honest]
  · obtain ⟨s', rfl⟩ := hh; exact hd.1 _ _ _ _ hf
  · obtain ⟨s', rfl⟩ := hh; exact hd.2.1 _ _ _ _ hf
  · obtain ⟨s', rfl⟩ := hh; exact hd.2.2 _ _ _ _ hf

example : strictDelegate.Reports ∧ (load strictDelegate (some [some docTool]) ()).result = .null ∧
    (load strictDelegate (some [some docTool]) ()).trace.any Event.reports = true := by
  refine ⟨⟨?_, ?_, ?_⟩, by decide, by decide⟩ <;> intro s t a v _ <;> simp [strictDelegate]

/-- the same statement for ALL delegates -/
def C19_yaml_null_implies_error_full : Prop :=
  ∀ (σ : Type) (d : Delegate σ) (input : Option (List (Option YNode))) (s : σ),
    (load d input s).result = .null → ∃ e ∈ (load d input s).trace, e.reports = true

/-- … is FALSE: after a `configureAttribute` that returns false the loader returns false without reporting anything
itself, so a tool that fails silently makes `load()` return null with no problem reported
(witness: `client: {name: a}  tools: {t: {x: y}}` with such a tool; replayed on the real loader, notes/C19YAML.md). -/
theorem C19_yaml_null_implies_error_full_false : ¬ C19_yaml_null_implies_error_full := by
  intro h
  have := h Unit silentDelegate (some [some docTool]) () (by decide)
  revert this
  decide

/-- the strongest statement that holds for all delegates: a null result comes with a reported problem, or the LAST event
is a `configureAttribute` call that answered false without reporting. -/
theorem C19_yaml_null_implies_error_partial {σ : Type} (d : Delegate σ) (input : Option (List (Option YNode))) (s : σ)
    (h : (load d input s).result = .null) :
    (∃ e ∈ (load d input s).trace, e.reports = true) ∨
    (∃ e, (load d input s).trace.getLast? = some e ∧ e.silentFailure = true) := by
  obtain ⟨m', hrun, hdead⟩ := load_monitor d input s
  obtain ⟨pre, e, htr, hf, _⟩ := MS.run_dead_last hrun rfl (hdead.mpr h)
  have hmem : e ∈ (load d input s).trace := by rw [htr]; simp
  have hlast : (load d input s).trace.getLast? = some e := by rw [htr]; simp
  cases hr : e.reports
  · right
    refine ⟨e, hlast, ?_⟩
    cases e <;> simp_all [Event.fatal, Event.reports, Event.silentFailure]
  · exact Or.inl ⟨e, hmem, hr⟩

example : (load silentDelegate (some [some docTool]) ()).result = .null ∧
    (load silentDelegate (some [some docTool]) ()).trace.getLast? = some (.toolAttr [116] [120] (.str [121]) (at0 [.val 1, .val 0, .key 0]) ⟨false, []⟩) := by
  decide

/-- **which problems are recoverable**: a description is returned iff no event is fatal; the result is null iff the LAST
event is fatal (and then no earlier one is) — fatal = an error of a fatal class (`Msg.fatal`), a `configureAttribute`
that answered false, or the verdict of the ownership analysis; errors of every other class leave the load running. -/
theorem C19_yaml_error_classes {σ : Type} (d : Delegate σ) (input : Option (List (Option YNode))) (s : σ) :
    (∀ desc, (load d input s).result = .description desc → ∀ e ∈ (load d input s).trace, e.fatal = false) ∧
    ((load d input s).result = .null ↔
      ∃ pre e, (load d input s).trace = pre ++ [e] ∧ e.fatal = true ∧ ∀ x ∈ pre, x.fatal = false) ∧
    ((load d input s).result = .crash → ∀ e ∈ (load d input s).trace, e.fatal = false) := by
  obtain ⟨m', hrun, hdead⟩ := load_monitor d input s
  have halive : (load d input s).result ≠ .null → ∀ e ∈ (load d input s).trace, e.fatal = false := by
    intro hne
    have : m'.dead = false := by
      cases hd : m'.dead
      · rfl
      · exact absurd (hdead.mp hd) hne
    exact MS.run_alive_nofatal hrun rfl this
  refine ⟨fun desc h => halive (by rw [h]; simp), ⟨fun h => MS.run_dead_last hrun rfl (hdead.mpr h), ?_⟩,
    fun h => halive (by rw [h]; simp)⟩
  rintro ⟨pre, e, htr, hf, _⟩
  apply hdead.mp
  rw [MS.run_dead_iff hrun rfl, htr]
  simp [hf]

/-- the recoverable error classes, by name (every `error(...)` of BuildFile.cpp that is followed by `continue`, plus the
version number of the client section) -/
theorem C19_yaml_recoverable_classes (m : Msg) :
    m.fatal = false ↔
      m = .clientVersion ∨ (∃ s, m = .entryKeyType s) ∨ (∃ s, m = .entryValueType s) ∨ (∃ s, m = .attrKeyType s) ∨
      (∃ s a, m = .attrMapKeyType s a) ∨ (∃ s a, m = .attrMapValueType s a) ∨ (∃ s, m = .attrValueType s) ∨
      m = .targetNodeType ∨ m = .duplicateCommand ∨ m = .missingToolKey ∨ m = .expectedToolKey ∨ m = .toolValueType ∨
      (∃ k, m = .ioValueType k) ∨ (∃ k, m = .ioNodeType k) := by
  cases m <;> simp [Msg.fatal]

example : (load okDelegate (some [some docRecoverable]) ()).result = .description ⟨[[116]], [[116], [116]], [], [[110]], [[99]]⟩ ∧
    ((load okDelegate (some [some docRecoverable]) ()).trace.filter fun e => match e with | .error _ _ => true | _ => false) =
      [.error .clientVersion (at0 [.val 0, .val 1]), .error (.entryKeyType .targets) (at0 [.val 1, .key 0]),
       .error .targetNodeType (at0 [.val 1, .val 1, .item 1]), .error .duplicateCommand (at0 [.val 2, .key 1]),
       .error .missingToolKey (at0 [.val 2, .key 2]), .error .expectedToolKey (at0 [.val 2, .val 3, .key 0])] := by
  decide

/-! ### what the loader really enforces of the document -/

/-- **section order**: a description is returned only for a stream of exactly one document whose root is a mapping that
starts with the key `client` (a scalar) with a mapping value, followed by entries whose keys are — each at most once and
in this order — `tools`, `targets`, `default`, `nodes`, `commands` (scalars), with mapping values (`default`: a scalar
value); nothing else may appear at the top level.  Every section but `client` is optional. -/
theorem C19_yaml_section_order {σ : Type} (d : Delegate σ) (input : Option (List (Option YNode))) (s : σ) (desc : Desc)
    (h : (load d input s).result = .description desc) :
    ∃ ces rest, input = some [some (.mapping ((.scalar kClient, .mapping ces) :: rest))] ∧
      keysInOrder allSecs rest = true ∧
      List.Sublist (rest.map (·.1)) [.scalar kTools, .scalar kTargets, .scalar kDefault, .scalar kNodes, .scalar kCommands] ∧
      (rest.map (·.1)).Nodup := by
  obtain ⟨root, rfl, hok⟩ := load_description_ok d input s h
  obtain ⟨ces, rest, rfl, hk⟩ := parseRoot_ok_shape d root s {} hok
  have hsub := keysInOrder_sublist allSecs rest hk
  exact ⟨ces, rest, rfl, hk, hsub, hsub.nodup sectionKeys_nodup⟩

example : (load okDelegate (some [some docValid]) ()).result = .description ⟨[[116]], [[]], [], [[111], [110]], [[99]]⟩ ∧
    (load okDelegate (some [some docMisordered]) ()).result = .null ∧
    (load okDelegate (some [some (.mapping [clientEntry])]) ()).result = .description ⟨[], [], [], [], []⟩ := by
  decide

/-- **an unknown / repeated / misplaced top-level key** (`firstBad … = some j`: entry `j` is the first whose key is not
the scalar name of a section that may still come): the load fails, and its LAST event is the error
"unexpected trailing top-level section" pointing at exactly that entry — unless the `client` section or an optional
section BEFORE entry `j` failed first, in which case the last event is that section's fatal event (located inside
entry `k < j`).  Nothing behind entry `j` is looked at; sections before it have already been loaded (their delegate
calls precede the error). -/
theorem C19_yaml_unknown_key_reported {σ : Type} (d : Delegate σ) (ces rest : List (YNode × YNode)) (more : List (Option YNode))
    (s : σ) (j : Nat) (hb : firstBad allSecs 1 rest = some j) :
    (load d (some (some (.mapping ((.scalar kClient, .mapping ces) :: rest)) :: more)) s).result = .null ∧
    ∃ e, (load d (some (some (.mapping ((.scalar kClient, .mapping ces) :: rest)) :: more)) s).trace.getLast? = some e ∧
      e.fatal = true ∧
      (e = .error .trailingSection (at0 [.entry j]) ∨ ∃ k q, k < j ∧ e.loc = at0 (.val k :: q)) := by
  obtain ⟨hok, e, hlast, hf, hloc⟩ := parseRoot_firstBad d ces rest s {} hb
  rw [load_of_root_fail d _ more s hok]
  refine ⟨rfl, e, ?_, hf, hloc⟩
  show (Event.setBuffer :: _).getLast? = some e
  rw [List.getLast?_cons, hlast]; rfl

example : firstBad allSecs 1 (docUnknownKey.child (.val 0) |>.map (fun _ => [(YNode.scalar kTargets, YNode.mapping []),
      (.scalar [101, 120], .mapping []), (.scalar kCommands, .mapping [])]) |>.getD []) = some 2 ∧
    (load okDelegate (some [some docUnknownKey]) ()).trace.getLast? = some (.error .trailingSection (at0 [.entry 2])) := by
  decide

/-- **duplicates that are reported**: (1) a repeated top-level section makes the load fail (by `C19_yaml_section_order`
the keys of a loaded description are pairwise different; the error is the one of `C19_yaml_unknown_key_reported`);
(2) a repeated command name gets the recoverable error "duplicate command in 'commands' map" at its key, the entry is
skipped — no delegate call, no state change — and the loop goes on. -/
theorem C19_yaml_duplicate_reported {σ : Type} (d : Delegate σ) :
    (∀ (ces rest : List (YNode × YNode)) (s : σ) (desc : Desc),
      (load d (some [some (.mapping ((.scalar kClient, .mapping ces) :: rest))]) s).result = .description desc →
        (rest.map (·.1)).Nodup) ∧
    (∀ (p : Path) (i : Nat) (name : Bytes) (attrs rest : List (YNode × YNode)) (s : σ) (ls : LS), name ∈ ls.cmds →
      parseCommands d p i ((.scalar name, .mapping attrs) :: rest) s ls =
        (parseCommands d p (i + 1) rest s ls).pre [.error .duplicateCommand (at0 (p ++ [.key i]))]) := by
  constructor
  · intro ces rest s desc h
    obtain ⟨ces', rest', heq, _, _, hnd⟩ := C19_yaml_section_order d _ s desc h
    simp only [Option.some.injEq, List.cons.injEq, and_true, YNode.mapping.injEq, Prod.mk.injEq, true_and] at heq
    rw [heq.2]; exact hnd
  · intro p i name attrs rest s ls h
    exact parseCommands_duplicate d p i name attrs rest s ls (by simpa using h)

example : (load okDelegate (some [some docDuplicateSection]) ()).result = .null ∧
    (load okDelegate (some [some docDuplicateSection]) ()).trace.getLast? = some (.error .trailingSection (at0 [.entry 2])) := by
  decide

/-- **duplicates that are silently accepted** (witness `docSilentDuplicates`): a repeated key of the `client` map (the
last `name` wins; both are passed on as properties), a repeated tool (configured twice), a repeated target (both
announced, the second replaces the first), a repeated node (configured twice), a repeated `inputs` key and a repeated
attribute of a command (the callee is called twice) produce NO error and a description is returned. -/
theorem C19_yaml_duplicates_silently_accepted :
    (load okDelegate (some [some docSilentDuplicates]) ()).result =
      .description ⟨[[116]], [[116], [116]], [], [[109], [110]], [[99]]⟩ ∧
    ((load okDelegate (some [some docSilentDuplicates]) ()).trace.all fun e => !e.reports) = true ∧
    (load okDelegate (some [some docSilentDuplicates]) ()).trace =
      [.setBuffer,
       .configureClient [98] 0 [([110, 97, 109, 101], [97]), ([110, 97, 109, 101], [98])] (at0 [.val 0]) ⟨true, []⟩,
       .lookupTool [116] true,
       .toolAttr [116] [120] (.str [121]) (at0 [.val 1, .val 0, .key 0]) ⟨true, []⟩,
       .toolAttr [116] [120] (.str [122]) (at0 [.val 1, .val 1, .key 0]) ⟨true, []⟩,
       .createNode [110] true, .loadedTarget [116] [[110]], .createNode [109] true, .loadedTarget [116] [[109]],
       .createCommand [116] [99] true,
       .cmdInputs [99] [[110]] (at0 [.val 4, .val 0, .key 1]) [], .cmdInputs [99] [[109]] (at0 [.val 4, .val 0, .key 2]) [],
       .cmdAttr [99] [107] (.str [118]) (at0 [.val 4, .val 0, .key 3]) ⟨true, []⟩,
       .cmdAttr [99] [107] (.str [119]) (at0 [.val 4, .val 0, .key 4]) ⟨true, []⟩,
       .loadedCommand [99]] := by
  decide

/-- **delegate protocol**: the trace of every load is accepted by the monitor `MS` (Model/BuildFileLoader.lean); spelled out:
`configureClient` is called at most once; every other call of the delegate and of its tools / nodes / commands comes
after a `configureClient` that answered true (in particular before any `lookupTool`); `Tool::createCommand` and
`Tool::configureAttribute` are only called on a tool that an earlier `lookupTool` returned; every `loadedCommand` (and
every `Command::configure…`) is preceded by the `createCommand` that returned this command, itself preceded by the
`lookupTool` of its tool; and NOTHING is called after the first fatal event. -/
theorem C19_yaml_delegate_protocol {σ : Type} (d : Delegate σ) (input : Option (List (Option YNode))) (s : σ) :
    (∃ m', MS.run {} (load d input s).trace = some m') ∧
    (load d input s).trace.countP Event.isConfigureClient ≤ 1 ∧
    (∀ pre e post, (load d input s).trace = pre ++ e :: post → e.sectionLevel = true →
      ∃ n v pr loc ans, Event.configureClient n v pr loc ans ∈ pre ∧ ans.ok = true) ∧
    (∀ pre tool c made post, (load d input s).trace = pre ++ .createCommand tool c made :: post →
      Event.lookupTool tool true ∈ pre) ∧
    (∀ pre tool a v loc ans post, (load d input s).trace = pre ++ .toolAttr tool a v loc ans :: post →
      Event.lookupTool tool true ∈ pre) ∧
    (∀ pre c post, (load d input s).trace = pre ++ .loadedCommand c :: post →
      ∃ tool, Event.createCommand tool c true ∈ pre ∧ Event.lookupTool tool true ∈ pre) ∧
    (∀ pre e post, (load d input s).trace = pre ++ e :: post → e.fatal = true → post = []) := by
  obtain ⟨m', hrun, _⟩ := load_monitor d input s
  refine ⟨⟨m', hrun⟩, by simpa using MS.run_client_once hrun, ?_, ?_, ?_, ?_, ?_⟩
  · intro pre e post ht he; exact accepted_sectionLevel hrun ht he
  · intro pre tool c made post ht; exact accepted_tool hrun ht (Or.inl ⟨c, made, rfl⟩)
  · intro pre tool a v loc ans post ht; exact accepted_tool hrun ht (Or.inr ⟨a, v, loc, ans, rfl⟩)
  · intro pre c post ht; exact accepted_command hrun ht (Or.inl rfl)
  · intro pre e post ht hf; rw [ht] at hrun; exact MS.run_fatal_last hrun hf

example : (load okDelegate (some [some docValid]) ()).trace =
    [.setBuffer, .configureClient [97] 0 [([110, 97, 109, 101], [97])] (at0 [.val 0]) ⟨true, []⟩, .lookupTool [116] true,
     .toolAttr [116] [120] (.str [121]) (at0 [.val 1, .val 0, .key 0]) ⟨true, []⟩, .createNode [110] true,
     .loadedTarget [] [[110]], .loadedDefaultTarget [], .createCommand [116] [99] true,
     .cmdInputs [99] [[110]] (at0 [.val 5, .val 0, .key 1]) [], .createNode [111] true,
     .cmdOutputs [99] [[111]] (at0 [.val 5, .val 0, .key 2]) [], .loadedCommand [99]] := by decide

end LLBuild.BuildFileLoader
