/-
C08 / C10 / C11 for the EXTENDED BuildSystem client (`Model/BuildSystemClientX.lean`): shell commands with discovered
dependencies (`deps:` files) and with a failure of their own (non-zero exit status).

C08  "For a build description whose commands are deterministic functions of their declared AND DISCOVERED inputs ... a
      successful build leaves every output ... with exactly the contents ... of a clean build."
C11  "Dependencies discovered while a command runs are honoured on later builds ... If a command reports ... that it
      read path P, then any later observable change to P ... re-executes the command ... a malformed dependency file
      fails the command."
C10  "When a command fails ... no command that directly or transitively consumes its outputs is executed in that
      build ... the recorded result is never treated as up to date: the next build re-attempts it ..."

Props/C08.lean, C10Client.lean prove these for `client H d`, whose commands report no discovered dependencies and
never fail by themselves; Props/C11Engine.lean proves the C11 clause for the abstract engine and an arbitrary program.
Here the same engine theorems (C01_value / C01_value_unique / C01_inputs, C11_discovered_change_not_up_to_date, the
FailureClient theorems of Props/C10Engine.lean, C01_value_gen) are instantiated for `clientX H dx`.

Hypotheses, all explicit:
* `dx.discsAreSources = true` (decidable): every path a command can report as discovered is a source file of the
  description (no producer, not virtual).  Needed for `Program.WF.disc_self`; without it the engine-level statement
  fails (`NeedDiscsAreSources`), and the real tool shows the same on a generated header (notes/C08X.md).
* `pendingDropped = false`: the ghost flag of known finding F22 (a failed build ended while discovered dependencies
  were still to be brought up to date) — inherited from C01; it could be discharged for `client` (no discovered
  dependencies) and cannot be for `clientX`.
* generations only: hash non-collision, `ProducerStable` (as in Props/C08Gen.lean) and `BehaviourStable`: a command whose
  definition (command line = `salt`, inputs, outputs, `deps`, `deps-style`) is unchanged behaves the same.
-/
import LLBuild.Props.C08
import LLBuild.Props.C08Gen
import LLBuild.Props.C10Client
import LLBuild.Props.C11Engine
import LLBuild.Lemmas.BuildSystemClientX

set_option linter.unusedVariables false

namespace LLBuild.BuildSystemClient
open LLBuild.Engine
open LLBuild.Generated.BuildSystemRules

theorem self_rule {H : List Nat → Nat} {dx : DescX} {k : Key} (hs : (clientX H dx).self k = true) :
    ruleOf dx.base k = .fileInputNodeTask := by
  have hs' : (ruleOf dx.base k == .fileInputNodeTask) = true := hs
  simpa using hs'

/-! ## C08 -/

/-- **C08X_client_WF.**  The extended rule set satisfies the hypotheses of the engine theorem for every description
whose discovered paths are sources: a command's value depends on the external state only at the keys it reports
(the discovered files it reads), discovered keys are input rules (file-input nodes), the rest as `C08_client_WF`. -/
theorem C08X_client_WF (H : List Nat → Nat) (dx : DescX) (hS : dx.discsAreSources = true) : (clientX H dx).WF := by
  have hB := C08_client_WF H dx.base
  constructor
  · intro k env env' recv hd hs
    show outOfX dx k env recv = outOfX dx k env' recv
    by_cases hr : ruleOf dx.base k = .commandTask
    · rw [outOfX_command hr, outOfX_command hr]
      apply cmdOutX_env
      intro d hdm
      apply hd
      show d ∈ discOfX dx k recv
      rw [discOfX_command hr]; exact hdm
    · rw [outOfX_of_ne hr, outOfX_of_ne hr]
      exact hB.out_local k env env' recv (by intro d hd'; cases hd') hs
  · intro k env v hs hv
    have hr := self_rule hs
    show v = outOfX dx k env []
    rw [outOfX_of_ne (by rw [hr]; decide)]
    exact hB.self_valid k env v hs hv
  · intro k recv hs; exact hB.self_noreq k recv hs
  · intro k recv hs
    have hr := self_rule hs
    show discOfX dx k recv = []
    exact discOfX_of_ne (by rw [hr]; decide) recv
  · intro k recv d hd
    show (ruleOf dx.base d == .fileInputNodeTask) = true
    rw [disc_is_source hS hd]; rfl
  · intro d env env' hs ho
    have hr := self_rule hs
    have ho' : outOfX dx d env [] = outOfX dx d env' [] := ho
    rw [outOfX_of_ne (by rw [hr]; decide), outOfX_of_ne (by rw [hr]; decide)] at ho'
    exact hB.self_inj d env env' hs ho'

/-- **C08X_client_Det.**  The requests of the extended client are the base client's: a fixed list with distinct ids,
so `Clean` is single-valued (`C01_value_unique` applies). -/
theorem C08X_client_Det (H : List Nat → Nat) (dx : DescX) : (clientX H dx).Det := clientX_Det H dx

/-- `Clean` is functional for the extended client and `cleanEvalX` (the evaluator the driver mode `c08xclean` runs)
computes it -/
theorem C08X_clean_is_eval (H : List Nat → Nat) (dx : DescX) (env : Env) (f : Nat) (k : Key) (v w : Val)
    (h : Clean (clientX H dx) env k v) (he : cleanEvalX dx env f k = some w) : v = w :=
  clean_is_evalX H dx env f k v w h he

/-- **C08X_incremental_equals_clean.**  C08 on the model, commands with discovered dependencies and own failures
included: after ANY accepted history (source and header edits, output tampering, builds of any key, restarts, failed
builds) a successful build returns the clean value — the one value a brand-new engine computes in the current
file-system state, which is what `cleanEvalX` evaluates. -/
theorem C08X_incremental_equals_clean (H : List Nat → Nat) (dx : DescX) (hS : dx.discsAreSources = true)
    {evs : List Event} {s s' : St} {v : Val}
    (hrun : run (clientX H dx) {} evs = some s) (hret : step (clientX H dx) s (.ret v) = some s')
    (hnd : s'.pendingDropped = false)
    (hok : s.cancelled = false ∧ s.cycleSeen = false ∧ s.errSeen = false) :
    ∃ root, s.target = some root ∧ Clean (clientX H dx) s.env root v ∧
      (∀ w, Clean (clientX H dx) s.env root w → w = v) ∧
      ∀ f w, cleanEvalX dx s.env f root = some w → v = w := by
  obtain ⟨root, ht, hc, hu⟩ := C01_value_unique (C08X_client_WF H dx hS) (C08X_client_Det H dx) hrun hret hnd hok
  exact ⟨root, ht, hc, hu, fun f w he => clean_is_evalX H dx s.env f root v w hc he⟩

/-- every value handed to a task in any build (a command's declared inputs, a node's producer, a target's nodes) is
the clean value in the current state (`C01_inputs`) -/
theorem C08X_inputs_current (H : List Nat → Nat) (dx : DescX) (hS : dx.discsAreSources = true)
    {evs : List Event} {s s' : St} {k : Key} {id : Nat} {key : Key} {v : Val} {reqs : List Req}
    (hrun : run (clientX H dx) {} evs = some s) (hnd : s.pendingDropped = false)
    (hprov : step (clientX H dx) s (.provide k id key v reqs) = some s') :
    Clean (clientX H dx) s.env key v ∧ ∀ f w, cleanEvalX dx s.env f key = some w → v = w := by
  have hc := C01_inputs (C08X_client_WF H dx hS) hrun hnd hprov
  exact ⟨hc, fun f w he => clean_is_evalX H dx s.env f key v w hc he⟩

/-- **C08X_extends_client.**  Nothing of the base model changed: with no extension the extended client has the base
client's tasks (requests, discovered keys, result function, validity, force, input rules). -/
theorem C08X_extends_client (H : List Nat → Nat) (d : Desc) :
    (clientX H { base := d }).next = (client H d).next ∧ (clientX H { base := d }).disc = (client H d).disc ∧
    (clientX H { base := d }).out = (client H d).out ∧ (clientX H { base := d }).valid = (client H d).valid ∧
    (clientX H { base := d }).force = (client H d).force ∧ (clientX H { base := d }).self = (client H d).self := by
  have hx : ∀ c, (DescX.cmdX { base := d } c) = ({} : CmdX) := fun c => by simp [DescX.cmdX]
  refine ⟨rfl, ?_, ?_, rfl, rfl, rfl⟩
  · funext k recv
    show discOfX { base := d } k recv = []
    unfold discOfX
    cases hr : ruleOf d k <;> simp only []
    rw [hx, cmdDiscX_trivial]
  · funext k env recv
    show outOfX { base := d } k env recv = outOf d k env recv
    by_cases hr : ruleOf d k = .commandTask
    · rw [outOfX_command (dx := { base := d }) hr, hx, cmdOutX_trivial]
      unfold outOf
      simp only [hr]
    · exact outOfX_of_ne (dx := { base := d }) hr env recv

/-! ## C11 — discovered dependencies of the BuildSystem client -/

theorem source_rule {d : Desc} {p : Nat} (h1 : d.producers p = []) (h2 : d.isVirtual p = false) :
    ruleOf d (nodeKey p) = .fileInputNodeTask := (C08_rule_dispatch d p).1 h1 h2

theorem outX_source (H : List Nat → Nat) (dx : DescX) {d : Key} (hr : ruleOf dx.base d = .fileInputNodeTask)
    (env : Env) (recv : Recv) : (clientX H dx).out d env recv = fileValue (env d) := by
  rw [clientX_out, outOfX_of_ne (by rw [hr]; decide)]
  unfold outOf
  simp only [hr]

/-- **C11_client_honoured.**  "Dependencies discovered while a command runs are honoured on later builds": the last
completed execution of command `c` reported the path `p` as a discovered dependency while `p`'s file information
gave the value `v` (the engine's record of that execution, `s.mem.disc`).  If `p`'s file information gives another
value now — the header was edited, created or deleted —, NO accepted history declares `c` up to date: `upToDate` is
refused, a scan of `c` can only end in `needs` (the command is re-executed).  Safety form, as the engine theorem
`C11_discovered_change_not_up_to_date`, of which this is the instance for the BuildSystem's rule set. -/
theorem C11_client_honoured (H : List Nat → Nat) (dx : DescX) (hS : dx.discsAreSources = true)
    {evs : List Event} {s : St} (hrun : run (clientX H dx) {} evs = some s) (hnd : s.pendingDropped = false)
    {c p : Nat} {v : Val} (hsrc : dx.base.producers p = [] ∧ dx.base.isVirtual p = false)
    (hd : (nodeKey p, v) ∈ s.mem.disc (cmdKey c)) (hchg : fileValue (s.env (nodeKey p)) ≠ v) :
    step (clientX H dx) s (.upToDate (cmdKey c)) = none := by
  refine C11_discovered_change_not_up_to_date (C08X_client_WF H dx hS) hrun hnd hd ?_
  rw [outX_source H dx (source_rule hsrc.1 hsrc.2)]
  exact hchg

/-- **C11_client_discovered_recorded.**  The positive half: when the engine persists the result of an execution of a
rule (event `finished`, the row written to the database), the dependency list of the row is the task's requests
followed by EXACTLY the keys the execution reported as discovered (`discOfX`: for a shell command the paths its
dependency files list, in order), and the engine's record of the execution pairs each of them with the file
information it has at that moment — the value `C11_client_honoured` compares later states with. -/
theorem C11_client_discovered_recorded (H : List Nat → Nat) (dx : DescX) (hS : dx.discsAreSources = true)
    {evs : List Event} {s s' : St} (hrun : run (clientX H dx) {} evs = some s) (hnd : s.pendingDropped = false)
    {k : Key} {row : Res} (hfin : step (clientX H dx) s (.finished k row) = some s') :
    row.deps.drop (s.task k).issued.length = discDeps (discOfX dx k (recvOf (s.task k).seq)) ∧
    (s'.mem.res k).deps = row.deps ∧
    s'.mem.disc k = (discOfX dx k (recvOf (s.task k).seq)).map (fun d => (d, fileValue (s.env d))) := by
  have hW := C08X_client_WF H dx hS
  have hi := reach_inv hW hrun hnd
  simp only [step] at hfin
  split at hfin
  · rename_i hc
    simp only [Bool.and_eq_true, beq_iff_eq] at hc
    obtain ⟨⟨⟨⟨⟨⟨⟨⟨⟨hst, hstarted⟩, _⟩, _⟩, _⟩, _⟩, _⟩, _⟩, _⟩, hdrop⟩ := hc
    have hinf : inflight s k = true := by simp [inflight, hst]
    have htask := hi.taskOk k hinf hstarted
    have hdiscs : (s.task k).discs = discOfX dx k (recvOf (s.task k).seq) := (htask.computing hst).2.1
    cases hfin
    refine ⟨?_, ?_, ?_⟩
    · rw [← hdiscs]; exact hdrop
    · simp [upd]
    · simp only [upd_same]
      rw [hdiscs]
      apply List.map_congr_left
      intro d hd
      have hr := disc_is_source hS hd
      rw [outX_source H dx hr]
  · cases hfin

/-- **C11_client_discovered_only_on_success.**  What a shell command hands to the engine, by how its execution ends:
* skipped (a missing / failed input) or the process ended with a non-zero status: NO discovered dependency is
  reported (`commandCompletionFn` returns before `processDiscoveredDependencies`) and the value is the failure value;
* the process exited with 0 but the dependency files could not be processed: the value is the failure value (the keys
  seen up to the error HAVE been reported — the callbacks run during the parse —, next to a value that is never valid);
* hence: discovered dependencies are reported only by an execution whose process exited with 0, and a value other
  than the failure value is stored only when every dependency file was processed;
* the failure value is never accepted as up to date, in any file-system state: nothing stale is trusted. -/
theorem C11_client_discovered_only_on_success (H : List Nat → Nat) (dx : DescX) (k : Key) (env : Env) (recv : Recv)
    (hr : ruleOf dx.base k = .commandTask) (ht : (dx.base.cmd (k / 3)).tool = .shell) :
    ((runX (dx.base.cmd (k / 3)) (dx.cmdX (k / 3)) (getRecv recv)).status ≠ .succeeded →
        (clientX H dx).out k env recv = vFailedCmd) ∧
    ((runX (dx.base.cmd (k / 3)) (dx.cmdX (k / 3)) (getRecv recv)).status = .skipped ∨
      (runX (dx.base.cmd (k / 3)) (dx.cmdX (k / 3)) (getRecv recv)).status = .exitedNonZero →
        (clientX H dx).disc k recv = []) ∧
    ((clientX H dx).disc k recv ≠ [] →
        (dx.cmdX (k / 3)).exitsNonZero (runX (dx.base.cmd (k / 3)) (dx.cmdX (k / 3)) (getRecv recv)).h = false ∧
        (dx.cmdX (k / 3)).depsPaths ≠ []) ∧
    ((clientX H dx).out k env recv ≠ vFailedCmd →
        (runX (dx.base.cmd (k / 3)) (dx.cmdX (k / 3)) (getRecv recv)).status = .succeeded) ∧
    (∀ env', (clientX H dx).valid env' k vFailedCmd = false) := by
  have hout : (clientX H dx).out k env recv =
      cmdOutX (dx.base.cmd (k / 3)) (dx.cmdX (k / 3)) env (getRecv recv) := by rw [clientX_out, outOfX_command hr]
  have hdisc : (clientX H dx).disc k recv =
      ((runX (dx.base.cmd (k / 3)) (dx.cmdX (k / 3)) (getRecv recv)).keys.map nodeKey) := by
    rw [clientX_disc, discOfX_command hr]; unfold cmdDiscX; simp only [ht]
  have hfail : (runX (dx.base.cmd (k / 3)) (dx.cmdX (k / 3)) (getRecv recv)).status ≠ .succeeded →
      (clientX H dx).out k env recv = vFailedCmd := by
    intro hne
    rw [hout]; unfold cmdOutX; simp only [ht, hne, if_false]
  refine ⟨hfail, ?_, ?_, ?_, ?_⟩
  · intro hs
    rw [hdisc]
    rcases runX_cases (dx.base.cmd (k / 3)) (dx.cmdX (k / 3)) (getRecv recv) with
      ⟨_, e⟩ | ⟨h, _, _, e⟩ | ⟨h, _, _, _, e⟩ | ⟨h, _, _, _, _, e⟩ | ⟨h, _, _, _, _, e⟩ <;> rw [e] at hs ⊢
    · rfl
    · rfl
    · rfl
    · rcases hs with hs | hs <;> cases hs
    · rcases hs with hs | hs <;> cases hs
  · intro hne
    rw [hdisc] at hne
    rcases runX_cases (dx.base.cmd (k / 3)) (dx.cmdX (k / 3)) (getRecv recv) with
      ⟨_, e⟩ | ⟨h, _, _, e⟩ | ⟨h, _, _, _, e⟩ | ⟨h, _, he, hp, _, e⟩ | ⟨h, _, he, hp, _, e⟩ <;> rw [e] at hne ⊢
    · exact absurd rfl hne
    · exact absurd rfl hne
    · exact absurd rfl hne
    · exact ⟨he, hp⟩
    · exact ⟨he, hp⟩
  · intro hne
    by_cases hs : (runX (dx.base.cmd (k / 3)) (dx.cmdX (k / 3)) (getRecv recv)).status = .succeeded
    · exact hs
    · exact absurd (hfail hs) hne
  · intro env'
    rw [clientX_valid]
    apply badOf_invalid
    have := ruleOf_command hr
    simp [badOf, this]

/-- **C11_client_missing_depsfile_fails.**  As the code behaves (`ShellCommand::processDiscoveredDependencies`): for a
shell command with a `deps:` attribute whose process exited with 0,
(1) no `deps-style`: the command FAILS and reports nothing;
(2) the first dependency file that cannot be opened ("unable to open dependencies file") or does not parse — the files
    in front of it being fine — makes the command FAIL (`makeFailedCommand`); the keys of the files in front of it and
    the keys seen in it before the error have been handed to the engine;
(3) conversely, when every file is readable and well-formed the command succeeds, it has reported the keys of EVERY
    file, in order, and its value is computed from the contents of exactly these files. -/
theorem C11_client_missing_depsfile_fails (H : List Nat → Nat) (dx : DescX) (k : Key) (env : Env) (recv : Recv)
    (hr : ruleOf dx.base k = .commandTask) (ht : (dx.base.cmd (k / 3)).tool = .shell) {h : Nat}
    (hfold : foldInputs (dx.base.cmd (k / 3)) (getRecv recv) (List.range (dx.base.cmd (k / 3)).inputs.length)
      (dx.base.cmd (k / 3)).salt = some h)
    (hexit : (dx.cmdX (k / 3)).exitsNonZero h = false) (hdeps : (dx.cmdX (k / 3)).depsPaths ≠ []) :
    ((dx.cmdX (k / 3)).depsStyle = 0 →
      (clientX H dx).out k env recv = vFailedCmd ∧ (clientX H dx).disc k recv = []) ∧
    (∀ pre f post, (dx.cmdX (k / 3)).depsStyle ≠ 0 → (dx.cmdX (k / 3)).filesAt h = pre ++ f :: post →
      (∀ g ∈ pre, ∃ ks, g = .parsed ks true) → (f = .unreadable ∨ ∃ ks, f = .parsed ks false) →
      (clientX H dx).out k env recv = vFailedCmd ∧
      (clientX H dx).disc k recv = (pre.flatMap DepsFile.keys ++ f.keys).map nodeKey) ∧
    ((dx.cmdX (k / 3)).depsStyle ≠ 0 → (∀ g ∈ (dx.cmdX (k / 3)).filesAt h, ∃ ks, g = .parsed ks true) →
      (clientX H dx).out k env recv = successValue (dx.base.cmd (k / 3))
        (readDiscovered env h (((dx.cmdX (k / 3)).filesAt h).flatMap DepsFile.keys)) ∧
      (clientX H dx).disc k recv = (((dx.cmdX (k / 3)).filesAt h).flatMap DepsFile.keys).map nodeKey) := by
  have hne : (dx.cmdX (k / 3)).depsPaths.isEmpty = false := by
    cases hq : (dx.cmdX (k / 3)).depsPaths with
    | nil => exact absurd hq hdeps
    | cons a l => rfl
  have hrun : runX (dx.base.cmd (k / 3)) (dx.cmdX (k / 3)) (getRecv recv) =
      ⟨if ((dx.cmdX (k / 3)).discovered h).2 then .succeeded else .depsFailed, h, ((dx.cmdX (k / 3)).discovered h).1⟩ := by
    unfold runX
    rw [hfold]
    simp only [hexit, hne, Bool.false_eq_true, if_false]
  have hout : (clientX H dx).out k env recv =
      cmdOutX (dx.base.cmd (k / 3)) (dx.cmdX (k / 3)) env (getRecv recv) := by rw [clientX_out, outOfX_command hr]
  have hdisc : (clientX H dx).disc k recv =
      ((runX (dx.base.cmd (k / 3)) (dx.cmdX (k / 3)) (getRecv recv)).keys.map nodeKey) := by
    rw [clientX_disc, discOfX_command hr]; unfold cmdDiscX; simp only [ht]
  rw [hout, hdisc]
  unfold cmdOutX
  simp only [ht, hrun]
  refine ⟨?_, ?_, ?_⟩
  · intro h0
    simp [CmdX.discovered, h0]
  · intro pre f post h0 hfs hpre hf
    have := processDeps_bad pre f post hpre hf
    simp [CmdX.discovered, h0, hfs, this]
  · intro h0 hall
    have := processDeps_good _ hall
    simp [CmdX.discovered, h0, this]

/-- **C11_client_keys_are_parsed_keys.**  The tie between the two halves of C11 inside Lean: the abstract dependency files
the client model consumes are what the byte-level parser models of Props/C11.lean yield.  For every `deps:` list given
by the files' contents (`none` = cannot be opened) and every style, the loop of the client model run on
`absDepsFile` of the files reports exactly the keys `ShellDeps.discoveredKeys` computes (the paths the files list,
resolved against the working directory — `C11_roundtrip_file_discovered` —, up to and including the first bad file)
and returns what `ShellDeps.processDiscoveredDependencies` returns (`C11_malformed_fails`). -/
theorem C11_client_keys_are_parsed_keys (style : ShellDeps.DepsStyle) (hst : style ≠ .unused) (wd : Bytes)
    (idx : Bytes → Nat) : ∀ (fs : List ShellDeps.DepsFile) (ks : List Bytes) (b : Bool),
    ShellDeps.discoveredKeys style wd fs = .ok ks → ShellDeps.processDiscoveredDependencies style fs = .ok b →
    processDeps (fs.map (absDepsFile style wd idx)) = (ks.map idx, b)
  | [], ks, b, hk, hb => by
    simp only [ShellDeps.discoveredKeys, ShellDeps.processDiscoveredDependencies, hst, if_false] at hk hb
    cases hk; cases hb
    rfl
  | f :: fs, ks, b, hk, hb => by
    unfold ShellDeps.discoveredKeys at hk
    unfold ShellDeps.processDiscoveredDependencies at hb
    simp only [hst, if_false] at hk hb
    cases f with
    | none =>
      simp only [ShellDeps.processFile, ShellDeps.fileKeys] at hk hb
      cases hk; cases hb
      simp [absDepsFile, processDeps]
    | some c =>
      simp only [List.map_cons, absDepsFile]
      cases hp : ShellDeps.processFile style (some c) with
      | error e => rw [hp] at hb; cases hb
      | ok pb =>
        cases hq : ShellDeps.fileKeys style wd (some c) with
        | error e => rw [hp, hq] at hk; cases pb <;> cases hk
        | ok ks0 =>
          rw [hp, hq] at hk
          rw [hp] at hb
          cases pb with
          | false =>
            simp only [] at hk hb
            cases hk; cases hb
            simp [processDeps]
          | true =>
            simp only [] at hk hb
            cases hrest : ShellDeps.discoveredKeys style wd fs with
            | error e => rw [hrest] at hk; cases hk
            | ok ks1 =>
              rw [hrest] at hk
              simp only [MakeDeps.mapOk] at hk
              cases hk
              have ih := C11_client_keys_are_parsed_keys style hst wd idx fs ks1 b hrest hb
              simp [processDeps, ih]

/-- `o: h` + newline under working directory `/w` (Makefile style): one key, the resolved path `/w/h`, no error; the same
bytes without the colon: no key, an error -/
example : absDepsFile .makefile [0x2f, 0x77] List.length (some [0x6f, 0x3a, 0x20, 0x68, 0x0a]) = .parsed [4] true ∧
    absDepsFile .makefile [0x2f, 0x77] List.length (some [0x6f, 0x20, 0x68, 0x0a]) = .parsed [] false ∧
    absDepsFile .makefile [0x2f, 0x77] List.length none = .unreadable := by decide +kernel

/-! ## C10 — a command that fails by itself -/

theorem badOf_propagatesX (H : List Nat → Nat) (dx : DescX) (env : Env) (k : Key) (seq : Seq) (q : Req) (v : Val)
    (hv : validSeq (clientX H dx) k seq = true) (hm : (q, v) ∈ seq) (hk : q.kind = 0)
    (hc : carriesOf dx.base k q.key = true) (hb : badOf q.key v = true) :
    badOf k ((clientX H dx).out k env (recvOf seq)) = true := by
  by_cases hr : ruleOf dx.base k = .commandTask
  · have hs : ∀ recv, (clientX H dx).next k recv = nextOf dx.base k := fun _ => rfl
    have hq : q ∈ nextOf dx.base k := validSeq_mem hs hv hm
    have hk1 := ruleOf_command hr
    have hsym : (dx.base.cmd (k / 3)).tool ≠ .symlink := by
      intro e
      have hq' := hq
      simp only [nextOf, hr, e, if_true] at hq'
      rw [mem_reqsFrom_kind hq'] at hk; cases hk
    have hL : nextOf dx.base k = reqsFrom 0 0 (dx.base.cmd (k / 3)).inputs := by simp [nextOf, hr, hsym]
    rw [hL] at hq
    have hs' : ∀ recv, (clientX H dx).next k recv = reqsFrom 0 0 (dx.base.cmd (k / 3)).inputs :=
      fun r => by rw [hs r, hL]
    obtain ⟨j, n, hjn, hqe⟩ := mem_reqsFrom.1 hq
    have hget := delivered_recv hs' hv hm hk (fun q' hq' hid => reqsFrom_id_inj hq hq' hid)
    have hv4 : v = vFailedInput := by
      have hkey : q.key % 3 = 0 := by rw [hqe]; exact (nodeKey_md n).1
      unfold badOf at hb
      simp only [hkey, Bool.or_eq_true, Bool.and_eq_true, beq_iff_eq] at hb
      rcases hb with ⟨_, h⟩ | ⟨h, _⟩
      · exact h
      · cases h
    have hid : q.id = j := by rw [hqe]; simp
    have hlt : j < (dx.base.cmd (k / 3)).inputs.length := by
      rcases List.getElem?_eq_some_iff.1 hjn with ⟨h, _⟩; exact h
    rw [hid, hv4] at hget
    rw [clientX_out, outOfX_command hr, cmdOutX_failed _ _ _ _ hlt hget hsym]
    simp [badOf, hk1]
  · have hv' : validSeq (client H dx.base) k seq = true := by
      rw [← validSeq_congr (P := clientX H dx) (P' := client H dx.base) rfl seq]; exact hv
    have := badOf_propagates H dx.base env k seq q v hv' hm hk hc hb
    rw [client_out] at this
    rw [clientX_out, outOfX_of_ne hr]
    exact this

/-- **C10X_client_failure.**  The extended rule set has the two failure facts of `Engine.FailureClient`, for every
description: the failure value of a command (its own failure, a dependency-file failure, or the skip value) and
`FailedInput` of a node are never valid; a rule handed one of them over a data edge completes with one of them. -/
def C10X_client_failure (H : List Nat → Nat) (dx : DescX) : FailureClient (clientX H dx) where
  bad := badOf
  carries := carriesOf dx.base
  bad_invalid := badOf_invalid dx.base
  bad_propagates := badOf_propagatesX H dx

/-- the static closure of the data edges of a description: `k` consumes `src` directly or transitively through
value-carrying requests (a command over its declared inputs, a produced node over its producer; not the ordering-only
edges: a symlink command's inputs, a phony command's virtual output, a target's nodes) -/
inductive DataDown (dx : DescX) (src : Key) : Key → Prop
  | here : DataDown dx src src
  | step (k : Key) (q : Req) : q ∈ nextOf dx.base k → q.kind = 0 → carriesOf dx.base k q.key = true →
      DataDown dx src q.key → DataDown dx src k

/-- a shell command whose process exits with a non-zero status on the clean values of its declared inputs (or whose
dependency files cannot be processed) has the failure value as its only clean value -/
theorem own_failure_clean (H : List Nat → Nat) (dx : DescX) (env : Env) {c f : Nat} {r : Run}
    (hc : c < dx.base.cmds.length) (ht : (dx.base.cmd c).tool = .shell)
    (hr : cleanRunX dx env f c = some r) (hs : r.status ≠ .succeeded)
    {w : Val} (hw : Clean (clientX H dx) env (cmdKey c) w) : w = vFailedCmd := by
  obtain ⟨seq, hv, hcm, hin, rfl⟩ := clean_inv hw
  have hrule : ruleOf dx.base (cmdKey c) = .commandTask := (C08_rule_dispatch dx.base c).2.2.2.1 hc
  have h3 : cmdKey c / 3 = c := (cmdKey_md c).2
  have hsym : (dx.base.cmd (cmdKey c / 3)).tool ≠ .symlink := by rw [h3, ht]; decide
  have hrun := clean_runX H dx env f (cmdKey c) seq r hrule hsym hv hcm hin (by rw [h3]; exact hr)
  rw [clientX_out, outOfX_command hrule]
  unfold cmdOutX
  rw [h3] at hrun ⊢
  simp only [ht, hrun, hs, if_false]

theorem dataDown_clean_bad (H : List Nat → Nat) (dx : DescX) (env : Env) {src k : Key}
    (hsrc : ∀ w, Clean (clientX H dx) env src w → badOf src w = true) (hd : DataDown dx src k) :
    ∀ w, Clean (clientX H dx) env k w → badOf k w = true := by
  induction hd with
  | here => exact hsrc
  | step k q hq hk hc _ ih =>
    intro w hw
    obtain ⟨seq, hv, hcm, hin, rfl⟩ := clean_inv hw
    have hs : ∀ recv, (clientX H dx).next k recv = nextOf dx.base k := fun _ => rfl
    obtain ⟨x, hx⟩ := complete_delivered hs hcm hq hk
    exact badOf_propagatesX H dx env k seq q x hv hx hk hc (ih x (hin q x hx hk))

/-- **C10X_own_failure_never_feeds_dependents.**  "When a command fails ... no command that directly or transitively
consumes its outputs is executed in that build": let `c` be a shell command whose process, run on the clean values of
its declared inputs in the current file-system state, exits with a non-zero status (`exitsNonZero`).  Then in every
accepted history, for every key `k` that consumes `c` directly or transitively through explicit inputs (`DataDown`:
the nodes `c` produces, the commands that declare them as inputs, their outputs, ...):
every clean value of `k` is a failure value — `FailedInput` for a node, the skip value of `execute` (never a
SuccessfulCommand computed from the failed output) for a command —; whenever `k` is complete in the running build
the value it holds is one; every value the engine hands to any task for `k` is one; and `c` itself holds
`vFailedCmd` (`makeFailedCommand`).  ("Not executed" is stated on values, as in Props/C10Engine.lean: the `Program` shape has
no process event; that the skip value is produced before `commandStarted` is `C10_failed_input_skips`.) -/
theorem C10X_own_failure_never_feeds_dependents (H : List Nat → Nat) (dx : DescX) (hS : dx.discsAreSources = true)
    {evs : List Event} {s : St} (hrun : run (clientX H dx) {} evs = some s) (hnd : s.pendingDropped = false)
    {c f : Nat} {r : Run} (hc : c < dx.base.cmds.length) (ht : (dx.base.cmd c).tool = .shell)
    (hr : cleanRunX dx s.env f c = some r) (hs : r.status = .exitedNonZero)
    {k : Key} (hdown : DataDown dx (cmdKey c) k) :
    (∀ w, Clean (clientX H dx) s.env (cmdKey c) w → w = vFailedCmd) ∧
    (∀ w, Clean (clientX H dx) s.env k w → badOf k w = true) ∧
    (s.status k = .done → badOf k (s.mem.res k).value = true) ∧
    (∀ t id v reqs s', step (clientX H dx) s (.provide t id k v reqs) = some s' → badOf k v = true) := by
  have hW := C08X_client_WF H dx hS
  have hne : r.status ≠ .succeeded := by rw [hs]; decide
  have hown : ∀ w, Clean (clientX H dx) s.env (cmdKey c) w → w = vFailedCmd :=
    fun w hw => own_failure_clean H dx s.env hc ht hr hne hw
  have hsrc : ∀ w, Clean (clientX H dx) s.env (cmdKey c) w → badOf (cmdKey c) w = true := by
    intro w hw
    rw [hown w hw]
    simp [badOf, (cmdKey_md c).1]
  have hall := dataDown_clean_bad H dx s.env hsrc hdown
  refine ⟨hown, hall, ?_, ?_⟩
  · intro hdone
    exact hall _ ((reach_inv hW hrun hnd).clean k hdone)
  · intro t id v reqs s' hprov
    exact hall _ (C01_inputs hW hrun hnd hprov)

/-- **C10X_own_failure_retried.**  "The recorded result is never treated as up to date: the next build re-attempts
it": in every accepted history (no hypothesis on the description, none on the F22 flag), while the value stored for
a rule is a failure value (`vFailedCmd` of a command that exited non-zero, whose dependency files were bad, or that
was skipped; `FailedInput` of a node): the engine cannot declare the rule up to date; the only verdict it accepts from
`isResultValid` is "invalid"; the reason it gives for running the rule is never "an input was rebuilt" but
`never built` (0), `signature changed` (1) or `invalid value` (2 — `ExternalCommand::isResultValid`:
`!value.isSuccessfulCommand()`); and once the rule is being scanned, every continuation of that build in which it
becomes complete contains its re-creation (`create`: the command task is run again). -/
theorem C10X_own_failure_retried (H : List Nat → Nat) (dx : DescX) {evs0 : List Event} {s : St} {k : Key}
    (hrun : run (clientX H dx) {} evs0 = some s) (hbad : badOf k (s.mem.res k).value = true) :
    step (clientX H dx) s (.upToDate k) = none ∧
    (∀ v b s', step (clientX H dx) s (.valid k v b) = some s' → b = false) ∧
    (∀ reason input s', step (clientX H dx) s (.needs k reason input) = some s' →
      reason = 0 ∨ reason = 1 ∨ reason = 2) ∧
    (∀ evs s', s.status k = .scanning → run (clientX H dx) s evs = some s' → (∀ e ∈ evs, endsBuild e = false) →
      s'.status k = .done → k ∈ created evs) := by
  refine ⟨?_, ?_, ?_, ?_⟩
  · cases h : step (clientX H dx) s (.upToDate k) with
    | none => rfl
    | some s' =>
      have h2 : badOf k (s.mem.res k).value = false :=
        C10_failed_never_up_to_date_any_client (C10X_client_failure H dx) hrun h
      rw [h2] at hbad; cases hbad
  · intro v b s' h
    exact C10_failed_verdict_invalid (C10X_client_failure H dx) h hbad
  · intro reason input s' h
    simp only [step] at h
    split at h
    · rename_i hc
      simp only [Bool.and_eq_true, beq_iff_eq] at hc
      obtain ⟨hst, hok⟩ := hc
      unfold needsOk at hok
      split at hok
      · exact Or.inl rfl
      · exact Or.inr (Or.inl rfl)
      · exact Or.inr (Or.inr rfl)
      · exfalso
        simp only [Bool.and_eq_true, beq_iff_eq] at hok
        have hv := (reach_vinv hrun).validOk k hst hok.1.1.1
        rw [clientX_valid, badOf_invalid dx.base s.env k _ hbad] at hv
        cases hv
      · cases hok
    · cases h
  · intro evs s' hsc hcont hb hdone
    exact C10_failed_is_rerun (C10X_client_failure H dx) evs hrun (Or.inl ⟨hsc, hbad⟩) hcont hb hdone

/-! ## description edits (program generations) -/

/-- "the behaviour of a command line is a function of the command line": a shell command whose definition — the `Cmd`
record (tool, inputs, outputs, arguments = `salt`, ...) and the `deps` / `deps-style` attributes — is the same in two
descriptions exits and writes its dependency files in the same way in both -/
def BehaviourStable (dxs : Nat → DescX) : Prop :=
  ∀ g g' c, (dxs g).base.cmd c = (dxs g').base.cmd c →
    ((dxs g).cmdX c).depsPaths = ((dxs g').cmdX c).depsPaths →
    ((dxs g).cmdX c).depsStyle = ((dxs g').cmdX c).depsStyle → (dxs g).cmdX c = (dxs g').cmdX c

/-- **C08X_deps_attribute_in_signature.**  `ShellCommand::getSignature` combines `depsPaths` and `depsStyle` (fixes
F49–F52 of C09 put every attribute that changes what the command does into the signature): equal signature terms
of a command in two descriptions ⇒ the same `deps` list, the same `deps-style`, and the same base term (hence, by
`C08_command_sig_tracks_definition`, the same `Cmd` record).  Editing the `deps` attribute changes the signature. -/
theorem C08X_deps_attribute_in_signature (dx dx' : DescX) (c : Nat) (hc : c < dx.base.cmds.length)
    (hc' : c < dx'.base.cmds.length) (h : sigTermX dx (cmdKey c) = sigTermX dx' (cmdKey c)) :
    (dx.cmdX c).depsPaths = (dx'.cmdX c).depsPaths ∧ (dx.cmdX c).depsStyle = (dx'.cmdX c).depsStyle ∧
    sigTerm dx.base (cmdKey c) = sigTerm dx'.base (cmdKey c) := by
  have h1 := cmdKey_md c
  unfold sigTermX at h
  rw [h1.1, h1.2] at h
  simp only [hc, hc', and_self, if_true, List.cons_append, List.nil_append, List.append_assoc, List.cons.injEq] at h
  obtain ⟨hl, h⟩ := h
  obtain ⟨hp, h⟩ := List.append_inj h hl
  simp only [List.cons.injEq] at h
  exact ⟨hp, h.1, h.2⟩

theorem ruleOf_ne_command {d : Desc} {k : Key} (h : k % 3 ≠ 1) : ruleOf d k ≠ .commandTask :=
  fun e => h (ruleOf_command e)

theorem sigTermX_of_not {dx : DescX} {k : Key} (h : ¬ (k % 3 = 1 ∧ k / 3 < dx.base.cmds.length)) :
    sigTermX dx k = sigTerm dx.base k := by
  unfold sigTermX; simp only [h, if_false]

/-- a rule that is not a command rule in either description: the base client's congruence carries over -/
theorem coversX_transfer (H : List Nat → Nat) {dx dx' : DescX} {k : Key}
    (hne : ruleOf dx.base k ≠ .commandTask) (hne' : ruleOf dx'.base k ≠ .commandTask)
    (hb : (client H dx.base).next k = (client H dx'.base).next k ∧ (client H dx.base).disc k = (client H dx'.base).disc k ∧
      ∀ e r, (client H dx.base).out k e r = (client H dx'.base).out k e r) :
    (clientX H dx).next k = (clientX H dx').next k ∧ (clientX H dx).disc k = (clientX H dx').disc k ∧
      ∀ e r, (clientX H dx).out k e r = (clientX H dx').out k e r := by
  refine ⟨hb.1, ?_, ?_⟩
  · funext recv
    show discOfX dx k recv = discOfX dx' k recv
    rw [discOfX_of_ne hne, discOfX_of_ne hne']
  · intro e r
    show outOfX dx k e r = outOfX dx' k e r
    rw [outOfX_of_ne hne, outOfX_of_ne hne']
    exact hb.2.2 e r

theorem clientX_covers (H : List Nat → Nat) (hH : ∀ a b, H a = H b → a = b) (dxs : Nat → DescX)
    (hP : ProducerStable (fun g => (dxs g).base)) (hB : BehaviourStable dxs)
    (g g' : Nat) (k : Key) (env env' : Env)
    (hT2 : k % 3 = 2 → (dxs g).base.targets = (dxs g').base.targets)
    (h : (clientX H (dxs g)).sig env k = (clientX H (dxs g')).sig env' k) :
    (clientX H (dxs g)).next k = (clientX H (dxs g')).next k ∧ (clientX H (dxs g)).disc k = (clientX H (dxs g')).disc k ∧
      ∀ e r, (clientX H (dxs g)).out k e r = (clientX H (dxs g')).out k e r := by
  have ht : sigTermX (dxs g) k = sigTermX (dxs g') k := hH _ _ h
  have base : sigTerm (dxs g).base k = sigTerm (dxs g').base k →
      (client H (dxs g).base).next k = (client H (dxs g').base).next k ∧
      (client H (dxs g).base).disc k = (client H (dxs g').base).disc k ∧
      ∀ e r, (client H (dxs g).base).out k e r = (client H (dxs g').base).out k e r := fun e =>
    client_covers H hH (fun g => (dxs g).base) hP g g' k env env' hT2 (congrArg H e)
  by_cases hm : k % 3 = 1
  · have hk : cmdKey (k / 3) = k := by
      have := Nat.div_add_mod k 3
      rw [hm] at this
      exact this
    by_cases a : k / 3 < (dxs g).base.cmds.length <;> by_cases b : k / 3 < (dxs g').base.cmds.length
    · -- the command exists in both descriptions
      rw [← hk] at ht
      obtain ⟨hp, hst, hsig⟩ := C08X_deps_attribute_in_signature (dxs g) (dxs g') (k / 3) a b ht
      obtain ⟨_, hcmd⟩ := C08_command_sig_tracks_definition (dxs g).base (dxs g').base (k / 3) hsig
      have hx := hB g g' (k / 3) hcmd hp hst
      have hr : ruleOf (dxs g).base k = .commandTask := by
        rw [← hk]; exact (C08_rule_dispatch (dxs g).base (k / 3)).2.2.2.1 a
      have hr' : ruleOf (dxs g').base k = .commandTask := by
        rw [← hk]; exact (C08_rule_dispatch (dxs g').base (k / 3)).2.2.2.1 b
      refine ⟨?_, ?_, ?_⟩
      · show (fun _ => nextOf (dxs g).base k) = (fun _ => nextOf (dxs g').base k)
        rw [(command_congr hm ⟨fun _ => b, fun _ => a⟩ hcmd).1]
      · funext recv
        show discOfX (dxs g) k recv = discOfX (dxs g') k recv
        rw [discOfX_command hr, discOfX_command hr', hcmd, hx]
      · intro e r
        show outOfX (dxs g) k e r = outOfX (dxs g') k e r
        rw [outOfX_command hr, outOfX_command hr', hcmd, hx]
    · exfalso
      rw [sigTermX_of_not (dx := dxs g') (fun x => b x.2), sigTerm_mod1 _ hm] at ht
      unfold sigTermX at ht
      simp only [hm, a, b, and_self, if_true, if_false, List.cons_append] at ht
      cases ht
    · exfalso
      rw [sigTermX_of_not (dx := dxs g) (fun x => a x.2), sigTerm_mod1 _ hm] at ht
      unfold sigTermX at ht
      simp only [hm, a, b, and_self, if_true, if_false, List.cons_append] at ht
      cases ht
    · rw [sigTermX_of_not (dx := dxs g) (fun x => a x.2), sigTermX_of_not (dx := dxs g') (fun x => b x.2)] at ht
      have hr : ruleOf (dxs g).base k ≠ .commandTask := by
        rw [ruleOf_mod1_eq _ hm]; simp [commandRule, a]
      have hr' : ruleOf (dxs g').base k ≠ .commandTask := by
        rw [ruleOf_mod1_eq _ hm]; simp [commandRule, b]
      exact coversX_transfer H hr hr' (base ht)
  · rw [sigTermX_of_not (dx := dxs g) (fun x => hm x.1), sigTermX_of_not (dx := dxs g') (fun x => hm x.1)] at ht
    exact coversX_transfer H (ruleOf_ne_command hm) (ruleOf_ne_command hm) (base ht)

/-- **C08X_client_SigCoversValid.**  The obligation of the engine theorems over program generations for a sequence of
EXTENDED descriptions: every generation satisfies `Program.WF`, and two generations that give a rule that can accept
a stored value the same (collision-free) signature give it the same requests, the same discovered-dependency
function and the same result function.  So `C01_value_gen` applies to histories in which commands — and their `deps`
/ `deps-style` attributes, which are in the signature — are edited. -/
theorem C08X_client_SigCoversValid (H : List Nat → Nat) (hH : ∀ a b, H a = H b → a = b) (dxs : Nat → DescX)
    (hS : ∀ g, (dxs g).discsAreSources = true) (hP : ProducerStable (fun g => (dxs g).base))
    (hB : BehaviourStable dxs) : SigCoversValid (fun g => clientX H (dxs g)) := by
  refine ⟨fun g => C08X_client_WF H (dxs g) (hS g), ?_⟩
  intro g g' k env env' hv h
  refine clientX_covers H hH dxs hP hB g g' k env env' (fun hm => ?_) h
  obtain ⟨e, v, hval⟩ := hv
  have : validOf (dxs g').base e k v = true := hval
  rw [validOf_target (dxs g').base e hm v] at this
  cases this

/-- **C08X_client_SelfStable.**  File-input nodes read the file system in the same way in every description. -/
theorem C08X_client_SelfStable (H : List Nat → Nat) (dxs : Nat → DescX) : SelfStable (fun g => clientX H (dxs g)) := by
  intro g g' d env hs hs'
  have hr := self_rule hs
  have hr' := self_rule hs'
  show outOfX (dxs g) d env [] = outOfX (dxs g') d env []
  rw [outOfX_of_ne (by rw [hr]; decide), outOfX_of_ne (by rw [hr']; decide)]
  unfold outOf
  simp only [hr, hr']

/-- **C08X_outputs_clean_gen.**  C08 with description edits, discovered dependencies and failing commands: after any
history of file-system changes, description edits (`reprogram`), builds, restarts and crashes, a successful build
returns the one clean value of the CURRENT description in the current file-system state (`cleanEvalX (dxs g)`). -/
theorem C08X_outputs_clean_gen (H : List Nat → Nat) (hH : ∀ a b, H a = H b → a = b) (dxs : Nat → DescX)
    (hS : ∀ g, (dxs g).discsAreSources = true) (hP : ProducerStable (fun g => (dxs g).base))
    (hB : BehaviourStable dxs) {gevs : List GEvent} {g0 : Nat} {s s' : St} {g : Nat} {v : Val}
    (hrun : runG (fun g => clientX H (dxs g)) ({}, g0) gevs = some (s, g))
    (hret : step (clientX H (dxs g)) s (.ret v) = some s') (hnd : s'.pendingDropped = false)
    (hok : s.cancelled = false ∧ s.cycleSeen = false ∧ s.errSeen = false) :
    ∃ root, s.target = some root ∧ Clean (clientX H (dxs g)) s.env root v ∧
      (∀ w, Clean (clientX H (dxs g)) s.env root w → w = v) ∧
      ∀ f w, cleanEvalX (dxs g) s.env f root = some w → v = w := by
  obtain ⟨root, ht, hc, hu⟩ := C01_value_unique_gen (PP := fun g => clientX H (dxs g))
    (C08X_client_SigCoversValid H hH dxs hS hP hB) (C08X_client_SelfStable H dxs) (clientX_Det H (dxs g))
    hrun hret hnd hok
  exact ⟨root, ht, hc, hu, fun f w he => clean_is_evalX H (dxs g) s.env f root v w hc he⟩

/-! ## non-vacuity -/

private def H0 : List Nat → Nat := fun _ => 0
private def row (v c b : Nat) (deps : List Dep) : Res := { value := v, sig := 0, computedAt := c, builtAt := b, deps := deps }
private def dep (k : Key) : Dep := ⟨k, false, false⟩
private def fresh (k : Key) (reqs : List Req) : List Event :=
  [.lookup k, .dbGet k false, .scanning k, .needs k 0 none, .create k, .start k reqs]
private def fin (k : Key) (v : Val) (c b : Nat) (deps : List Dep) : List Event :=
  [.inputsAvail k [], .complete k v false, .finished k (row v c b deps)]
private def rerun (k : Key) (old : Val) (reqs : List Req) : List Event :=
  [.scanning k, .valid k old false, .needs k 2 none, .create k, .start k reqs, .prior k old]

/-! ### a compile-like command discovers a header; the header is edited; rebuild

Node 0 = the source, node 1 = the header (both source files), node 2 = the object.  `C0: 0 -> 2` with
`deps: [d]`, `deps-style: makefile`; the dependency file it writes lists the header.  Keys: 0, 3, 6 (nodes), 1 (`C0`). -/
namespace DiscExample

def c0 : Cmd := { tool := .shell, inputs := [0], outputs := [2], salt := 5 }
def d0 : Desc := { virt := [false, false, false], cmds := [c0], targets := [[2]] }
def dx : DescX :=
  { base := d0, ext := [{ depsPaths := [7], depsStyle := 1, depsElse := [.parsed [1] true] }] }
def v0 : Val := fileValue 11
def v3 : Val := fileValue 21
def v3' : Val := fileValue 22
/-- the command's value / the object, when the header's state is `hdr` -/
def vC (hdr : Nat) : Val := successValue c0 (mix (mix 5 10) hdr)
def v6 (hdr : Nat) : Val := vExisting (mix (mix (mix 5 10) hdr) 0)

example : dx.discsAreSources = true ∧ d0.wf = true := by decide

/-- first build (source content 10, header content 20): `C0` runs, reports the header (`inputsAvail 1 [3]`), the engine
records it behind the declared input (`deps := [0, 3]`) and brings it up to date afterwards; the object file appears -/
def build1 : List Event := [
  .mutate 0 11, .mutate 3 21,
  .buildStart 6, .queueCreated, .dbIter 1,
  .lookup 6, .scanning 6, .needs 6 0 none, .create 6, .start 6 [⟨1, 0, 0⟩],
  .lookup 1, .scanning 1, .needs 1 0 none, .create 1, .start 1 [⟨0, 0, 0⟩],
  .lookup 0, .scanning 0, .needs 0 0 none, .create 0, .start 0 [], .inputsAvail 0 [], .complete 0 v0 false,
  .finished 0 (row v0 1 1 []),
  .provide 1 0 0 v0 [], .inputsAvail 1 [3], .complete 1 (vC 21) false, .lookup 3]
def fin1 : Event := .finished 1 (row (vC 21) 1 1 [dep 0, dep 3])
def build1' : List Event := [
  .scanning 3, .needs 3 0 none, .create 3, .start 3 [], .inputsAvail 3 [], .complete 3 v3 false,
  .finished 3 (row v3 1 1 []),
  .provide 6 0 1 (vC 21) [], .inputsAvail 6 [], .complete 6 (v6 21) false,
  .finished 6 (row (v6 21) 1 1 [dep 1]),
  .ret (v6 21), .dbEnd, .tail 0 0,
  .mutate 6 (mix (mix (mix 5 10) 21) 0 + 1)]

/-- the header is edited; second build up to the scan of `C0`, whose outputs are untouched (`valid 1 … true`) -/
def build2a : List Event := [
  .mutate 3 22,
  .buildStart 6, .queueCreated, .dbIter 2, .scanning 6, .valid 6 (v6 21) true, .scanning 1, .valid 1 (vC 21) true]

/-- ... the rest of it: the header node re-runs, `C0` is re-executed because a (discovered) input was rebuilt
(`needs 1 3 (some 3)`), reports the header again, the object is rewritten -/
def build2b : List Event := [
  .scanning 0, .valid 0 v0 true, .upToDate 0,
  .scanning 3, .valid 3 v3 false, .needs 3 2 none, .create 3, .start 3 [], .prior 3 v3, .inputsAvail 3 [],
  .complete 3 v3' false, .finished 3 (row v3' 2 2 []),
  .needs 1 3 (some 3), .create 1, .start 1 [⟨0, 0, 0⟩], .prior 1 (vC 21), .provide 1 0 0 v0 [], .inputsAvail 1 [3],
  .complete 1 (vC 22) false, .finished 1 (row (vC 22) 2 2 [dep 0, dep 3]),
  .needs 6 3 (some 1), .create 6, .start 6 [⟨1, 0, 0⟩], .prior 6 (v6 21), .provide 6 0 1 (vC 22) [], .inputsAvail 6 [],
  .complete 6 (v6 22) false, .finished 6 (row (v6 22) 2 2 [dep 1])]

/-- hypotheses of `C11_client_honoured` on an accepted history: after the first build and the edit of the header, `C0`
is being scanned with a positive validity verdict, the engine's record says it discovered the header at state 21, the
header's file information is another now -/
theorem ex_scanning : ∃ s, run (clientX H0 dx) {} (build1 ++ [fin1] ++ build1' ++ build2a) = some s ∧
    s.pendingDropped = false ∧ (nodeKey 1, v3) ∈ s.mem.disc (cmdKey 0) ∧ fileValue (s.env (nodeKey 1)) ≠ v3 ∧
    s.status (cmdKey 0) = .scanning ∧ s.validSeen (cmdKey 0) = some true := by
  obtain ⟨s, hs, hp⟩ := run_facts (P := clientX H0 dx) (s0 := {}) (evs := build1 ++ [fin1] ++ build1' ++ build2a)
    (p := fun s => !s.pendingDropped && s.mem.disc (cmdKey 0) == [(nodeKey 1, v3)] &&
      (fileValue (s.env (nodeKey 1)) != v3) && s.status (cmdKey 0) == .scanning && s.validSeen (cmdKey 0) == some true)
    (by decide +kernel)
  simp only [Bool.and_eq_true, beq_iff_eq, Bool.not_eq_eq_eq_not, Bool.not_true, bne_iff_ne] at hp
  obtain ⟨⟨⟨⟨a, b⟩, c⟩, d⟩, e⟩ := hp
  exact ⟨s, hs, a, by rw [b]; simp, c, d, e⟩

/-- ... so the engine cannot declare `C0` up to date there (through the theorem), and indeed the monitor rejects it -/
example : ∃ s, run (clientX H0 dx) {} (build1 ++ [fin1] ++ build1' ++ build2a) = some s ∧
    step (clientX H0 dx) s (.upToDate (cmdKey 0)) = none := by
  obtain ⟨s, hs, hnd, hd, hchg, _, _⟩ := ex_scanning
  exact ⟨s, hs, C11_client_honoured H0 dx (by decide) hs hnd (by decide) hd hchg⟩

example : (run (clientX H0 dx) {} (build1 ++ [fin1] ++ build1' ++ build2a ++ [.upToDate 1])).isNone = true := by
  decide +kernel

/-- the rebuild is accepted and returns the clean value of the new state (hypotheses and conclusion of
`C08X_incremental_equals_clean`: the object now contains the edited header) -/
example : ∃ s s', run (clientX H0 dx) {} (build1 ++ [fin1] ++ build1' ++ build2a ++ build2b) = some s ∧
    step (clientX H0 dx) s (.ret (v6 22)) = some s' ∧ s'.pendingDropped = false ∧
    (s.cancelled = false ∧ s.cycleSeen = false ∧ s.errSeen = false) ∧
    cleanEvalX dx s.env 5 (nodeKey 2) = some (v6 22) ∧ v6 22 ≠ v6 21 := by
  obtain ⟨s, hs, hp⟩ := run_facts (P := clientX H0 dx) (s0 := {}) (evs := build1 ++ [fin1] ++ build1' ++ build2a ++ build2b)
    (p := fun s => !s.cancelled && !s.cycleSeen && !s.errSeen &&
      ((step (clientX H0 dx) s (.ret (v6 22))).map (fun s' => !s'.pendingDropped) == some true) &&
      (cleanEvalX dx s.env 5 (nodeKey 2) == some (v6 22))) (by decide +kernel)
  simp only [Bool.and_eq_true, Bool.not_eq_eq_eq_not, Bool.not_true, beq_iff_eq] at hp
  cases hr : step (clientX H0 dx) s (.ret (v6 22)) with
  | none => rw [hr] at hp; simp at hp
  | some s' =>
    rw [hr] at hp
    exact ⟨s, s', hs, hr, by simpa using hp.1.2, ⟨hp.1.1.1.1, hp.1.1.1.2, hp.1.1.2⟩, hp.2, by decide⟩

/-- `C11_client_discovered_recorded` on the first build: the row the engine persists for `C0` ends with the
discovered header key -/
example : ∃ s s', run (clientX H0 dx) {} build1 = some s ∧ s.pendingDropped = false ∧
    step (clientX H0 dx) s fin1 = some s' ∧ discOfX dx (cmdKey 0) (recvOf (s.task (cmdKey 0)).seq) = [nodeKey 1] := by
  obtain ⟨s, hs, hp⟩ := run_facts (P := clientX H0 dx) (s0 := {}) (evs := build1)
    (p := fun s => !s.pendingDropped && (step (clientX H0 dx) s fin1).isSome &&
      (discOfX dx (cmdKey 0) (recvOf (s.task (cmdKey 0)).seq) == [nodeKey 1])) (by decide +kernel)
  simp only [Bool.and_eq_true, Bool.not_eq_eq_eq_not, Bool.not_true, beq_iff_eq] at hp
  cases hr : step (clientX H0 dx) s fin1 with
  | none => rw [hr] at hp; simp at hp
  | some s' => exact ⟨s, s', hs, hp.1.1, hr, hp.2⟩

/-- a dependency file that cannot be opened, or that is malformed behind its first word: the command fails; in the
second case the key in front of the error has been reported (`C11_client_missing_depsfile_fails`) -/
example :
    let e1 : CmdX := { depsPaths := [7], depsStyle := 1, depsElse := [.unreadable] }
    let e2 : CmdX := { depsPaths := [7, 8], depsStyle := 1, depsElse := [.parsed [1] true, .parsed [4] false] }
    let e3 : CmdX := { depsPaths := [7], depsStyle := 0, depsElse := [.parsed [1] true] }
    let get : Nat → Option Val := fun _ => some (vExisting 10)
    runX c0 e1 get = ⟨.depsFailed, mix 5 10, []⟩ ∧ runX c0 e2 get = ⟨.depsFailed, mix 5 10, [1, 4]⟩ ∧
    runX c0 e3 get = ⟨.depsFailed, mix 5 10, []⟩ ∧ cmdOutX c0 e2 (fun _ => 0) get = vFailedCmd := by decide

end DiscExample

/-! ### a command that fails by itself, with a dependent

`src 0 -> C0 -> 1 -> C1 -> 2`; `C0` exits with a non-zero status when the source's content is 10.  Keys: nodes 0, 3, 6;
commands 1, 4.  Builds of node 2: failing, failing again (nothing changed), after the repair (content 12). -/
namespace OwnFailureExample

def c0 : Cmd := { tool := .shell, inputs := [0], outputs := [1], salt := 5 }
def c1 : Cmd := { tool := .shell, inputs := [1], outputs := [2], salt := 9 }
def d0 : Desc := { virt := [false, false, false], cmds := [c0, c1], targets := [[2]] }
def dx : DescX := { base := d0, ext := [{ exitsNonZero := fun h => h == mix 5 10 }] }
def v0 : Val := fileValue 11
def v0' : Val := fileValue 13
def vC0 : Val := successValue c0 (mix 5 12)
def v3 : Val := vExisting (mix (mix 5 12) 0)
def vC1 : Val := successValue c1 (mix 9 (mix (mix 5 12) 0))
def v6 : Val := vExisting (mix (mix 9 (mix (mix 5 12) 0)) 0)

example : dx.discsAreSources = true := by decide

/-- first build: `C0` fails (value 6 = `makeFailedCommand`), node 1 is FailedInput (4), `C1` is skipped (6), node 2 is
FailedInput -/
def build1 : List Event :=
  [.mutate 0 11, .buildStart 6, .queueCreated, .dbIter 1] ++ fresh 6 [⟨4, 0, 0⟩] ++ fresh 4 [⟨3, 0, 0⟩] ++ fresh 3 [⟨1, 0, 0⟩]
   ++ fresh 1 [⟨0, 0, 0⟩] ++ fresh 0 [] ++ fin 0 v0 1 1 []
   ++ [.provide 1 0 0 v0 []] ++ fin 1 6 1 1 [dep 0]
   ++ [.provide 3 0 1 6 []] ++ fin 3 4 1 1 [dep 1]
   ++ [.provide 4 0 3 4 []] ++ fin 4 6 1 1 [dep 3]
   ++ [.provide 6 0 4 6 []] ++ fin 6 4 1 1 [dep 4]
def build1End : List Event := [.ret 4, .dbEnd, .tail 0 0]
/-- second build, nothing changed, up to the scan of the failed `C0` -/
def build2a : List Event :=
  [.buildStart 6, .queueCreated, .dbIter 2] ++ rerun 6 4 [⟨4, 0, 0⟩] ++ rerun 4 6 [⟨3, 0, 0⟩] ++ rerun 3 4 [⟨1, 0, 0⟩]
   ++ [.scanning 1, .valid 1 6 false]
/-- ... `C0` is re-run with reason 2 (invalid value) and fails again; the dependents are skipped again -/
def build2b : List Event :=
  [.needs 1 2 none, .create 1, .start 1 [⟨0, 0, 0⟩], .prior 1 6, .scanning 0, .valid 0 v0 true, .upToDate 0,
   .provide 1 0 0 v0 []] ++ fin 1 6 1 2 [dep 0]
   ++ [.provide 3 0 1 6 []] ++ fin 3 4 1 2 [dep 1]
   ++ [.provide 4 0 3 4 []] ++ fin 4 6 1 2 [dep 3]
   ++ [.provide 6 0 4 6 []] ++ fin 6 4 1 2 [dep 4]
def build2c : List Event := [.ret 4, .dbEnd, .tail 0 0]
/-- the cause is removed (content 12): everything is re-run and succeeds -/
def build3 : List Event :=
  [.mutate 0 13, .buildStart 6, .queueCreated, .dbIter 3] ++ rerun 6 4 [⟨4, 0, 0⟩] ++ rerun 4 6 [⟨3, 0, 0⟩] ++ rerun 3 4 [⟨1, 0, 0⟩]
   ++ rerun 1 6 [⟨0, 0, 0⟩] ++ rerun 0 v0 [] ++ fin 0 v0' 3 3 []
   ++ [.provide 1 0 0 v0' []] ++ fin 1 vC0 3 3 [dep 0]
   ++ [.provide 3 0 1 vC0 []] ++ fin 3 v3 3 3 [dep 1]
   ++ [.provide 4 0 3 v3 []] ++ fin 4 vC1 3 3 [dep 3]
   ++ [.provide 6 0 4 vC1 []] ++ fin 6 v6 3 3 [dep 4]

/-- `C1` (key 4) consumes `C0` (key 1) through node 1 (key 3) -/
theorem ex_down : DataDown dx (cmdKey 0) (cmdKey 1) :=
  DataDown.step (cmdKey 1) ⟨nodeKey 1, 0, 0⟩ (by decide) rfl (by decide)
    (DataDown.step (nodeKey 1) ⟨cmdKey 0, 0, 0⟩ (by decide) rfl (by decide) DataDown.here)

/-- hypotheses of `C10X_own_failure_never_feeds_dependents` at the end of the first build's work: `C0`'s process exits
non-zero on the clean value of its input, `C1` is complete — the theorem gives that `C1` holds the skip value -/
example : ∃ s, run (clientX H0 dx) {} build1 = some s ∧ badOf (cmdKey 1) (s.mem.res (cmdKey 1)).value = true := by
  obtain ⟨s, hs, hp⟩ := run_facts (P := clientX H0 dx) (s0 := {}) (evs := build1)
    (p := fun s => !s.pendingDropped && s.status (cmdKey 1) == .done &&
      (cleanRunX dx s.env 3 0 == some ⟨.exitedNonZero, mix 5 10, []⟩)) (by decide +kernel)
  simp only [Bool.and_eq_true, beq_iff_eq, Bool.not_eq_eq_eq_not, Bool.not_true] at hp
  exact ⟨s, hs, (C10X_own_failure_never_feeds_dependents H0 dx (by decide) hs hp.1.1 (c := 0) (by decide) (by decide)
    hp.2 rfl ex_down).2.2.1 hp.1.2⟩

/-- hypotheses of `C10X_own_failure_retried` in the second build: `C0` is being scanned, its stored value is the failure
value -/
theorem ex_scanning_failed : ∃ s, run (clientX H0 dx) {} (build1 ++ build1End ++ build2a) = some s ∧
    s.status (cmdKey 0) = .scanning ∧ badOf (cmdKey 0) (s.mem.res (cmdKey 0)).value = true := by
  obtain ⟨s, hs, hp⟩ := run_facts (P := clientX H0 dx) (s0 := {}) (evs := build1 ++ build1End ++ build2a)
    (p := fun s => s.status (cmdKey 0) == .scanning && badOf (cmdKey 0) (s.mem.res (cmdKey 0)).value) (by decide +kernel)
  simp only [Bool.and_eq_true, beq_iff_eq] at hp
  exact ⟨s, hs, hp.1, hp.2⟩

/-- ... the theorem applied: `upToDate` is rejected there, and the continuation in which `C0` completes contains its
re-creation -/
example : (∃ s, run (clientX H0 dx) {} (build1 ++ build1End ++ build2a) = some s ∧
      step (clientX H0 dx) s (.upToDate (cmdKey 0)) = none) ∧ cmdKey 0 ∈ created build2b := by
  obtain ⟨s, hs, hsc, hb⟩ := ex_scanning_failed
  obtain ⟨s', hs', hp⟩ := run_facts (P := clientX H0 dx) (s0 := {})
    (evs := (build1 ++ build1End ++ build2a) ++ build2b) (p := fun s => s.status (cmdKey 0) == .done) (by decide +kernel)
  rw [run_append_some hs] at hs'
  have h := C10X_own_failure_retried H0 dx hs hb
  exact ⟨⟨s, hs, h.1⟩, h.2.2.2 build2b s' hsc hs' (by decide) (by simpa using hp)⟩

/-- after the repair the build converges: `C08X_incremental_equals_clean` applies at `ret v6`, the clean value -/
example : ∃ s s', run (clientX H0 dx) {} (build1 ++ build1End ++ build2a ++ build2b ++ build2c ++ build3) = some s ∧
    step (clientX H0 dx) s (.ret v6) = some s' ∧ s'.pendingDropped = false ∧
    (s.cancelled = false ∧ s.cycleSeen = false ∧ s.errSeen = false) ∧
    cleanEvalX dx s.env 6 (nodeKey 2) = some v6 := by
  obtain ⟨s, hs, hp⟩ := run_facts (P := clientX H0 dx) (s0 := {})
    (evs := build1 ++ build1End ++ build2a ++ build2b ++ build2c ++ build3)
    (p := fun s => !s.cancelled && !s.cycleSeen && !s.errSeen &&
      ((step (clientX H0 dx) s (.ret v6)).map (fun s' => !s'.pendingDropped) == some true) &&
      (cleanEvalX dx s.env 6 (nodeKey 2) == some v6)) (by decide +kernel)
  simp only [Bool.and_eq_true, Bool.not_eq_eq_eq_not, Bool.not_true, beq_iff_eq] at hp
  cases hr : step (clientX H0 dx) s (.ret v6) with
  | none => rw [hr] at hp; simp at hp
  | some s' =>
    rw [hr] at hp
    exact ⟨s, s', hs, hr, by simpa using hp.1.2, ⟨hp.1.1.1.1, hp.1.1.1.2, hp.1.1.2⟩, hp.2⟩

end OwnFailureExample

/-! ### what goes wrong without `DiscsAreSources`

`C0: 0 -> 1` produces a header (node 1); `C1: 2 -> 3` reports node 1 as a discovered dependency.  Keys: nodes 0, 3, 6, 9;
commands 1, 4. -/
namespace NeedDiscsAreSources

def c0 : Cmd := { tool := .shell, inputs := [0], outputs := [1], salt := 5 }
def c1 : Cmd := { tool := .shell, inputs := [2], outputs := [3], salt := 9 }
def d0 : Desc := { virt := [false, false, false, false], cmds := [c0, c1], targets := [] }
def dx : DescX :=
  { base := d0, ext := [{}, { depsPaths := [7], depsStyle := 1, depsElse := [.parsed [1] true] }] }
/-- the state of the header's path as `C0` leaves it -/
def S1 : Nat := mix (mix 5 10) 0 + 1
def v0 : Val := fileValue 11
def v6 : Val := fileValue 21
def vC0 : Val := successValue c0 (mix 5 10)
def v3 : Val := vExisting (mix (mix 5 10) 0)
def vC1 (hdr : Nat) : Val := successValue c1 (mix (mix 9 20) hdr)
def v9 (hdr : Nat) : Val := vExisting (mix (mix (mix 9 20) hdr) 0)

/-- first build of the object (key 9): `C1` runs and reports the PRODUCED node 1 (key 3); the engine brings that node up
to date only afterwards (it runs `C0`) -/
def build1 : List Event :=
  [.mutate 0 11, .mutate 6 21, .mutate 3 S1, .buildStart 9, .queueCreated, .dbIter 1] ++ fresh 9 [⟨4, 0, 0⟩] ++ fresh 4 [⟨6, 0, 0⟩]
   ++ fresh 6 [] ++ fin 6 v6 1 1 []
   ++ [.provide 4 0 6 v6 [], .inputsAvail 4 [3], .complete 4 (vC1 S1) false, .lookup 3, .finished 4 (row (vC1 S1) 1 1 [dep 6, dep 3])]
   ++ [.dbGet 3 false, .scanning 3, .needs 3 0 none, .create 3, .start 3 [⟨1, 0, 0⟩]] ++ fresh 1 [⟨0, 0, 0⟩] ++ fresh 0 [] ++ fin 0 v0 1 1 []
   ++ [.provide 1 0 0 v0 []] ++ fin 1 vC0 1 1 [dep 0]
   ++ [.provide 3 0 1 vC0 []] ++ fin 3 v3 1 1 [dep 1]
   ++ [.provide 9 0 4 (vC1 S1) []] ++ fin 9 (v9 S1) 1 1 [dep 4]
   ++ [.ret (v9 S1), .dbEnd, .tail 0 0, .mutate 9 (mix (mix (mix 9 20) S1) 0 + 1)]
/-- the header's path changes on disk; second build: `C0` re-runs (its output was touched) and completes with the same
value, so node 1 and with it `C1` are found up to date -/
def build2 : List Event :=
  [.mutate 3 77, .buildStart 9, .queueCreated, .dbIter 2, .scanning 9, .valid 9 (v9 S1) true, .scanning 4, .valid 4 (vC1 S1) true,
   .scanning 6, .valid 6 v6 true, .upToDate 6, .scanning 3, .valid 3 v3 true, .scanning 1, .valid 1 vC0 false, .needs 1 2 none,
   .create 1, .start 1 [⟨0, 0, 0⟩], .prior 1 vC0, .scanning 0, .valid 0 v0 true, .upToDate 0, .provide 1 0 0 v0 []]
   ++ fin 1 vC0 1 2 [dep 0] ++ [.upToDate 3, .upToDate 4, .upToDate 9]

/-- **C08X_needs_DiscsAreSources.**  Without the hypothesis the client is not `Program.WF` (a discovered key that is
not an input rule) and the conclusion of `C08X_incremental_equals_clean` FAILS on the model: an accepted history, no
cancellation / cycle / error, F22 flag clear, a successful `ret` — of a value that is not the clean value (`C1` was
not re-executed although the file it reads, according to its own dependency file, has another content).  On the model
the state of a produced path is not tied to its producer's value (the frame assumption of C08), which is exactly what
`disc_self` rules out; the real tool shows the corresponding effect through the ORDER of execution (a generated header
that the compile step discovers is brought up to date after the compile step ran, notes/C08X.md). -/
theorem C08X_needs_DiscsAreSources : dx.discsAreSources = false ∧ ¬ (clientX H0 dx).WF ∧
    ∃ s s', run (clientX H0 dx) {} (build1 ++ build2) = some s ∧ step (clientX H0 dx) s (.ret (v9 S1)) = some s' ∧
      s'.pendingDropped = false ∧ (s.cancelled = false ∧ s.cycleSeen = false ∧ s.errSeen = false) ∧
      s.target = some (nodeKey 3) ∧ ¬ Clean (clientX H0 dx) s.env (nodeKey 3) (v9 S1) := by
  refine ⟨by decide, ?_, ?_⟩
  · intro hW
    have := hW.disc_self (cmdKey 1) [(0, vExisting 20)] (nodeKey 1) (by decide)
    revert this
    decide
  · obtain ⟨s, hs, hp⟩ := run_facts (P := clientX H0 dx) (s0 := {}) (evs := build1 ++ build2)
      (p := fun s => !s.cancelled && !s.cycleSeen && !s.errSeen && s.target == some (nodeKey 3) &&
        ((step (clientX H0 dx) s (.ret (v9 S1))).map (fun s' => !s'.pendingDropped) == some true) &&
        (cleanEvalX dx s.env 6 (nodeKey 3) == some (v9 77))) (by decide +kernel)
    simp only [Bool.and_eq_true, Bool.not_eq_eq_eq_not, Bool.not_true, beq_iff_eq] at hp
    cases hr : step (clientX H0 dx) s (.ret (v9 S1)) with
    | none => rw [hr] at hp; simp at hp
    | some s' =>
      rw [hr] at hp
      refine ⟨s, s', hs, hr, by simpa using hp.1.2, ⟨hp.1.1.1.1.1, hp.1.1.1.1.2, hp.1.1.1.2⟩, hp.1.1.2, ?_⟩
      intro hc
      have := clean_is_evalX H0 dx s.env 6 (nodeKey 3) _ _ hc hp.2
      revert this
      decide

end NeedDiscsAreSources

/-! ### the `deps-style` attribute of a command is edited between two runs of the tool -/
namespace DepsEditExample

def c0 : Cmd := { tool := .shell, inputs := [0], outputs := [2], salt := 5 }
def d0 : Desc := { virt := [false, false, false], cmds := [c0], targets := [[2]] }
/-- generation 0: `deps-style: makefile`, the dependency file lists node 1 -/
def dxA : DescX := { base := d0, ext := [{ depsPaths := [7], depsStyle := 1, depsElse := [.parsed [1] true] }] }
/-- generation ≥ 1: only the attribute is edited (under the new style the file yields no input) -/
def dxB : DescX := { base := d0, ext := [{ depsPaths := [7], depsStyle := 3, depsElse := [.parsed [] true] }] }
def dxs (g : Nat) : DescX := if g = 0 then dxA else dxB
def PP (g : Nat) : Program := clientX godel (dxs g)
def sA (k : Key) : Nat := godel (sigTermX dxA k)
def sB (k : Key) : Nat := godel (sigTermX dxB k)
def v0 : Val := fileValue 11
def v3 : Val := fileValue 21
def vC : Val := successValue c0 (mix (mix 5 10) 21)
def v6 : Val := vExisting (mix (mix (mix 5 10) 21) 0)
def vC' : Val := successValue c0 (mix 5 10)
def v6' : Val := vExisting (mix (mix 5 10) 0)

theorem dxs_cases (g : Nat) : dxs g = dxA ∨ dxs g = dxB := by
  unfold dxs; by_cases h : g = 0 <;> simp [h]

theorem dxs_sources (g : Nat) : (dxs g).discsAreSources = true := by
  rcases dxs_cases g with a | a <;> rw [a] <;> decide

theorem dxs_ProducerStable : ProducerStable (fun g => (dxs g).base) := by
  apply ProducerStable.of_no_virtual
  intro g i
  rcases dxs_cases g with a | a <;> simp only [a] <;> exact isVirtual_false_of_all (by decide) i

theorem dxs_BehaviourStable : BehaviourStable dxs := by
  intro g g' c _ _ hst
  rcases dxs_cases g with a | a <;> rcases dxs_cases g' with b | b <;> rw [a, b] at hst ⊢
  · cases c with
    | zero => exact absurd hst (by decide)
    | succ n => simp [DescX.cmdX, dxA, dxB]
  · cases c with
    | zero => exact absurd hst (by decide)
    | succ n => simp [DescX.cmdX, dxA, dxB]

example : sigTermX dxA (cmdKey 0) ≠ sigTermX dxB (cmdKey 0) := by decide

def histA : List GEvent :=
  ([.mutate 0 11, .mutate 3 21,
    .buildStart 6, .queueCreated, .dbIter 1,
    .lookup 6, .scanning 6, .needs 6 0 none, .create 6, .start 6 [⟨1, 0, 0⟩],
    .lookup 1, .scanning 1, .needs 1 0 none, .create 1, .start 1 [⟨0, 0, 0⟩],
    .lookup 0, .scanning 0, .needs 0 0 none, .create 0, .start 0 [], .inputsAvail 0 [], .complete 0 v0 false,
    .finished 0 { value := v0, sig := sA 0, computedAt := 1, builtAt := 1, deps := [] },
    .provide 1 0 0 v0 [], .inputsAvail 1 [3], .complete 1 vC false, .lookup 3,
    .finished 1 { value := vC, sig := sA 1, computedAt := 1, builtAt := 1, deps := [dep 0, dep 3] },
    .scanning 3, .needs 3 0 none, .create 3, .start 3 [], .inputsAvail 3 [], .complete 3 v3 false,
    .finished 3 { value := v3, sig := sA 3, computedAt := 1, builtAt := 1, deps := [] },
    .provide 6 0 1 vC [], .inputsAvail 6 [], .complete 6 v6 false,
    .finished 6 { value := v6, sig := sA 6, computedAt := 1, builtAt := 1, deps := [dep 1] },
    .ret v6, .dbEnd, .tail 0 0,
    .mutate 6 (mix (mix (mix 5 10) 21) 0 + 1)] : List Event).map .ev ++ [.reprogram 1]

/-- generation 1: `C0` re-runs because its signature changed (`needs 1 1`), reports nothing now -/
def histB : List GEvent :=
  ([.buildStart 6, .queueCreated, .dbIter 2, .lookup 6, .scanning 6, .valid 6 v6 true,
    .lookup 1, .scanning 1, .needs 1 1 none, .create 1, .start 1 [⟨0, 0, 0⟩],
    .lookup 0, .scanning 0, .valid 0 v0 true, .upToDate 0,
    .provide 1 0 0 v0 [], .inputsAvail 1 [], .complete 1 vC' false,
    .finished 1 { value := vC', sig := sB 1, computedAt := 2, builtAt := 2, deps := [dep 0] },
    .needs 6 3 (some 1), .create 6, .start 6 [⟨1, 0, 0⟩], .prior 6 v6, .provide 6 0 1 vC' [], .inputsAvail 6 [],
    .complete 6 v6' false,
    .finished 6 { value := v6', sig := sB 6, computedAt := 2, builtAt := 2, deps := [dep 1] }] : List Event).map .ev

set_option maxRecDepth 8192 in
/-- non-vacuity of `C08X_outputs_clean_gen`: every hypothesis holds for this accepted history with an edit of the
`deps-style` attribute, which ends in a successful `ret` of the clean value of the NEW description -/
example : ∃ s s', runG (fun g => clientX godel (dxs g)) ({}, 0) (histA ++ histB) = some (s, 1) ∧
    step (clientX godel (dxs 1)) s (.ret v6') = some s' ∧ s'.pendingDropped = false ∧
    (s.cancelled = false ∧ s.cycleSeen = false ∧ s.errSeen = false) ∧
    (∀ a b, godel a = godel b → a = b) ∧ (∀ g, (dxs g).discsAreSources = true) ∧
    ProducerStable (fun g => (dxs g).base) ∧ BehaviourStable dxs ∧
    cleanEvalX (dxs 1) s.env 6 (nodeKey 2) = some v6' := by
  have h : ((runG PP ({}, 0) (histA ++ histB)).bind (fun sg =>
      (step (PP 1) sg.1 (.ret v6')).map (fun s' => (sg.2 == 1 && !s'.pendingDropped && !sg.1.cancelled &&
        !sg.1.cycleSeen && !sg.1.errSeen && cleanEvalX (dxs 1) sg.1.env 6 (nodeKey 2) == some v6')))) = some true := by
    decide +kernel
  cases h1 : runG PP ({}, 0) (histA ++ histB) with
  | none => rw [h1] at h; cases h
  | some sg =>
    obtain ⟨s, g⟩ := sg
    rw [h1] at h
    simp only [Option.bind] at h
    cases h2 : step (PP 1) s (.ret v6') with
    | none => rw [h2] at h; cases h
    | some s' =>
      rw [h2] at h
      simp only [Option.map, Option.some.injEq, Bool.and_eq_true, beq_iff_eq, Bool.not_eq_eq_eq_not,
        Bool.not_true] at h
      obtain ⟨⟨⟨⟨⟨a, b⟩, c⟩, d⟩, e⟩, f⟩ := h
      subst a
      exact ⟨s, s', h1, h2, b, ⟨c, d, e⟩, godel_inj, dxs_sources, dxs_ProducerStable, dxs_BehaviourStable, f⟩

end DepsEditExample

end LLBuild.BuildSystemClient
