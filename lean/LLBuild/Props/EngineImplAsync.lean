/-
Free-running completion threads and cancellation from any thread, at item granularity.

`Lemmas/Refine/Async*.lean` / `Final3.lean` re-state every loop of the concrete engine model
(`Model/EngineImpl.lean`) with an ASYNCHRONOUS schedule threaded through: at every item boundary —
before each iteration of each of the five queue loops (hence also between the five phases of a
work-loop iteration), at the top of the work loop, before the wait check, in every round of the
cancellation drain — an arbitrary set of parked tasks may call `taskIsComplete` and `cancelBuild()`
may arrive.  With the empty schedule this is exactly the compiled model (`runBuildA_nil`), the one
that predicts the real engine's deterministic-mode traces.  For EVERY asynchronous schedule the
refinement (`runBuildA_refines`, `refinement_final_async`) and termination (`build_terminates_async`)
hold, so C01–C07 are statements about every interleaving of completions and cancellation with the
engine thread at item granularity.  That instruction-level interleavings of the C++ reduce to
item-boundary ones (the only shared state is `finishedTaskInfos` under its mutex, the completing
rule's own result, and the atomic `buildCancelled`) is argued in notes/REFINE.md §9 and remains an
assumption about the C++ memory model, not a theorem.
-/
import LLBuild.Props.EngineImplTerm
import LLBuild.Lemmas.Refine.Final3

namespace LLBuild.Refine
open LLBuild.Engine LLBuild.Engine.DSL LLBuild.EngineImpl

theorem histSizedA_append (rules : List RuleSpec) : ∀ (a b : List OpA) (s : State),
    histSizedA rules (a ++ b) s ↔ histSizedA rules a s ∧ histSizedA rules b (runOpsA a s)
  | [], b, s => by simp [histSizedA, runOpsA]
  | op :: a, b, s => by
    simp only [List.cons_append, histSizedA, runOpsA, histSizedA_append rules a b (runOpA op s), and_assoc]

/-- **C05 / C06 / C07: no hang, no stall, under every interleaving.**  After any history, a build of
the transliterated engine with completions and a cancellation arriving at ANY item boundaries
returns, and its trace contains no `FUEL` / `BAD _` marker. -/
theorem EngineImpl_terminates_async {rules : List RuleSpec} (hok : RulesOk rules) (ops : List OpA)
    (key cancelAt : Nat) (sched : List SchedItem) (a : Async)
    (hs : histSizedA rules (ops ++ [.build key cancelAt sched a]) (opProgram rules {})) :
    (runBuildA key cancelAt sched a (runOpsA ops (opProgram rules {}))).halted = false := by
  obtain ⟨h1, h2⟩ := (histSizedA_append rules ops _ _).1 hs
  obtain ⟨_, m0, _, _, hrel⟩ := refinement_final_async hok ops h1
  exact build_terminates_async hok hrel key cancelAt sched a (by simpa [histSizedA] using h2.1)

/-- **C01 under every interleaving.**  After any history with asynchronous completions and
cancellations, the value a build returns — when it reported neither a cycle nor an error and was not
cancelled (F22 ghost flag as in C01) — is the clean value. -/
theorem EngineImpl_sound_C01_async {rules : List RuleSpec} (hok : RulesOk rules) (hwf : DSL.wf rules = true)
    (ops : List OpA) (key cancelAt : Nat) (sched : List SchedItem) (a : Async)
    (hs : histSizedA rules (ops ++ [.build key cancelAt sched a]) (opProgram rules {})) :
    ∃ evs0 m0 evsB,
      histEventsA ops (opProgram rules {}) = some evs0 ∧ run (program rules) {} evs0 = some m0 ∧
      toEvents (runBuildA key cancelAt sched a (runOpsA ops (opProgram rules {}))).trace.reverse = some evsB ∧
      ∀ pre v post, evsB = pre ++ Event.ret v :: post →
        ∃ m1 m2, run (program rules) m0 pre = some m1 ∧ step (program rules) m1 (.ret v) = some m2 ∧
          (m2.pendingDropped = false → m1.cancelled = false → m1.cycleSeen = false → m1.errSeen = false →
            ∃ root, m1.target = some root ∧ Clean (program rules) m1.env root v) := by
  obtain ⟨h1, h2⟩ := (histSizedA_append rules ops _ _).1 hs
  obtain ⟨evs0, m0, he0, hr0, hrel⟩ := refinement_final_async hok ops h1
  have hnh := build_terminates_async hok hrel key cancelAt sched a (by simpa [histSizedA] using h2.1)
  obtain ⟨evsB, m', heB, hrB, _⟩ := runBuildA_refines hok hrel key cancelAt sched a hnh
  refine ⟨evs0, m0, evsB, he0, hr0, heB, ?_⟩
  intro pre v post hsplit
  rw [hsplit, run_append] at hrB
  cases h1' : run (program rules) m0 pre with
  | none => rw [h1'] at hrB; simp at hrB
  | some m1 =>
    rw [h1'] at hrB
    simp only [Option.bind, run] at hrB
    cases h2' : step (program rules) m1 (.ret v) with
    | none => rw [h2'] at hrB; simp at hrB
    | some m2 =>
      refine ⟨m1, m2, rfl, h2', ?_⟩
      intro hnd hc hcy he
      have hrun : run (program rules) {} (evs0 ++ pre) = some m1 := by
        rw [run_append, hr0]; exact h1'
      exact C01_value_dsl hwf hrun h2' hnd ⟨hc, hcy, he⟩

/-- **C05 under every interleaving: nothing is left behind.** -/
theorem EngineImpl_sound_C05_quiescent_async {rules : List RuleSpec} (hok : RulesOk rules)
    (ops : List OpA) (hs : histSizedA rules ops (opProgram rules {})) :
    let s := runOpsA ops (opProgram rules {})
    s.taskInfos = [] ∧ s.ruleInfosToScan = [] ∧ s.inputRequests = [] ∧ s.finishedInputRequests = [] ∧
    s.readyTaskInfos = [] ∧ s.finishedTaskInfos = [] ∧ s.numOutstandingUnfinishedTasks = 0 ∧
    s.numRulesBeingScanned = 0 ∧ s.pendingDeferred = [] ∧ s.buildActive = false ∧
    s.store.iteration = s.currentEpoch := by
  obtain ⟨_, _, _, _, h⟩ := refinement_final_async hok ops hs
  exact ⟨h.noTasks, h.noScanQ, h.noInputQ, h.noFinQ, h.noReady, h.noFinTasks, h.noOutstanding, h.noScanning,
    h.noDeferred, h.notActive, h.iterEq⟩

/-- the link to the compiled model: with the empty asynchronous schedule `runBuildA` IS `runBuild` -/
theorem EngineImpl_async_nil (key cancelAt : Nat) (sched : List SchedItem) (s : State) :
    runBuildA key cancelAt sched [] s = runBuild key cancelAt sched s :=
  runBuildA_nil key cancelAt sched s

end LLBuild.Refine
