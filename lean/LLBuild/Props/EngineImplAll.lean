/-
The refinement over EVERY op kind the harness has (IM6, IM7 of notes/REFINE.md).

`refinement_final_all` (Lemmas/Refine/Final5.lean): histories of wipe / restart / mutate / builds completed or KILLED at any
trace token before their commit, each under an arbitrary asynchronous schedule / `P` ops that install another rule list on
the same database — accepted by the generation monitor `runG` from its initial state; the sync, async, crash and
description-edit end theorems are its special cases (`…_of_all`).

`refinement_final_fail` (Final6.lean): the same plus the `F` op — the next `setRuleResult` fails, the engine reports the
database error (`ER 6`), cancels and fails the build.  `Model/Engine.lean` is unchanged: a `DS k row` answered by `[X ;] ER 6`
is READ as "no completion" (`evOfToksF`, Fail0.lean; the text driver's `failedWrite` rule in Drv/Engine.lean is the same
rule, applied to the real engine's traces on every run), because the engine has reset the rule and nothing was stored.
The histories with `F` are generated for the real engine by the C04 and C05 checks (`dbfail`), and the concrete model predicts
those builds token for token.
-/
import LLBuild.Props.EngineImplCrash
import LLBuild.Lemmas.Refine.Final6

namespace LLBuild.Refine
open LLBuild.Engine LLBuild.Engine.DSL LLBuild.EngineImpl

/-- **every op kind except `F`**: one history theorem (IM2–IM6) -/
theorem EngineImpl_sound_all (rs0 : List RuleSpec) (ops : List OpU)
    (hok : ∀ r ∈ installedU rs0 ops, RulesOk r)
    (hs : histSizedU (installedU rs0 ops) 0 ops (opProgram rs0 {})) :
    ∃ gevs m', histEventsU 0 ops (opProgram rs0 {}) = some gevs ∧
      runG (PPof (installedU rs0 ops)) ({}, 0) gevs = some (m', lastGenU 0 ops) ∧
      RelIdle (currentRulesU rs0 ops) (runOpsU ops (opProgram rs0 {})) m' ∧ Committed m' :=
  refinement_final_all rs0 ops hok hs

/-- **every op kind, injected database write failures included** (IM2–IM7) -/
theorem EngineImpl_sound_fail (rs0 : List RuleSpec) (ops : List OpV)
    (hok : ∀ r ∈ installedV rs0 ops, RulesOk r)
    (hs : histSizedV (installedV rs0 ops) 0 ops (opProgram rs0 {})) :
    ∃ gevs m', histEventsV 0 ops (opProgram rs0 {}) = some gevs ∧
      runG (PPof (installedV rs0 ops)) ({}, 0) gevs = some (m', lastGenV 0 ops) ∧
      RelIdle (currentRulesV rs0 ops) (withFail false (runOpsV ops (opProgram rs0 {}))) m' ∧ Committed m' :=
  refinement_final_fail rs0 ops hok hs

/-- **C05 / C04 after database errors: nothing is left behind.**  After any history with injected write failures, kills,
cancellations and description edits, every queue and counter of the engine is empty and the store's iteration is the engine's
epoch (the failure flag is the only thing `withFail false` touches). -/
theorem EngineImpl_sound_fail_quiescent (rs0 : List RuleSpec) (ops : List OpV)
    (hok : ∀ r ∈ installedV rs0 ops, RulesOk r)
    (hs : histSizedV (installedV rs0 ops) 0 ops (opProgram rs0 {})) :
    let s := withFail false (runOpsV ops (opProgram rs0 {}))
    s.taskInfos = [] ∧ s.ruleInfosToScan = [] ∧ s.inputRequests = [] ∧ s.finishedInputRequests = [] ∧
    s.readyTaskInfos = [] ∧ s.finishedTaskInfos = [] ∧ s.numOutstandingUnfinishedTasks = 0 ∧
    s.numRulesBeingScanned = 0 ∧ s.pendingDeferred = [] ∧ s.buildActive = false ∧
    s.store.iteration = s.currentEpoch := by
  obtain ⟨_, _, _, _, h, _⟩ := refinement_final_fail rs0 ops hok hs
  exact ⟨h.noTasks, h.noScanQ, h.noInputQ, h.noFinQ, h.noReady, h.noFinTasks, h.noOutstanding, h.noScanning,
    h.noDeferred, h.notActive, h.iterEq⟩

/-- the special cases: `F`-free histories, single rule list with kills, asynchronous only -/
theorem EngineImpl_sound_all_of_fail (rs0 : List RuleSpec) (ops : List OpU)
    (hok : ∀ r ∈ installedU rs0 ops, RulesOk r)
    (hs : histSizedU (installedU rs0 ops) 0 ops (opProgram rs0 {})) :
    ∃ gevs m', histEventsU 0 ops (opProgram rs0 {}) = some gevs ∧
      runG (PPof (installedU rs0 ops)) ({}, 0) gevs = some (m', lastGenU 0 ops) ∧
      RelIdle (currentRulesU rs0 ops) (runOpsU ops (opProgram rs0 {})) m' ∧ Committed m' :=
  refinement_final_all_of_fail rs0 ops hok hs

theorem EngineImpl_sound_crash_of_all {rules : List RuleSpec} (hok : RulesOk rules) (ops : List OpC)
    (hs : histSizedC rules ops (opProgram rules {})) :
    ∃ evs m', histEventsC ops (opProgram rules {}) = some evs ∧ run (program rules) {} evs = some m' ∧
      RelIdle rules (runOpsC ops (opProgram rules {})) m' :=
  refinement_final_crash_of_all hok ops hs

end LLBuild.Refine
