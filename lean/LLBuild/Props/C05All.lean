/-
C05 aggregate: the cancellation theorems on the abstract monitor (Props/C05.lean) together with the
corollaries of the refinement for the concrete engine model (Props/EngineImplSound.lean): after any
history with cancellations at any event or hook point nothing is left behind, and later builds are clean.
-/
import LLBuild.Props.C05
import LLBuild.Props.EngineImplSound
import LLBuild.Props.EngineImplTerm
import LLBuild.Props.EngineImplAsync
import LLBuild.Props.EngineImplSched3
import LLBuild.Props.EngineImplAll
