/-
C06 on the transliterated engine, second half of the sentence:

"Whatever order and on whatever threads tasks report completion, a build yields the same values AND THE SAME SET OF
EXECUTED RULES …"

Stated on the PRINTED TRACE of the concrete engine model (`Model/EngineImpl.lean` with the asynchronous schedules of
`Lemmas/Refine/Async0.lean`): `T k` is `Rule::createTask` for rule `k`, the execution of `k`.  For every rule list with
`RulesOk` and `DSL.det`, every history `ops : List OpC` under the size condition, every key, and ANY two runs of the next
build that differ in the hook schedule, the asynchronous schedule and the cancellation point, whose traces contain no
`X` / `CY` / `ER`: `∀ k, T k ∈ t1 ↔ T k ∈ t2` (`EngineImpl_sound_C06_same_executed_set`).  Stronger: the executed set IS the
schedule-free reference set `MustRun` of `Lemmas/Engine/Exec1.lean`, computed from the state the build starts from
(`EngineImpl_sound_C06_executed_reference`).  Neither `DSL.wf` nor the F22 condition `histDropped = false` is needed: a
stale stored value changes WHAT is computed, not the fact that the executed set is a function of the start state.

The abstract monitor alone does NOT determine the executed set: its guard `demanded` lets a rule's recorded dependencies
be scanned in any order, the engine scans them in order and stops at the first changed one.  The example at the end
(`monitor_accepts_out_of_order`) is a successful run the monitor accepts from the state of an engine build, with one more
executed rule than the engine's run.  The proof therefore goes through the in-order guards `evOkX` (Exec0.lean), which
every concrete trace passes (`runBuildA_simX`, Lemmas/Refine/SchedX*.lean).  Details: notes/REFINESCHED.md §13.
-/
import LLBuild.Props.EngineImplSched
import LLBuild.Lemmas.Refine.Sched4

namespace LLBuild.Refine
open LLBuild.Engine LLBuild.Engine.DSL LLBuild.EngineImpl

/-- **every trace of the concrete engine passes the in-order guards** (the strengthened refinement for one build) -/
theorem EngineImpl_sound_C06_in_order {rules : List RuleSpec} (hok : RulesOk rules) {s : State} {m : Engine.St}
    (hr : RelIdle rules s m) (key cancelAt : Nat) (sched : List SchedItem) (a : Async)
    (hsize : workBound rules s key + 2 < scanFuel) :
    ∃ m', trunX (program rules) ⟨m, none⟩ (runBuildA key cancelAt sched a s).trace.reverse = some ⟨m', none⟩ ∧
      RelIdle rules (runBuildA key cancelAt sched a s) m' :=
  runBuildA_simX hok hr key cancelAt sched a (build_terminates_async hok hr key cancelAt sched a hsize)

/-- **C06 (the executed set is a schedule-free function of the state the build starts from).**  After any history there
is a snapshot `σ` (the monitor's view of the engine state: external state, epoch, in-memory results, signatures) such
that for EVERY run of the next build of `key` whose trace contains no `X`/`CY`/`ER`, the rules executed (`T k` printed) are
exactly `MustRun (program rules) σ key`. -/
theorem EngineImpl_sound_C06_executed_reference {rules : List RuleSpec} (hok : RulesOk rules)
    (hdet : DSL.det rules = true) (ops : List OpC) (key : Nat)
    (hs : histSizedC rules ops (opProgram rules {}))
    (hk : workBound rules (runOpsC ops (opProgram rules {})) key + 2 < scanFuel) :
    ∃ σ : Snap, σ.env = (runOpsC ops (opProgram rules {})).env ∧
      ∀ (c : Nat) (sched : List SchedItem) (a : Async),
        NoFail (runBuildA key c sched a (runOpsC ops (opProgram rules {}))).trace.reverse →
        ∀ k, Tok.T k ∈ (runBuildA key c sched a (runOpsC ops (opProgram rules {}))).trace.reverse ↔
          MustRun (program rules) σ key k := by
  obtain ⟨evs0, m0, _, hr0, hrel, _⟩ := refinement_final_crash_committed hok ops hs
  have h2 : Inv2 m0 := reach_inv2 hr0
  exact ⟨snapOf (program rules) m0, hrel.env, fun c sched a hnf k =>
    build_executed_iff hok hdet hrel h2 key c sched a hk hnf k⟩

/-- **C06 (the same set of executed rules whatever the completion order and threads).**  Two runs of the same build
from the same engine state that differ in the completion schedule, in what other threads do at the item boundaries, and
in the cancellation point: if both printed traces `Succeeded`, they executed the SAME rules. -/
theorem EngineImpl_sound_C06_same_executed_set {rules : List RuleSpec} (hok : RulesOk rules)
    (hdet : DSL.det rules = true) (ops : List OpC) (key : Nat)
    (hs : histSizedC rules ops (opProgram rules {}))
    (hk : workBound rules (runOpsC ops (opProgram rules {})) key + 2 < scanFuel)
    (c1 c2 : Nat) (sched1 sched2 : List SchedItem) (a1 a2 : Async) (v1 v2 : Val) :
    let s := runOpsC ops (opProgram rules {})
    let t1 := (runBuildA key c1 sched1 a1 s).trace.reverse
    let t2 := (runBuildA key c2 sched2 a2 s).trace.reverse
    Succeeded t1 v1 → Succeeded t2 v2 → ∀ k, Tok.T k ∈ t1 ↔ Tok.T k ∈ t2 := by
  intro s t1 t2 h1 h2 k
  obtain ⟨σ, _, hσ⟩ := EngineImpl_sound_C06_executed_reference hok hdet ops key hs hk
  exact (hσ c1 sched1 a1 h1.2 k).trans (hσ c2 sched2 a2 h2.2 k).symm

/-- … it is enough that neither trace contains `X`, `CY _`, `ER _` -/
theorem EngineImpl_sound_C06_same_executed_set_nofail {rules : List RuleSpec} (hok : RulesOk rules)
    (hdet : DSL.det rules = true) (ops : List OpC) (key : Nat)
    (hs : histSizedC rules ops (opProgram rules {}))
    (hk : workBound rules (runOpsC ops (opProgram rules {})) key + 2 < scanFuel)
    (c1 c2 : Nat) (sched1 sched2 : List SchedItem) (a1 a2 : Async) :
    let s := runOpsC ops (opProgram rules {})
    let t1 := (runBuildA key c1 sched1 a1 s).trace.reverse
    let t2 := (runBuildA key c2 sched2 a2 s).trace.reverse
    NoFail t1 → NoFail t2 → ∀ k, k ∈ t1.filterMap Tok.tKey ↔ k ∈ t2.filterMap Tok.tKey := by
  intro s t1 t2 h1 h2 k
  obtain ⟨σ, _, hσ⟩ := EngineImpl_sound_C06_executed_reference hok hdet ops key hs hk
  rw [mem_tKeys, mem_tKeys]
  exact (hσ c1 sched1 a1 h1 k).trans (hσ c2 sched2 a2 h2 k).symm

/-! ### non-vacuity -/

set_option maxRecDepth 8000 in
/-- the two runs of `Props/EngineImplSched.lean` (different traces: completions `1, 2, 3, 4` vs `2, 1, 3, 4`) execute the same
rules — here even in the same order of creation -/
example : schT1.filterMap Tok.tKey = [3, 1, 2, 4] ∧ schT2.filterMap Tok.tKey = [3, 1, 2, 4] ∧
    schT1.filterMap Tok.cKey = [1, 2, 3, 4] ∧ schT2.filterMap Tok.cKey = [2, 1, 3, 4] := by decide

set_option maxRecDepth 8000 in
/-- the theorem applies to them -/
example (v1 v2 : Val) (h1 : Succeeded schT1 v1) (h2 : Succeeded schT2 v2) (k : Key) : Tok.T k ∈ schT1 ↔ Tok.T k ∈ schT2 :=
  EngineImpl_sound_C06_same_executed_set schRules_ok (by decide) schOps 3 schOps_sized (by decide)
    0 0 [] [] [] (List.replicate 40 { keys := [2] }) v1 v2 h1 h2 k

/-! ### the abstract monitor alone does not determine the executed set -/

/-- inputs `1`, `4`; rule `3` requests `1` and discovers `4` only while the value of `1` is odd -/
def oooRules : List RuleSpec :=
  [{ key := 1 }, { key := 4 },
   { key := 3, kind := 1, statics := [⟨1, 7, 0⟩], discs := [(⟨1, 7, 2, 1⟩, 4)] }]

/-- build `3` (it records the dependencies `1, 4`); make `1` even and change `4` -/
def oooOps : List OpC := [.mutate 1 55, .mutate 4 77, .build 3 0 [] [], .mutate 1 56, .mutate 4 78]

/-- the engine's next build of `3` -/
def oooEngine : List Tok := (runBuildA 3 0 [] [] (runOpsC oooOps (opProgram oooRules {}))).trace.reverse

/-- the monitor state the engine is related to when that build starts -/
def oooMon : Option Engine.St :=
  (histEventsC oooOps (opProgram oooRules {})).bind (fun evs => run (program oooRules) {} evs)

/-- a run in which dependency `4` of the scanning rule `3` is scanned, and executed, BEFORE dependency `1` -/
def oooToks : List Tok :=
  [.B 3, .DB, .QC, .S 3 0, .V 3 9370279077420899936 true,
   .S 4 0, .V 4 77 false, .N 4 2 none, .T 4, .ST 4 [], .PP 4 77, .IA 4 [], .C 4 78 0, .S 4 2,
   .DS 4 { value := 78, sig := 0, builtAt := 2, computedAt := 2, deps := [] },
   .S 1 0, .V 1 55 false, .N 1 2 none, .T 1, .ST 1 [], .PP 1 55, .IA 1 [], .C 1 56 0,
   .S 1 2, .DS 1 { value := 56, sig := 0, builtAt := 2, computedAt := 2, deps := [] }, .N 3 3 (some 1), .T 3, .ST 3 [⟨1, 7, 0⟩],
   .PP 3 9370279077420899936, .PV 3 7 1 56 [], .IA 3 [], .C 3 16510003297691566136 0, .S 3 2,
   .DS 3 { value := 16510003297691566136, sig := 0, builtAt := 2, computedAt := 2, deps := [⟨1, false, false⟩] },
   .DI 2, .DE, .R 16510003297691566136, .Z 0 0]

set_option maxRecDepth 16000 in
/-- **The monitor accepts both; only the in-order guards tell them apart.**  From the monitor state of the engine, the
plain token monitor `trun` accepts the engine's trace (executed rules `1, 3`; `4` is never looked at: it comes after the
first changed dependency, and the re-run of `3` no longer discovers it) AND the out-of-order trace (executed rules
`4, 1, 3`), both without `X`/`CY`/`ER` and returning the same value; `trunX` accepts the engine's trace and rejects the
other one. -/
theorem monitor_accepts_out_of_order :
    (oooMon.bind (fun m => trun (program oooRules) ⟨m, none⟩ oooEngine)).isSome = true ∧
    (oooMon.bind (fun m => trun (program oooRules) ⟨m, none⟩ oooToks)).isSome = true ∧
    (oooMon.bind (fun m => trunX (program oooRules) ⟨m, none⟩ oooEngine)).isSome = true ∧
    (oooMon.bind (fun m => trunX (program oooRules) ⟨m, none⟩ oooToks)).isSome = false ∧
    Succeeded oooEngine 16510003297691566136 ∧ Succeeded oooToks 16510003297691566136 ∧
    oooEngine.filterMap Tok.tKey = [1, 3] ∧ oooToks.filterMap Tok.tKey = [4, 1, 3] := by
  decide

/-
#print axioms EngineImpl_sound_C06_in_order                 -- [propext, Classical.choice, Quot.sound]
#print axioms EngineImpl_sound_C06_executed_reference       -- [propext, Classical.choice, Quot.sound]
#print axioms EngineImpl_sound_C06_same_executed_set        -- [propext, Classical.choice, Quot.sound]
#print axioms EngineImpl_sound_C06_same_executed_set_nofail -- [propext, Classical.choice, Quot.sound]
#print axioms monitor_accepts_out_of_order                  -- [propext, Classical.choice, Quot.sound]
-/
end LLBuild.Refine
