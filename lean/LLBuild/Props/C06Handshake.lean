/-
C06 (third clause) — "Concurrent completion, dependency discovery and cancellation calls never
produce data races, lost wake-ups or deadlock."

What is decided here: the hand-off of finished tasks between completing threads and the engine
thread, at LOCK GRANULARITY (model LLBuild/Model/Handshake.lean), for every number of tasks and every
interleaving, by inductive invariant.  The two shape facts the model assumes about the code — the
engine re-checks `finishedTaskInfos.empty()` under the mutex before waiting, and a completing thread
pushes inside the lock and notifies afterwards — are read from lib/Core/BuildEngine.cpp by the
fingerprint extractor on every run (`loop.waitRechecksEmpty`, `complete.pushThenNotify`,
theorem `engine_fingerprint_matches_model`).  Not expressible: data races below lock granularity
(the C++ memory model); spurious wake-ups are not needed for progress and are not modelled.
-/
import LLBuild.Lemmas.Handshake
import LLBuild.Lemmas.Engine.Fingerprint

namespace LLBuild.Handshake

/-- the two shape facts the model is instantiated with (`recheck = true`, push inside the lock and
notify afterwards) are what the extractor found in the source on this run -/
theorem C06_handshake_shape_matches_code :
    Generated.engineFingerprint.lookup "loop.waitRechecksEmpty" = some "true" ∧
    Generated.engineFingerprint.lookup "complete.pushThenNotify" = some "true" ∧
    Generated.engineFingerprint.lookup "cancel.drainsBeforeReset" = some "true" := by decide

/-- No lost wake-up: whenever the engine is asleep in `wait` and the finished queue is not empty,
some completing thread is between its push and its `notify_one` (so the engine will be woken). -/
theorem C06_no_lost_wakeup {n : Nat} {s : St} (h : Reach true n s) (he : s.e = .sleeping) (hf : s.finished ≠ 0) :
    ∃ i : Nat, s.c[i]? = some CPc.toNotify :=
  (reach_inv h).noLost he hf

/-- Mutual exclusion on `finishedTaskInfosMutex`: at most one completing thread is inside its
critical section, and none while the engine holds the mutex. -/
theorem C06_mutual_exclusion {n : Nat} {s : St} (h : Reach true n s) :
    countP holding s.c ≤ 1 ∧ (s.e = .locked → countP holding s.c = 0) :=
  ⟨(reach_inv h).one, (reach_inv h).excl⟩

/-- Every completion is handed over exactly once: entries waiting in the queue plus entries the
engine has consumed equal the completions that have been pushed. -/
theorem C06_handoff_counts {n : Nat} {s : St} (h : Reach true n s) :
    s.finished + s.drained = countP pushed s.c ∧ s.c.length = n :=
  ⟨(reach_inv h).count, (reach_inv h).len⟩

/-- No deadlock: as long as a task is outstanding, some thread can take a step — without relying
on spurious wake-ups. -/
theorem C06_no_deadlock {n : Nat} {s : St} (h : Reach true n s) (hd : s.drained < n) : ∃ s', Step true s s' := by
  have hi := reach_inv h
  have holder : s.mutexFree = false → s.e ≠ .locked → ∃ s', Step true s s' := by
    intro hm hne
    have : 0 < countP holding s.c := by
      rcases Nat.eq_zero_or_pos (countP holding s.c) with h0 | h0
      · have := hi.mutex.2 ⟨hne, h0⟩; rw [hm] at this; cases this
      · exact h0
    obtain ⟨i, y, hiy, hy⟩ := exists_of_countP_pos holding s.c this
    have : y = .pushing := by cases y <;> simp [holding] at hy ⊢
    subst this
    exact ⟨_, Step.cPush s i hiy⟩
  cases he : s.e with
  | work =>
    cases hm : s.mutexFree with
    | true => exact ⟨_, Step.lock s he hm (by rw [hi.len]; exact hd)⟩
    | false => exact holder hm (by rw [he]; simp)
  | locked =>
    by_cases hf : s.finished = 0
    · exact ⟨_, Step.sleep s he (fun _ => hf)⟩
    · exact ⟨_, Step.skip s he rfl hf⟩
  | woken =>
    cases hm : s.mutexFree with
    | true => exact ⟨_, Step.resume s he hm⟩
    | false => exact holder hm (by rw [he]; simp)
  | sleeping =>
    by_cases hf : s.finished = 0
    · -- nothing queued: some task has not been pushed yet
      have hlt : countP pushed s.c < s.c.length := by
        have := hi.count; rw [hi.len]; omega
      obtain ⟨i, y, hiy, hy⟩ := exists_not_of_countP_lt pushed s.c hlt
      cases y with
      | idle =>
        cases hm : s.mutexFree with
        | true => exact ⟨_, Step.cLock s i hiy hm⟩
        | false => exact holder hm (by rw [he]; simp)
      | pushing => exact ⟨_, Step.cPush s i hiy⟩
      | toNotify => simp [pushed] at hy
      | done => simp [pushed] at hy
    · obtain ⟨i, hi'⟩ := hi.noLost he hf
      exact ⟨_, Step.cNotify s i hi'⟩

/-- Why the re-check matters: WITHOUT the emptiness test under the mutex the engine can go to sleep
forever with a finished task in the queue (one task: the completion is pushed and notified while the
engine is between its drain and its wait). -/
theorem C06_lost_wakeup_without_recheck :
    ∃ s, Reach false 1 s ∧ s.e = .sleeping ∧ s.finished = 1 ∧ s.drained = 0 ∧ s.c = [.done] ∧
      ¬ ∃ s', Step false s s' := by
  let s0 := init 1
  let s1 : St := { s0 with c := [.pushing], mutexFree := false }
  let s2 : St := { s1 with c := [.toNotify], finished := 1, mutexFree := true }
  let s3 : St := { s2 with c := [.done] }
  let s4 : St := { s3 with e := .locked, mutexFree := false }
  let s5 : St := { s4 with e := .sleeping, mutexFree := true }
  have r1 : Reach false 1 s1 := Reach.step s0 s1 Reach.init (Step.cLock s0 0 rfl rfl)
  have r2 : Reach false 1 s2 := Reach.step s1 s2 r1 (Step.cPush s1 0 rfl)
  have r3 : Reach false 1 s3 := Reach.step s2 s3 r2 (Step.cNotify s2 0 rfl)
  have r4 : Reach false 1 s4 := Reach.step s3 s4 r3 (Step.lock s3 rfl rfl (by decide))
  have r5 : Reach false 1 s5 := Reach.step s4 s5 r4 (Step.sleep s4 rfl (fun h => by cases h))
  refine ⟨s5, r5, rfl, rfl, rfl, rfl, ?_⟩
  rintro ⟨s', hs⟩
  cases hs with
  | drain he _ => cases he
  | lock he _ _ => cases he
  | sleep he _ => cases he
  | skip he _ _ => cases he
  | resume he _ => cases he
  | cLock i hc _ =>
    have hc5 : s5.c = [CPc.done] := rfl
    rw [hc5] at hc
    rcases i with _ | i <;> simp at hc
  | cPush i hc =>
    have hc5 : s5.c = [CPc.done] := rfl
    rw [hc5] at hc
    rcases i with _ | i <;> simp at hc
  | cNotify i hc =>
    have hc5 : s5.c = [CPc.done] := rfl
    rw [hc5] at hc
    rcases i with _ | i <;> simp at hc

/-- non-vacuity: a run of two tasks through the protocol ends with both consumed -/
example : ∃ s, Reach true 2 s ∧ s.drained = 2 := by
  let a0 := init 2
  let a1 : St := { a0 with c := [.pushing, .idle], mutexFree := false }
  let a2 : St := { a1 with c := [.toNotify, .idle], finished := 1, mutexFree := true }
  let a3 : St := { a2 with c := [.done, .idle] }
  let a4 : St := { a3 with c := [.done, .pushing], mutexFree := false }
  let a5 : St := { a4 with c := [.done, .toNotify], finished := 2, mutexFree := true }
  let a6 : St := { a5 with finished := 0, drained := 2 }
  exact ⟨a6, Reach.step a5 a6 (Reach.step a4 a5 (Reach.step a3 a4 (Reach.step a2 a3 (Reach.step a1 a2
    (Reach.step a0 a1 Reach.init (Step.cLock a0 0 rfl rfl)) (Step.cPush a1 0 rfl)) (Step.cNotify a2 0 rfl))
    (Step.cLock a3 1 rfl rfl)) (Step.cPush a4 1 rfl)) (Step.drain a5 rfl rfl), rfl⟩

end LLBuild.Handshake
