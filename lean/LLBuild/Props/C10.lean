/-
C10 — A failed or cancelled command never feeds dependents and is always retried  (decision-table half)

"When a command fails or is cancelled, no command that directly or transitively consumes its outputs is
executed in that build, the build reports failure, and the recorded result is never treated as up to date:
the next build re-attempts it and everything downstream.  Once the cause is removed, the next build converges
to the clean-build state."

Property theorems only.  Every decision they talk about is GENERATED from the repository on every run
(`LLBuild/Generated/FailTables.lean`, extractor `extract/x_failtables.py`): `BuildValue::Kind` and its
predicates, every command class's `getResultForOutput` / leading guards of `isResultValid`,
`ExternalCommand::provideValue` (`getSkipValueForInput`), the skip block of `execute`, the process-status
switch, `Produced[Directory]NodeTask::isResultValid`, the completion lambda of `CommandTask`.
`LLBuild/Model/FailProp.lean` adds the fold over inputs and the failure count.
The engine-level consequences (no downstream value along the closure; re-run next build; convergence)
are derived from these client facts in Props/C10Engine.lean (any engine client with the two failure facts, as an
instance of the engine theorems) and Props/C10Client.lean (the BuildSystem's rule set has them); Props/C10All.lean
joins the three files.  They are also checked end to end by the python oracle.
-/
import LLBuild.Model.FailProp

namespace LLBuild.FailProp
open LLBuild.Generated.FailTables

/-! ### finite enumerations are complete (so the `decide`d tables cover every case) -/

theorem Kind.mem_all (k : Kind) : k ∈ Kind.all := by cases k <;> decide
theorem CommandClass.mem_all (c : CommandClass) : c ∈ CommandClass.all := by cases c <;> decide
theorem NodeClass.mem_all (n : NodeClass) : n ∈ NodeClass.all := by cases n <;> decide
theorem ProcStatus.mem_all (p : ProcStatus) : p ∈ ProcStatus.all := by cases p <;> decide
theorem ValidEnv.mem_all (e : ValidEnv) : e ∈ ValidEnv.all := by
  rcases e with ⟨a, b, c, d⟩
  cases a <;> cases b <;> cases c <;> cases d <;> decide

private def bools : List Bool := [false, true]
private theorem bools_all (b : Bool) : b ∈ bools := by cases b <;> decide

/-! ### "no command that directly or transitively consumes its outputs is executed": the node value -/

/-- Modelling decision taken from the documentation (DESIGN F16): a *phony* command is "a dummy tool, used for
imposing ordering and grouping" and its override of `getResultForOutput` says in so many words that virtual
non-timestamp outputs are `VirtualInput` "regardless of the actual build value ... to avoid them incorrectly
propagating failed/cancelled states onwards to downstream commands when they are being used only for ordering
purposes".  Such an edge carries no data; it is the one stated exception. -/
def orderingOnlyEdge (c : CommandClass) (virt ts : Bool) : Bool :=
  c == .phonyCommand && virt && !ts

/-- `SwiftGetVersionCommand` is a custom-task command: `configureOutputs` ignores its argument, so it is never
the producer of a node and its `getResultForOutput` is `llvm_unreachable`. -/
def neverAProducer (c : CommandClass) : Bool := c == .swiftGetVersionCommand

private theorem failure_table :
    ∀ c ∈ CommandClass.all, ∀ k ∈ Kind.all, ∀ virt ∈ bools, ∀ ts ∈ bools, ∀ miss ∈ bools,
      isFailureKind k = true → neverAProducer c = false →
        Res.eval (resultForOutput c k virt ts miss) k =
          if orderingOnlyEdge c virt ts then some .virtualInput else some .failedInput := by decide

/-- **C10_failure_maps_to_failed_input.**  For every command class that can produce a node, every node
(virtual or not, command timestamp or not, output present or missing) and every producer value in
{FailedCommand, PropagatedFailureCommand, CancelledCommand}, the value seen at the node is `FailedInput` —
except on the documented ordering-only edge (phony command, virtual non-timestamp output), where it is
`VirtualInput`. -/
theorem C10_failure_maps_to_failed_input (c : CommandClass) (k : Kind) (virt ts miss : Bool)
    (hk : isFailureKind k = true) (hc : neverAProducer c = false) :
    Res.eval (resultForOutput c k virt ts miss) k =
      if orderingOnlyEdge c virt ts then some .virtualInput else some .failedInput :=
  failure_table c (CommandClass.mem_all c) k (Kind.mem_all k) virt (bools_all _) ts (bools_all _) miss (bools_all _) hk hc

/-- the same, per node class of `BuildNode` -/
theorem C10_failure_maps_to_failed_input_nodes (c : CommandClass) (k : Kind) (nc : NodeClass) (miss : Bool)
    (hk : isFailureKind k = true) (hc : neverAProducer c = false)
    (hdata : orderingOnlyEdge c nc.isVirtual nc.isCommandTimestamp = false) :
    nodeValue c k nc miss = some .failedInput := by
  unfold nodeValue
  rw [C10_failure_maps_to_failed_input c k _ _ miss hk hc, hdata]
  rfl

example : nodeValue .shellCommand .cancelledCommand .virtual true = some .failedInput := by decide
example : nodeValue .symlinkCommand .failedCommand .plain false = some .failedInput := by decide
example : nodeValue .phonyCommand .failedCommand .commandTimestamp false = some .failedInput := by decide
example : nodeValue .phonyCommand .failedCommand .virtual false = some .virtualInput := by decide  -- the exception (F16)

/-- Every way an *executed* external command can end without success yields one of the three failure kinds
(or aborts the process: `report_fatal_error`); success yields `computeCommandResult`, a successful kind. -/
theorem C10_process_outcomes (p : ProcStatus) :
    (match processResult p with
     | .kind k => isFailureKind k
     | .unreachable => true
     | .continue => p == .succeeded && isSuccessfulCommand computeCommandResultKind
     | .asIs => false) = true := by
  cases p <;> decide

/-! ### `FailedInput` (and an unallowed `MissingInput`) makes the consumer skip -/

private theorem skip_table :
    (∀ a ∈ bools, skipValueForInput .failedInput a = .kind .propagatedFailureCommand) ∧
    skipValueForInput .missingInput false = .kind .propagatedFailureCommand ∧
    skipValueForInput .missingInput true = .continue ∧
    provideValueEarlyReturn .failedInput = false ∧ provideValueEarlyReturn .missingInput = false ∧
    recordsMissingInput .missingInput = true ∧ recordsMissingInput .failedInput = false ∧
    (∀ k ∈ Kind.all, ∀ a ∈ bools, ∀ k', skipValueForInput k a = .kind k' → k' = .propagatedFailureCommand) ∧
    (∀ k ∈ Kind.all, ∀ a ∈ bools, skipValueForInput k a ≠ .asIs) := by
  refine ⟨by decide, by decide, by decide, by decide, by decide, by decide, by decide, ?_, by decide⟩
  have h : ∀ k ∈ Kind.all, ∀ a ∈ bools,
      (match skipValueForInput k a with | .kind k' => k' == .propagatedFailureCommand | _ => true) = true := by decide
  intro k hk a ha k' hkk
  have := h k hk a ha
  rw [hkk] at this
  simpa using this

/-- the assert list of `provideValue` is exactly the domain on which `getSkipValueForInput` is defined
(outside it the lambda ends in `llvm_unreachable`), and the early return covers the four command kinds -/
theorem C10_skip_domain (k : Kind) (a : Bool) :
    (skipValueForInput k a = .unreachable ↔ provideValueAssert k = false) ∧
    (provideValueEarlyReturn k = true → provideValueAssert k = false) := by
  have h : ∀ k ∈ Kind.all, ∀ a ∈ bools,
      (skipValueForInput k a = .unreachable ↔ provideValueAssert k = false) ∧
      (provideValueEarlyReturn k = true → provideValueAssert k = false) := by decide
  exact h k (Kind.mem_all k) a (bools_all a)

/-- once a skip value is stored, no later input clears it (and it stays `PropagatedFailureCommand`) -/
private theorem skip_sticky (allow : Bool) (ks : List Kind) (s s' : CmdState)
    (hs : s.skip = some .propagatedFailureCommand) (h : provideAll allow s ks = some s') :
    s'.skip = some .propagatedFailureCommand := by
  induction ks generalizing s with
  | nil => simp [provideAll] at h; subst h; exact hs
  | cons k ks ih =>
    simp only [provideAll] at h
    cases hp : provide allow s k with
    | none => simp [hp] at h
    | some s1 =>
      simp only [hp] at h
      apply ih s1 _ h
      unfold provide at hp
      split at hp
      · simp at hp; subst hp; exact hs
      · split at hp
        · simp at hp; subst hp; exact hs
        · rename_i k' hk'
          have := skip_table.2.2.2.2.2.2.2.1 k (Kind.mem_all k) allow (bools_all allow) k' hk'
          simp at hp; subst hp; simp [this]
        · simp at hp
        · simp at hp

/-- **C10_failed_input_skips.**  Whatever values an external command's inputs deliver, in whatever order:
the command skips (its `execute` returns the stored skip value before `commandStarted` /
`executeExternalCommand`) **iff** some input was `FailedInput`, or `MissingInput` while missing inputs are
not allowed; the value it then completes with is `PropagatedFailureCommand`. -/
theorem C10_failed_input_skips (allow : Bool) (ks : List Kind) (s' : CmdState)
    (h : provideAll allow CmdState.init ks = some s') :
    ((∃ k ∈ ks, blocksConsumer allow k = true) ↔ ∃ r, execute s' = .skip .propagatedFailureCommand r) ∧
    ((¬ ∃ k ∈ ks, blocksConsumer allow k = true) ↔ execute s' = .run) ∧
    skipBlockReturnsBeforeRun = true := by
  -- generalise over the start state: skip is none ∨ some PropagatedFailure
  have key : ∀ (ks : List Kind) (s s' : CmdState), provideAll allow s ks = some s' → s.skip = none →
      ((∃ k ∈ ks, blocksConsumer allow k = true) → s'.skip = some .propagatedFailureCommand) ∧
      ((¬ ∃ k ∈ ks, blocksConsumer allow k = true) → s'.skip = none) := by
    intro ks
    induction ks with
    | nil => intro s s' h hs; simp [provideAll] at h; subst h; simp [hs]
    | cons k ks ih =>
      intro s s' h hs
      simp only [provideAll] at h
      cases hp : provide allow s k with
      | none => simp [hp] at h
      | some s1 =>
        simp only [hp] at h
        have hk : ∀ k ∈ Kind.all, ∀ a ∈ bools,
            (blocksConsumer a k = true → provideValueEarlyReturn k = false ∧
                skipValueForInput k a = .kind .propagatedFailureCommand) ∧
            (blocksConsumer a k = false → provideValueEarlyReturn k = true ∨ skipValueForInput k a = .continue ∨
                skipValueForInput k a = .unreachable) := by decide
        have hk := hk k (Kind.mem_all k) allow (bools_all allow)
        by_cases hb : blocksConsumer allow k = true
        · obtain ⟨h1, h2⟩ := hk.1 hb
          have hs1 : s1.skip = some .propagatedFailureCommand := by
            unfold provide at hp
            simp [h1, h2] at hp
            subst hp; rfl
          have := skip_sticky allow ks s1 s' hs1 h
          constructor
          · intro _; exact this
          · intro hne; exact absurd ⟨k, by simp, hb⟩ hne
        · have hb' : blocksConsumer allow k = false := by simpa using hb
          have hs1 : s1.skip = none := by
            unfold provide at hp
            rcases hk.2 hb' with h1 | h1 | h1
            · simp [h1] at hp; subst hp; exact hs
            · split at hp
              · simp at hp; subst hp; exact hs
              · simp [h1] at hp; subst hp; exact hs
            · split at hp
              · simp at hp; subst hp; exact hs
              · simp [h1] at hp
          obtain ⟨i1, i2⟩ := ih s1 s' h hs1
          constructor
          · rintro ⟨k', hk', hbk'⟩
            rcases List.mem_cons.1 hk' with rfl | hin
            · exact absurd hbk' hb
            · exact i1 ⟨k', hin, hbk'⟩
          · intro hne
            apply i2
            rintro ⟨k', hin, hbk'⟩
            exact hne ⟨k', List.mem_cons_of_mem _ hin, hbk'⟩
  obtain ⟨k1, k2⟩ := key ks CmdState.init s' h rfl
  by_cases hex : ∃ k ∈ ks, blocksConsumer allow k = true
  · have hs := k1 hex
    refine ⟨⟨fun _ => ⟨_, by simp [execute, hs]; rfl⟩, fun _ => hex⟩, ⟨fun hn => absurd hex hn, ?_⟩, by decide⟩
    intro hr; simp [execute, hs] at hr
  · have hs := k2 hex
    refine ⟨⟨fun h => absurd h hex, ?_⟩, ⟨fun _ => by simp [execute, hs], fun _ => hex⟩, by decide⟩
    rintro ⟨r, hr⟩; simp [execute, hs] at hr

example : provideAll false CmdState.init [.existingInput, .failedInput, .virtualInput] =
    some ⟨some .propagatedFailureCommand, 0⟩ := by decide
example : execute ⟨some .propagatedFailureCommand, 0⟩ = .skip .propagatedFailureCommand false := by decide
example : provideAll false CmdState.init [.missingInput] = some ⟨some .propagatedFailureCommand, 1⟩ := by decide
example : execute ⟨some .propagatedFailureCommand, 1⟩ = .skip .propagatedFailureCommand true := by decide
example : (provideAll true CmdState.init [.missingInput, .existingInput]).map execute = some .run := by decide

/-! ### "the recorded result is never treated as up to date" -/

private theorem valid_table :
    ∀ c ∈ CommandClass.all, ∀ k ∈ Kind.all, ∀ e ∈ ValidEnv.all,
      isSuccessfulCommand k = false → resultValidGuards c k e = some false := by decide

/-- **C10_never_up_to_date.**  For every command class and every configuration, a stored result of any
kind other than the two successful ones is rejected by the leading guards of `isResultValid` (before the file
system is looked at): in particular FailedCommand, PropagatedFailureCommand, CancelledCommand and
SkippedCommand.  A produced node whose stored value is `FailedInput` (or `MissingInput`) is invalid too, for
plain and for directory nodes. -/
theorem C10_never_up_to_date :
    (∀ (c : CommandClass) (k : Kind) (e : ValidEnv),
        isSuccessfulCommand k = false → resultValidGuards c k e = some false) ∧
    (∀ k, isFailureKind k = true → isSuccessfulCommand k = false) ∧
    isSuccessfulCommand .skippedCommand = false ∧
    producedNodeValid .failedInput = false ∧ producedDirectoryNodeValid .failedInput = false ∧
    producedNodeValid .missingInput = false ∧ producedDirectoryNodeValid .missingInput = false := by
  refine ⟨fun c k e h => valid_table c (CommandClass.mem_all c) k (Kind.mem_all k) e (ValidEnv.mem_all e) h,
    ?_, by decide, by decide, by decide, by decide, by decide⟩
  intro k; cases k <;> decide

example : resultValidGuards .shellCommand .cancelledCommand ⟨false, false, false, false⟩ = some false := by decide
example : resultValidGuards .shellCommand .successfulCommand ⟨false, false, false, false⟩ = none := by decide

/-! ### "the build reports failure" -/

/-- which completions count as a failure of the build, per the property -/
def isFailingCompletion (buildCancelled : Bool) (c : Completion) : Bool :=
  c.result == .failedCommand ||
  (c.result == .cancelledCommand && !buildCancelled) ||   -- killed although nobody cancelled the build
  (c.viaSkip && !c.missingEmpty)                          -- skipped because of a missing input

/-- **C10_build_fails** (as far as the table logic goes).  The number of `hadCommandFailure()` calls of a
build is positive iff some command completed with `FailedCommand`, or with `CancelledCommand` while the build
itself was not cancelled, or skipped because of a missing input.  (A command skipped for a `FailedInput` is
not counted again: its producer already was.  When the build itself is cancelled the frontend reports failure
through its own `cancelled` flag.)  False before fix F21: a command killed by SIGKILL/SIGINT is classified
`CancelledCommand`, its consumers skip, and the build exited 0. -/
theorem C10_build_fails (buildCancelled : Bool) (cs : List Completion) :
    0 < failureCount buildCancelled cs ↔ ∃ c ∈ cs, isFailingCompletion buildCancelled c = true := by
  have one : ∀ c : Completion, 0 < reports buildCancelled c ↔ isFailingCompletion buildCancelled c = true := by
    rintro ⟨k, v, m⟩
    have h : ∀ k ∈ Kind.all, ∀ v ∈ bools, ∀ m ∈ bools, ∀ b ∈ bools,
        (0 < reports b ⟨k, v, m⟩ ↔ isFailingCompletion b ⟨k, v, m⟩ = true) := by decide
    exact h k (Kind.mem_all k) v (bools_all v) m (bools_all m) buildCancelled (bools_all _)
  induction cs with
  | nil => simp [failureCount]
  | cons c cs ih =>
    simp only [failureCount]
    constructor
    · intro h
      by_cases h1 : 0 < reports buildCancelled c
      · exact ⟨c, by simp, (one c).1 h1⟩
      · obtain ⟨c', hc', hf⟩ := ih.1 (by omega)
        exact ⟨c', List.mem_cons_of_mem _ hc', hf⟩
    · rintro ⟨c', hc', hf⟩
      rcases List.mem_cons.1 hc' with rfl | hin
      · have := (one c').2 hf; omega
      · have := ih.2 ⟨c', hin, hf⟩; omega

example : failureCount false [⟨.successfulCommand, false, true⟩, ⟨.cancelledCommand, false, true⟩,
    ⟨.propagatedFailureCommand, true, true⟩] = 1 := by decide
example : failureCount false [⟨.successfulCommand, false, true⟩, ⟨.propagatedFailureCommand, true, false⟩] = 1 := by decide
example : failureCount false [⟨.successfulCommand, false, true⟩, ⟨.skippedCommand, false, true⟩] = 0 := by decide

/-! ### "when a command fails" — by exit status or by ANY signal: what an executed command reports -/

theorem ChildEnd.mem_all (e : ChildEnd) (h : e.wf = true) : e ∈ ChildEnd.all := by
  unfold ChildEnd.all
  cases e with
  | exited c =>
    simp only [ChildEnd.wf, decide_eq_true_eq] at h
    exact List.mem_append_left _ (List.mem_map.2 ⟨c, List.mem_range.2 h, rfl⟩)
  | signaled s core =>
    simp only [ChildEnd.wf, Bool.and_eq_true, decide_eq_true_eq] at h
    refine List.mem_append_right _ (List.mem_flatMap.2 ⟨s - 1, List.mem_range.2 (by omega), ?_⟩)
    have : s - 1 + 1 = s := by omega
    rw [this]
    cases core <;> simp

/-- per child end: success is reported exactly for `exit(0)`; everything else is a failure kind; `Cancelled` only for a signal -/
def childEndOk (e : ChildEnd) : Bool :=
  (match executedResult e with
   | .continue => e == .exited 0
   | .kind k => isFailureKind k && e != .exited 0
   | _ => false) &&
  (waitProcStatus e.encode != .cancelled || (match e with | .signaled _ _ => true | _ => false))

private theorem child_end_table : ∀ e ∈ ChildEnd.all, childEndOk e = true := by decide +kernel

/-- **C10_child_end_outcomes.**  For EVERY way a child process can end — `exit(c)` for every c < 256, death by every signal
1..64 with or without a core dump — the result of the executed external command (`cleanUpExecutedProcess` classifying the
wait status, then the completion lambda of `ExternalCommand::execute`) is `computeCommandResult` (a successful kind) **iff**
the child called `exit(0)`; in every other case it is one of the three failure kinds.  So a command killed by SIGTERM,
SIGSEGV, SIGABRT, … is a failed command like one that exits non-zero. -/
theorem C10_child_end_outcomes (e : ChildEnd) (h : e.wf = true) :
    (executedResult e = .continue ↔ e = .exited 0) ∧
    (e ≠ .exited 0 → ∃ k, executedResult e = .kind k ∧ isFailureKind k = true) ∧
    (waitProcStatus e.encode = .cancelled → ∃ s c, e = .signaled s c) ∧
    isSuccessfulCommand computeCommandResultKind = true := by
  have t := child_end_table e (ChildEnd.mem_all e h)
  unfold childEndOk at t
  simp only [Bool.and_eq_true, Bool.or_eq_true, bne_iff_ne, ne_eq] at t
  obtain ⟨t1, t2⟩ := t
  refine ⟨?_, ?_, ?_, by decide⟩
  · constructor
    · intro hc; rw [hc] at t1; simpa using t1
    · intro he
      cases hr : executedResult e with
      | «continue» => rfl
      | kind k => rw [hr] at t1; simp [he] at t1
      | asIs => rw [hr] at t1; simp at t1
      | unreachable => rw [hr] at t1; simp at t1
  · intro hne
    cases hr : executedResult e with
    | «continue» => rw [hr] at t1; simp at t1; exact absurd t1 hne
    | kind k => rw [hr] at t1; simp at t1; exact ⟨k, rfl, t1.1⟩
    | asIs => rw [hr] at t1; simp at t1
    | unreachable => rw [hr] at t1; simp at t1
  · intro hc
    rcases t2 with t2 | t2
    · exact absurd hc (by simpa using t2)
    · cases e with
      | exited c => simp at t2
      | signaled s c => exact ⟨s, c, rfl⟩

example : executedResult (.signaled 15 false) = .kind .failedCommand := by decide +kernel   -- SIGTERM
example : executedResult (.signaled 11 true) = .kind .failedCommand := by decide +kernel    -- SIGSEGV, core dumped
example : executedResult (.signaled 9 false) = .kind .cancelledCommand := by decide +kernel -- SIGKILL
example : executedResult (.exited 0) = .continue := by decide +kernel
example : executedResult (.exited 1) = .kind .failedCommand := by decide +kernel

/-! ### "the next build re-attempts it": a stored failure never enables the update-without-running shortcut -/

private theorem upd_table :
    (∀ c ∈ bools, updateGuard c false = false) ∧
    (∀ k ∈ Kind.all, ∀ b ∈ bools, isSuccessfulCommand k = false → priorHasPrior k b = b) ∧
    hasPriorResultInit = false := by decide

/-- an input value never sets `hasPriorResult` -/
private theorem input_hasPrior (allow : Bool) (l l' : Life) (k : Kind) (h : l.step allow (.input k) = some l') :
    l'.upd.hasPrior = l.upd.hasPrior := by
  simp only [Life.step] at h
  split at h
  · simp at h
  · split at h
    · simp at h; subst h; rfl
    · split at h <;> (simp at h; subst h; rfl)

private theorem inputs_hasPrior (allow : Bool) (ks : List Kind) (l l' : Life)
    (h : Life.steps allow l (ks.map .input) = some l') : l'.upd.hasPrior = l.upd.hasPrior := by
  induction ks generalizing l with
  | nil => simp [Life.steps] at h; subst h; rfl
  | cons k ks ih =>
    simp only [List.map_cons, Life.steps] at h
    cases hs : l.step allow (.input k) with
    | none => simp [hs] at h
    | some l1 =>
      simp only [hs] at h
      rw [ih l1 h, input_hasPrior allow l l1 k hs]

private theorem steps_append (allow : Bool) (l : Life) (a b : List LifeStep) :
    Life.steps allow l (a ++ b) = (Life.steps allow l a).bind fun l' => Life.steps allow l' b := by
  induction a generalizing l with
  | nil => simp [Life.steps]
  | cons s a ih =>
    simp only [List.cons_append, Life.steps]
    cases l.step allow s with
    | none => simp
    | some l1 => simp [ih]

/-- what one build does to `hasPriorResult`, given its value `b` after `start` -/
private theorem build_hasPrior (allow : Bool) (prior : Option Kind) (ks : List Kind) (l l' : Life)
    (hp : ∀ k, prior = some k → isSuccessfulCommand k = false)
    (h : Life.steps allow l (buildSteps prior ks) = some l') :
    l'.upd.hasPrior = startHasPrior l.upd.hasPrior := by
  unfold buildSteps at h
  simp only [List.cons_append, Life.steps, Life.step] at h
  rw [steps_append] at h
  cases prior with
  | none =>
    simp only [Life.steps, Option.bind] at h
    rw [inputs_hasPrior allow ks _ l' h]
  | some k =>
    simp only [Life.steps, Life.step, Option.bind] at h
    rw [inputs_hasPrior allow ks _ l' h]
    exact upd_table.2.1 k (Kind.mem_all k) _ (bools_all _) (hp k rfl)

/-- **C10_failed_prior_is_rerun (fresh command object).**  A build in which the engine hands the command a prior value that
is not a successful one (FailedCommand, PropagatedFailureCommand, CancelledCommand, SkippedCommand, …) or no prior value at
all: whatever the inputs deliver, `allow-modified-outputs` or not, outputs on disk or not, `execute` never takes the
"update without running" block — it skips (failed input) or RUNS the command.  Stated for a command object that has not been
through an earlier build (a new process / new `BuildSystem` per build, as the `llbuild` tool does); holds with or without F47. -/
theorem C10_failed_prior_is_rerun (allow amo anyMissing : Bool) (prior : Option Kind) (ks : List Kind) (l' : Life)
    (hp : ∀ k, prior = some k → isSuccessfulCommand k = false)
    (h : Life.steps allow Life.init (buildSteps prior ks) = some l') :
    execute2 amo anyMissing l' ≠ .update := by
  have hh := build_hasPrior allow prior ks Life.init l' hp h
  have h0 : startHasPrior Life.init.upd.hasPrior = false ∨ startHasPrior Life.init.upd.hasPrior = Life.init.upd.hasPrior := by
    have : ∀ b ∈ bools, startHasPrior b = false ∨ startHasPrior b = b := by decide
    exact this _ (bools_all _)
  have hf : l'.upd.hasPrior = false := by
    rcases h0 with h0 | h0
    · rw [hh, h0]
    · rw [hh, h0]; exact upd_table.2.2
  unfold execute2
  split
  · simp
  · rw [hf, upd_table.1 _ (bools_all _)]; simp

/-- **C10_failed_prior_is_rerun_reused.**  The same for a command object with ANY earlier life (a `BuildSystem` reused for
several builds, as `BuildSystemFrontend::build` does: `l` is whatever state the earlier builds left).  Needs `start` to
reset `hasPriorResult` (generated `startHasPrior`); before fix F47 it did not (`startHasPrior old = old`) and a command that
once had a successful prior value took the update block after a FAILED result too (witness on the real code:
`life 1 1 s,p10,x,s,p11,x` gave `update;update`). -/
theorem C10_failed_prior_is_rerun_reused (allow amo anyMissing : Bool) (prior : Option Kind) (ks : List Kind) (l l' : Life)
    (hp : ∀ k, prior = some k → isSuccessfulCommand k = false)
    (h : Life.steps allow l (buildSteps prior ks) = some l') :
    execute2 amo anyMissing l' ≠ .update := by
  have hreset : ∀ b ∈ bools, startHasPrior b = false := by decide
  have hf : l'.upd.hasPrior = false := by rw [build_hasPrior allow prior ks l l' hp h, hreset _ (bools_all _)]
  unfold execute2
  split
  · simp
  · rw [hf, upd_table.1 _ (bools_all _)]; simp

/-- the state a reused command is in after a build whose prior value was a success -/
example : (Life.steps false Life.init (buildSteps (some .successfulCommand) [])).map (·.upd.hasPrior) = some true := by decide
/-- … and the next build on the same object, prior value `FailedCommand`, outputs on disk, allow-modified-outputs: it RUNS -/
example : ((Life.steps false Life.init (buildSteps (some .successfulCommand) [])).bind
    fun l => Life.steps false l (buildSteps (some .failedCommand) [])).map (execute2 true false) = some .run := by decide

example : (Life.steps false Life.init (buildSteps (some .failedCommand) [.existingInput])).map (execute2 true false) = some .run := by decide
example : (Life.steps false Life.init (buildSteps (some .successfulCommand) [.existingInput])).map (execute2 true false) = some .update := by decide
example : (Life.steps false Life.init (buildSteps (some .successfulCommand) [.missingOutput])).map (execute2 true false) = some .run := by decide

end LLBuild.FailProp
