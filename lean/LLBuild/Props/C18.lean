/-
C18 — Ninja builds converge to the clean-build state and do no unnecessary work.

"For any Ninja manifest of deterministic commands and any history of observable source edits, output deletions
and manifest edits, `llbuild ninja build` leaves the same output contents as a clean build, and an immediate
rebuild runs no command.  Order-only inputs impose ordering without triggering rebuilds, implicit inputs and
depfile-discovered inputs trigger rebuilds, a changed command line re-runs its command, and a failing command
stops its dependents and is retried next time."

These theorems decide the clauses that are decisions of the Ninja driver itself (model: Model/NinjaBuild.lean,
tables regenerated from lib/Commands/NinjaBuildCommand.cpp by extract/x_ninjabuild.py).  The whole-build clauses
(convergence, null rebuild, minimality, failures) are proved in Props/C18World.lean over the world model
Model/NinjaWorld.lean, which composes these decision functions the way the engine does and is compared with the real
`llbuild ninja build` on every generated history by vlib/props/c18.py (stream `world`).
-/
import LLBuild.Lemmas.NinjaBuild

namespace LLBuild.NinjaBuild
open Gen

/-- The structural facts the model relies on, as extracted from the source of this run: the guards of
`buildCommandIsResultValid` in order (kind test first, so that the output infos of a non-command value are never
read), the order of the decisions in `inputsAvailable`, and that input rules are registered under the key they
are requested and stored under (F36: otherwise no input result is ever found in the database). -/
theorem C18_tables :
    validGuards = [.notSuccessful, .hashDiffersUnlessGenerator, .outputMissingUnlessAlias, .outputInfoDiffers] ∧
    decisionOrder = [.cancelled, .phony, .updateIfNewer, .simulate, .skip, .run] ∧
    okInputKinds = [.existingInput, .successfulCommand] ∧ missingInputKind = .missingInput ∧
    inputRuleKeyIsRequestedKey = true ∧ phonyPropagatesSkip = true ∧
    badInputDisablesUpdateIfNewer = true ∧ discoveredUnconditional = true := by decide

/-! ### validity of a stored command result -/

theorem checkOutputs_valid_iff (c : Cmd) (v : BuildValue) : ∀ (outs : List FInfo) (k : Nat),
    checkOutputs c v k outs = .valid ↔
      ∀ i, (h : i < outs.length) → (outs[i].isMissing = false ∨ (c.phony = true ∧ c.hasInputs = true)) ∧
        ∃ st, v.nthInfo (k + i) = some st ∧ st.same outs[i] = true := by
  intro outs
  induction outs with
  | nil => intro k; simp [checkOutputs]
  | cons now rest ih =>
    intro k
    have hg1 : hasGuard .outputMissing = false := by decide
    have hg2 : hasGuard .outputMissingUnlessAlias = true := by decide
    have hg3 : hasGuard .outputInfoDiffers = true := by decide
    simp only [checkOutputs, missingInvalid, hg1, hg2, hg3, Bool.false_or, Bool.true_and, ↓reduceIte]
    constructor
    · intro h
      split at h
      · cases h
      · rename_i hm
        split at h
        · cases h
        · rename_i st hst
          split at h
          · rename_i hs
            intro i hi
            cases i with
            | zero =>
              refine ⟨?_, st, by simpa using hst, hs⟩
              simp only [List.getElem_cons_zero]
              cases hmm : now.isMissing with
              | false => exact Or.inl rfl
              | true =>
                right
                simp only [hmm, Bool.true_and, Bool.not_eq_true', Bool.not_eq_false] at hm
                simpa using hm
            | succ j =>
              have := (ih (k + 1)).1 h j (by simpa using hi)
              simpa [Nat.add_assoc, Nat.add_comm 1 j] using this
          · cases h
    · intro h
      have h0 := h 0 (by simp)
      simp only [List.getElem_cons_zero, Nat.add_zero] at h0
      obtain ⟨hmiss, st, hst, hs⟩ := h0
      have hm : ¬ ((now.isMissing && !(c.phony && c.hasInputs)) = true) := by
        rcases hmiss with hmm | ⟨hp, hi⟩
        · simp [hmm]
        · simp [hp, hi]
      rw [if_neg hm, hst]
      simp only [hs, ↓reduceIte]
      apply (ih (k + 1)).2
      intro i hi
      have := h (i + 1) (by simpa using hi)
      simpa [Nat.add_assoc, Nat.add_comm 1 i] using this

/-- "command rule (valid iff stored successful, command hash equal unless generator, every output present with
identical info)": a stored command result is accepted exactly when it is a successful command, its command hash
equals the current one (or the command is a generator), and every output exists (or the command is a phony alias
standing for its inputs) with file information identical to the stored one. -/
theorem C18_valid_iff (c : Cmd) (v : BuildValue) (outs : List FInfo) :
    commandIsResultValid c v outs = .valid ↔
      v.kind = .successfulCommand ∧ (c.generator = true ∨ v.hash = c.hash) ∧
      ∀ i, (h : i < outs.length) → (outs[i].isMissing = false ∨ (c.phony = true ∧ c.hasInputs = true)) ∧
        ∃ st, v.nthInfo i = some st ∧ st.same outs[i] = true := by
  have hg1 : hasGuard .notSuccessful = true := by decide
  have hg2 : hasGuard .hashDiffersUnlessGenerator = true := by decide
  have hg3 : hasGuard .hashDiffers = false := by decide
  unfold commandIsResultValid leadingInvalid
  simp only [hg1, hg2, hg3, Bool.true_and, Bool.false_and, Bool.or_false]
  constructor
  · intro h
    split at h
    · cases h
    · rename_i hl
      simp only [Bool.or_eq_true, Bool.and_eq_true, bne_iff_ne, ne_eq, Bool.not_eq_true', not_or, not_and,
        Decidable.not_not] at hl
      refine ⟨hl.1, ?_, ?_⟩
      · cases hgv : c.generator with
        | true => exact Or.inl rfl
        | false => exact Or.inr (hl.2 hgv)
      · have := (checkOutputs_valid_iff c v outs 0).1 h
        simpa using this
  · rintro ⟨hk, hh, ho⟩
    have hl : ¬ ((v.kind != Kind.successfulCommand || !c.generator && v.hash != c.hash) = true) := by
      simp only [Bool.or_eq_true, Bool.and_eq_true, bne_iff_ne, ne_eq, Bool.not_eq_true', not_or, not_and,
        Decidable.not_not]
      refine ⟨hk, fun hg => ?_⟩
      rcases hh with h1 | h1
      · rw [h1] at hg; cases hg
      · exact h1
    rw [if_neg hl]
    apply (checkOutputs_valid_iff c v outs 0).2
    simpa using ho

example : commandIsResultValid { hash := 7 } { kind := .successfulCommand, hash := 7, infos := [⟨1, 2, 3, 4, ⟨5, 6⟩⟩] }
    [⟨1, 2, 9, 4, ⟨5, 6⟩⟩] = .valid := by decide
example : commandIsResultValid { hash := 7 } { kind := .successfulCommand, hash := 7, infos := [⟨1, 2, 3, 4, ⟨5, 6⟩⟩] }
    [⟨1, 2, 3, 4, ⟨5, 7⟩⟩] = .invalid := by decide
/-- a stored value with two infos checked against three outputs reads past its array: modelled, not hidden -/
example : commandIsResultValid { hash := 7 } { kind := .successfulCommand, hash := 7, infos := [⟨1, 2, 3, 4, ⟨5, 6⟩⟩, ⟨1, 3, 3, 4, ⟨5, 6⟩⟩] }
    [⟨1, 2, 3, 4, ⟨5, 6⟩⟩, ⟨1, 3, 3, 4, ⟨5, 6⟩⟩, ⟨1, 4, 3, 4, ⟨5, 6⟩⟩] = .oob := by decide

/-- a well-formed store (as many infos as outputs) is never read out of bounds -/
theorem C18_valid_no_oob (c : Cmd) (v : BuildValue) (outs : List FInfo) (hlen : v.infos.length = outs.length) :
    commandIsResultValid c v outs ≠ .oob := by
  unfold commandIsResultValid
  split
  · simp
  · have : ∀ (l : List FInfo) (k : Nat), k + l.length = outs.length → checkOutputs c v k l ≠ .oob := by
      intro l
      induction l with
      | nil => intro k _; simp [checkOutputs]
      | cons now rest ih =>
        intro k hk
        simp only [checkOutputs]
        split
        · simp
        · split
          · have hki : k < v.infos.length := by simp only [List.length_cons] at hk; omega
            have : ∃ st, v.nthInfo k = some st := by
              unfold BuildValue.nthInfo
              split
              · exact ⟨v.infos[k], by simp [hki]⟩
              · exact ⟨_, rfl⟩
            obtain ⟨st, hst⟩ := this
            rw [hst]
            simp only
            split
            · exact ih (k + 1) (by simp only [List.length_cons] at hk; omega)
            · simp
          · exact ih (k + 1) (by simp only [List.length_cons] at hk; omega)
    exact this outs 0 (by simp)

theorem FInfo.same_refl (i : FInfo) : i.same i = true := by simp [FInfo.same]

/-- "an immediate rebuild runs no command" (the driver's half): the value stored by a successful execution is
accepted as long as the command line and the outputs' file information stay what they were. -/
theorem C18_unchanged_stays_valid (c : Cmd) (outs : List FInfo)
    (hex : ∀ o ∈ outs, o.isMissing = false ∨ (c.phony = true ∧ c.hasInputs = true)) :
    commandIsResultValid c (afterExecute c true true outs).1 outs = .valid := by
  rw [C18_valid_iff]
  refine ⟨rfl, Or.inr rfl, fun i hi => ⟨hex _ (List.getElem_mem hi), outs[i], ?_, FInfo.same_refl _⟩⟩
  simp only [afterExecute, computeResult, BuildValue.nthInfo, Bool.not_true, Bool.false_eq_true, ↓reduceIte]
  split
  · simp [hi]
  · rename_i hlen
    have h0 : i = 0 := by omega
    subst h0
    cases outs with
    | nil => simp at hi
    | cons a l => simp

example : commandIsResultValid { hash := 1, restat := true } (afterExecute { hash := 1, restat := true } true true
    [⟨1, 2, 3, 4, ⟨5, 6⟩⟩, ⟨1, 3, 3, 4, ⟨5, 6⟩⟩]).1 [⟨1, 2, 3, 4, ⟨5, 6⟩⟩, ⟨1, 3, 3, 4, ⟨5, 6⟩⟩] = .valid := by decide

/-- failure and skip values are never accepted next time: "a failing command ... is retried next time" -/
theorem C18_failure_values_never_valid (c : Cmd) (v : BuildValue) (outs : List FInfo)
    (hk : v.kind ≠ .successfulCommand) : commandIsResultValid c v outs = .invalid := by
  cases h : commandIsResultValid c v outs with
  | invalid => rfl
  | valid => exact absurd ((C18_valid_iff c v outs).1 h).1 hk
  | oob =>
    unfold commandIsResultValid leadingInvalid at h
    have hg1 : hasGuard .notSuccessful = true := by decide
    have : (v.kind != Kind.successfulCommand) = true := by simpa using hk
    simp [hg1, this] at h

/-! ### a changed command line -/

/-- "a changed command line re-runs its command": for a non-generator command whose command hash differs from the
stored one, the stored result is invalid, the update-if-newer shortcut cannot fire, and unless the build is
cancelled / simulated or an input failed, the command is executed. -/
theorem C18_command_line_change_reruns (c : Cmd) (v : BuildValue) (outs : List FInfo) (ctx : Ctx) (a : Acc)
    (hgen : c.generator = false) (hne : v.hash ≠ c.hash) :
    commandIsResultValid c v outs = .invalid ∧ shortcut ctx c a (some v) outs = false ∧
    (ctx.cancelled = false → ctx.simulate = false → c.phony = false → a.shouldSkip = false →
      inputsAvailable ctx c a (some v) outs = .execute) := by
  have hsc : shortcut ctx c a (some v) outs = false := by
    have hd : shortcutDisabled c (some v) = true := by
      simp only [shortcutDisabled, shortcutGeneratorExempt, shortcutRequiresPrior, shortcutComparesHash, priorOf, hgen]
      split <;> simp [hne] <;> exact fun h => hne h.symm
    simp [shortcut, hd]
  refine ⟨?_, hsc, ?_⟩
  · cases h : commandIsResultValid c v outs with
    | invalid => rfl
    | valid =>
      rcases ((C18_valid_iff c v outs).1 h).2.1 with h1 | h1
      · rw [hgen] at h1; cases h1
      · exact absurd h1 hne
    | oob =>
      unfold commandIsResultValid leadingInvalid at h
      have hg2 : hasGuard .hashDiffersUnlessGenerator = true := by decide
      have : (v.hash != c.hash) = true := by simpa using hne
      simp [hg2, hgen, this] at h
  · intro h1 h2 h3 h4
    simp [inputsAvailable, decisionOrder, firstSome, decide1, h1, h2, h3, h4, hsc]

example : inputsAvailable {} { hash := 8 } {} (some { kind := .successfulCommand, hash := 7, infos := [⟨1, 2, 3, 4, ⟨9, 0⟩⟩] })
    [⟨1, 2, 3, 4, ⟨9, 0⟩⟩] = .execute := by decide
/-- the same situation for a generator command: not re-run (Ninja's documented meaning of `generator`) -/
example : inputsAvailable {} { hash := 8, generator := true } {} (some { kind := .successfulCommand, hash := 7, infos := [⟨1, 2, 3, 4, ⟨9, 0⟩⟩] })
    [⟨1, 2, 3, 4, ⟨9, 0⟩⟩] = .complete { kind := .successfulCommand, hash := 8, infos := [⟨1, 2, 3, 4, ⟨9, 0⟩⟩] } false := by decide

/-! ### order-only inputs -/

/-- "Order-only inputs impose ordering without triggering rebuilds": they are requested with `mustFollow`, no
value of theirs reaches the task, so neither `newestModTime` nor the skip decision nor the outcome of
`inputsAvailable` depends on them; the validity test does not look at inputs at all. -/
theorem C18_order_only_never_compared (c : Cmd) (e i oo oo' : List BuildValue) :
    orderOnlyReq = .mustFollow ∧
    received (⟨e, i, oo⟩ : Inputs BuildValue) = e ++ i ∧
    accumulate c ⟨e, i, oo⟩ = accumulate c ⟨e, i, oo'⟩ ∧
    ∀ ctx prior outs, inputsAvailable ctx c (accumulate c ⟨e, i, oo⟩) prior outs =
      inputsAvailable ctx c (accumulate c ⟨e, i, oo'⟩) prior outs := by
  have h : accumulate c ⟨e, i, oo⟩ = accumulate c ⟨e, i, oo'⟩ := by
    simp only [accumulate, received_eq]
  exact ⟨by decide, received_eq _, h, fun _ _ _ => by rw [h]⟩

example : (accumulate { hash := 1 } ⟨[.existing ⟨1, 2, 3, 4, ⟨5, 0⟩⟩], [], [.existing ⟨1, 9, 3, 4, ⟨99, 0⟩⟩]⟩).newest = ⟨5, 0⟩ := by decide

/-! ### failed or missing inputs -/

/-- "a failing command stops its dependents": if an explicit or implicit input delivered a failed, skipped or
missing-input value, the command is not executed; it completes with a Skipped value — except that the
update-if-newer test, which comes first in the source, may still declare it up to date (possible only when the
build was not stopped, i.e. `-k` ≠ 1); a phony command propagates the skip (F38). -/
theorem C18_failed_input_skips (ctx : Ctx) (c : Cmd) (ins : Inputs BuildValue) (prior : Option BuildValue)
    (outs : List FInfo) (v : BuildValue) (hv : v ∈ ins.explicit ∨ v ∈ ins.implicit)
    (hk : v.kind = .failedCommand ∨ v.kind = .skippedCommand ∨ v.kind = .missingInput) :
    (accumulate c ins).shouldSkip = true ∧
    inputsAvailable ctx c (accumulate c ins) prior outs ≠ .execute ∧
    ∀ val f, inputsAvailable ctx c (accumulate c ins) prior outs = .complete val f →
      val = .skipped ∨ (c.phony = false ∧ shortcut ctx c (accumulate c ins) prior outs = true ∧ val = computeResult c outs) := by
  have hskip : (accumulate c ins).shouldSkip = true := by
    apply foldl_skip_of_mem _ _ v
    · rw [received_eq]; exact List.mem_append.2 hv
    · rcases hk with h | h | h <;> rw [h] <;> decide
  refine ⟨hskip, ?_, ?_⟩
  all_goals
    simp only [inputsAvailable, decisionOrder, firstSome, decide1, phonyPropagatesSkip, hskip, Bool.true_and, ↓reduceIte]
    cases ctx.cancelled <;> cases c.phony <;> cases hs : shortcut ctx c (accumulate c ins) prior outs <;>
      cases ctx.simulate <;> simp

/-- the full-strength reading: such a command ALWAYS completes with a Skipped value, whatever the timestamps of its
outputs say (repair F43: before it the update-if-newer test, which comes first in the source, could declare the command
up to date with a *successful* value when the build was not stopped, i.e. `-k` ≠ 1, and a command at distance two of
the failed one then ran on the stale output - replayed on the real tool, corpus/C18/f43-*.json). -/
theorem C18_failed_input_skips_full (ctx : Ctx) (c : Cmd) (ins : Inputs BuildValue) (prior : Option BuildValue)
    (outs : List FInfo) (v : BuildValue) (hv : v ∈ ins.explicit ∨ v ∈ ins.implicit)
    (hk : v.kind = .failedCommand ∨ v.kind = .skippedCommand ∨ v.kind = .missingInput) :
    shortcut ctx c (accumulate c ins) prior outs = false ∧
    inputsAvailable ctx c (accumulate c ins) prior outs = .complete .skipped false := by
  have hbad : okInputKinds.contains v.kind = false := by rcases hk with h | h | h <;> rw [h] <;> decide
  have hmem : v ∈ received ins := by rw [received_eq]; exact List.mem_append.2 hv
  have hskip : (accumulate c ins).shouldSkip = true := foldl_skip_of_mem _ _ v hmem hbad
  have hcan : (accumulate c ins).canUpdateIfNewer = false := foldl_can_bad _ _ v hmem hbad
  have hs : shortcut ctx c (accumulate c ins) prior outs = false := by simp [shortcut, hcan]
  refine ⟨hs, ?_⟩
  simp only [inputsAvailable, decisionOrder, firstSome, decide1, phonyPropagatesSkip, hskip, hs, Bool.true_and, ↓reduceIte]
  cases ctx.cancelled <;> cases c.phony <;> cases ctx.simulate <;> simp

/-- the input on which the unrepaired code answered `complete (successful) false` through the shortcut: one failed
input, one existing input older than the output, a prior successful result with the same hash -/
example : inputsAvailable {} { hash := 1 }
    (accumulate { hash := 1 } ⟨[.failed, .existing ⟨1, 2, 3, 4, ⟨5, 0⟩⟩], [], []⟩)
    (some { kind := .successfulCommand, hash := 1, infos := [⟨1, 7, 3, 4, ⟨6, 0⟩⟩] }) [⟨1, 7, 3, 4, ⟨6, 0⟩⟩] =
    .complete .skipped false := by decide

example : inputsAvailable {} { hash := 1 } (accumulate { hash := 1 } ⟨[.failed], [], []⟩) none [FInfo.missing] =
    .complete .skipped false := by decide

/-! ### restat, phony, deps -/

/-- "restat ⇒ force = !restat": a successful execution completes with the outputs' information and forces
downstream propagation exactly when `restat` is not set; a failed one completes with a Failed value and always
propagates. -/
theorem C18_restat_force (c : Cmd) (outs : List FInfo) (depsOk : Bool) :
    afterExecute c true true outs = (computeResult c outs, !c.restat) ∧
    afterExecute c false depsOk outs = (.failed, true) ∧ afterExecute c true false outs = (.failed, true) := by
  simp [afterExecute, forceIsNotRestat]

example : (afterExecute { hash := 1, restat := true } true true []).2 = false := by decide

/-! ### depfile-discovered inputs -/

/-- "depfile-discovered inputs trigger rebuilds" (recording half): after a successful execution of a command with a
deps style, EVERY entry of its depfile whose path normalises is in the dependency list the engine stores, as a
dependency that is not order-only - whatever else that path is to the command: nothing in the list of declared
inputs (`ins`, in particular `ins.orderOnly`) and no further condition (`extra`) can remove it. -/
theorem C18_discovered_inputs_recorded {α : Type} (c : Cmd) (ins : Inputs α) (entries : List (Option α))
    (extra : α → Bool) (p : α) (hd : c.hasDeps = true) (hp : some p ∈ entries) :
    (⟨p, false⟩ : DepEntry α) ∈ dependencyList c ins entries extra := by
  have hu : discoveredUnconditional = true := by decide
  simp only [dependencyList, discovered, hd, hu, Bool.true_or, ↓reduceIte, List.mem_append, List.mem_map,
    List.mem_filter, List.mem_filterMap, id]
  exact Or.inr ⟨p, ⟨⟨some p, hp, rfl⟩, trivial⟩, rfl⟩

/-- (triggering half) hence a change of such a path makes the engine's scan re-run the command's task - also when
the same path is among the command's order-only inputs (the generated-header idiom
`build foo.o: cc foo.c || gen.h` + a depfile naming `gen.h`) - and the task then executes the command
(`C18_deps_never_shortcut`). -/
theorem C18_discovered_input_triggers {α : Type} (c : Cmd) (ins : Inputs α) (entries : List (Option α))
    (extra : α → Bool) (changed : α → Bool) (p : α) (hd : c.hasDeps = true) (hp : some p ∈ entries)
    (hc : changed p = true) :
    triggersRerun (dependencyList c ins entries extra) changed = true := by
  simp only [triggersRerun, List.any_eq_true]
  exact ⟨⟨p, false⟩, C18_discovered_inputs_recorded c ins entries extra p hd hp, by simp [hc]⟩

/-- (order-only half, on the same dependency list) a path that is ONLY an order-only input - not an explicit or
implicit input and not named by the depfile - never triggers: the list holds it with `orderOnly = true` only. -/
theorem C18_order_only_alone_never_triggers {α : Type} (c : Cmd) (ins : Inputs α) (entries : List (Option α))
    (extra : α → Bool) (changed : α → Bool)
    (h : ∀ p, changed p = true → p ∉ ins.explicit ∧ p ∉ ins.implicit ∧ some p ∉ entries) :
    triggersRerun (dependencyList c ins entries extra) changed = false := by
  simp only [triggersRerun, Bool.eq_false_iff, ne_eq, List.any_eq_true, not_exists, not_and]
  intro d hdm hch
  simp only [Bool.and_eq_true, Bool.not_eq_true'] at hch
  obtain ⟨hoo, hchg⟩ := hch
  obtain ⟨he, hi, hent⟩ := h d.key hchg
  simp only [dependencyList, requestDeps, requests, explicitReq, implicitReq, orderOnlyReq, discovered,
    List.map_append, List.map_map, List.mem_append, List.mem_map, Function.comp] at hdm
  rcases hdm with ((⟨x, hx, rfl⟩ | ⟨x, hx, rfl⟩) | ⟨x, hx, rfl⟩) | hdm
  · exact he hx
  · exact hi hx
  · simp at hoo
  · split at hdm
    · simp only [List.mem_map, List.mem_filter, List.mem_filterMap, id] at hdm
      obtain ⟨q, ⟨⟨o, ho, rfl⟩, _⟩, rfl⟩ := hdm
      exact hent ho
    · cases hdm

example : triggersRerun (dependencyList { hash := 1, hasDeps := true } ⟨[1], [], [2]⟩ [some 1, some 2] (fun _ => false))
    (fun p => p == 2) = true := by decide
example : triggersRerun (dependencyList { hash := 1, hasDeps := true } ⟨[1], [], [2]⟩ [some 1, none] (fun _ => false))
    (fun p => p == 2) = false := by decide

/-- a phony command never executes anything; it propagates a change exactly when one of its outputs is not a file -/
theorem C18_phony_never_executes (ctx : Ctx) (c : Cmd) (a : Acc) (prior : Option BuildValue) (outs : List FInfo)
    (hp : c.phony = true) :
    inputsAvailable ctx c a prior outs ≠ .execute ∧
    (ctx.cancelled = false → a.shouldSkip = false →
      inputsAvailable ctx c a prior outs = .complete (computeResult c outs) (outs.any (·.isMissing))) := by
  constructor
  · simp only [inputsAvailable, decisionOrder, firstSome, decide1, hp, ↓reduceIte]
    cases ctx.cancelled <;> cases (phonyPropagatesSkip && a.shouldSkip) <;> simp
  · intro h1 h2
    simp [inputsAvailable, decisionOrder, firstSome, decide1, hp, h1, h2]

/-- "depfile ⇒ discovered deps": a command with a deps style never takes the shortcut, so whenever the engine
re-runs its task (e.g. because a discovered dependency changed) the command is executed. -/
theorem C18_deps_never_shortcut (ctx : Ctx) (c : Cmd) (ins : Inputs BuildValue) (prior : Option BuildValue)
    (outs : List FInfo) (hd : c.hasDeps = true) : shortcut ctx c (accumulate c ins) prior outs = false := by
  have : (accumulate c ins).canUpdateIfNewer = false := by
    cases h : (accumulate c ins).canUpdateIfNewer with
    | false => rfl
    | true =>
      have := foldl_can_mono _ _ h
      simp [Acc.init, depsDisableUpdateIfNewer, hd] at this
  simp [shortcut, this]

/-! ### the update-if-newer shortcut -/

/-- mtime level: the shortcut marks a command up to date only if every output exists and is at least as new as
every explicit and implicit input (strictly newer in `--strict` mode), and no such input lacks a file. -/
theorem C18_shortcut_outputs_not_older (ctx : Ctx) (c : Cmd) (ins : Inputs BuildValue) (prior : Option BuildValue)
    (outs : List FInfo) (hs : shortcut ctx c (accumulate c ins) prior outs = true)
    (v : BuildValue) (hv : v ∈ ins.explicit ∨ v ∈ ins.implicit) (hk : okInputKinds.contains v.kind = true)
    (o : FInfo) (ho : o ∈ outs) :
    v.outputInfo.isMissing = false ∧ o.isMissing = false ∧ v.outputInfo.mtime.le o.mtime = true ∧
    (ctx.strict = true → v.outputInfo.mtime.lt o.mtime = true) := by
  simp only [shortcut, Bool.and_eq_true] at hs
  obtain ⟨⟨hcan, _⟩, hall⟩ := hs
  have hmem : v ∈ received ins := by rw [received_eq]; exact List.mem_append.2 hv
  have hm : v.outputInfo.isMissing = false := by
    cases h : v.outputInfo.isMissing with
    | false => rfl
    | true =>
      have := foldl_can_missing (received ins) (Acc.init c) v hmem hk h
      simp only [accumulate] at hcan
      rw [this] at hcan; cases hcan
  have hge : v.outputInfo.mtime.le (accumulate c ins).newest = true := foldl_newest_ge _ _ v hmem hk hm
  have hoo := List.all_eq_true.1 hall o ho
  simp only [Bool.and_eq_true, Bool.not_eq_true'] at hoo
  refine ⟨hm, hoo.1, ?_, ?_⟩
  · cases hst : ctx.strict with
    | true =>
      simp only [hst, ↓reduceIte, refuseCmpStrict, Cmp.eval] at hoo
      exact TS.le_trans hge (TS.le_of_lt (TS.lt_of_not_le hoo.2))
    | false =>
      simp only [hst, Bool.false_eq_true, ↓reduceIte, refuseCmpNonStrict, Cmp.eval] at hoo
      exact TS.le_trans hge (TS.le_of_not_lt hoo.2)
  · intro hst
    simp only [hst, ↓reduceIte, refuseCmpStrict, Cmp.eval] at hoo
    have h1 := TS.lt_of_not_le hoo.2
    rw [TS.le_iff] at hge; rw [TS.lt_iff] at h1 ⊢; omega

/-- the comparison operators, pinned both ways: without `--strict` an output whose mtime EQUALS the newest input's is
up to date (Ninja compatibility, see the comment at l.1110-1121); with `--strict` it is not. -/
theorem C18_equal_mtime (o : FInfo) (hm : o.isMissing = false) :
    canUpdateWithResult { strict := false } o.mtime [o] = true ∧ canUpdateWithResult { strict := true } o.mtime [o] = false := by
  have h1 : o.mtime.lt o.mtime = false := by
    cases h : o.mtime.lt o.mtime with
    | false => rfl
    | true => rw [TS.lt_iff] at h; omega
  simp [canUpdateWithResult, hm, refuseCmpNonStrict, refuseCmpStrict, Cmp.eval, h1, TS.le_refl]

/-- The file-system-history hypothesis under which the shortcut is sound, stated precisely:
(H1) `Increasing h`: every write (source edit or command output) stamps an mtime strictly greater than all
     earlier ones;
(H2) the values the task received and the output information it computed reflect the end of the history
     (`hin`, `hout`: the mtime seen is the stamp of the file's last write) — for inputs this is C01's "every input
     value handed to a task is the current value";
(H3) outputs are only written by their command (so the last write of an output is an execution of this command
     that read its inputs just before) — used to read the conclusion, not needed to derive it.
Conclusion: if the shortcut marks the command up to date, no explicit or implicit input has been written since
the output was last written, i.e. that execution read exactly what the inputs hold now. -/
theorem C18_update_if_newer_sound (h : History) (hinc : Increasing h) (ctx : Ctx) (c : Cmd)
    (ins : Inputs (Nat × BuildValue)) (prior : Option BuildValue) (outs : List (Nat × FInfo))
    (hin : ∀ p ∈ ins.explicit ++ ins.implicit, okInputKinds.contains p.2.kind = true → p.2.outputInfo.isMissing = false →
      ∃ w, lastWrite h p.1 = some w ∧ w.stamp = p.2.outputInfo.mtime)
    (hout : ∀ q ∈ outs, q.2.isMissing = false → ∃ w, lastWrite h q.1 = some w ∧ w.stamp = q.2.mtime)
    (hs : shortcut ctx c (accumulate c ⟨ins.explicit.map (·.2), ins.implicit.map (·.2), ins.orderOnly.map (·.2)⟩) prior
      (outs.map (·.2)) = true) :
    ∀ p ∈ ins.explicit ++ ins.implicit, okInputKinds.contains p.2.kind = true → ∀ q ∈ outs, p.1 ≠ q.1 →
      writtenAfter h q.1 p.1 = false ∧ lastWrite (upToLast h q.1) p.1 = lastWrite h p.1 := by
  intro p hp hk q hq hne
  have hv : p.2 ∈ ins.explicit.map (·.2) ∨ p.2 ∈ ins.implicit.map (·.2) := by
    rcases List.mem_append.1 hp with h1 | h1
    · exact Or.inl (List.mem_map.2 ⟨p, h1, rfl⟩)
    · exact Or.inr (List.mem_map.2 ⟨p, h1, rfl⟩)
  have hq' : q.2 ∈ outs.map (·.2) := List.mem_map.2 ⟨q, hq, rfl⟩
  obtain ⟨hm, hom, hle, _⟩ := C18_shortcut_outputs_not_older ctx c _ prior _ hs p.2 hv hk q.2 hq'
  obtain ⟨wf, hwf, hsf⟩ := hin p hp hk hm
  obtain ⟨wo, hwo, hso⟩ := hout q hq hom
  have hna : writtenAfter h q.1 p.1 = false := not_writtenAfter_of_le hinc hwo hwf (by rw [hsf, hso]; exact hle)
  refine ⟨hna, upToLast_lastWrite hne ?_ hna⟩
  cases hc : writes h q.1 with
  | true => rfl
  | false => rw [lastWrite_none.2 hc] at hwo; cases hwo

/-- file 0 = the output, file 1 = the input; the input is edited (content 11) with an OLD stamp after the output
was produced from content 10: the hypothesis `Increasing` fails, every other hypothesis holds, the shortcut
fires, and the output is stale.  (Documented Ninja-compatible behaviour — `cp -p`, `git checkout` of an older
file, a restored backup — not a defect; replayed on the real tool by the harness as `counter_history`.) -/
theorem C18_update_if_newer_counter_history :
    let h : History := [⟨1, ⟨5, 0⟩, 10⟩, ⟨0, ⟨7, 0⟩, 20⟩, ⟨1, ⟨3, 0⟩, 11⟩]
    let inp : BuildValue := .existing ⟨1, 2, 3, 4, ⟨3, 0⟩⟩
    let out : FInfo := ⟨1, 9, 3, 4, ⟨7, 0⟩⟩
    let c : Cmd := { hash := 1 }
    ¬ Increasing h ∧
    lastWrite h 1 = some ⟨1, ⟨3, 0⟩, 11⟩ ∧ lastWrite h 0 = some ⟨0, ⟨7, 0⟩, 20⟩ ∧
    shortcut {} c (accumulate c ⟨[inp], [], []⟩) (some (computeResult c [out])) [out] = true ∧
    inputsAvailable {} c (accumulate c ⟨[inp], [], []⟩) (some (computeResult c [out])) [out] = .complete (computeResult c [out]) false ∧
    writtenAfter h 0 1 = true ∧ lastWrite (upToLast h 0) 1 ≠ lastWrite h 1 := by
  decide

example : Increasing [⟨1, ⟨5, 0⟩, 10⟩, ⟨0, ⟨7, 0⟩, 20⟩] := by decide

end LLBuild.NinjaBuild
