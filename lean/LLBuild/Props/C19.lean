/-
C19 — No input file can crash, hang or over-read a parser.

"For every byte string given as a Ninja manifest, a Makefile-style dependency file or a dependency-info file,
and for every well-formed YAML document of any shape given as a build description, loading terminates, reads
no memory outside the supplied buffer, and reports problems only through its error callbacks.  Tokens produced
by the Ninja lexer tile the input without gaps or overlap, and end-of-file is reported only at the true end of
the buffer."

This module only joins the parts; it states nothing itself.
  Ninja lexer (no over-read, termination, tiling, end-of-file):  LLBuild.Props.C19Ninja — `LLBuild.NinjaLexer.C19_*`
  Makefile-style dependency files, dependency-info files:        LLBuild.Props.C19Deps  — `LLBuild.MakeDeps.C19_*`,
                                                                                           `LLBuild.DepInfo.C19_*`
  Ninja manifest loader (rule-variable expansion terminates):    LLBuild.Props.C17Load  — `LLBuild.NinjaLoader.C19_loader_total`
  Ninja parser (total, in-bounds lexer calls, callback discipline): LLBuild.Props.C17Parse — `LLBuild.NinjaParser.C19_*`
The build-description loader (BuildFileImpl over the YAML node tree) is LLBuild.Props.C19Yaml — `LLBuild.BuildFileLoader.C19_yaml_*`;
Props/C19All.lean joins it with this module (the vendored LLVM YAML text parser itself is trusted).
-/
import LLBuild.Props.C19Ninja
import LLBuild.Props.C19Deps
import LLBuild.Props.C17Load
import LLBuild.Props.C17Parse
