/-
C12 — Directory-tree signatures change exactly when the tree changes.

Property theorems only.  Model: LLBuild/Model/DirTree.lean; the hash_combine recipes, the nil marker, the filter
polarity and the sort order are GENERATED from lib/BuildSystem/BuildSystem.cpp (LLBuild/Generated/DirTreeRecipe.lean,
extract/x_dirtree.py) and the value encodings from BuildValue.h / FileInfo.h (LLBuild/Generated/Codec.lean, C15).

Scope.  The theorems are about the PRE-HASH terms (`HashTerm`): which data reach `llvm::hash_combine`, in which
order.  Injectivity of the 64-bit mixing itself is out of scope (a 64-bit hash cannot be injective); `fnmatch` is
the abstract parameter `Cfg.fnmatch`.  `Listed c t` (names are NUL-free, every listing packs into < 2^64 bytes) is
what every directory listing satisfies; it is the precondition of the `StringList` wire format (C15).
-/
import LLBuild.Lemmas.DirTree

namespace LLBuild.DirTree
open LLBuild.Codec (Value)
open LLBuild.Generated.Codec
open LLBuild.Generated.DirTreeRecipe

/-- every listing beneath `t` consists of NUL-free names and packs into fewer than 2^64 bytes -/
def Listed (c : Cfg) (t : Tree) : Prop := (obs c t).OK

/-! ### the extracted recipes are the modelled steps -/

/-- `DirectoryTreeSignatureTask::inputsAvailable` as extracted computes, for every directory value, child value and
optional sub-signature: `hash_value(path)`, the directory value's bytes, then per child (in `childResults` order) the
child value's bytes and the sub-signature's bytes or the nil marker — the closed forms `treeBase` / `treeStep` the
signature model uses. -/
theorem C12_tree_recipe_is_modelled (path : Bytes) (dirV : Value) (ch : ChildCtx) (acc : HashTerm) :
    runRoot treeRecipe path dirV = some (treeBase path dirV) ∧
    runChild treeRecipe dirV ch acc = some (treeStep acc ch) ∧
    treeRecipe.resultKind = .DirectoryTreeSignature := by
  refine ⟨rfl, ?_, rfl⟩
  obtain ⟨n, v, sub⟩ := ch
  cases sub <;> rfl

/-- `DirectoryTreeStructureSignatureTask::inputsAvailable` as extracted, run on the values the model supplies
(listing-key value of a directory or of a non-directory path; node-key value of a child): `hash_value(path)`, the
directory's `mode` (unfiltered) or the filtered listing's bytes, then per child its filename, its `mode` (or the
bytes of a non-existing-input value) and the sub-signature's bytes or the nil marker. -/
theorem C12_struct_recipe_is_modelled (c : Cfg) (path : Bytes) (i : Info) (ns : List Name) (v : Option Info)
    (n : Name) (o : Obs) (sub : Option HashTerm) (acc : HashTerm) :
    runRoot structRecipe path (dirValue c i ns) = some (structBase path (dirValue c i ns)) ∧
    runRoot structRecipe path (leafRootValue c v) = some (structBase path (leafRootValue c v)) ∧
    runChild structRecipe (dirValue c i ns) ⟨n, nodeValue o, sub⟩ acc = some (structStep acc ⟨n, nodeValue o, sub⟩) ∧
    structBase path (dirValue c i ns) = structBaseS c path i.mode ns ∧
    structStep acc ⟨n, nodeValue o, sub⟩ = structStepS acc n o.toS.mode? sub ∧
    structRecipe.resultKind = .DirectoryTreeStructureSignature := by
  refine ⟨?_, ?_, ?_, ?_, ?_, rfl⟩
  · unfold dirValue; cases c.filtered <;> rfl
  · cases v with
    | none => rfl
    | some j => unfold leafRootValue dirValue; cases c.filtered <;> rfl
  · cases o with
    | leaf w => cases w <;> cases sub <;> rfl
    | dir j cs => cases sub <;> rfl
  · unfold dirValue structBase structBaseS; cases c.filtered <;> rfl
  · cases o with
    | leaf w => cases w <;> rfl
    | dir j cs => rfl

/-- the nil marker of the model is the constant both extracted recipes combine for a child without sub-signature -/
theorem C12_nil_marker_extracted :
    Stmt.comb (.const nilMarker) ∈ treeRecipe.perChild ∧ Stmt.comb (.const nilMarker) ∈ structRecipe.perChild := by
  decide

/-! ### the signatures are injective on observations -/

/-- "re-executed after any observable change anywhere beneath that directory … and not re-executed when nothing
beneath it changed": for ALL directory trees, under the same path and filters, the tree signatures (as pre-hash
terms) are equal exactly when the observations are equal, where `observe` keeps, per node at every depth, its name,
its stat record and, for directories, the filtered sorted listing.  (With filters the ROOT directory's own stat
record is not observed: `FilteredDirectoryContents` carries none; every other directory's record is.) -/
theorem C12_tree_sig_injective (c : Cfg) (path : Bytes) (i₁ i₂ : Info) (cs₁ cs₂ : List (Name × Tree))
    (h₁ : Listed c (.dir i₁ cs₁)) (h₂ : Listed c (.dir i₂ cs₂)) :
    treeSig c path (.dir i₁ cs₁) = treeSig c path (.dir i₂ cs₂) ↔ observe c (.dir i₁ cs₁) = observe c (.dir i₂ cs₂) := by
  simp only [treeSig, observe, obs, Obs.dropRootInfo, Listed] at *
  constructor
  · intro h
    obtain ⟨hcs, hi⟩ := treeRoot_inj c path _ _ _ _ h₁ h₂ h
    rw [hcs]
    cases hf : c.filtered
    · rw [hi hf]
    · rfl
  · intro h
    simp only [Obs.dir.injEq] at h
    obtain ⟨hi, hcs⟩ := h
    simp only [treeSigO, hcs]
    cases hf : c.filtered
    · simp only [hf, Bool.false_eq_true, if_false] at hi; rw [hi]
    · simp [dirValue, hf]

/-- "A directory-structure input triggers on additions, removals and type changes at any depth but not on
content-only changes": for ALL directory trees the structure signatures are equal exactly when the structure
observations (names and `mode` only, filtered sorted listings, every depth) are equal. -/
theorem C12_struct_sig (c : Cfg) (path : Bytes) (i₁ i₂ : Info) (cs₁ cs₂ : List (Name × Tree))
    (h₁ : Listed c (.dir i₁ cs₁)) (h₂ : Listed c (.dir i₂ cs₂)) :
    structSig c path (.dir i₁ cs₁) = structSig c path (.dir i₂ cs₂) ↔
      observeStruct c (.dir i₁ cs₁) = observeStruct c (.dir i₂ cs₂) := by
  simp only [structSig, observeStruct, observe, obs, Obs.dropRootInfo, Listed, Obs.toS, structSigO] at *
  simp only [Obs.OK] at h₁ h₂
  constructor
  · intro h
    obtain ⟨hcs, hm⟩ := structRoot_inj c path _ _ _ _ (toSList_OK _ h₁.2) (toSList_OK _ h₂.2) h
    rw [hcs]
    cases hf : c.filtered
    · simp only [Bool.false_eq_true, if_false]; rw [hm hf]
    · rfl
  · intro h
    simp only [SObs.dir.injEq] at h
    obtain ⟨hm, hcs⟩ := h
    rw [hcs]
    cases hf : c.filtered
    · simp only [hf, Bool.false_eq_true, if_false] at hm; rw [hm]
    · simp [structBaseS, hf]

/-- "… but not on content-only changes": rewriting the stat records of any nodes (at every depth) in a way that keeps
each `mode` — size, modification time, device, inode may all change — leaves the structure signature unchanged.
(`f` may depend on the record, so it can single out one node, e.g. by inode.) -/
theorem C12_content_edit_keeps_struct_sig (c : Cfg) (path : Bytes) (f : Info → Info) (hf : ∀ i, (f i).mode = i.mode)
    (i : Info) (cs : List (Name × Tree)) :
    structSig c path ((Tree.dir i cs).mapInfo f) = structSig c path (.dir i cs) := by
  have h := obsS_mapInfo c f hf (.dir i cs)
  simp only [obsS, Tree.mapInfo, obs, Obs.toS, SObs.dir.injEq] at h
  simp only [structSig, Tree.mapInfo, obs, structSigO, h.2, hf]

/-- "triggers on additions, removals and type changes at any depth": (1) whatever the edit and its depth, if the
structure observations differ the structure signatures differ; (2) adding (read right-to-left: removing) a visible
entry anywhere in a directory's entry list changes its structure observation, and so does (3) replacing a
non-directory entry by a directory of the same name or vice versa, whatever the stat records. -/
theorem C12_add_remove_retype_changes_struct_sig (c : Cfg) (path : Bytes) (i₁ i₂ : Info) :
    (∀ cs₁ cs₂, Listed c (.dir i₁ cs₁) → Listed c (.dir i₂ cs₂) →
      observeStruct c (.dir i₁ cs₁) ≠ observeStruct c (.dir i₂ cs₂) →
      structSig c path (.dir i₁ cs₁) ≠ structSig c path (.dir i₂ cs₂)) ∧
    (∀ pre post n t, c.hidden n = false →
      observeStruct c (.dir i₁ (pre ++ (n, t) :: post)) ≠ observeStruct c (.dir i₂ (pre ++ post))) ∧
    (∀ v j ds, obsS c (.file j) ≠ obsS c (.dir j ds) ∧ obsS c (.link v) ≠ obsS c (.dir j ds)) := by
  refine ⟨fun cs₁ cs₂ h₁ h₂ hne hs => hne ((C12_struct_sig c path i₁ i₂ cs₁ cs₂ h₁ h₂).1 hs), ?_, ?_⟩
  · intro pre post n t hn h
    simp only [observeStruct, observe, obs, Obs.dropRootInfo, Obs.toS, SObs.dir.injEq] at h
    have hl := congrArg List.length h.2
    have len_toS : ∀ l : List (Name × Obs), (Obs.toSList l).length = l.length := by
      intro l; induction l with
      | nil => simp [Obs.toSList]
      | cons x xs ih => obtain ⟨a, b⟩ := x; simp [Obs.toSList, ih]
    have len_app : ∀ a b : List (Name × Tree), (obsList c (a ++ b)).length = (obsList c a).length + (obsList c b).length := by
      intro a b; induction a with
      | nil => simp [obsList]
      | cons x xs ih =>
        obtain ⟨m, q⟩ := x
        simp only [List.cons_append, obsList_cons]
        split <;> simp [ih] <;> omega
    simp only [len_toS, length_sortBy, len_app, obsList_cons, hn, Bool.false_eq_true, if_false, List.length_cons] at hl
    omega
  · intro v j ds
    simp [obsS, obs, Obs.toS]

/-- "… anywhere beneath that directory … at any depth": if the observation of ONE entry's subtree changes (the entry
is visible and its name is unique in its directory), then (2, 4) the observation of the enclosing directory changes —
so by iteration the change reaches every ancestor up to the input directory — and (1, 3) when the enclosing
directory is the input directory its signature changes, whatever happens to the stat records on the way. -/
theorem C12_change_at_any_depth (c : Cfg) (path : Bytes) (n : Name) (t₁ t₂ : Tree) (pre post : List (Name × Tree))
    (i₁ i₂ : Info) (hv : c.hidden n = false) (hu : n ∉ names (pre ++ post))
    (h₁ : Listed c (.dir i₁ (pre ++ (n, t₁) :: post))) (h₂ : Listed c (.dir i₂ (pre ++ (n, t₂) :: post))) :
    (obs c t₁ ≠ obs c t₂ →
      treeSig c path (.dir i₁ (pre ++ (n, t₁) :: post)) ≠ treeSig c path (.dir i₂ (pre ++ (n, t₂) :: post))) ∧
    (obs c t₁ ≠ obs c t₂ → obs c (.dir i₁ (pre ++ (n, t₁) :: post)) ≠ obs c (.dir i₂ (pre ++ (n, t₂) :: post))) ∧
    (obsS c t₁ ≠ obsS c t₂ →
      structSig c path (.dir i₁ (pre ++ (n, t₁) :: post)) ≠ structSig c path (.dir i₂ (pre ++ (n, t₂) :: post))) ∧
    (obsS c t₁ ≠ obsS c t₂ → obsS c (.dir i₁ (pre ++ (n, t₁) :: post)) ≠ obsS c (.dir i₂ (pre ++ (n, t₂) :: post))) := by
  refine ⟨fun hne hs => ?_, obs_child_lifts c n t₁ t₂ pre post i₁ i₂ hv hu, fun hne hs => ?_,
    obsS_child_lifts c n t₁ t₂ pre post i₁ i₂ hv hu⟩
  · have h := (C12_tree_sig_injective c path i₁ i₂ _ _ h₁ h₂).1 hs
    apply obs_child_lifts c n t₁ t₂ pre post i₁ i₁ hv hu hne
    simp only [observe, obs, Obs.dropRootInfo, Obs.dir.injEq] at h
    simp only [obs, h.2]
  · have h := (C12_struct_sig c path i₁ i₂ _ _ h₁ h₂).1 hs
    apply obsS_child_lifts c n t₁ t₂ pre post i₁ i₁ hv hu hne
    simp only [observeStruct, observe, obs, Obs.dropRootInfo, Obs.toS, SObs.dir.injEq] at h
    simp only [obsS, obs, Obs.toS, h.2]

/-- "exclusion patterns hide exactly the matching names": a name is in a directory's listing iff it is an entry of
the directory and no pattern matches it (`fnmatch` abstract; with no patterns nothing is hidden). -/
theorem C12_filter_exact (c : Cfg) (cs : List (Name × Tree)) (n : Name) :
    n ∈ listing c cs ↔ n ∈ names cs ∧ ∀ p ∈ c.patterns, c.fnmatch p n = false := by
  have h := mem_names_sortBy c.before n (obsList c cs)
  simp only [names] at h
  simp only [listing, h]
  have h2 := mem_names_obsList c n cs
  simp only [names] at h2 ⊢
  rw [h2]
  have hh : c.hidden n = false ↔ ∀ p ∈ c.patterns, c.fnmatch p n = false := by
    simp only [Cfg.hidden, Cfg.excluded, Cfg.filtered, excludeWhenMatchIs, keepWhenExcludedIs]
    cases hp : c.patterns with
    | nil => simp
    | cons q qs =>
      cases hx : (q :: qs).any (fun p => c.fnmatch p n == true)
      · simp only [List.isEmpty_cons, Bool.not_false, Bool.true_and, bne_self_eq_false, true_iff]
        intro p hp'
        have := List.any_eq_false.mp hx p hp'
        simpa using this
      · simp only [List.isEmpty_cons, Bool.not_false, Bool.true_and]
        constructor
        · intro h; simp at h
        · intro h
          obtain ⟨p, hp', hm⟩ := List.any_eq_true.mp hx
          have := h p hp'
          simp [this] at hm
  rw [hh]

/-! ### finding F32 (repaired): the filtered listing stopped at a dangling symbolic link -/

/-- `obsList` as the code BEFORE the repair computed the filtered listing: `getFilteredContents` iterated with a
symlink-following `directory_iterator`, whose `status()` error on a dangling link ended the loop. -/
def namesBeforeRepair (c : Cfg) : List (Name × Tree) → List Name
  | [] => []
  | (n, t) :: rest =>
    if c.filtered && t.isDangling then []
    else if c.hidden n then namesBeforeRepair c rest else n :: namesBeforeRepair c rest

/-- the clause `C12_filter_exact` with the pre-repair listing -/
def C12_filter_exact_before_repair : Prop :=
  ∀ (c : Cfg) (cs : List (Name × Tree)) (n : Name),
    n ∈ namesBeforeRepair c cs ↔ n ∈ names cs ∧ ∀ p ∈ c.patterns, c.fnmatch p n = false

/-- … is false: in a directory with entries `l -> nowhere`, `a` (directory order) and filter `x`, the name `a` is an
entry no pattern matches, yet it was not listed — so edits of `a` went unnoticed.  Replayed on the real tool by
vlib/props/c12.py (kind `missed-rerun`, filtered variants, trees with dangling links). -/
theorem C12_F32_before_repair : ¬ C12_filter_exact_before_repair := by
  intro h
  have := (h ⟨fun p n => p == n, [[0x78]]⟩ [([0x6c], .link none), ([0x61], .file (.plain 1 2 0o100644 0 1 0))] [0x61]).2
  revert this
  decide

/-! ### non-vacuity -/

section Examples

/-- a toy matcher for the examples: a pattern matches exactly the equal name -/
def exCfg : Cfg := ⟨fun p n => p == n, [[0x78]]⟩          -- exclude "x"
def exNoFilter : Cfg := ⟨fun p n => p == n, []⟩
def fileInfo (ino size mt : UInt64) : Info := .plain 1 ino 0o100644 size mt 0
def dirInfo (ino mt : UInt64) : Info := .plain 1 ino 0o040755 4096 mt 0
/-- d/{b, a/{x, y}, x}  in directory order b, a, x -/
def exTree : Tree :=
  .dir (dirInfo 2 10) [([0x62], .file (fileInfo 3 5 11)),
                       ([0x61], .dir (dirInfo 4 12) [([0x78], .file (fileInfo 5 1 13)), ([0x79], .link none)]),
                       ([0x78], .file (fileInfo 6 2 14))]

/-- the listing is sorted and filtered: `a, b` (root) with `x` hidden at both depths -/
example : listing exCfg [([0x62], Tree.file (fileInfo 3 5 11)), ([0x61], .file (fileInfo 4 0 1)), ([0x78], .file (fileInfo 6 2 14))]
    = [[0x61], [0x62]] := by decide
example : listing exNoFilter [([0x62], Tree.file (fileInfo 3 5 11)), ([0x61], .file (fileInfo 4 0 1)), ([0x78], .file (fileInfo 6 2 14))]
    = [[0x61], [0x62], [0x78]] := by decide

/-- a content edit at depth 2 (size and mtime of a/y's sibling… here of `b`) changes the tree signature -/
example : treeSig exNoFilter [0x64] exTree ≠ treeSig exNoFilter [0x64] (exTree.mapInfo fun i => if i.inode = 3 then { i with size := 6, mtimeSec := 20 } else i) := by
  decide
/-- … and leaves the structure signature unchanged (instance of `C12_content_edit_keeps_struct_sig`) -/
example : structSig exNoFilter [0x64] exTree = structSig exNoFilter [0x64] (exTree.mapInfo fun i => if i.inode = 3 then { i with size := 6, mtimeSec := 20 } else i) := by
  decide
/-- editing a hidden file does not change the filtered tree signature of the root listing's siblings … -/
example : treeSig exCfg [0x64] exTree = treeSig exCfg [0x64] (exTree.mapInfo fun i => if i.inode = 6 then { i with size := 9 } else i) := by
  decide

/-- the hypotheses of the main theorems hold for the example tree -/
example : Listed exCfg exTree := by
  have h : obs exCfg exTree = .dir (dirInfo 2 10) [([0x61], .dir (dirInfo 4 12) [([0x79], .leaf none)]),
      ([0x62], .leaf (some (fileInfo 3 5 11)))] := by rfl
  simp only [Listed, h, Obs.OK, Obs.OKs, namesOK, names]
  decide

end Examples

end LLBuild.DirTree
