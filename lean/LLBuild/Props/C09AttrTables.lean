/-
C09 — "a command re-runs exactly when its definition changed", the step from the DEFINITION (the keys of the
command's mapping in the build file) to the MEMBERS that `getSignature()` hashes.  TABLE-LEVEL theorems (this file depends on
the generated tables and recipes only; the definition-level theorems are in Props/C09Attrs.lean).

`LLBuild/Generated/BSAttrs.lean` (extract/x_bsattrs.py, clang JSON AST) holds, for every command class of the
built-in tools, what each `configureAttribute` overload / `configureInputs` / `configureOutputs` /
`configureDescription` does: attribute name → member assigned, conversion, fall-through.  `BSAttrs.run` interprets
these tables on a definition, entry by entry; `toDef` is the resulting `CommandDef`, which the recipe interpreter of
Props/C09Classes.lean consumes.  Property theorems only (helpers: Lemmas/BSAttrs.lean):

* `C09_every_attribute_accounted`            every member any key of any tool assigns is hashed by the tool's recipe or is on the
                                             pinned list `deliberatelyUnsigned`
* `C09_attribute_conversions`                each conversion as extracted = the documented one (docs/buildsystem.rst quoted per row)
* `C09_definition_change_changes_signature`  loaded definitions whose members differ in the signature-relevant part have different terms
* `C09_definition_equal_signature_equal`     reordering independent keys, adding / removing / editing deliberately unsigned keys and
                                             replacing a value by one with the same conversion do not move the signature term
-/
import LLBuild.Lemmas.BSAttrs
import LLBuild.Generated.BSAttrs
import LLBuild.Generated.SignatureRecipe

namespace LLBuild.BSAttrs
open LLBuild LLBuild.Signature

abbrev recipes := Generated.Signature.recipeOf
abbrev sigTools := Generated.Signature.tools
abbrev tables := Generated.BSAttrs.tables
abbrev classes := Generated.BSAttrs.classes

/-! ## The generated tables are the class chains; the tool table is the one of the signature recipes -/

/-- **C09_tables_are_class_chains** — the per-tool tables the interpreter runs on are exactly the per-class tables
(as extracted, overload by overload) with `Base::configure*` delegation resolved up the inheritance chain; the tools
and their command classes are the ones the signature recipes were tied to (`Generated.Signature.tools`). -/
theorem C09_tables_are_class_chains :
    Generated.BSAttrs.toolClasses.map (fun tc => flatten classes tc.1 tc.2) = tables.map some ∧
    Generated.BSAttrs.toolClasses = sigTools.map (fun t => (t.1, t.2.1)) ∧
    tables.map (fun t => (t.tool, t.cls)) = Generated.BSAttrs.toolClasses := by decide

/-! ## Every assigned member is hashed or deliberately unsigned -/

/-- the members the recipe of class `c` hashes -/
def signed (c : Cls) : List String := recipeMembers recipes 4 c

/-- **The pinned list**: (tool, overload / key kind, key, member) of every assignment whose member the tool's
signature recipe does NOT mention — deliberately.
* `description` — display only (`getShortDescription`).
* `repairViaOwnershipAnalysis` — load-time graph analysis only.
* symlink `linkOutputPath` — `isResultValid` stats the actual link path, so an edit re-runs the command (history in c09.py).
* stale-file-removal `expectedOutputs` / `roots` — `isResultValid` is always false: the command runs in every build.
* archive `archiveInputs` / `archiveName`, shared-library `sharedLibInputs` / `sharedLibName` — DERIVED: the names of the
  non-virtual nodes of `inputs` / `outputs`, which are hashed (`C09_derived_members_from_hashed`). -/
def deliberatelyUnsigned : List (String × String × String × String) :=
  [("shell", "scalar", "repair-via-ownership-analysis", "repairViaOwnershipAnalysis"),
   ("shell", "description", "description", "description"),
   ("phony", "scalar", "repair-via-ownership-analysis", "repairViaOwnershipAnalysis"),
   ("phony", "description", "description", "description"),
   ("clang", "scalar", "repair-via-ownership-analysis", "repairViaOwnershipAnalysis"),
   ("clang", "description", "description", "description"),
   ("mkdir", "scalar", "repair-via-ownership-analysis", "repairViaOwnershipAnalysis"),
   ("mkdir", "description", "description", "description"),
   ("symlink", "scalar", "link-output-path", "linkOutputPath"),
   ("symlink", "scalar", "repair-via-ownership-analysis", "repairViaOwnershipAnalysis"),
   ("symlink", "description", "description", "description"),
   ("archive", "scalar", "repair-via-ownership-analysis", "repairViaOwnershipAnalysis"),
   ("archive", "inputs", "inputs", "archiveInputs"),
   ("archive", "outputs", "outputs", "archiveName"),
   ("archive", "description", "description", "description"),
   ("shared-library", "inputs", "inputs", "sharedLibInputs"),
   ("shared-library", "outputs", "outputs", "sharedLibName"),
   ("shared-library", "description", "description", "description"),
   ("stale-file-removal", "list", "expectedOutputs", "expectedOutputs"),
   ("stale-file-removal", "list", "roots", "roots"),
   ("stale-file-removal", "description", "description", "description"),
   ("swift-compiler", "scalar", "repair-via-ownership-analysis", "repairViaOwnershipAnalysis"),
   ("swift-compiler", "description", "description", "description")]

/-- the unsigned assignments computed from the generated tables and recipes are exactly the pinned ones (a new
attribute that sets an unhashed member, or a member dropped from a `getSignature` body, changes the left side) -/
theorem C09_unsigned_assignments_pinned :
    unsignedAssignments recipes sigTools tables = deliberatelyUnsigned := by decide

/-- the python table HASHED_KEYS of c09.py is compared with THIS list (driver mode `c09attrcheck hashed`) on every run -/
theorem C09_hashed_attributes :
    hashedAttributes recipes sigTools tables =
      [("shell", ["args", "signature", "deps", "deps-style", "can-safely-interrupt", "inherit-env", "working-directory",
                  "control-enabled", "allow-missing-inputs", "allow-modified-outputs", "always-out-of-date", "env"]),
       ("phony", ["allow-missing-inputs", "allow-modified-outputs", "always-out-of-date"]),
       ("clang", ["args", "deps", "allow-missing-inputs", "allow-modified-outputs", "always-out-of-date"]),
       ("mkdir", ["allow-missing-inputs", "allow-modified-outputs", "always-out-of-date"]),
       ("symlink", ["contents"]),
       ("archive", ["allow-missing-inputs", "allow-modified-outputs", "always-out-of-date"]),
       ("shared-library", ["executable", "other-args", "compiler-style"]),
       ("stale-file-removal", []),
       ("swift-compiler", ["executable", "module-name", "module-output-path", "sources", "objects", "import-paths",
                           "temps-path", "is-library", "enable-whole-module-optimization", "num-threads", "other-args",
                           "allow-missing-inputs", "allow-modified-outputs", "always-out-of-date", "module-aliases"])] := by
  decide

/-- every row of every table: the key and the assignments it runs -/
def allRows (t : ToolTable) : List (Bytes × List Assign) :=
  t.scalar.rows.map (fun r => (r.attr.b, r.assigns)) ++ t.list.rows.map (fun r => (r.attr.b, r.assigns)) ++
  t.map.rows.map (fun r => (r.attr.b, r.assigns)) ++
  [(keyInputs, t.inputs), (keyOutputs, t.outputs), (keyDescription, t.description)]

def Entry.key : Entry → Bytes
  | .inputs _ => keyInputs
  | .outputs _ => keyOutputs
  | .description _ => keyDescription
  | .attr k _ => k

theorem resolveAttr_mem (o : BSAttrs.Overload) (key : Bytes) (ev : EVal) (k' : Bytes) (ev' : EVal) (as : List Assign)
    (h : resolveAttr o key ev = .assigns k' ev' as) : (key, as) ∈ o.rows.map (fun r => (r.attr.b, r.assigns)) := by
  unfold resolveAttr at h
  split at h
  · rename_i r hr
    injection h with _ _ has
    have hm := List.mem_of_find?_eq_some hr
    have hk := List.find?_some hr
    simp only [beq_iff_eq] at hk
    simp only [List.mem_map]
    exact ⟨r, hm, by rw [hk, has]⟩
  · split at h <;> cases h

/-- whatever the key of an entry is, the assignments it runs are a row of the tool's table (or it runs none) -/
theorem entryAssigns_mem (t : ToolTable) (e : Entry) :
    entryAssigns t e = [] ∨ (Entry.key e, entryAssigns t e) ∈ allRows t := by
  unfold entryAssigns
  cases hr : resolve t e with
  | unexpected k err => left; rfl
  | ignored => left; rfl
  | assigns k ev as =>
    right
    cases e with
    | inputs ns => simp only [resolve, Resolved.assigns.injEq] at hr; simp [allRows, Entry.key, ← hr.2.2]
    | outputs ns => simp only [resolve, Resolved.assigns.injEq] at hr; simp [allRows, Entry.key, ← hr.2.2]
    | description v => simp only [resolve, Resolved.assigns.injEq] at hr; simp [allRows, Entry.key, ← hr.2.2]
    | attr key v =>
      cases v with
      | scalar x =>
        have := resolveAttr_mem _ _ _ _ _ _ (show resolveAttr t.scalar key (.scalar x) = _ from hr)
        simp only [allRows, Entry.key, List.mem_append]; exact Or.inl (Or.inl (Or.inl this))
      | list x =>
        have := resolveAttr_mem _ _ _ _ _ _ (show resolveAttr t.list key (.list x) = _ from hr)
        simp only [allRows, Entry.key, List.mem_append]; exact Or.inl (Or.inl (Or.inr this))
      | map x =>
        have := resolveAttr_mem _ _ _ _ _ _ (show resolveAttr t.map key (.map x) = _ from hr)
        simp only [allRows, Entry.key, List.mem_append]; exact Or.inl (Or.inr this)

/-- the rows of a table as (kind, key text, member) lines, for the pinned list -/
def rowAccounted (tool : String) (c : Cls) (as : List Assign) (kindKey : String × String) : Bool :=
  as.all fun a => (signed c).contains a.member || deliberatelyUnsigned.contains (tool, kindKey.1, kindKey.2, a.member)

/-- every row of a tool's table, tagged with the overload it belongs to and the text of its key -/
def taggedRows (t : ToolTable) : List ((String × String) × Bytes × List Assign) :=
  t.scalar.rows.map (fun r => (("scalar", r.attr.s), r.attr.b, r.assigns)) ++
  t.list.rows.map (fun r => (("list", r.attr.s), r.attr.b, r.assigns)) ++
  t.map.rows.map (fun r => (("map", r.attr.s), r.attr.b, r.assigns)) ++
  [(("inputs", "inputs"), keyInputs, t.inputs), (("outputs", "outputs"), keyOutputs, t.outputs),
   (("description", "description"), keyDescription, t.description)]

theorem allRows_eq_tagged (t : ToolTable) : allRows t = (taggedRows t).map (·.2) := by
  simp [allRows, taggedRows, List.map_append, Function.comp_def]

/-- the whole generated table, by evaluation -/
theorem accounted_tables :
    (tables.all fun t => match sigTools.lookup t.tool with
      | some (_, c) => (taggedRows t).all fun r => rowAccounted t.tool c r.2.2 r.1
      | none => false) = true := by decide

/-- **C09_every_attribute_accounted** — for every built-in tool, and for EVERY key a definition of that tool may
carry (any name, any value kind, `inputs` / `outputs` / `description` included): every member the key's handler assigns
is EITHER mentioned by the `getSignature` recipe the tool's commands run (`signed c`) OR is on the pinned list
`deliberatelyUnsigned` under that tool and key.  (Decided over the whole generated table, lifted to all entries through
the interpreter's own lookup.) -/
theorem C09_every_attribute_accounted (t : ToolTable) (ht : t ∈ tables) (cname : String) (c : Cls)
    (hc : sigTools.lookup t.tool = some (cname, c)) (e : Entry) (a : Assign) (ha : a ∈ entryAssigns t e) :
    a.member ∈ signed c ∨ ∃ kind key, (t.tool, kind, key, a.member) ∈ deliberatelyUnsigned := by
  have hall := accounted_tables
  rw [List.all_eq_true] at hall
  have h1 := hall t ht
  rw [hc] at h1
  simp only [List.all_eq_true] at h1
  rcases entryAssigns_mem t e with h0 | hmem
  · rw [h0] at ha; cases ha
  · rw [allRows_eq_tagged, List.mem_map] at hmem
    obtain ⟨r, hr, hre⟩ := hmem
    have h2 := h1 r hr
    have hras : r.2.2 = entryAssigns t e := by rw [hre]
    unfold rowAccounted at h2
    rw [List.all_eq_true] at h2
    have h3 := h2 a (by rw [hras]; exact ha)
    simp only [Bool.or_eq_true, List.contains_iff_mem] at h3
    rcases h3 with h3 | h3
    · exact Or.inl h3
    · exact Or.inr ⟨r.1.1, r.1.2, h3⟩

/-- the derived members on the pinned list are computed from hashed members only: their source (`inputs` / `outputs`)
is mentioned by the recipe of the tool's class -/
theorem C09_derived_members_from_hashed :
    (tables.map fun t => (t.tool, ((t.inputs ++ t.outputs).filterMap fun a => a.conv.source.map fun s =>
        (a.member, s, match sigTools.lookup t.tool with | some (_, c) => (signed c).contains s | none => false)))).filter
      (fun p => !p.2.isEmpty) =
    [("archive", [("archiveInputs", "inputs", true), ("archiveName", "outputs", true)]),
     ("shared-library", [("sharedLibInputs", "inputs", true), ("sharedLibName", "outputs", true)])] := by decide

/-! ## The conversions, as extracted, are the documented ones -/

/-- a conversion without its error messages (and with the literals as text) -/
inductive ConvKind
  | verbatim
  | boolStrict (t f : String)
  | boolLenient (t : String)
  | enumStrict (cases : List (String × Nat))
  | oneOfLenient (allowed : List String)
  | nonNegInt
  | shellWrap (pre : List String)
  | singleton
  | splitDropEmpty (sep : String)
  | makeAbsolute
  | listCopy
  | listCopyNonEmpty
  | listAppend
  | mapCopy
  | nodesAppend
  | nodesExactlyOne
  | nonVirtualNamesOf (src : String)
  | firstNonVirtualNameOf (src : String)
  deriving DecidableEq, Repr

def Conv.kind : Conv → ConvKind
  | .verbatim => .verbatim
  | .boolStrict t f _ => .boolStrict t.s f.s
  | .boolLenient t => .boolLenient t.s
  | .enumStrict cs _ => .enumStrict (cs.map fun p => (p.1.s, p.2))
  | .oneOfLenient a _ => .oneOfLenient (a.map (·.s))
  | .nonNegInt _ _ => .nonNegInt
  | .shellWrap p => .shellWrap (p.map (·.s))
  | .singleton => .singleton
  | .splitDropEmpty s => .splitDropEmpty s.s
  | .makeAbsolute => .makeAbsolute
  | .listCopy => .listCopy
  | .listCopyNonEmpty _ => .listCopyNonEmpty
  | .listAppend => .listAppend
  | .mapCopy => .mapCopy
  | .nodesAppend => .nodesAppend
  | .nodesExactlyOne _ _ => .nodesExactlyOne
  | .nonVirtualNamesOf s _ => .nonVirtualNamesOf s
  | .firstNonVirtualNameOf s _ _ => .firstNonVirtualNameOf s

inductive OtherwiseKind
  | base (cls : String)      -- falls through to the base class's overload
  | unexpected               -- "unexpected attribute: '<name>'", the load is abandoned
  | acceptAny                -- accepted and ignored
  deriving DecidableEq, Repr

def Otherwise.kind : Otherwise → OtherwiseKind
  | .base c => .base c
  | .unexpected _ => .unexpected
  | .acceptAny => .acceptAny

/-- (class, overload / handler, key, member, conversion) of every assignment of every class, AS EXTRACTED -/
def classConversions : List (String × String × String × String × ConvKind) :=
  (classes.map fun c =>
    let ov (kind : String) (o : Option BSAttrs.Overload) : List (String × String × String × String × ConvKind) :=
      match o with
      | some o => (o.rows.map fun r => r.assigns.map fun a => (c.name, kind, r.attr.s, a.member, Conv.kind a.conv)).flatten
      | none => []
    let h (kind : String) (o : Option Handler) : List (String × String × String × String × ConvKind) :=
      match o with
      | some h => h.assigns.map fun a => (c.name, kind, kind, a.member, Conv.kind a.conv)
      | none => []
    ov "scalar" c.scalar ++ ov "list" c.list ++ ov "map" c.map ++ h "inputs" c.inputs ++ h "outputs" c.outputs ++
      h "description" c.description).flatten

/-- (class, overload, what happens to a name no branch matches); handlers: the base class's function called first -/
def classOtherwise : List (String × String × OtherwiseKind) :=
  (classes.map fun c =>
    let ov (kind : String) (o : Option BSAttrs.Overload) : List (String × String × OtherwiseKind) :=
      match o with
      | some o => [(c.name, kind, Otherwise.kind o.otherwise)]
      | none => []
    let h (kind : String) (o : Option Handler) : List (String × String × OtherwiseKind) :=
      match o with
      | some ⟨some b, _⟩ => [(c.name, kind, .base b)]
      | _ => []
    ov "scalar" c.scalar ++ ov "list" c.list ++ ov "map" c.map ++ h "inputs" c.inputs ++ h "outputs" c.outputs ++
      h "description" c.description).flatten

/-- the documented values of the defaults that docs/buildsystem.rst states -/
def memberDefaults : List (String × String × MVal) :=
  (tables.map fun t => (t.fields.filter fun f =>
      ["allowMissingInputs", "allowModifiedOutputs", "alwaysOutOfDate", "canSafelyInterrupt", "inheritEnv", "controlEnabled",
       "depsStyle", "isLibrary", "enableWholeModuleOptimization", "numThreads", "executable"].contains f.name).map
    fun f => (t.tool, f.name, f.dflt)).flatten.filter fun p => p.1 == "shell" || p.1 == "swift-compiler" || p.1 == "shared-library"

/-- **C09_attribute_conversions** — what each `configure*` function does with each key, as extracted from the AST, is
what docs/buildsystem.rst says (quoted per row; "—" = the key is not in the documentation, the row pins what the code does).
Value conversions and whether they are injective on the values that load:

* `verbatim`, `listCopy`, `mapCopy`, `makeAbsolute` restricted to absolute paths: injective.
* `boolStrict "true" "false"`: only the two spellings load (anything else abandons the load), so injective on loading values.
* `enumStrict`: injective on the listed spellings, nothing else loads.
* `shellWrap ["/bin/sh","-c"]`: a scalar `args: s` IS the command `["/bin/sh","-c",s]` — the same member value as that list.
* `splitDropEmpty " "`: NOT injective — `"a  b "` and `"a b"` are the same list `[a, b]`, and the same as the YAML list.
* `singleton`: a scalar `deps: p` is the list `[p]`.
* `makeAbsolute`: a relative path is the same command as the absolute path it resolves to (in this process).
* `nonNegInt`: the TEXT is stored (and hashed): `4` and `04` are the same thread count with different signatures (one
  harmless re-run, never a missed one).
* `listAppend`, `nodesAppend`: a repeated key appends. -/
theorem C09_attribute_conversions :
    classConversions =
      [ -- ShellCommand (lib/BuildSystem/ShellCommand.cpp) — docs "Shell Tool"
        -- args: "A string or string list indicating the command line to be executed. If a single string is provided, it
        --        will be executed using ``/bin/sh -c``."
        ("ShellCommand", "scalar", "args", "args", .shellWrap ["/bin/sh", "-c"]),
        -- signature: "An arbitrary string used to compute the task signature."
        ("ShellCommand", "scalar", "signature", "signatureData", .verbatim),
        -- deps: "The path to an output file of the command which will contain information on the exact dependencies …"
        ("ShellCommand", "scalar", "deps", "depsPaths", .singleton),
        -- deps-style: "Currently supported options are: makefile … dependency-info …"  (makefile-ignoring-subsequent-outputs: —)
        ("ShellCommand", "scalar", "deps-style", "depsStyle",
          .enumStrict [("makefile", 1), ("dependency-info", 2), ("makefile-ignoring-subsequent-outputs", 3)]),
        -- can-safely-interrupt: "A boolean flag controlling whether this command is allowed to be sent a SIGINT … The default is true."
        ("ShellCommand", "scalar", "can-safely-interrupt", "canSafelyInterrupt", .boolStrict "true" "false"),
        -- inherit-env: "A boolean flag controlling whether this command should inherit the base environment …"
        ("ShellCommand", "scalar", "inherit-env", "inheritEnv", .boolStrict "true" "false"),
        -- working-directory: — (only named in the `signature` row: part of the built-in signature strategy)
        ("ShellCommand", "scalar", "working-directory", "workingDirectory", .makeAbsolute),
        -- control-enabled: — (same)
        ("ShellCommand", "scalar", "control-enabled", "controlEnabled", .boolStrict "true" "false"),
        -- args (list form; an empty list is rejected: "invalid arguments for command '<name>'")
        ("ShellCommand", "list", "args", "args", .listCopyNonEmpty),
        -- deps: "This option also supports being passed multiple output file paths …"
        ("ShellCommand", "list", "deps", "depsPaths", .listCopy),
        -- env: "A mapping of keys and values defining the environment to pass to the launched process."
        ("ShellCommand", "map", "env", "env", .mapCopy),
        -- ExternalCommand (lib/BuildSystem/ExternalCommand.cpp) — the common keys
        -- allow-missing-inputs: "A boolean value, indicating whether the commands should be allowed to run even if it has
        --                        missing input files. The default is false."
        ("ExternalCommand", "scalar", "allow-missing-inputs", "allowMissingInputs", .boolStrict "true" "false"),
        -- allow-modified-outputs: "A boolean value, indicating whether the a command's outputs are allowed to be modified
        --                          independently from the command without invalidating the result. The default is false."
        ("ExternalCommand", "scalar", "allow-modified-outputs", "allowModifiedOutputs", .boolStrict "true" "false"),
        -- always-out-of-date: "A boolean value, indicating whether the commands should be treated as being always
        --                      out-of-date. The default is false."
        ("ExternalCommand", "scalar", "always-out-of-date", "alwaysOutOfDate", .boolStrict "true" "false"),
        -- repair-via-ownership-analysis: —
        ("ExternalCommand", "scalar", "repair-via-ownership-analysis", "repairViaOwnershipAnalysis", .boolStrict "true" "false"),
        -- "The `inputs` and `outputs` keys are shared by all tools … and are lists naming the input and output nodes"
        ("ExternalCommand", "inputs", "inputs", "inputs", .nodesAppend),
        ("ExternalCommand", "outputs", "outputs", "outputs", .nodesAppend),
        -- "The `description` key is available to all tools, and should be a string describing the command."
        ("ExternalCommand", "description", "description", "description", .verbatim),
        -- ClangShellCommand — docs "Clang Tool"
        -- args: "A string or string list indicating the command line to be executed. If a single string is provided, it
        --        will be executed using ``/bin/sh -c``."
        ("ClangShellCommand", "scalar", "args", "args", .shellWrap ["/bin/sh", "-c"]),
        -- deps: "The path to a Makefile fragment (presumed to be output by the compiler) specifying additional discovered
        --        dependencies for the output."
        ("ClangShellCommand", "scalar", "deps", "depsPath", .verbatim),
        ("ClangShellCommand", "list", "args", "args", .listCopy),
        -- SymlinkCommand — docs "Symlink Tool"
        -- contents: "The contents (i.e., path to the source) of the symlink."
        ("SymlinkCommand", "scalar", "contents", "contents", .verbatim),
        -- link-output-path: "If specified, defines that actual output path for the symbolic link."
        ("SymlinkCommand", "scalar", "link-output-path", "linkOutputPath", .verbatim),
        ("SymlinkCommand", "scalar", "repair-via-ownership-analysis", "repairViaOwnershipAnalysis", .boolStrict "true" "false"),
        ("SymlinkCommand", "inputs", "inputs", "inputs", .nodesAppend),
        -- "The sole output should be the node for the path to create."
        ("SymlinkCommand", "outputs", "outputs", "outputs", .nodesExactlyOne),
        ("SymlinkCommand", "description", "description", "description", .verbatim),
        -- ArchiveShellCommand — docs "Archive Tool": "All non-virtual inputs are archived. Only one non-virtual output may
        -- be specified, this is inferred to be the archive file that this tool produces."
        ("ArchiveShellCommand", "inputs", "inputs", "archiveInputs", .nonVirtualNamesOf "inputs"),
        ("ArchiveShellCommand", "outputs", "outputs", "archiveName", .firstNonVirtualNameOf "outputs"),
        -- SharedLibraryShellCommand — docs "Shared Library Tool"
        -- executable: "A string indicating the path to a compiler that will be used to link the objects"
        ("SharedLibraryShellCommand", "scalar", "executable", "executable", .verbatim),
        -- other-args: —
        ("SharedLibraryShellCommand", "scalar", "other-args", "otherArgs", .splitDropEmpty " "),
        -- compiler-style: "The type of compiler pass, one of: ``swiftc``, ``clang``, ``cl``"  (another value is reported but stored)
        ("SharedLibraryShellCommand", "scalar", "compiler-style", "compilerStyle", .oneOfLenient ["cl", "clang", "swiftc"]),
        ("SharedLibraryShellCommand", "list", "other-args", "otherArgs", .listCopy),
        ("SharedLibraryShellCommand", "inputs", "inputs", "sharedLibInputs", .nonVirtualNamesOf "inputs"),
        ("SharedLibraryShellCommand", "outputs", "outputs", "sharedLibName", .firstNonVirtualNameOf "outputs"),
        -- StaleFileRemovalCommand — docs "Stale File Removal Tool"
        -- expectedOutputs: "A string list of paths that are expected to be produced by the given manifest."
        ("StaleFileRemovalCommand", "list", "expectedOutputs", "expectedOutputs", .listAppend),
        -- roots: "A string lists of paths that are the only allowed root paths for files to be deleted."
        ("StaleFileRemovalCommand", "list", "roots", "roots", .listAppend),
        ("StaleFileRemovalCommand", "description", "description", "description", .verbatim),
        -- SwiftCompilerShellCommand — docs "Swift Compiler Tool"
        -- executable: "A string indicating the path to a ``swiftc`` compiler that will be used to compile Swift code."
        ("SwiftCompilerShellCommand", "scalar", "executable", "executable", .verbatim),
        -- module-name: "A string indicating the name of the ``.swiftmodule`` to be output."
        ("SwiftCompilerShellCommand", "scalar", "module-name", "moduleName", .verbatim),
        -- module-output-path: "A string indicating the path at which to output the built ``.swiftmodule``."
        ("SwiftCompilerShellCommand", "scalar", "module-output-path", "moduleOutputPath", .verbatim),
        -- sources: "A string or string list indicating the paths of Swift source files to be compiled."
        ("SwiftCompilerShellCommand", "scalar", "sources", "sourcesList", .splitDropEmpty " "),
        -- objects: "A string or string list indicating the paths of object files to be linked when compiling the source files."
        ("SwiftCompilerShellCommand", "scalar", "objects", "objectsList", .splitDropEmpty " "),
        -- import-paths: "A string or string list indicating the path at which other imported Swift modules exist."
        ("SwiftCompilerShellCommand", "scalar", "import-paths", "importPaths", .splitDropEmpty " "),
        -- temps-path: "A string indicating the path at which temporary build files are to be placed."
        ("SwiftCompilerShellCommand", "scalar", "temps-path", "tempsPath", .verbatim),
        -- is-library: "A boolean indicating whether the source files should be compiled as a library or an executable.
        --              Specify ``true`` for a library, ``false`` for an executable."
        ("SwiftCompilerShellCommand", "scalar", "is-library", "isLibrary", .boolStrict "true" "false"),
        -- enable-whole-module-optimization: "A boolean indicating whether to enable pass ``-whole-module-optimization`` flag to swiftc."
        ("SwiftCompilerShellCommand", "scalar", "enable-whole-module-optimization", "enableWholeModuleOptimization", .boolStrict "true" "false"),
        -- num-threads: "An integer which enables multithreading if greater than 0 and specifies the number of threads to use."
        ("SwiftCompilerShellCommand", "scalar", "num-threads", "numThreads", .nonNegInt),
        -- other-args: "A string or string list indicating other arguments passed to the ``swiftc`` executable."
        ("SwiftCompilerShellCommand", "scalar", "other-args", "otherArgs", .splitDropEmpty " "),
        ("SwiftCompilerShellCommand", "list", "sources", "sourcesList", .listCopy),
        ("SwiftCompilerShellCommand", "list", "objects", "objectsList", .listCopy),
        ("SwiftCompilerShellCommand", "list", "import-paths", "importPaths", .listCopy),
        ("SwiftCompilerShellCommand", "list", "other-args", "otherArgs", .listCopy),
        -- module-aliases: —
        ("SwiftCompilerShellCommand", "list", "module-aliases", "moduleAliases", .listCopy) ] ∧
    classOtherwise =
      [ ("ShellCommand", "scalar", .base "ExternalCommand"), ("ShellCommand", "list", .base "ExternalCommand"),
        ("ShellCommand", "map", .base "ExternalCommand"),
        ("ExternalCommand", "scalar", .unexpected), ("ExternalCommand", "list", .unexpected), ("ExternalCommand", "map", .unexpected),
        ("ClangShellCommand", "scalar", .base "ExternalCommand"), ("ClangShellCommand", "list", .base "ExternalCommand"),
        ("ClangShellCommand", "map", .base "ExternalCommand"),
        ("SymlinkCommand", "scalar", .unexpected), ("SymlinkCommand", "list", .unexpected), ("SymlinkCommand", "map", .unexpected),
        ("ArchiveShellCommand", "inputs", .base "ExternalCommand"), ("ArchiveShellCommand", "outputs", .base "ExternalCommand"),
        -- the scalar overload of the shared-library tool ends in `return true`: every other name is accepted and ignored
        ("SharedLibraryShellCommand", "scalar", .acceptAny), ("SharedLibraryShellCommand", "list", .base "ExternalCommand"),
        ("SharedLibraryShellCommand", "inputs", .base "ExternalCommand"), ("SharedLibraryShellCommand", "outputs", .base "ExternalCommand"),
        ("StaleFileRemovalCommand", "scalar", .unexpected), ("StaleFileRemovalCommand", "list", .unexpected),
        ("StaleFileRemovalCommand", "map", .unexpected),
        ("SwiftCompilerShellCommand", "scalar", .base "ExternalCommand"), ("SwiftCompilerShellCommand", "list", .base "ExternalCommand") ] ∧
    memberDefaults =
      [ ("shell", "depsStyle", .nat 0), ("shell", "inheritEnv", .bool true), ("shell", "canSafelyInterrupt", .bool true),
        ("shell", "controlEnabled", .bool true), ("shell", "allowMissingInputs", .bool false),
        ("shell", "allowModifiedOutputs", .bool false), ("shell", "alwaysOutOfDate", .bool false),
        ("shared-library", "executable", .str []), ("shared-library", "allowMissingInputs", .bool false),
        ("shared-library", "allowModifiedOutputs", .bool false), ("shared-library", "alwaysOutOfDate", .bool false),
        -- "swiftc", "0"
        ("swift-compiler", "executable", .str [115, 119, 105, 102, 116, 99]), ("swift-compiler", "isLibrary", .bool false),
        ("swift-compiler", "enableWholeModuleOptimization", .bool false), ("swift-compiler", "numThreads", .str [48]),
        ("swift-compiler", "allowMissingInputs", .bool false), ("swift-compiler", "allowModifiedOutputs", .bool false),
        ("swift-compiler", "alwaysOutOfDate", .bool false) ] := by
  refine ⟨by decide, by decide, by decide⟩

/-! ## Outputs that no longer match what the command produced (`ExternalCommand::isResultValid`, generated chain) -/

abbrev validChain := Generated.BSAttrs.resultValid

/-- one iteration of the generated loop: go on with the next output iff this one still matches, otherwise `return false` -/
theorem iteration_generated (o : OutputState) :
    runIteration o validChain.perOutput = if o.matches then none else some false := by
  obtain ⟨v, m, r, c⟩ := o
  cases v <;> cases m <;>
    simp only [validChain, Generated.BSAttrs.resultValid, runIteration, OutputStep.run, OutputState.matches, Bool.false_or,
      Bool.true_or, if_true, if_false, Bool.false_eq_true]
  · by_cases h : r = c <;> simp [h]
  · by_cases h : r.isNone = c.isNone <;> simp [h]

theorem runOutputs_generated (outs : List OutputState) :
    runOutputs validChain outs = true ↔ ∀ o ∈ outs, o.matches = true := by
  induction outs with
  | nil => simp [runOutputs, validChain, Generated.BSAttrs.resultValid]
  | cons o os ih =>
    unfold runOutputs
    rw [iteration_generated]
    by_cases h : o.matches = true
    · simp [h, ih]
    · simp [h]

/-- **C09_result_valid_iff** — the stored result of a command of the shell / phony / clang / archive / shared-library /
swift-compiler tool is still valid on a scan IF AND ONLY IF the command is not `always-out-of-date`, the stored value is a
successful command result, and EVERY declared output still matches what the command produced (`OutputState.matches`: a
virtual output always; an `is-mutated` one if it still exists / is still missing; any other if its file information is the
recorded one) — whatever the number and the order of the outputs. -/
theorem C09_result_valid_iff (alwaysOutOfDate successful : Bool) (outs : List OutputState) :
    resultValidOf validChain alwaysOutOfDate successful outs = true ↔
      alwaysOutOfDate = false ∧ successful = true ∧ ∀ o ∈ outs, o.matches = true := by
  unfold resultValidOf
  cases alwaysOutOfDate <;> cases successful <;>
    simp [validChain, Generated.BSAttrs.resultValid, List.any] <;>
    exact runOutputs_generated outs

/-- **C09_output_change_invalidates** — "a command is re-executed when … one of its outputs no longer matches what it
produced": for every output list and every position in it, a non-virtual, non-mutated output whose file information
differs from the recorded one makes the stored result INVALID — regardless of what is declared before it (mutated
outputs included) or after it; and so does a mutated output that disappeared or appeared.  (With the `continue` of the
`is-mutated` branch turned into a `return` the generated chain carries `.mutatedExistence false` and this is refuted.) -/
theorem C09_output_change_invalidates (pre post : List OutputState) (o : OutputState) (hv : o.isVirtual = false)
    (h : (o.isMutated = false ∧ o.recorded ≠ o.current) ∨ (o.isMutated = true ∧ o.recorded.isNone ≠ o.current.isNone))
    (alwaysOutOfDate successful : Bool) :
    resultValidOf validChain alwaysOutOfDate successful (pre ++ o :: post) = false := by
  cases hr : resultValidOf validChain alwaysOutOfDate successful (pre ++ o :: post) with
  | false => rfl
  | true =>
    have hm := ((C09_result_valid_iff _ _ _).1 hr).2.2 o (by simp)
    obtain ⟨v, m, r, c⟩ := o
    simp only at hv
    subst hv
    rcases h with ⟨h1, h2⟩ | ⟨h1, h2⟩ <;> simp only at h1 <;> subst h1 <;>
      simp [OutputState.matches] at hm <;> simp_all

/-- a mutated output modified in place, and unchanged outputs, keep the result valid: null builds run nothing -/
theorem C09_matching_outputs_keep_result (outs : List OutputState) (h : ∀ o ∈ outs, o.matches = true) :
    resultValidOf validChain false true outs = true :=
  (C09_result_valid_iff false true outs).2 ⟨rfl, rfl, h⟩

/-- which tools run this rule, and which have a rule of their own (mkdir: directory existence; symlink: `lstat` of the link;
stale-file-removal: never valid) — their classes override `isResultValid` or do not derive from ExternalCommand -/
theorem C09_result_valid_tools :
    Generated.BSAttrs.resultValidTools = ["shell", "phony", "clang", "archive", "shared-library", "swift-compiler"] ∧
    Generated.BSAttrs.ownValidityRuleTools = ["mkdir", "symlink", "stale-file-removal"] := by decide

-- the seeded shape: outputs [app (mutated, unchanged), app.map (deleted)] — invalid with the generated chain, and the
-- early-return spelling of the `is-mutated` branch would call it valid
example : resultValidOf validChain false true [⟨false, true, some 1, some 2⟩, ⟨false, false, some 3, none⟩] = false := by decide
example : resultValidOf { validChain with perOutput := [.skipVirtual, .mutatedExistence false, .compareInfo] } false true
    [⟨false, true, some 1, some 2⟩, ⟨false, false, some 3, none⟩] = true := by decide
example : resultValidOf validChain false true [⟨false, true, some 1, some 2⟩, ⟨true, false, none, none⟩, ⟨false, false, some 3, some 3⟩] = true := by decide

end LLBuild.BSAttrs
