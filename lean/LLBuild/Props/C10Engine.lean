/-
C10 (engine level) — A failed or cancelled command never feeds dependents and is always retried.

"When a command fails or is cancelled, no command that directly or transitively consumes its outputs is
executed in that build, the build reports failure, and the recorded result is never treated as up to date:
the next build re-attempts it and everything downstream.  Once the cause is removed, the next build converges
to the clean-build state."

Props/C10.lean decides the CLIENT facts (generated decision tables of the BuildSystem: a failed producer shows
as FailedInput, a FailedInput makes the consumer skip, a non-successful result is never valid).  This file
derives the ENGINE-level clauses from them, as an instance of the engine theorems (Lemmas/Engine, C01, C02):
the client facts are packaged as hypotheses on an arbitrary `Engine.Program` (`FailureClient`), and the clauses
are proved for every trace the abstract engine monitor (`Engine.step`) accepts.  Props/C10Client.lean shows that
the BuildSystem's rule set (`BuildSystemClient.client`) satisfies `FailureClient`.

What the `Program` shape expresses: a rule's execution is the pure function `P.out` of the values delivered to
it and of the external state; there is no event "a process was spawned".  "Not executed" is therefore stated on
values: the rule completes with a `bad` value (for the BuildSystem: the value of `execute`'s skip block, which
returns before `commandStarted` — `C10_failed_input_skips`), never with a value computed from the failed output.
-/
import LLBuild.Props.C01
import LLBuild.Props.C02
import LLBuild.Lemmas.Engine.Determinism
import LLBuild.Lemmas.FailPropEngine

set_option linter.unusedVariables false

namespace LLBuild.Engine

/-- The client facts that Props/C10.lean establishes for the BuildSystem, as hypotheses on an arbitrary client.
`bad k v`: as a value of rule `k`, `v` says "failed / cancelled / skipped because an input failed / failed input".
`carries k d`: `k` consumes the value of `d` as data — false on ordering-only edges (the documented exception F16:
a phony command's virtual output; a target over its nodes). -/
structure FailureClient (P : Program) where
  bad : Key → Val → Bool
  carries : Key → Key → Bool
  /-- (i) a failed value is never accepted as up to date, in any external state
      (`C10_never_up_to_date`: leading guards of every `isResultValid`, `Produced*NodeTask::isResultValid`) -/
  bad_invalid : ∀ env k v, bad k v = true → P.valid env k v = false
  /-- (ii) a rule that was handed a bad value over a data edge (a delivered, value-carrying request: kind 0, neither
      `mustFollow` nor single-use) completes with a bad value, whatever else it received and in whatever order
      (`C10_failure_maps_to_failed_input` for a produced node over its command, `C10_failed_input_skips` for a
      command over its input nodes) -/
  bad_propagates : ∀ env k (seq : Seq) q v, validSeq P k seq = true → (q, v) ∈ seq → q.kind = 0 →
      carries k q.key = true → bad q.key v = true → bad k (P.out k env (recvOf seq)) = true

variable {P : Program}

/-! ### (b) "the recorded result is never treated as up to date: the next build re-attempts it" -/

/-- **C10_failed_never_up_to_date.**  In every trace accepted by the monitor from the initial state, `upToDate k`
(the engine declares the rule up to date without running it) never occurs for a rule whose stored value is bad. -/
theorem C10_failed_never_up_to_date (F : FailureClient P) (hP : P.WF) {evs : List Event} {s s' : St} {k : Key}
    (hrun : run P {} evs = some s) (hnd : s.pendingDropped = false)
    (hup : step P s (.upToDate k) = some s') : F.bad k (s.mem.res k).value = false := by
  have hi := reach_inv hP hrun hnd
  simp only [step] at hup
  split at hup
  · rename_i hc
    simp only [Bool.and_eq_true, beq_iff_eq] at hc
    have hv := (hi.validOk k hc.1.1 hc.1.2).1
    cases hb : F.bad k (s.mem.res k).value with
    | false => rfl
    | true => rw [F.bad_invalid s.env k _ hb] at hv; cases hv
  · cases hup

/-- the same, read as a rejection: with a bad stored value the monitor does not accept `upToDate k` -/
theorem C10_failed_up_to_date_rejected (F : FailureClient P) (hP : P.WF) {evs : List Event} {s : St} {k : Key}
    (hrun : run P {} evs = some s) (hnd : s.pendingDropped = false)
    (hbad : F.bad k (s.mem.res k).value = true) : step P s (.upToDate k) = none := by
  cases h : step P s (.upToDate k) with
  | none => rfl
  | some s' => rw [C10_failed_never_up_to_date F hP hrun hnd h] at hbad; cases hbad

/-- **C10_failed_never_up_to_date_any_client.**  The same with NO hypothesis on the client and for every accepted
history (in particular without `Program.WF` and whether or not the F22 ghost flag is set): the verdict the monitor
holds for a rule being scanned is the client's verdict on its stored value in the current external state
(`VInv`, Lemmas/FailPropEngine.lean). -/
theorem C10_failed_never_up_to_date_any_client (F : FailureClient P) {evs : List Event} {s s' : St} {k : Key}
    (hrun : run P {} evs = some s) (hup : step P s (.upToDate k) = some s') :
    F.bad k (s.mem.res k).value = false := by
  have hi := reach_vinv hrun
  simp only [step] at hup
  split at hup
  · rename_i hc
    simp only [Bool.and_eq_true, beq_iff_eq] at hc
    have hv := hi.validOk k hc.1.1 hc.1.2
    cases hb : F.bad k (s.mem.res k).value with
    | false => rfl
    | true => rw [F.bad_invalid s.env k _ hb] at hv; cases hv
  · cases hup

/-- the only verdict the monitor accepts from the rule for a bad stored value is "invalid" -/
theorem C10_failed_verdict_invalid (F : FailureClient P) {s s' : St} {k : Key} {v : Val} {b : Bool}
    (h : step P s (.valid k v b) = some s') (hbad : F.bad k (s.mem.res k).value = true) : b = false := by
  obtain ⟨hv, hb, _⟩ := C02_invalid_is_rule_verdict h
  rw [hb, hv]; exact F.bad_invalid s.env k _ hbad

/-- **C10_failed_is_rerun.**  "The next build re-attempts it": in any accepted history, once the engine starts
scanning a rule whose stored value is bad (it was demanded in this build), then for every continuation of that
build — any events up to, not including, the end of the build — in which the rule becomes complete, the rule's
task was created, i.e. the rule was executed again; by `C02_once` exactly once. -/
theorem C10_failed_is_rerun (F : FailureClient P) {k : Key} :
    ∀ (evs : List Event) {evs0 : List Event} {s s' : St}, run P {} evs0 = some s →
    ((s.status k = .scanning ∧ F.bad k (s.mem.res k).value = true) ∨ s.status k = .needsRun) →
    run P s evs = some s' → (∀ e ∈ evs, endsBuild e = false) → s'.status k = .done →
    k ∈ created evs
  | [], evs0, s, s', _, hq, h, _, hdone => by
    simp [run] at h; subst h
    rcases hq with ⟨h1, _⟩ | h1 <;> rw [h1] at hdone <;> cases hdone
  | e :: es, evs0, s, s', hrun0, hq, h, hb, hdone => by
    simp only [run] at h
    cases hs : step P s e with
    | none => rw [hs] at h; simp at h
    | some s1 =>
      rw [hs] at h; simp only [Option.bind] at h
      have hrun1 : run P {} (evs0 ++ [e]) = some s1 := by
        rw [run_append_some hrun0]; simp [run, hs]
      have hbe := hb e List.mem_cons_self
      have hbes : ∀ e' ∈ es, endsBuild e' = false := fun e' he' => hb e' (List.mem_cons_of_mem _ he')
      obtain ⟨t1, t2⟩ := step_scan_or_needs (k := k) hs hbe
      have hmono : ∀ x, x ∈ created es → x ∈ created (e :: es) := by
        intro x hx; cases e <;> simp only [created] <;> first | exact hx | exact List.mem_cons_of_mem _ hx
      rcases hq with ⟨h1, hbad⟩ | h1
      · rcases t1 h1 with ⟨h2, hval⟩ | ⟨_, h2⟩ | h2
        · exact hmono k (C10_failed_is_rerun F es hrun1 (Or.inl ⟨h2, by rw [hval]; exact hbad⟩) h hbes hdone)
        · exact hmono k (C10_failed_is_rerun F es hrun1 (Or.inr h2) h hbes hdone)
        · subst h2
          rw [C10_failed_never_up_to_date_any_client F hrun0 hs] at hbad; cases hbad
      · rcases t2 h1 with h2 | h2
        · exact hmono k (C10_failed_is_rerun F es hrun1 (Or.inr h2) h hbes hdone)
        · subst h2; simp [created]

/-! ### (c) "no command that directly or transitively consumes its outputs is executed" -/

/-- one step of the closure: a from-scratch execution of `k` that was handed a bad value over a data edge ends bad -/
theorem C10_no_downstream_value_step (F : FailureClient P) (env : Env) (k : Key) (seq : Seq)
    (hv : validSeq P k seq = true) {q : Req} {w : Val} (hm : (q, w) ∈ seq) (hk : q.kind = 0)
    (hc : F.carries k q.key = true) (hb : F.bad q.key w = true) :
    F.bad k (P.out k env (recvOf seq)) = true :=
  F.bad_propagates env k seq q w hv hm hk hc hb

/-- `Downstream F env src k v`: in a from-scratch build in external state `env`, rule `k` gets the value `v` and
directly or transitively consumes — through delivered, value-carrying requests (kind 0: not order-only, not
single-use) along data edges (`F.carries`) — the rule `src`, whose own from-scratch value is bad. -/
inductive Downstream (F : FailureClient P) (env : Env) (src : Key) : Key → Val → Prop
  | here (v : Val) : Clean P env src v → F.bad src v = true → Downstream F env src src v
  | step (k : Key) (seq : Seq) (q : Req) (w : Val) :
      validSeq P k seq = true → completeSeq P k seq = true →
      (∀ q v, (q, v) ∈ seq → q.kind = 0 → Clean P env q.key v) →
      (q, w) ∈ seq → q.kind = 0 → F.carries k q.key = true → Downstream F env src q.key w →
      Downstream F env src k (P.out k env (recvOf seq))

/-- **C10_no_downstream_value.**  Every rule downstream of a failed one gets, in the from-scratch build, a bad value
(skipped / failed input): never a value computed from the failed rule's output. -/
theorem C10_no_downstream_value (F : FailureClient P) {env : Env} {src k : Key} {v : Val}
    (h : Downstream F env src k v) : Clean P env k v ∧ F.bad k v = true := by
  induction h with
  | here v hc hb => exact ⟨hc, hb⟩
  | step k seq q w hv hcm hin hm hk hc _ ih =>
    exact ⟨Clean.mk k seq hv hcm hin, F.bad_propagates env k seq q w hv hm hk hc ih.2⟩

/-- for clients with deterministic requests (`Program.Det`) there is no other from-scratch value -/
theorem C10_no_downstream_value_unique (F : FailureClient P) (hD : P.Det) {env : Env} {src k : Key} {v v' : Val}
    (h : Downstream F env src k v) (h' : Clean P env k v') : F.bad k v' = true := by
  obtain ⟨hc, hb⟩ := C10_no_downstream_value F h
  rw [Clean_unique hD h' hc]; exact hb

/-- ... on traces: in every accepted history, whenever a rule downstream of a failed one (in the current external
state) is complete in the running build, the value it holds is bad. -/
theorem C10_downstream_done_is_bad (F : FailureClient P) (hP : P.WF) (hD : P.Det) {evs : List Event} {s : St}
    {src k : Key} {v : Val} (hrun : run P {} evs = some s) (hnd : s.pendingDropped = false)
    (hdone : s.status k = .done) (h : Downstream F s.env src k v) :
    F.bad k (s.mem.res k).value = true :=
  C10_no_downstream_value_unique F hD h ((reach_inv hP hrun hnd).clean k hdone)

/-- ... and every value the engine hands to a task for a key downstream of a failed rule is bad: no task ever
receives a value computed from the failed output. -/
theorem C10_downstream_delivers_bad (F : FailureClient P) (hP : P.WF) (hD : P.Det) {evs : List Event} {s s' : St}
    {src c : Key} {id : Nat} {k : Key} {v w : Val} {reqs : List Req}
    (hrun : run P {} evs = some s) (hnd : s.pendingDropped = false)
    (hprov : step P s (.provide c id k v reqs) = some s') (h : Downstream F s.env src k w) :
    F.bad k v = true :=
  C10_no_downstream_value_unique F hD h (C01_inputs hP hrun hnd hprov)

/-- ... and a build of a key downstream of a failed rule that the engine completes returns a bad value
("the build reports failure", at the level of the returned value). -/
theorem C10_downstream_build_returns_bad (F : FailureClient P) (hP : P.WF) (hD : P.Det) {evs : List Event}
    {s s' : St} {src root : Key} {v w : Val}
    (hrun : run P {} evs = some s) (hret : step P s (.ret v) = some s') (hnd : s'.pendingDropped = false)
    (hok : s.cancelled = false ∧ s.cycleSeen = false ∧ s.errSeen = false)
    (ht : s.target = some root) (h : Downstream F s.env src root w) : F.bad root v = true := by
  obtain ⟨r, hr, hc⟩ := C01_value hP hrun hret hnd hok
  rw [ht] at hr; cases hr
  exact C10_no_downstream_value_unique F hD h hc

/-! ### (d) "once the cause is removed, the next build converges to the clean-build state" -/

/-- **C10_converges.**  `C01_value` instantiated: after ANY accepted history — failed, cancelled and skipped
executions, failed builds, any change of the external state (the removal of the failure cause is a `mutate`),
restarts — a successful build returns exactly the value a from-scratch build computes in the then-current
external state; if no rule fails in that state, that value is not a bad one. -/
theorem C10_converges (F : FailureClient P) (hP : P.WF) (hD : P.Det) {evs : List Event} {s s' : St} {v : Val}
    (hrun : run P {} evs = some s) (hret : step P s (.ret v) = some s')
    (hnd : s'.pendingDropped = false)
    (hok : s.cancelled = false ∧ s.cycleSeen = false ∧ s.errSeen = false) :
    ∃ root, s.target = some root ∧ Clean P s.env root v ∧ (∀ w, Clean P s.env root w → w = v) ∧
      ((∀ w, Clean P s.env root w → F.bad root w = false) → F.bad root v = false) := by
  obtain ⟨root, ht, hc, hu⟩ := C01_value_unique hP hD hrun hret hnd hok
  exact ⟨root, ht, hc, hu, fun h => h v hc⟩

/-! ### non-vacuity: a three-rule client, a failing history, and the repaired build

Rule 0 is an input rule (reads external slot 0; value = content + 1).  Rule 1 is a command over rule 0 that FAILS
(value 6) when the content it reads is odd, otherwise computes `2x + 10`.  Rule 2 is a command over rule 1: skipped
(value 6) when rule 1 failed, otherwise `x + 100`.  A stored 6 is never valid. -/
namespace C10Example

def exP : Program where
  sig := fun _ _ => 0
  valid := fun env k v => if k = 0 then v == env 0 + 1 else v != 6
  next := fun k _ => if k = 1 then [⟨0, 0, 0⟩] else if k = 2 then [⟨1, 0, 0⟩] else []
  disc := fun _ _ => []
  out := fun k env recv =>
    if k = 0 then env 0 + 1
    else if k = 1 then (if recv.any (fun p => p.2 % 2 == 1) then 6 else 2 * recv.foldl (fun a p => a + p.2) 0 + 10)
    else (if recv.any (fun p => p.2 == 6) then 6 else recv.foldl (fun a p => a + p.2) 0 + 100)
  force := fun _ => false
  self := fun k => k == 0

theorem exP_WF : exP.WF := by
  constructor
  · intro k env env' recv _ hs
    show (if k = 0 then env 0 + 1 else _) = (if k = 0 then env' 0 + 1 else _)
    by_cases h : k = 0
    · subst h; have := hs rfl; simp [this]
    · simp [h]
  · intro k env v hs hv
    have hk : k = 0 := by simpa [exP] using hs
    subst hk
    simpa [exP] using hv
  · intro k recv hs
    have hk : k = 0 := by simpa [exP] using hs
    subst hk; rfl
  · intro k recv _; rfl
  · intro k recv d hd; cases hd
  · intro d env env' hs ho
    have hk : d = 0 := by simpa [exP] using hs
    subst hk
    simpa [exP] using ho

theorem exP_next_le (k : Key) (r : Recv) (q : Req) (h : q ∈ exP.next k r) :
    q.kind = 0 ∧ q.id = 0 ∧ ((k = 1 ∧ q.key = 0) ∨ (k = 2 ∧ q.key = 1)) := by
  have h' : q ∈ (if k = 1 then [(⟨0, 0, 0⟩ : Req)] else if k = 2 then [⟨1, 0, 0⟩] else []) := h
  by_cases h1 : k = 1
  · simp [h1] at h'; subst h'; exact ⟨rfl, rfl, Or.inl ⟨h1, rfl⟩⟩
  · by_cases h2 : k = 2
    · simp [h2] at h'; subst h'; exact ⟨rfl, rfl, Or.inr ⟨h2, rfl⟩⟩
    · simp [h1, h2] at h'

theorem exP_Det : exP.Det := by
  refine ⟨⟨fun k r r' _ _ _ q hq => hq, ?_⟩, ?_⟩
  · intro k r q q' hq hq' _
    obtain ⟨a1, a2, a3⟩ := exP_next_le k r q hq
    obtain ⟨b1, b2, b3⟩ := exP_next_le k r q' hq'
    obtain ⟨qk, qi, qd⟩ := q
    obtain ⟨qk', qi', qd'⟩ := q'
    simp only [] at a1 a2 a3 b1 b2 b3
    subst a1 a2 b1 b2
    rcases a3 with ⟨e1, e2⟩ | ⟨e1, e2⟩ <;> rcases b3 with ⟨f1, f2⟩ | ⟨f1, f2⟩
    · subst e2 f2; rfl
    · exact absurd (e1.symm.trans f1) (by decide)
    · exact absurd (e1.symm.trans f1) (by decide)
    · subst e2 f2; rfl
  · intro k r q hq
    rw [(exP_next_le k r q hq).1]; decide

/-- the failure facts of the example client: 6 is "failed / skipped" for the two commands; rule 2 consumes rule 1 as data -/
def exF : FailureClient exP where
  bad := fun k v => (k == 1 || k == 2) && v == 6
  carries := fun k d => k == 2 && d == 1
  bad_invalid := by
    intro env k v hb
    simp only [Bool.and_eq_true, Bool.or_eq_true, beq_iff_eq] at hb
    obtain ⟨hk, hv⟩ := hb
    subst hv
    have : k ≠ 0 := by rcases hk with h | h <;> rw [h] <;> decide
    simp [exP, this]
  bad_propagates := by
    intro env k seq q v hv hm hk hc hb
    simp only [Bool.and_eq_true, Bool.or_eq_true, beq_iff_eq] at hc hb
    obtain ⟨hk2, _⟩ := hc
    obtain ⟨_, hv6⟩ := hb
    subst hk2 hv6
    have hmem : (q.id, 6) ∈ recvOf seq :=
      (mem_recvOf exP_Det.toMono 2 seq hv q.id 6).2 ⟨q, 6, hm, rfl, by simp [maskVal, hk]⟩
    have hany : (recvOf seq).any (fun p => p.2 == 6) = true :=
      List.any_eq_true.2 ⟨_, hmem, by simp⟩
    have ho : exP.out 2 env (recvOf seq) = 6 := by simp [exP, hany]
    rw [ho]; decide

def row (v c b : Nat) (deps : List Dep) : Res := { value := v, sig := 0, computedAt := c, builtAt := b, deps := deps }

/-- first build, content 2 (rule 0 = 3, odd): rule 1 fails, rule 2 is skipped, the build returns the bad value -/
def build1 : List Event := [
  .mutate 0 2,
  .buildStart 2, .queueCreated, .lookup 2, .dbGet 2 false, .scanning 2, .needs 2 0 none, .create 2, .start 2 [⟨1, 0, 0⟩],
  .lookup 1, .dbGet 1 false, .scanning 1, .needs 1 0 none, .create 1, .start 1 [⟨0, 0, 0⟩],
  .lookup 0, .dbGet 0 false, .scanning 0, .needs 0 0 none, .create 0, .start 0 [],
  .inputsAvail 0 [], .complete 0 3 false, .finished 0 (row 3 1 1 []),
  .provide 1 0 0 3 [], .inputsAvail 1 [], .complete 1 6 false, .finished 1 (row 6 1 1 [⟨0, false, false⟩]),
  .provide 2 0 1 6 [], .inputsAvail 2 [], .complete 2 6 false, .finished 2 (row 6 1 1 [⟨1, false, false⟩]),
  .dbIter 1, .dbEnd, .ret 6, .tail 0 0]

/-- second build, nothing changed, up to the point where the failed rule 1 is being scanned -/
def build2a : List Event := [
  .buildStart 2, .queueCreated, .scanning 2, .valid 2 6 false, .needs 2 2 none, .create 2, .start 2 [⟨1, 0, 0⟩], .prior 2 6,
  .scanning 1, .valid 1 6 false]

/-- ... the rest of it: rule 1 is re-run (and fails again), rule 0 is up to date, rule 2 is re-run (skipped again) -/
def build2b : List Event := [
  .needs 1 2 none, .create 1, .start 1 [⟨0, 0, 0⟩], .prior 1 6,
  .scanning 0, .valid 0 3 true, .upToDate 0,
  .provide 1 0 0 3 [], .inputsAvail 1 [], .complete 1 6 false, .finished 1 (row 6 1 2 [⟨0, false, false⟩]),
  .provide 2 0 1 6 [], .inputsAvail 2 [], .complete 2 6 false, .finished 2 (row 6 1 2 [⟨1, false, false⟩])]

def build2c : List Event := [.dbIter 2, .dbEnd, .ret 6, .tail 0 0]

/-- the cause is removed (content 3, rule 0 = 4, even); third build up to its return -/
def build3 : List Event := [
  .mutate 0 3,
  .buildStart 2, .queueCreated, .scanning 2, .valid 2 6 false, .needs 2 2 none, .create 2, .start 2 [⟨1, 0, 0⟩],
  .scanning 1, .valid 1 6 false, .needs 1 2 none, .create 1, .start 1 [⟨0, 0, 0⟩],
  .scanning 0, .valid 0 3 false, .needs 0 2 none, .create 0, .start 0 [], .prior 0 3,
  .inputsAvail 0 [], .complete 0 4 false, .finished 0 (row 4 3 3 []),
  .prior 1 6, .provide 1 0 0 4 [], .inputsAvail 1 [], .complete 1 18 false, .finished 1 (row 18 3 3 [⟨0, false, false⟩]),
  .prior 2 6, .provide 2 0 1 18 [], .inputsAvail 2 [], .complete 2 118 false, .finished 2 (row 118 3 3 [⟨1, false, false⟩]),
  .dbIter 3, .dbEnd]

/-- the hypotheses of `C10_failed_never_up_to_date` / `C10_failed_up_to_date_rejected` / `C10_failed_is_rerun`
hold in the second build: rule 1 is being scanned, its stored value is bad, the F22 flag is clear -/
theorem ex_scanning_failed : ∃ s, run exP {} (build1 ++ build2a) = some s ∧
    s.status 1 = .scanning ∧ exF.bad 1 (s.mem.res 1).value = true ∧ s.pendingDropped = false := by
  obtain ⟨s, hs, hp⟩ := run_facts (P := exP) (s0 := {}) (evs := build1 ++ build2a)
    (p := fun s => s.status 1 == .scanning && exF.bad 1 (s.mem.res 1).value && !s.pendingDropped) (by decide +kernel)
  simp only [Bool.and_eq_true, beq_iff_eq, Bool.not_eq_eq_eq_not, Bool.not_true] at hp
  exact ⟨s, hs, hp.1.1, hp.1.2, hp.2⟩

/-- ... there the monitor rejects `upToDate 1` (what `C10_failed_up_to_date_rejected` says) and accepts the re-run -/
example : (run exP {} (build1 ++ build2a ++ [.upToDate 1])).isNone = true := by decide +kernel
example : (run exP {} (build1 ++ build2a ++ build2b ++ build2c)).isSome = true := by decide +kernel

example : ∃ s, run exP {} (build1 ++ build2a) = some s ∧ step exP s (.upToDate 1) = none := by
  obtain ⟨s, hs, _, hb, hnd⟩ := ex_scanning_failed
  exact ⟨s, hs, C10_failed_up_to_date_rejected exF exP_WF hs hnd hb⟩

/-- `C10_failed_is_rerun` applies to the rest of the second build: rule 1 becomes complete, so it was created -/
example : 1 ∈ created build2b := by
  obtain ⟨s, hs, hsc, hb, _⟩ := ex_scanning_failed
  obtain ⟨s', hs', hp⟩ := run_facts (P := exP) (s0 := {}) (evs := (build1 ++ build2a) ++ build2b) (p := fun s => s.status 1 == .done)
    (by decide +kernel)
  rw [run_append_some hs] at hs'
  exact C10_failed_is_rerun exF build2b hs (Or.inl ⟨hsc, hb⟩) hs' (by decide) (by simpa using hp)

/-- the external state of the failing builds -/
def envFail : Env := upd (fun _ => 0) 0 2

theorem ex_clean0 : Clean exP envFail 0 3 :=
  Clean.mk (P := exP) (env := envFail) 0 [] (by decide) (by decide) (by intro q v h; cases h)

theorem ex_clean1 : Clean exP envFail 1 6 :=
  Clean.mk (P := exP) (env := envFail) 1 [(⟨0, 0, 0⟩, 3)] (by decide) (by decide)
    (by intro q v h _; simp only [List.mem_singleton, Prod.mk.injEq] at h; obtain ⟨rfl, rfl⟩ := h; exact ex_clean0)

/-- rule 2 is downstream of the failed rule 1 (hypothesis of `C10_no_downstream_value` and of the trace corollaries) -/
theorem ex_downstream : Downstream exF envFail 1 2 6 :=
  Downstream.step (F := exF) (env := envFail) (src := 1) 2 [(⟨1, 0, 0⟩, 6)] ⟨1, 0, 0⟩ 6 (by decide) (by decide)
    (by intro q v h _; simp only [List.mem_singleton, Prod.mk.injEq] at h; obtain ⟨rfl, rfl⟩ := h; exact ex_clean1)
    (by simp) rfl (by decide) (Downstream.here 6 ex_clean1 (by decide))

example : exF.bad 2 6 = true := (C10_no_downstream_value exF ex_downstream).2

/-- ... on the trace: at the end of the first build's work rule 2 is complete, the external state is `envFail`,
and `C10_downstream_done_is_bad` gives that its value is bad -/
example : ∃ s, run exP {} (build1.take 32) = some s ∧ exF.bad 2 (s.mem.res 2).value = true := by
  obtain ⟨s, hs, hp⟩ := run_facts (P := exP) (s0 := {}) (evs := build1.take 32)
    (p := fun s => s.status 2 == .done && !s.pendingDropped && s.env 0 == 2 && s.env 1 == 0) (by decide +kernel)
  simp only [Bool.and_eq_true, beq_iff_eq, Bool.not_eq_eq_eq_not, Bool.not_true] at hp
  refine ⟨s, hs, ?_⟩
  -- the clean derivations above only read slot 0 of the external state
  have hd : Downstream exF s.env 1 2 6 := by
    have h0 : Clean exP s.env 0 3 := by
      have := Clean.mk (P := exP) (env := s.env) 0 [] (by decide) (by decide) (by intro q v h; cases h)
      have ho : exP.out 0 s.env (recvOf []) = 3 := by simp [exP, hp.1.2]
      rw [ho] at this; exact this
    have h1 : Clean exP s.env 1 6 :=
      Clean.mk (P := exP) (env := s.env) 1 [(⟨0, 0, 0⟩, 3)] (by decide) (by decide)
        (by intro q v h _; simp only [List.mem_singleton, Prod.mk.injEq] at h; obtain ⟨rfl, rfl⟩ := h; exact h0)
    exact Downstream.step (F := exF) (env := s.env) (src := 1) 2 [(⟨1, 0, 0⟩, 6)] ⟨1, 0, 0⟩ 6 (by decide) (by decide)
      (by intro q v h _; simp only [List.mem_singleton, Prod.mk.injEq] at h; obtain ⟨rfl, rfl⟩ := h; exact h1)
      (by simp) rfl (by decide) (Downstream.here 6 h1 (by decide))
  exact C10_downstream_done_is_bad exF exP_WF exP_Det hs hp.1.1.2 hp.1.1.1 hd

/-- `C10_converges` applies to the third build (after the cause was removed): its hypotheses hold and the value
returned, 118, is the from-scratch value and is not bad -/
example : ∃ s s', run exP {} (build1 ++ build2a ++ build2b ++ build2c ++ build3) = some s ∧
    step exP s (.ret 118) = some s' ∧ s'.pendingDropped = false ∧
    (s.cancelled = false ∧ s.cycleSeen = false ∧ s.errSeen = false) ∧ exF.bad 2 118 = false := by
  obtain ⟨s, hs, hp⟩ := run_facts (P := exP) (s0 := {}) (evs := build1 ++ build2a ++ build2b ++ build2c ++ build3)
    (p := fun s => !s.cancelled && !s.cycleSeen && !s.errSeen &&
      ((step exP s (.ret 118)).map (fun s' => !s'.pendingDropped) == some true)) (by decide +kernel)
  simp only [Bool.and_eq_true, Bool.not_eq_eq_eq_not, Bool.not_true, beq_iff_eq] at hp
  cases hr : step exP s (.ret 118) with
  | none => rw [hr] at hp; simp at hp
  | some s' =>
    rw [hr] at hp
    exact ⟨s, s', hs, hr, by simpa using hp.2, ⟨hp.1.1.1, hp.1.1.2, hp.1.2⟩, by decide⟩

end C10Example

end LLBuild.Engine
