/-
C05 — Cancellation never hangs, leaks work, or poisons later builds.

"Cancelling a running build from any thread at any moment makes the build call return failure once
the tasks already computing have reported, with no task callback delivered after it returns and
nothing left running.  Results persisted by a cancelled build are only those of tasks that really
completed, and every later build - on the same engine after reset, or on a new engine over the same
database - still returns the clean-build result for the then-current external state."

Model: the abstract engine.  Cancellation is the event `cancel` at any position of a build's trace;
the failed return resets every rule with a started task to "never built" (the repaired
`cancelRemainingTasks`).  Termination ("never hangs") is not a property of accepted traces: it is
checked on the real engine by the harness watchdog under hook-driven cancellation at every step.
-/
import LLBuild.Props.C01
import LLBuild.Lemmas.Engine.Fingerprint

set_option linter.unusedVariables false

namespace LLBuild.Engine

/-- Later builds are clean: `C01_value` quantifies over ALL accepted histories, in particular those
containing cancelled or failed builds followed by builds on the same engine (no `restart`) or on a new
engine over the same database (`restart`). -/
theorem C05_later_builds_clean {P : Program} (hP : P.WF) {evs : List Event} {s s' : St} {v : Val}
    (hrun : run P {} evs = some s) (hret : step P s (.ret v) = some s')
    (hnd : s'.pendingDropped = false)
    (hok : s.cancelled = false ∧ s.cycleSeen = false ∧ s.errSeen = false) :
    ∃ root, s.target = some root ∧ Clean P s.env root v :=
  C01_value hP hrun hret hnd hok

/-- A build that was cancelled while work was outstanding returns failure (the empty value). -/
theorem C05_cancelled_build_fails {P : Program} {s s' : St} {v : Val}
    (h : step P s (.ret v) = some s') (hc : s.cancelled = true)
    (hwork : ∃ k ∈ s.ran, inflight s k = true) : v = 0 := by
  simp only [step] at h
  split at h
  · cases h
  · split at h
    · cases h
    · split at h
      · rename_i hcc
        simp only [Bool.and_eq_true, List.all_eq_true] at hcc
        obtain ⟨k, hk, hf⟩ := hwork
        have := hcc.1.2.2 k hk
        simp [hf] at this
      · split at h
        · rename_i hcc
          simp only [Bool.and_eq_true, beq_iff_eq] at hcc
          exact hcc.2
        · cases h

/-- After a failed return nothing in memory describes an unfinished execution as built. -/
theorem C05_interrupted_reset {P : Program} {s s' : St} {v : Val}
    (h : step P s (.ret v) = some s') (hfail : s.cancelled = true ∨ s.cycleSeen = true ∨ s.errSeen = true)
    (hwork : ∃ k ∈ s.ran, inflight s k = true) :
    ∀ k, inflight s k = true → (s'.mem.res k).builtAt = 0 := by
  simp only [step] at h
  split at h
  · cases h
  · split at h
    · cases h
    · split at h
      · rename_i hcc
        simp only [Bool.and_eq_true, List.all_eq_true] at hcc
        obtain ⟨k, hk, hf⟩ := hwork
        have := hcc.1.2.2 k hk
        simp [hf] at this
      · split at h
        · cases h; intro k hk; simp [hk]
        · cases h

/-- Only completed tasks are persisted: the database changes only when a finished task whose
`complete` call was seen is processed (or when the database is wiped, or rolled back to the last commit by a crash), and the row written carries
the dependency list recorded for that same execution. -/
theorem C05_persisted_only_completed {P : Program} {s s' : St} {e : Event}
    (h : step P s e = some s') (hdb : s'.db.res ≠ s.db.res) :
    e = .wipe ∨ e = .crash ∨ ∃ k row, e = .finished k row ∧ s.status k = .computing ∧ (s.task k).completed = true ∧
      (s'.db.res k).deps = row.deps ∧ (s'.db.res k).value = (s.mem.res k).value := by
  cases e <;> simp only [step] at h
  case wipe => left; rfl
  case crash => right; left; rfl
  case finished k row =>
    split at h
    · rename_i hc
      cases h
      simp only [Bool.and_eq_true, beq_iff_eq] at hc
      right; right
      exact ⟨k, row, rfl, hc.1.1.1.1.1.1.1.1.1, hc.1.1.1.1.1.1.1.2, by simp, by simp⟩
    · cases h
  case ret v =>
    split at h
    · cases h
    · split at h
      · cases h
      · split at h
        · cases h; exact absurd rfl hdb
        · split at h
          · cases h; exact absurd rfl hdb
          · cases h
  case provide k id key v reqs =>
    split at h
    · split at h
      · cases h
      · split at h
        · cases h; exact absurd rfl hdb
        · cases h
    · cases h
  case cycle ks =>
    split at h
    · split at h
      · cases h; exact absurd rfl hdb
      · cases h
    · cases h
  all_goals first
    | (cases h; exact absurd rfl hdb)
    | (split at h
       · cases h; exact absurd rfl hdb
       · cases h)

/-- When `build()` has returned and the harness has observed the tail of the build, no task object is
alive, no callback arrived late, and every rule is idle again. -/
theorem C05_quiescent {P : Program} {s s' : St} {live late : Nat}
    (h : step P s (.tail live late) = some s') :
    live = 0 ∧ late = 0 ∧ s.returned = true ∧ (∀ k, s'.status k = .idle) ∧ s'.target = none := by
  simp only [step] at h
  split at h
  · rename_i hc
    cases h
    simp only [Bool.and_eq_true, beq_iff_eq] at hc
    exact ⟨hc.1.1.1.2, hc.1.1.2, hc.1.1.1.1, fun _ => rfl, rfl⟩
  · cases h

end LLBuild.Engine
