/-
C04 (engine level) — killing the process at any instant leaves a usable, consistent database.

"[...] Builds continued from that database still return clean-build results even when outputs were
already modified by the interrupted build."

Model: the abstract engine with the event `crash` (accepted at any point of a build): memory is lost
and the database is what the last commit (`buildComplete`, event `dbEnd`) left.  The database layer
itself (SQLite transaction atomicity, the committed-snapshot invariants on the real file format) is
LLBuild/Props/C04.lean; here the engine's use of it is decided: the committed snapshot is always a
state from which builds continue correctly (`InvC`, part of the invariant proved in
Lemmas/Engine), so `C01_value` holds for every history that contains crashes at arbitrary points,
followed by arbitrary changes of external state and further builds.
-/
import LLBuild.Props.C01

set_option linter.unusedVariables false

namespace LLBuild.Engine

/-- Builds continued after a crash (at ANY event of ANY build of the history) return clean results. -/
theorem C04_continue_clean {P : Program} (hP : P.WF) {evs : List Event} {s s' : St} {v : Val}
    (hrun : run P {} evs = some s) (hret : step P s (.ret v) = some s')
    (hnd : s'.pendingDropped = false)
    (hok : s.cancelled = false ∧ s.cycleSeen = false ∧ s.errSeen = false) :
    ∃ root, s.target = some root ∧ Clean P s.env root v :=
  C01_value hP hrun hret hnd hok

/-- a crash is accepted at any point of a build and rolls everything back to the last commit -/
theorem C04_crash_rolls_back {P : Program} {s : St} (ht : s.target.isSome = true) :
    ∃ s', step P s .crash = some s' ∧ s'.mem = s.cdb ∧ s'.db = s.cdb ∧ s'.epoch = s.cdbIter ∧
      s'.dbIter = s.cdbIter ∧ s'.target = none := by
  simp only [step, ht, ↓reduceIte]
  exact ⟨_, rfl, rfl, rfl, rfl, rfl, rfl⟩

/-- the committed snapshot changes only when a build's transaction is committed (or the file is wiped) -/
theorem C04_commit_only_at_build_complete {P : Program} {s s' : St} {e : Event}
    (h : step P s e = some s') (hc : s'.cdb.res ≠ s.cdb.res ∨ s'.cdbIter ≠ s.cdbIter) :
    e = .dbEnd ∨ e = .wipe := by
  cases e <;> simp only [step] at h
  case dbEnd => left; rfl
  case wipe => right; rfl
  case ret v =>
    split at h
    · cases h
    · split at h
      · cases h
      · split at h
        · cases h; rcases hc with hc | hc <;> exact absurd rfl hc
        · split at h
          · cases h; rcases hc with hc | hc <;> exact absurd rfl hc
          · cases h
  case provide k id key v reqs =>
    split at h
    · split at h
      · cases h
      · split at h
        · cases h; rcases hc with hc | hc <;> exact absurd rfl hc
        · cases h
    · cases h
  case cycle ks =>
    split at h
    · split at h
      · cases h; rcases hc with hc | hc <;> exact absurd rfl hc
      · cases h
    · cases h
  all_goals first
    | (cases h; rcases hc with hc | hc <;> exact absurd rfl hc)
    | (split at h
       · cases h; rcases hc with hc | hc <;> exact absurd rfl hc
       · cases h)

/-- No epoch reuse: in every reachable state the committed epoch is not smaller than any epoch in the
committed rows (so the first build after a crash, at committed epoch + 1, stamps fresh epochs), and
the same holds for the live database against the engine's epoch. -/
theorem C04_no_epoch_reuse_engine {P : Program} (hP : P.WF) {evs : List Event} {s : St}
    (hrun : run P {} evs = some s) (hnd : s.pendingDropped = false) :
    (∀ k, (s.cdb.res k).builtAt ≤ s.cdbIter ∧ (s.cdb.res k).computedAt ≤ s.cdbIter) ∧
    (∀ k, (s.db.res k).builtAt ≤ s.epoch ∧ (s.db.res k).computedAt ≤ s.epoch) :=
  ⟨(reach_invC hP hrun hnd).memE, (reach_inv hP hrun hnd).dbE⟩

/-- Every committed row the engine may reuse (`Reusable`: its signature is one the client program can
give the rule and the rule can accept a stored value at all — a row with any other signature is re-run,
reason 1, a row of a rule that never accepts its stored value is re-run, reason 2) describes a
completed execution of that program together with the dependency list of that same execution (the
ghost record `GoodRec`); and the recorded dependencies of EVERY committed row are epoch-sound. -/
theorem C04_committed_rows_good {P : Program} (hP : P.WF) {evs : List Event} {s : St}
    (hrun : run P {} evs = some s) (hnd : s.pendingDropped = false) :
    ∀ k, (s.cdb.res k).builtAt ≠ 0 →
      (Reusable P k (s.cdb.res k).sig → GoodRec P s.cdb k) ∧ FreshRec s.cdb [] k := by
  intro k hk
  exact (reach_invC hP hrun hnd).dbGood k hk

end LLBuild.Engine
