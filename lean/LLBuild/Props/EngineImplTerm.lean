/-
The transliterated engine never hangs or stalls, and the soundness corollaries without any
behavioural hypothesis.

`Lemmas/Refine/Final2.lean` (potential-function argument over the work loop and its inner loops,
`Lemmas/Refine/Term*.lean`) shows that a build of the concrete engine model
(`Model/EngineImpl.lean`) does at most `workBound + 2` iterations of the work loop and of every inner
loop, where `workBound` is an explicit linear function of the program and engine state (a sum over
the keys the program and the engine know of `6 + 6·(#recorded dependencies + 1) + 6·#requests +
6·#discovered`), for EVERY hook schedule and EVERY cancellation point.  So whenever that bound fits
the model's fuel constants (`histSized`, computable) no build emits the model's `FUEL` / `BAD` markers:
the engine never waits with nothing outstanding (`BAD stall`), never loops forever, the drain after a
cancellation ends (properties C05 "cancellation never hangs", C07 "never stalls"), and the
memory-safety markers (dependency index out of bounds, use of a freed scan record, wait-count
underflow, abort) are unreachable.  The corollaries of `Props/EngineImplSound.lean` then hold with
`histSized` in place of `histOk`.
-/
import LLBuild.Props.EngineImplSound
import LLBuild.Lemmas.Refine.Final2

namespace LLBuild.Refine
open LLBuild.Engine LLBuild.Engine.DSL LLBuild.EngineImpl

/-- the size condition gives `histOk` from the fresh harness state -/
theorem histOk_of_histSized {rules : List RuleSpec} (hok : RulesOk rules) (ops : List Op)
    (hs : histSized rules ops (opProgram rules {})) : histOk ops (opProgram rules {}) :=
  histOk_of_sized hok ops _ _ (RelIdle.init rules) hs

/-- **C05 / C07: no hang, no stall.**  After any history whose builds fit the fuel, a build of the
transliterated engine — under any completion schedule, cancelled at any event or hook point or not
at all — returns: its trace contains neither `FUEL` (a loop that did not end) nor `BAD _` (a stall:
waiting with nothing outstanding; or one of the memory-safety markers). -/
theorem EngineImpl_terminates {rules : List RuleSpec} (hok : RulesOk rules) (ops : List Op)
    (key cancelAt : Nat) (sched : List SchedItem)
    (hs : histSized rules (ops ++ [.build key cancelAt sched]) (opProgram rules {})) :
    (runBuild key cancelAt sched (runOps ops (opProgram rules {}))).halted = false ∧
    NoBad (runBuild key cancelAt sched (runOps ops (opProgram rules {}))).trace := by
  have hh := histOk_of_histSized hok _ hs
  obtain ⟨_, h2⟩ := (histOk_append ops _ _).1 hh
  have hnh : (runBuild key cancelAt sched (runOps ops (opProgram rules {}))).halted = false := by
    simpa [histOk, opOk] using h2.1
  exact ⟨hnh, (opOk_iff_noBad key cancelAt sched _).1 hnh⟩

/-- `EngineImpl_sound_C01` with the computable size condition in place of `histOk` -/
theorem EngineImpl_sound_C01_sized {rules : List RuleSpec} (hok : RulesOk rules) (hwf : DSL.wf rules = true)
    (ops : List Op) (key cancelAt : Nat) (sched : List SchedItem)
    (hs : histSized rules (ops ++ [.build key cancelAt sched]) (opProgram rules {})) :
    ∃ evs0 m0 evsB,
      histEvents ops (opProgram rules {}) = some evs0 ∧ run (program rules) {} evs0 = some m0 ∧
      toEvents (runBuild key cancelAt sched (runOps ops (opProgram rules {}))).trace.reverse = some evsB ∧
      ∀ pre v post, evsB = pre ++ Event.ret v :: post →
        ∃ m1 m2, run (program rules) m0 pre = some m1 ∧ step (program rules) m1 (.ret v) = some m2 ∧
          (m2.pendingDropped = false → m1.cancelled = false → m1.cycleSeen = false → m1.errSeen = false →
            ∃ root, m1.target = some root ∧ Clean (program rules) m1.env root v) :=
  EngineImpl_sound_C01 hok hwf ops key cancelAt sched (histOk_of_histSized hok _ hs)

/-- `EngineImpl_sound_C05_quiescent` with the size condition -/
theorem EngineImpl_sound_C05_quiescent_sized {rules : List RuleSpec} (hok : RulesOk rules)
    (ops : List Op) (hs : histSized rules ops (opProgram rules {})) :
    let s := runOps ops (opProgram rules {})
    s.taskInfos = [] ∧ s.ruleInfosToScan = [] ∧ s.inputRequests = [] ∧ s.finishedInputRequests = [] ∧
    s.readyTaskInfos = [] ∧ s.finishedTaskInfos = [] ∧ s.numOutstandingUnfinishedTasks = 0 ∧
    s.numRulesBeingScanned = 0 ∧ s.pendingDeferred = [] ∧ s.buildActive = false ∧
    s.store.iteration = s.currentEpoch ∧
    (∀ k ri, s.ruleInfos.lookup k = some ri → ri.state = .incomplete ∨ ri.state = .complete) :=
  EngineImpl_sound_C05_quiescent hok ops (histOk_of_histSized hok _ hs)

/-- `EngineImpl_sound_C07_cycle` with the size condition -/
theorem EngineImpl_sound_C07_cycle_sized {rules : List RuleSpec} (hok : RulesOk rules) (hwf : DSL.wf rules = true)
    {C : Key → Prop} (hC : CyclicSet (program rules) C)
    (ops : List Op) (key cancelAt : Nat) (sched : List SchedItem)
    (hs : histSized rules (ops ++ [.build key cancelAt sched]) (opProgram rules {})) :
    ∃ evs0 m0 evsB,
      run (program rules) {} evs0 = some m0 ∧
      toEvents (runBuild key cancelAt sched (runOps ops (opProgram rules {}))).trace.reverse = some evsB ∧
      ∀ pre v post, evsB = pre ++ Event.ret v :: post →
        ∃ m1 m2, run (program rules) m0 pre = some m1 ∧ step (program rules) m1 (.ret v) = some m2 ∧
          (m2.pendingDropped = false → ∀ r, m1.target = some r → C r →
            m1.cancelled = true ∨ m1.cycleSeen = true ∨ m1.errSeen = true) :=
  EngineImpl_sound_C07_cycle hok hwf hC ops key cancelAt sched (histOk_of_histSized hok _ hs)

end LLBuild.Refine
