/- C18: the per-command decision theorems (Props/C18.lean) the whole-build theorems (Props/C18World.lean) and the
   manifest self-regeneration loop (Props/C18Regen.lean). -/
import LLBuild.Props.C18
import LLBuild.Props.C18World
import LLBuild.Props.C18Regen
