/- C18: the per-command decision theorems (Props/C18.lean) and the whole-build theorems (Props/C18World.lean). -/
import LLBuild.Props.C18
import LLBuild.Props.C18World
