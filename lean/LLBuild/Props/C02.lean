/-
C02 — Work happens at most once per build and only for a true, reported reason.

"Within one build each rule is executed at most once, and a rule is executed only if it was never
built, its signature changed, its stored result was declared invalid, a recorded non-order-only
dependency produced a changed value since the rule was last brought up to date, or its previous
execution was interrupted by a cancelled or failed build. [...] order-only dependencies never trigger
a re-run, and the reason the engine reports to its delegate for running a rule is true of the actual
history."

Model: the abstract engine (LLBuild/Model/Engine.lean); the real engine's traces are replayed
through `step`, which accepts `createTask` / `determinedRuleNeedsToRun` only under these conditions.
What is proved here is that acceptance by the model implies the clauses, for every history.
The null-build corollary ("a build with no reason to run anything executes nothing") is
`C02_null_build_runs_nothing`; it rests on the `demanded` guard of the `scanning` event (the engine
only scans what somebody asked for), which real traces are checked against like every other guard.
-/
import LLBuild.Lemmas.Engine.Run
import LLBuild.Lemmas.Engine.Fingerprint
import LLBuild.Lemmas.Engine.NullBuild
import LLBuild.Lemmas.Engine.Settle

set_option linter.unusedVariables false

namespace LLBuild.Engine

/-- keys whose task is created by a list of events -/
def created : List Event → List Key
  | [] => []
  | .create k :: es => k :: created es
  | _ :: es => created es

def isBuildBoundary : Event → Bool
  | .buildStart _ => true
  | .wipe => true
  | _ => false

theorem step_ran {P : Program} {s s' : St} {e : Event} (h : step P s e = some s')
    (hb : isBuildBoundary e = false) :
    s'.ran = (match e with | .create k => k :: s.ran | _ => s.ran) ∧
    (∀ k, e = .create k → k ∉ s.ran ∧ s.status k = .needsRun) := by
  cases e <;> simp only [step] at h <;> simp only [isBuildBoundary] at hb
  case buildStart => cases hb
  case wipe => cases hb
  case create k =>
    split at h
    · rename_i hc
      cases h
      simp only [Bool.and_eq_true, beq_iff_eq, Bool.not_eq_eq_eq_not, Bool.not_true] at hc
      refine ⟨rfl, ?_⟩
      intro k' hk'; cases hk'
      exact ⟨by simpa using hc.2, hc.1⟩
    · cases h
  case ret v =>
    split at h
    · cases h
    · split at h
      · cases h
      · split at h
        · cases h; exact ⟨rfl, fun k hk => by cases hk⟩
        · split at h
          · cases h; exact ⟨rfl, fun k hk => by cases hk⟩
          · cases h
  case provide k id key v reqs =>
    split at h
    · split at h
      · cases h
      · split at h
        · cases h; exact ⟨rfl, fun k hk => by cases hk⟩
        · cases h
    · cases h
  case cycle ks =>
    split at h
    · split at h
      · cases h; exact ⟨rfl, fun k hk => by cases hk⟩
      · cases h
    · cases h
  all_goals first
    | (cases h; exact ⟨rfl, fun k hk => by cases hk⟩)
    | (split at h
       · cases h; exact ⟨rfl, fun k hk => by cases hk⟩
       · cases h)

/-- Within one build (no build boundary among the events) every rule's task is created at most
once: the created keys are pairwise distinct and distinct from those created earlier in the build. -/
theorem C02_once {P : Program} : ∀ (evs : List Event) (s s' : St), run P s evs = some s' →
    (∀ e ∈ evs, isBuildBoundary e = false) →
    (created evs).Nodup ∧ (∀ k ∈ created evs, k ∉ s.ran) ∧ s'.ran = (created evs).reverse ++ s.ran
  | [], s, s', h, _ => by simp [run] at h; subst h; simp [created]
  | e :: es, s, s', h, hb => by
    simp only [run] at h
    cases hs : step P s e with
    | none => rw [hs] at h; simp at h
    | some s1 =>
      rw [hs] at h; simp only [Option.bind] at h
      have hbe := hb e List.mem_cons_self
      obtain ⟨hr, hc⟩ := step_ran hs hbe
      obtain ⟨ih1, ih2, ih3⟩ := C02_once es s1 s' h (fun e' he' => hb e' (List.mem_cons_of_mem _ he'))
      cases e with
      | create k =>
        simp only at hr
        obtain ⟨hk1, _⟩ := hc k rfl
        simp only [created]
        refine ⟨List.nodup_cons.2 ⟨?_, ih1⟩, ?_, ?_⟩
        · intro hk; have := ih2 k hk; rw [hr] at this; exact this List.mem_cons_self
        · intro x hx
          rcases List.mem_cons.1 hx with rfl | hx
          · exact hk1
          · have := ih2 x hx; rw [hr] at this; exact fun h' => this (List.mem_cons_of_mem _ h')
        · rw [ih3, hr]; simp
      | _ =>
        simp only at hr
        simp only [created]
        rw [hr] at ih2 ih3
        exact ⟨ih1, ih2, ih3⟩

/-- A task is created only for a rule for which a reason to run was determined in this build. -/
theorem C02_create_needs_reason {P : Program} {s s' : St} {k : Key} (h : step P s (.create k) = some s') :
    s.status k = .needsRun ∧ k ∉ s.ran := by
  have := (step_ran h rfl).2 k rfl
  exact ⟨this.2, this.1⟩

/-- The reason reported to the delegate is true of the engine's state:
0 never built (no completed execution on record: never built, or interrupted by a failed build),
1 the stored signature differs from the rule's, 2 the rule declared its stored value invalid,
3 `d` is a recorded dependency that is not order-only, is up to date in this build, and was last
computed after the rule was last brought up to date. -/
theorem C02_reason_true {P : Program} {s s' : St} {k : Key} {reason : Nat} {input : Option Key}
    (h : step P s (.needs k reason input) = some s') :
    s.status k = .scanning ∧
    ((reason = 0 ∧ input = none ∧ (s.mem.res k).builtAt = 0) ∨
     (reason = 1 ∧ input = none ∧ (s.mem.res k).builtAt ≠ 0 ∧ (s.mem.res k).sig ≠ s.sigAt k) ∨
     (reason = 2 ∧ input = none ∧ s.validSeen k = some false) ∨
     (reason = 3 ∧ ∃ d, input = some d ∧ s.validSeen k = some true ∧
        (∃ dp ∈ (s.mem.res k).deps, dp.key = d ∧ dp.orderOnly = false) ∧
        s.status d = .done ∧ (s.mem.res k).builtAt < (s.mem.res d).computedAt)) := by
  simp only [step] at h
  split at h
  · rename_i hc
    cases h
    simp only [Bool.and_eq_true, beq_iff_eq] at hc
    refine ⟨hc.1, ?_⟩
    have hok := hc.2
    unfold needsOk at hok
    split at hok
    · left; exact ⟨rfl, rfl, by simpa using hok⟩
    · right; left
      simp only [Bool.and_eq_true, bne_iff_ne, ne_eq] at hok
      exact ⟨rfl, rfl, hok.1, hok.2⟩
    · right; right; left; exact ⟨rfl, rfl, by simpa using hok⟩
    · right; right; right
      rename_i d
      simp only [Bool.and_eq_true, beq_iff_eq, List.any_eq_true, decide_eq_true_eq] at hok
      obtain ⟨⟨⟨hv, ⟨dp, hdp, hdk⟩⟩, hd⟩, hlt⟩ := hok
      simp only [Bool.and_eq_true, beq_iff_eq, Bool.not_eq_eq_eq_not, Bool.not_true] at hdk
      exact ⟨rfl, d, rfl, hv, ⟨dp, hdp, hdk.1, hdk.2⟩, by simpa [isDone] using hd, hlt⟩
    · cases hok
  · cases h

/-- A rule interrupted by a failed or cancelled build is on record as never built afterwards, which is
the reason the next build on that engine reports for it. -/
theorem C02_interrupted_is_never_built {P : Program} {s s' : St} {v : Val}
    (h : step P s (.ret v) = some s') (hmem : s'.mem.res ≠ s.mem.res) :
    ∀ k, inflight s k = true → (s'.mem.res k).builtAt = 0 := by
  simp only [step] at h
  split at h
  · cases h
  · split at h
    · cases h
    · split at h
      · cases h; exact absurd rfl hmem
      · split at h
        · cases h
          intro k hk; simp [hk]
        · cases h

/-- The invalid-value reason is the rule's own verdict on its stored value in the current external state. -/
theorem C02_invalid_is_rule_verdict {P : Program} {s s' : St} {k : Key} {v : Val} {b : Bool}
    (h : step P s (.valid k v b) = some s') :
    v = (s.mem.res k).value ∧ b = P.valid s.env k v ∧ (s.mem.res k).sig = s.sigAt k := by
  simp only [step] at h
  split at h
  · rename_i hc
    simp only [Bool.and_eq_true, beq_iff_eq] at hc
    exact ⟨hc.1.1.2, hc.1.2, hc.1.1.1.2⟩
  · cases h

end LLBuild.Engine

namespace LLBuild.Engine

/-- What `computedAt` means (the quantity reason 3 compares against): within an engine's lifetime it
changes only when a task reports a value that differs from the stored one, or forces the change, and
it then becomes the current epoch.  (Reloading from the database — `restart`, `crash`, `wipe` —
replaces the whole in-memory result.) -/
theorem C02_computedAt_changes_only_on_change {P : Program} {s s' : St} {e : Event} {k : Key}
    (h : step P s e = some s') (hc : (s'.mem.res k).computedAt ≠ (s.mem.res k).computedAt) :
    e = .restart ∨ e = .crash ∨ e = .wipe ∨
    ∃ v f, e = .complete k v f ∧ (f = true ∨ v ≠ (s.mem.res k).value) ∧ (s'.mem.res k).computedAt = s.epoch := by
  cases e <;> simp only [step] at h
  case restart => left; rfl
  case crash => right; left; rfl
  case wipe => right; right; left; rfl
  case complete k' v f =>
    split at h
    · cases h
      by_cases e : k = k'
      · subst e
        right; right; right
        refine ⟨v, f, rfl, ?_⟩
        simp only [setRes_res_same] at hc ⊢
        split at hc
        · exact absurd rfl hc
        · rename_i hcc
          simp only [Bool.and_eq_true, Bool.not_eq_eq_eq_not, Bool.not_true, beq_iff_eq, not_and] at hcc
          have hneg : ¬ ((!f && v == (s.mem.res k).value) = true) := by
            simp only [Bool.and_eq_true, Bool.not_eq_eq_eq_not, Bool.not_true, beq_iff_eq, not_and]; exact hcc
          refine ⟨?_, by rw [if_neg hneg]⟩
          cases f with
          | true => left; rfl
          | false => right; exact hcc rfl
      · rw [setRes_res_other _ _ _ _ e] at hc; exact absurd rfl hc
    · cases h
  case scanning k' =>
    split at h
    · cases h
      by_cases e : k = k'
      · subst e; simp at hc
      · rw [setRes_res_other _ _ _ _ e] at hc; exact absurd rfl hc
    · cases h
  case upToDate k' =>
    split at h
    · cases h
      by_cases e : k = k'
      · subst e; simp at hc
      · rw [setRes_res_other _ _ _ _ e] at hc; exact absurd rfl hc
    · cases h
  case create k' =>
    split at h
    · cases h
      by_cases e : k = k'
      · subst e; simp at hc
      · rw [setRes_res_other _ _ _ _ e] at hc; exact absurd rfl hc
    · cases h
  case finished k' row =>
    split at h
    · cases h
      by_cases e : k = k'
      · subst e; simp [upd] at hc
      · simp [upd, e] at hc
    · cases h
  case ret v =>
    split at h
    · cases h
    · split at h
      · cases h
      · split at h
        · cases h; exact absurd rfl hc
        · split at h
          · cases h
            simp only at hc
            split at hc <;> exact absurd rfl hc
          · cases h
  case tail live late =>
    split at h
    · cases h
      simp only at hc
      split at hc <;> exact absurd rfl hc
    · cases h
  case provide k' id key v reqs =>
    split at h
    · split at h
      · cases h
      · split at h
        · cases h; exact absurd rfl hc
        · cases h
    · cases h
  case cycle ks =>
    split at h
    · split at h
      · cases h; exact absurd rfl hc
      · cases h
    · cases h
  all_goals first
    | (cases h; exact absurd rfl hc)
    | (split at h
       · cases h; exact absurd rfl hc
       · cases h)

/-- **Null builds run nothing.**  Let `S` be a set of keys containing the requested key `r` such that
every key in `S` has a completed execution on record, carrying the rule's current signature and a
value the rule still accepts, whose recorded (non-single-use) dependencies lie in `S` again and, unless
order-only, were not computed after the rule was last brought up to date (`Settled`).  Then in EVERY
accepted continuation of `buildStart r` up to the end of that build — any schedule, any cancellation,
any number of events — no task is created, and no stored value changes.  (The engine only scans keys
that were asked for — guard `demanded` of `scanning` —, so nothing outside `S` matters.) -/
theorem C02_null_build_runs_nothing {P : Program} {s s' : St} {S : Key → Prop} {r : Key} {evs : List Event}
    (hS : Settled P s S) (hr : S r)
    (hrun : run P s (.buildStart r :: evs) = some s')
    (hone : ∀ e ∈ evs, e.endsBuild = false) :
    (∀ k, Event.create k ∉ evs) ∧ s'.ran = [] ∧ (∀ k, (s'.mem.res k).value = (s.mem.res k).value) := by
  simp only [run] at hrun
  cases hs : step P s (.buildStart r) with
  | none => rw [hs] at hrun; simp at hrun
  | some s1 =>
    rw [hs] at hrun
    simp only [Option.bind] at hrun
    have h := NB.along evs s1 s' (NB.start hS hr hs) hrun hone
    exact ⟨h.2, h.1.ran, h.1.vals⟩

/-- **A build that changes nothing after a finished build runs nothing** (the null-build clause over
whole histories).  Take any reachable state `s` of a build in which nothing is pending and which has
not returned yet (the moment `build()` is about to return), let the build end by events that change
no record (`ret`, the database epilogue, `tail`, registrations), and start a new build of any key `r`
that was complete in `s` — with the external state untouched, since `mutate` is not among those
events.  If the rules still accept the values they hold (`valid`; a client fact: e.g. a command's
outputs are as it left them), then in every accepted continuation of the new build no task is
created and no stored value changes.  No hypothesis on signatures, epochs or recorded dependencies:
those are supplied by the invariants `Inv` and `Inv2` of the abstract engine. -/
theorem C02_null_build_after_build {P : Program} (hP : P.WF) {evs0 evs1 evs2 : List Event}
    {s sq s' : St} {r : Key}
    (h0 : run P {} evs0 = some s) (hd : s.pendingDropped = false)
    (hret : s.returned = false) (hpend : s.pending = [])
    (hv : ∀ k, s.status k = .done → P.valid s.env k (s.mem.res k).value = true)
    (h1 : run P s evs1 = some sq) (hk : ∀ e ∈ evs1, e.keepsRecords = true)
    (hr : s.status r = .done)
    (h2 : run P sq (.buildStart r :: evs2) = some s') (hone : ∀ e ∈ evs2, e.endsBuild = false) :
    (∀ k, Event.create k ∉ evs2) ∧ s'.ran = [] ∧ (∀ k, (s'.mem.res k).value = (s.mem.res k).value) := by
  have hs := settled_of_done (reach_inv hP h0 hd) (reach_inv2 h0) hret hpend hv
  have hq := Settled.keepAll evs1 s sq h1 hk hs.2 hs.1
  have := C02_null_build_runs_nothing hq.1 hr h2 hone
  refine ⟨this.1, this.2.1, ?_⟩
  intro k
  rw [this.2.2 k]
  -- the values at `sq` are those at `s`: shown for complete rules by `Settled.transport`; for all
  -- rules we go through the run once more
  exact keepsRecords_values evs1 s sq h1 hk k

namespace NullBuildExample

/-- rule 1 reads external state, rule 2 adds one to the value of rule 1 -/
def P : Program where
  sig := fun _ _ => 7
  valid := fun env k v => if k = 1 then v == env 1 else true
  next := fun k _ => if k = 2 then [⟨1, 0, 0⟩] else []
  disc := fun _ _ => []
  out := fun k env recv => if k = 1 then env 1 else (recv.map (·.2)).sum + 1
  force := fun _ => false
  self := fun k => k == 1

/-- the state a finished build of key 2 leaves (external state 1 ↦ 3) -/
def s0 : St where
  env := fun k => if k = 1 then 3 else 0
  epoch := 1
  dbIter := 1
  mem := { res := fun k => if k = 1 then { value := 3, sig := 7, computedAt := 1, builtAt := 1 }
                           else if k = 2 then { value := 4, sig := 7, computedAt := 1, builtAt := 1, deps := [⟨1, false, false⟩] }
                           else {} }

def S (k : Key) : Prop := k = 1 ∨ k = 2

theorem settled : Settled P s0 S := by
  refine ⟨?_, ?_, ?_, ?_, ?_, ?_⟩ <;> intro k hk <;> rcases hk with rfl | rfl <;> simp [s0, P, S]

/-- a complete null build of key 2 (both rules scanned and found up to date, value 4 returned) -/
def trace : List Event :=
  [.queueCreated, .dbIter 2, .lookup 2, .scanning 2, .valid 2 4 true, .lookup 1, .scanning 1, .valid 1 3 true,
   .upToDate 1, .upToDate 2, .ret 4, .dbEnd]

/-- non-vacuity: the hypotheses of `C02_null_build_runs_nothing` hold of a concrete accepted trace -/
example : ∃ s', run P s0 (.buildStart 2 :: trace) = some s' ∧ (∀ e ∈ trace, e.endsBuild = false) ∧
    Settled P s0 S ∧ S 2 := by
  have h : (run P s0 (.buildStart 2 :: trace)).isSome = true := by decide
  obtain ⟨s', hs'⟩ := Option.isSome_iff_exists.1 h
  exact ⟨s', hs', by decide, settled, Or.inr rfl⟩

theorem P_WF : P.WF := by
  refine ⟨?_, ?_, ?_, ?_, ?_, ?_⟩
  · intro k env env' recv _ hs
    by_cases e : k = 1
    · subst e; simp only [P, if_true]; exact hs (by simp [P])
    · simp [P, e]
  · intro k env v hs hv
    have e : k = 1 := by simpa [P] using hs
    subst e; simpa [P] using hv
  · intro k recv hs
    have e : k = 1 := by simpa [P] using hs
    subst e; simp [P]
  · intro k recv _; rfl
  · intro k recv d hd; simp [P] at hd
  · intro d env env' hs h
    have e : d = 1 := by simpa [P] using hs
    subst e; simpa [P] using h

/-- a first build of key 2 from nothing (external state 1 ↦ 3): both tasks run -/
def evs0 : List Event :=
  [.mutate 1 3, .buildStart 2, .queueCreated, .dbIter 1, .lookup 2, .scanning 2, .needs 2 0 none, .create 2,
   .start 2 [⟨1, 0, 0⟩], .lookup 1, .scanning 1, .needs 1 0 none, .create 1, .start 1 [], .inputsAvail 1 [],
   .complete 1 3 false, .finished 1 { value := 3, sig := 7, computedAt := 1, builtAt := 1, deps := [] },
   .provide 2 0 1 3 [], .inputsAvail 2 [], .complete 2 4 false,
   .finished 2 { value := 4, sig := 7, computedAt := 1, builtAt := 1, deps := [⟨1, false, false⟩] }]
def evs1 : List Event := [.ret 4, .dbEnd, .tail 0 0]
def evs2 : List Event :=
  [.queueCreated, .dbIter 2, .scanning 2, .valid 2 4 true, .scanning 1, .valid 1 3 true, .upToDate 1, .upToDate 2,
   .ret 4, .dbEnd]

/-- non-vacuity of `C02_null_build_after_build`: a complete accepted history (first build, end of
build, null build) meets every hypothesis -/
example : ∃ s sq s', run P {} evs0 = some s ∧ s.pendingDropped = false ∧ s.returned = false ∧ s.pending = [] ∧
    (∀ k, s.status k = .done → P.valid s.env k (s.mem.res k).value = true) ∧
    run P s evs1 = some sq ∧ (∀ e ∈ evs1, e.keepsRecords = true) ∧ s.status 2 = .done ∧
    run P sq (.buildStart 2 :: evs2) = some s' ∧ (∀ e ∈ evs2, e.endsBuild = false) := by
  have h0 : (run P {} evs0).isSome = true := by decide
  obtain ⟨s, hs⟩ := Option.isSome_iff_exists.1 h0
  have hall : ((run P {} evs0).bind (fun s => (run P s evs1).bind (fun sq =>
      (run P sq (.buildStart 2 :: evs2)).map (fun s' => (s, sq, s'))))).isSome = true := by decide
  rw [hs] at hall
  simp only [Option.bind] at hall
  cases h1 : run P s evs1 with
  | none => rw [h1] at hall; simp at hall
  | some sq =>
    rw [h1] at hall
    simp only [Option.bind] at hall
    cases h2 : run P sq (.buildStart 2 :: evs2) with
    | none => rw [h2] at hall; simp at hall
    | some s' =>
      have hprops : ((run P {} evs0).map (fun s => (!s.pendingDropped && !s.returned && s.pending.isEmpty &&
          (s.status 2 == .done) && (s.env 1 == 3) && ((s.mem.res 1).value == 3)))) = some true := by decide
      rw [hs] at hprops
      simp only [Option.map, Option.some.injEq, Bool.and_eq_true, Bool.not_eq_eq_eq_not, Bool.not_true,
        beq_iff_eq, List.isEmpty_iff] at hprops
      obtain ⟨⟨⟨⟨⟨a, b⟩, c⟩, d2⟩, e1⟩, v1⟩ := hprops
      refine ⟨s, sq, s', hs, a, b, c, ?_, h1, by decide, d2, h2, by decide⟩
      intro k _
      by_cases e : k = 1
      · subst e; simp [P, e1, v1]
      · simp [P, e]

end NullBuildExample

end LLBuild.Engine
