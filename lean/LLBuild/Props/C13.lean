/-
C13 — File change detection is sound in every file-system mode.

"Two observations of a path compare unequal whenever they differ in existence, size, modification
time, or (default mode) device or inode, and compare equal when the path was not touched; the
all-zero 'missing' record is never produced for an existing object.  In device-agnostic mode device
and inode are ignored; in checksum-only mode the comparison depends only on type, size and content,
so a content change of any size is detected and a pure timestamp change is not."

Property theorems only.  Model: LLBuild/Model/FileInfo.lean (hand transliteration of
getInfoForPath / getChecksumForPath / the three FileSystem modes, corresponded against the real
objects on file-state pairs); tables: LLBuild/Generated/FileInfo.lean (extracted: compared members,
isMissing leaves, sentinel guard, what each wrapper zeroes).  `dg` is the content digest: abstract
in every statement; injectivity / marker-avoidance are explicit hypotheses where needed.

An observation `o : Obs` is what the code can see of one path at one instant: `o.st` = stat(),
`o.lst` = lstat() (`none` = the object does not exist), `o.content` = the bytes read through
fopen/fread, `o.link` = readlink().  The theorems hold for ALL observations (any field values).

The model follows the tree with the proposed repairs F02 and F20 applied.
-/
import LLBuild.Lemmas.FileInfo

namespace LLBuild.FileInfo
open LLBuild.Generated.FileInfo

/-! ### `operator==` -/

/-- "compare unequal whenever they differ in …": `FileInfo::operator==` holds exactly when the two
records agree on being the missing record and on device, inode, size, modification time (seconds and
nanoseconds) and checksum.  (`mode` is *not* compared.)  Stated over the extracted conjunct lists, so a
conjunct dropped from or added to the source breaks this theorem. -/
theorem C13_eq_iff (a b : FileInfo) :
    a.eq b = true ↔
      a.isMissing = b.isMissing ∧ a.device = b.device ∧ a.inode = b.inode ∧ a.size = b.size ∧
      a.modTime.seconds = b.modTime.seconds ∧ a.modTime.nanoseconds = b.modTime.nanoseconds ∧
      a.checksum = b.checksum :=
  eq_iff a b

example : (FileInfo.mk 1 2 0x81a4 3 ⟨4, 5⟩ zeroChecksum).eq (FileInfo.mk 1 2 0x41ed 3 ⟨4, 5⟩ zeroChecksum) = true := by decide
example : (FileInfo.mk 1 2 0x81a4 3 ⟨4, 5⟩ zeroChecksum).eq (FileInfo.mk 1 2 0x81a4 3 ⟨4, 6⟩ zeroChecksum) = false := by decide

/-- `isMissing()` holds exactly for the record whose six scalar leaves are all zero. -/
theorem C13_isMissing_iff (i : FileInfo) :
    i.isMissing = true ↔ i.device = 0 ∧ i.inode = 0 ∧ i.mode = 0 ∧ i.size = 0 ∧
      i.modTime.seconds = 0 ∧ i.modTime.nanoseconds = 0 :=
  isMissing_iff i

/-! ### Default mode -/

/-- "Two observations … compare unequal whenever they differ in existence" — default mode, through
`getFileInfo` and `getLinkInfo`, with no side condition at all. -/
theorem C13_detects_existence (dg : Bytes → Bytes) (a b : Obs) :
    (a.st.isSome ≠ b.st.isSome → (fileInfo dg .default a).eq (fileInfo dg .default b) = false) ∧
    (a.lst.isSome ≠ b.lst.isSome → (linkInfo dg .default a).eq (linkInfo dg .default b) = false) := by
  have key : ∀ x y : Option Stat, x.isSome ≠ y.isSome → (getInfoForPath x).eq (getInfoForPath y) = false := by
    intro x y h
    apply eq_false_of_not
    rw [eq_iff]
    intro hh
    cases x <;> cases y <;> simp at h
    · simp [getInfo_none, zero_isMissing, getInfo_some_not_missing] at hh
    · simp [getInfo_none, zero_isMissing, getInfo_some_not_missing] at hh
  exact ⟨key _ _, key _ _⟩

example : (Obs.mk none none none none).st.isSome ≠ (Obs.mk (some ⟨0, 0, 0x81a4, 0, 0, 0⟩) (some ⟨0, 0, 0x81a4, 0, 0, 0⟩) (some []) none).st.isSome := by decide

/-- "… size, modification time, or (default mode) device or inode": two existing objects whose stat
results differ in device, inode, size or mtime seconds give unequal records; so does a difference in
the mtime nanoseconds alone when the objects have non-zero mode bits (every real object has; the
sentinel guard rewrites the nanoseconds of an all-zero stat result only). -/
theorem C13_detects (sa sb : Stat) :
    ((sa.dev ≠ sb.dev ∨ sa.ino ≠ sb.ino ∨ sa.size ≠ sb.size ∨ sa.mtimeSec ≠ sb.mtimeSec) →
      (getInfoForPath (some sa)).eq (getInfoForPath (some sb)) = false) ∧
    (sa.mode ≠ 0 → sb.mode ≠ 0 → sa.mtimeNsec ≠ sb.mtimeNsec →
      (getInfoForPath (some sa)).eq (getInfoForPath (some sb)) = false) := by
  constructor
  · intro h
    apply eq_false_of_not
    rw [eq_iff]
    obtain ⟨a1, a2, _, a4, a5, _⟩ := getInfo_some_fields sa
    obtain ⟨b1, b2, _, b4, b5, _⟩ := getInfo_some_fields sb
    rw [a1, a2, a4, a5, b1, b2, b4, b5]
    rintro ⟨_, h1, h2, h3, h4, _⟩
    rcases h with h | h | h | h <;> contradiction
  · intro ha hb h
    apply eq_false_of_not
    rw [eq_iff, getInfo_of_mode sa ha, getInfo_of_mode sb hb]
    simp only [ofStat]
    rintro ⟨_, _, _, _, _, h6, _⟩
    contradiction

/-- Default mode, exactly: for objects with non-zero mode bits the records are equal iff the
observations agree on existence, device, inode, size and mtime — and on nothing else. -/
theorem C13_default_eq_iff (dg : Bytes → Bytes) (a b : Obs) (ha : a.ModesNonZero) (hb : b.ModesNonZero) :
    ((fileInfo dg .default a).eq (fileInfo dg .default b) = true ↔
      a.st.map Stat.defaultKey = b.st.map Stat.defaultKey) ∧
    ((linkInfo dg .default a).eq (linkInfo dg .default b) = true ↔
      a.lst.map Stat.defaultKey = b.lst.map Stat.defaultKey) := by
  have key : ∀ x y : Option Stat, (∀ s, x = some s → s.mode ≠ 0) → (∀ s, y = some s → s.mode ≠ 0) →
      ((getInfoForPath x).eq (getInfoForPath y) = true ↔ x.map Stat.defaultKey = y.map Stat.defaultKey) := by
    intro x y hx hy
    rw [eq_iff]
    cases x with
    | none =>
      cases y with
      | none => simp
      | some sy => simp [getInfo_none, zero_isMissing, getInfo_some_not_missing]
    | some sx =>
      cases y with
      | none => simp [getInfo_none, zero_isMissing, getInfo_some_not_missing]
      | some sy =>
        rw [getInfo_of_mode sx (hx sx rfl), getInfo_of_mode sy (hy sy rfl)]
        have h1 : ∀ (d i z : UInt64) (t : FileTimestamp) (c : Bytes), (FileInfo.mk d i sx.mode z t c).isMissing = false :=
          fun _ _ _ _ _ => isMissing_false_of_mode _ (hx sx rfl)
        have h2 : ∀ (d i z : UInt64) (t : FileTimestamp) (c : Bytes), (FileInfo.mk d i sy.mode z t c).isMissing = false :=
          fun _ _ _ _ _ => isMissing_false_of_mode _ (hy sy rfl)
        simp [h1, h2, ofStat, Stat.defaultKey]
  exact ⟨key _ _ ha.1 hb.1, key _ _ ha.2 hb.2⟩

/-! ### Untouched -/

/-- "… and compare equal when the path was not touched": the same observation gives equal records in
every mode, through `getFileInfo` and `getLinkInfo`. -/
theorem C13_untouched_equal (dg : Bytes → Bytes) (m : FSMode) (o : Obs) :
    (fileInfo dg m o).eq (fileInfo dg m o) = true ∧ (linkInfo dg m o).eq (linkInfo dg m o) = true :=
  ⟨eq_refl _, eq_refl _⟩

/-! ### The missing record -/

/-- "the all-zero 'missing' record is never produced for an existing object": `getInfoForPath` never
returns the missing record when `stat` succeeded, whatever `stat` delivered (the sentinel guard); and in
all three modes `getFileInfo` / `getLinkInfo` never return it for an existing object with non-zero mode
bits (the wrappers keep `mode`).  Conversely a missing object always gives a missing record. -/
theorem C13_missing_never_for_existing (dg : Bytes → Bytes) :
    (∀ st : Stat, (getInfoForPath (some st)).isMissing = false) ∧
    (∀ (m : FSMode) (o : Obs) (st : Stat), o.st = some st → st.mode ≠ 0 → (fileInfo dg m o).isMissing = false) ∧
    (∀ (m : FSMode) (o : Obs) (st : Stat), o.lst = some st → st.mode ≠ 0 → (linkInfo dg m o).isMissing = false) ∧
    (∀ (m : FSMode) (o : Obs), o.st = none → (fileInfo dg m o).isMissing = true) ∧
    (∀ (m : FSMode) (o : Obs), o.lst = none → (linkInfo dg m o).isMissing = true) := by
  refine ⟨getInfo_some_not_missing, ?_, ?_, ?_, ?_⟩
  · intro m o st h hm
    apply isMissing_false_of_mode
    rw [(fileInfo_mode_size dg m o).1, h, (getInfo_some_fields st).2.2.1]
    exact hm
  · intro m o st h hm
    apply isMissing_false_of_mode
    rw [(linkInfo_mode_size dg m o).1, h, (getInfo_some_fields st).2.2.1]
    exact hm
  · intro m o h
    rw [isMissing_iff]
    cases m
    · simp [fileInfo, h, getInfo_none, FileInfo.zero]
    · simp [deviceAgnostic_file, h, getInfo_none, FileInfo.zero]
    · simp [checksumOnly_file, h, getInfo_none, FileInfo.zero]
  · intro m o h
    rw [isMissing_iff]
    cases m
    · simp [linkInfo, h, getInfo_none, FileInfo.zero]
    · simp [deviceAgnostic_link, h, getInfo_none, FileInfo.zero]
    · simp [checksumOnly_link, h, getInfo_none, FileInfo.zero]

example : (getInfoForPath (some ⟨0, 0, 0, 0, 0, 0⟩)).isMissing = false := by decide

/-- The mode-bit side condition of the wrapper clauses cannot be dropped: a (hypothetical) stat result
with zero mode bits, zero size and zero mtime becomes the missing record once device/inode are zeroed. -/
theorem C13_missing_side_condition_needed :
    (fileInfo (fun _ => []) .deviceAgnostic ⟨none, some ⟨5, 0, 0, 0, 0, 0⟩, none, none⟩).isMissing = true := by
  decide

/-! ### Device-agnostic mode -/

/-- "In device-agnostic mode device and inode are ignored": the record produced for an existing
object does not change when its device and inode numbers change (and nothing else does). -/
theorem C13_device_agnostic (dg : Bytes → Bytes) (o : Obs) (st : Stat) (d i : UInt64) (hm : st.mode ≠ 0) :
    fileInfo dg .deviceAgnostic { o with st := some { st with dev := d, ino := i } } =
      fileInfo dg .deviceAgnostic { o with st := some st } ∧
    linkInfo dg .deviceAgnostic { o with lst := some { st with dev := d, ino := i } } =
      linkInfo dg .deviceAgnostic { o with lst := some st } := by
  simp only [deviceAgnostic_file, deviceAgnostic_link]
  rw [getInfo_of_mode st hm, getInfo_of_mode { st with dev := d, ino := i } hm]
  simp [ofStat]

example : (⟨1, 2, 0x81a4, 3, 4, 5⟩ : Stat).mode ≠ 0 := by decide

/-- "… and nothing else": in device-agnostic mode the records are equal iff the observations agree on
existence, size and mtime.  In particular existence, size and mtime changes are all detected.
(The existence part is false of the code before repair F20, see `C13_F20_before_repair`.) -/
theorem C13_device_agnostic_eq_iff (dg : Bytes → Bytes) (a b : Obs) (ha : a.ModesNonZero) (hb : b.ModesNonZero) :
    ((fileInfo dg .deviceAgnostic a).eq (fileInfo dg .deviceAgnostic b) = true ↔
      a.st.map Stat.agnosticKey = b.st.map Stat.agnosticKey) ∧
    ((linkInfo dg .deviceAgnostic a).eq (linkInfo dg .deviceAgnostic b) = true ↔
      a.lst.map Stat.agnosticKey = b.lst.map Stat.agnosticKey) := by
  have key : ∀ x y : Option Stat, (∀ s, x = some s → s.mode ≠ 0) → (∀ s, y = some s → s.mode ≠ 0) →
      ((({ getInfoForPath x with device := 0, inode := 0 } : FileInfo).eq
        { getInfoForPath y with device := 0, inode := 0 }) = true ↔
        x.map Stat.agnosticKey = y.map Stat.agnosticKey) := by
    intro x y hx hy
    rw [eq_iff]
    cases x with
    | none =>
      cases y with
      | none => simp
      | some sy =>
        rw [getInfo_of_mode sy (hy sy rfl)]
        have h2 := isMissing_false_of_mode ({ ofStat sy with device := 0, inode := 0 }) (by simpa [ofStat] using hy sy rfl)
        have h1 : ({ getInfoForPath none with device := 0, inode := 0 } : FileInfo).isMissing = true := by decide
        simp [h1, h2]
    | some sx =>
      have h1 := isMissing_false_of_mode ({ ofStat sx with device := 0, inode := 0 }) (by simpa [ofStat] using hx sx rfl)
      cases y with
      | none =>
        rw [getInfo_of_mode sx (hx sx rfl)]
        have h2 : ({ getInfoForPath none with device := 0, inode := 0 } : FileInfo).isMissing = true := by decide
        simp [h1, h2]
      | some sy =>
        rw [getInfo_of_mode sx (hx sx rfl), getInfo_of_mode sy (hy sy rfl)]
        have h1' : ∀ (d i z : UInt64) (t : FileTimestamp) (c : Bytes), (FileInfo.mk d i sx.mode z t c).isMissing = false :=
          fun _ _ _ _ _ => isMissing_false_of_mode _ (hx sx rfl)
        have h2' : ∀ (d i z : UInt64) (t : FileTimestamp) (c : Bytes), (FileInfo.mk d i sy.mode z t c).isMissing = false :=
          fun _ _ _ _ _ => isMissing_false_of_mode _ (hy sy rfl)
        simp [h1', h2', ofStat, Stat.agnosticKey]
  simp only [deviceAgnostic_file, deviceAgnostic_link]
  exact ⟨key _ _ ha.1 hb.1, key _ _ ha.2 hb.2⟩

/-- F20 (pre-finding, confirmed on the real code): with the member conjuncts alone — the whole of
`operator==` before the repair — an existing empty file with mtime 0 compares equal to the missing
record in device-agnostic mode, although it differs in existence; the repaired `==` tells them apart. -/
theorem C13_F20_before_repair :
    let emptyAtEpoch : Obs := ⟨some ⟨0xfe00, 7, 0x81a4, 0, 0, 0⟩, some ⟨0xfe00, 7, 0x81a4, 0, 0, 0⟩, some [], none⟩
    let missing : Obs := ⟨none, none, none, none⟩
    (fileInfo (fun _ => []) .deviceAgnostic emptyAtEpoch).eqMembers (fileInfo (fun _ => []) .deviceAgnostic missing) = true ∧
    (fileInfo (fun _ => []) .deviceAgnostic emptyAtEpoch).eq (fileInfo (fun _ => []) .deviceAgnostic missing) = false := by
  decide

/-! ### Checksum-only mode -/

/-- "in checksum-only mode the comparison depends only on type, size and content": with an injective
digest that avoids the two reserved checksum values, the records `getFileInfo` produces are equal iff
the observations agree on existence, size, and on what is seen (nothing / a directory / a file with
these bytes).  Device, inode and mtime play no role. -/
theorem C13_checksum_only (dg : Bytes → Bytes) (hinj : DigestInjective dg) (hav : DigestAvoidsMarkers dg)
    (a b : Obs) (ha : a.ModesNonZero) (hb : b.ModesNonZero) :
    (fileInfo dg .checksumOnly a).eq (fileInfo dg .checksumOnly b) = true ↔
      a.st.map (·.size) = b.st.map (·.size) ∧ a.seen = b.seen := by
  rw [eq_iff, checksumOnly_file, checksumOnly_file]
  simp only [seen_checksum_inj dg hinj hav]
  cases hsa : a.st with
  | none =>
    cases hsb : b.st with
    | none => simp [getInfo_none, FileInfo.zero, isMissing_mk]
    | some sb =>
      obtain ⟨_, _, b3, b4, _, _⟩ := getInfo_some_fields sb
      have eb : (sb.mode == 0) = false := by simpa using hb.1 sb hsb
      simp [getInfo_none, FileInfo.zero, isMissing_mk, b3, b4, eb]
  | some sa =>
    obtain ⟨_, _, a3, a4, _, _⟩ := getInfo_some_fields sa
    have ea : (sa.mode == 0) = false := by simpa using ha.1 sa hsa
    cases hsb : b.st with
    | none => simp [getInfo_none, FileInfo.zero, isMissing_mk, a3, a4, ea]
    | some sb =>
      obtain ⟨_, _, b3, b4, _, _⟩ := getInfo_some_fields sb
      have eb : (sb.mode == 0) = false := by simpa using hb.1 sb hsb
      simp [isMissing_mk, a3, a4, b3, b4, ea, eb]

/-- "so a content change of any size is detected": two non-directories whose contents differ give
unequal records in checksum-only mode, whatever their sizes, mtimes and inodes — given only that the
digest is injective. -/
theorem C13_checksum_only_detects_content (dg : Bytes → Bytes) (hinj : DigestInjective dg)
    (a b : Obs) (sa sb : Stat) (ca cb : Bytes)
    (hsa : a.st = some sa) (hsb : b.st = some sb) (hda : sa.isDir = false) (hdb : sb.isDir = false)
    (hca : a.content = some ca) (hcb : b.content = some cb) (hne : ca ≠ cb) :
    (fileInfo dg .checksumOnly a).eq (fileInfo dg .checksumOnly b) = false := by
  apply eq_false_of_not
  rw [eq_iff, checksumOnly_file, checksumOnly_file]
  rintro ⟨_, _, _, _, _, _, h⟩
  simp only [getChecksum_seen, Obs.seen, hsa, hsb, hda, hdb, hca, hcb] at h
  exact hne (hinj _ _ ((digestChecksum_inj _ _).1 h))

example : (⟨1, 2, 0x81a4, 5, 10, 5⟩ : Stat).isDir = false := by decide
example : ([0x61, 0x61, 0x61, 0x61, 0x61] : Bytes) ≠ [0x62, 0x62, 0x62, 0x62, 0x62] := by decide

/-- "… and a pure timestamp change is not": if only mtime, device and inode differ (same mode, size
and content), the checksum-only records are equal — for every digest function. -/
theorem C13_checksum_only_ignores_touch (dg : Bytes → Bytes) (a b : Obs) (sa sb : Stat)
    (hsa : a.st = some sa) (hsb : b.st = some sb) (hmode : sa.mode = sb.mode) (hsize : sa.size = sb.size)
    (hc : a.content = b.content) :
    (fileInfo dg .checksumOnly a).eq (fileInfo dg .checksumOnly b) = true := by
  have hck : getChecksumForPath dg a = getChecksumForPath dg b := by
    simp [getChecksum_seen, Obs.seen, hsa, hsb, Stat.isDir, hmode, hc]
  rw [eq_iff, checksumOnly_file, checksumOnly_file, hsa, hsb, hck]
  obtain ⟨_, _, a3, a4, _, _⟩ := getInfo_some_fields sa
  obtain ⟨_, _, b3, b4, _, _⟩ := getInfo_some_fields sb
  refine ⟨?_, rfl, rfl, by simp [a4, b4, hsize], rfl, rfl, rfl⟩
  apply Bool.eq_iff_iff.2
  simp [isMissing_iff, a3, a4, b3, b4, hmode, hsize]

example : (Obs.mk none (some ⟨1, 2, 0x81a4, 1, 10, 5⟩) (some [0x61]) none).content =
    (Obs.mk none (some ⟨1, 9, 0x81a4, 1, 77, 0⟩) (some [0x61]) none).content := rfl

/-- Checksum-only `getLinkInfo` (used for symbolic-link outputs): two symbolic links whose target
strings differ give unequal records, given an injective digest. -/
theorem C13_checksum_only_detects_link_target (dg : Bytes → Bytes) (hinj : DigestInjective dg)
    (a b : Obs) (ta tb : Bytes) (hla : a.link = some ta) (hlb : b.link = some tb) (hne : ta ≠ tb) :
    (linkInfo dg .checksumOnly a).eq (linkInfo dg .checksumOnly b) = false := by
  apply eq_false_of_not
  rw [eq_iff, checksumOnly_link, checksumOnly_link]
  rintro ⟨_, _, _, _, _, _, h⟩
  simp only [linkChecksum, hla, hlb] at h
  exact hne (hinj _ _ ((digestChecksum_inj _ _).1 h))

end LLBuild.FileInfo
