/-
C12 on the engine — "a command with a directory-tree (or directory-structure, or filtered) input is re-executed iff
the observation of the tree changed" (DESIGN §5.C12 `C12_rerun_iff`), over accepted traces of the abstract engine.

Client: `prog C c sg vld` (LLBuild/Lemmas/DirTreeEngine.lean) — the rules `Node(p)`, the directory listing,
`(Filtered)DirectoryContents(p)`, `DirectoryTree(Structure)Signature(p, filters)`, `Node(p/)` and a consuming
command, as an `Engine.Program` whose external state is the file tree (one `stat` slot per path, one `readdir` slot
per directory) and whose signature rules compute the C12 model's terms (`treeSig` / `structSig`) from the values
the engine delivers.  `C` is any injective numbering of keys and values (`natCoding` is one), `c` the exclusion
patterns, `sg` / `vld` arbitrary rule signatures and validity predicates of the derived rules.

Everything is stated for ALL trees, filters, histories (any accepted event list: builds of any keys, `mutate`
between builds, restarts, crashes), like Props/C01.lean and Props/C02.lean.
-/
import LLBuild.Props.C01
import LLBuild.Props.C12
import LLBuild.Lemmas.DirTreeEngineCoding

namespace LLBuild.DirTree
open LLBuild.Engine

/-! ### engine facts used below (for every WF client) -/

/-- a rule declared up to date keeps its stored value, and that value is the clean one (C01) -/
theorem upToDate_stored_clean {P : Program} (hP : P.WF) {evs : List Event} {s s' : St} {k : Key}
    (hrun : run P {} evs = some s) (hnd : s.pendingDropped = false)
    (hup : step P s (.upToDate k) = some s') : Clean P s.env k (s.mem.res k).value := by
  have h := C01_up_to_date_is_clean hP hrun hnd hup
  simp only [step] at hup
  split at hup
  · cases hup
    simpa [Store.setRes] using h
  · cases hup

/-- the value a task completes with is a clean value, and a completion with the stored value (not forced) leaves
`computedAt` — what the dependents' "input rebuilt" test reads — unchanged -/
theorem complete_clean {P : Program} (hP : P.WF) {evs : List Event} {s s' : St} {k : Key} {v : Val} {f : Bool}
    (hrun : run P {} evs = some s) (hnd : s.pendingDropped = false)
    (hc : step P s (.complete k v f) = some s') :
    Clean P s.env k v ∧
    (P.force k = false → v = (s.mem.res k).value →
      (s'.mem.res k).computedAt = (s.mem.res k).computedAt ∧ (s'.mem.res k).value = (s.mem.res k).value) := by
  have hi := reach_inv hP hrun hnd
  simp only [step] at hc
  split at hc
  · rename_i hcond
    simp only [Bool.and_eq_true, beq_iff_eq, Bool.not_eq_eq_eq_not, Bool.not_true] at hcond
    obtain ⟨⟨⟨⟨hst, hstarted⟩, _⟩, hv⟩, hf⟩ := hcond
    have hin : inflight s k = true := by simp [inflight, hst]
    have hT := hi.taskOk k hin hstarted
    obtain ⟨hcs, _, _⟩ := hT.computing hst
    refine ⟨?_, ?_⟩
    · rw [hv]
      refine Clean.mk k _ hT.valid hcs ?_
      intro q w hm hk
      obtain ⟨hd, hval⟩ := hT.inputs q w hm hk
      rw [← hval]
      exact hi.clean q.key hd
    · intro hforce hval
      cases hc
      rw [hf, hforce]
      simp [Store.setRes, hval]
  · cases hc

section Client
variable (C : Coding) (c : Cfg) (sg : Env → Key → Nat) (vld : Env → Key → Val → Bool)

/-! ### the client meets the hypotheses of the engine theorems -/

/-- The directory rules are a well-formed engine client: only `Node(p)` and the directory listing read the external
state, at their own slot; their validity pins their value; their value determines the slot. -/
theorem C12_client_WF : (prog C c sg vld).WF := prog_WF C c sg vld

/-- Requests are monotone in what was received and ids are distinct within every request list
(`Program.LocalIds` = `Program.Mono`) … -/
theorem C12_client_LocalIds : (prog C c sg vld).LocalIds := prog_LocalIds C c sg vld

/-- … so the client IS `Program.Det` (the hypothesis of `C01_value_unique`, `C06_schedule_independent_value_eq`),
although the signature task requests `Node(path/filenames[i])` under id `1+i`, i.e. WHICH key an id stands for
depends on the delivered listing: `Det` asks for distinct ids within one request list only. -/
theorem C12_client_Det : (prog C c sg vld).Det := prog_Det C c sg vld

/-- `C01_value_unique` for the directory client: a successful build returns EXACTLY the value a brand-new engine
computes for its target in the current file-system state — whatever order the engine delivered the listing, the
children and the sub-directory signatures in. -/
theorem C12_build_returns_unique {evs : List Event} {st st' : St} {v : Val}
    (hrun : run (prog C c sg vld) {} evs = some st) (hret : step (prog C c sg vld) st (.ret v) = some st')
    (hnd : st'.pendingDropped = false)
    (hok : st.cancelled = false ∧ st.cycleSeen = false ∧ st.errSeen = false) :
    ∃ root, st.target = some root ∧ Clean (prog C c sg vld) st.env root v ∧
      ∀ w, Clean (prog C c sg vld) st.env root w → w = v :=
  C01_value_unique (prog_WF C c sg vld) (prog_Det C c sg vld) hrun hret hnd hok


/-! ### what a brand-new engine computes for a directory input -/

/-- `treeSig` / `structSig` of the C12 model, by kind -/
def sigTerm (s : Bool) (c : Cfg) (p : Bytes) (t : Tree) : HashTerm := if s then structSig c p t else treeSig c p t

theorem gSigO_sigTerm (s : Bool) (p : Bytes) (t : Tree) : gSigO s c p (obs c t) = sigTerm s c p t := by
  cases s
  · simp [sigTerm, treeSig, gSigO_tree]
  · simp [sigTerm, structSig, gSigO_struct]

/-- "Clean = the model's signature": in ANY external state that shows tree `t` at path `p` (every node's stat slot,
every directory's listing slot, every depth), a brand-new engine computes for the signature key
`DirectoryTree(Structure)Signature(p, filters)`, for the directory node `Node(p/)` and for the consuming command
EXACTLY the value built from the model's `treeSig` (`s = false`) resp. `structSig` (`s = true`) of `t` — it can
compute it (every delivery order the engine may choose is covered by `Clean`), and it can compute nothing else. -/
theorem C12_clean_signature_iff {env : Env} {s : Bool} {p : Bytes} {t : Tree} (hA : Agrees C env p t)
    {dk : DKey} (hdk : dk ∈ sigKeys s p) (v : Val) :
    Clean (prog C c sg vld) env (C.key dk) v ↔ v = keyVal C dk (sigTerm s c p t) := by
  rw [← gSigO_sigTerm]
  constructor
  · exact clean_keyVal C c sg vld hdk hA
  · intro h; rw [h]; exact exists_keyVal C c sg vld env s p t hA hdk

/-- the same for the per-directory listing key: its clean value is the `BuildValue` the model's signatures hash
(`dirValue` with the filtered, sorted listing; `leafRootValue` for a non-directory path) -/
theorem C12_clean_contents_iff {env : Env} {p : Bytes} {t : Tree} (hA : Agrees C env p t) (v : Val) :
    Clean (prog C c sg vld) env (C.key (.contents p)) v ↔ v = C.val (.bv (contentsVal c (obs c t))) := by
  constructor
  · intro h; exact spec_contents C c (clean_spec C c sg vld h) t hA
  · intro h; rw [h]; exact exists_contents C c sg vld env p t hA

/-! ### over accepted traces -/

/-- After ANY history, a signature key / directory node / consuming command that is complete in the current build
holds the model's signature of the tree the file system shows NOW ("every value is the current one", C01). -/
theorem C12_built_value {evs : List Event} {st : St} (hrun : run (prog C c sg vld) {} evs = some st)
    (hnd : st.pendingDropped = false) {s : Bool} {p : Bytes} {t : Tree} (hA : Agrees C st.env p t)
    {dk : DKey} (hdk : dk ∈ sigKeys s p) (hdone : st.status (C.key dk) = .done) :
    (st.mem.res (C.key dk)).value = keyVal C dk (sigTerm s c p t) :=
  (C12_clean_signature_iff C c sg vld hA hdk _).1 ((reach_inv (prog_WF C c sg vld) hrun hnd).clean _ hdone)

/-- A successful build of the consuming command (or of the directory node, or of the signature key) returns the
model's signature of the current tree (instance of `C01_value`). -/
theorem C12_build_returns_current {evs : List Event} {st st' : St} {v : Val}
    (hrun : run (prog C c sg vld) {} evs = some st) (hret : step (prog C c sg vld) st (.ret v) = some st')
    (hnd : st'.pendingDropped = false)
    (hok : st.cancelled = false ∧ st.cycleSeen = false ∧ st.errSeen = false)
    {s : Bool} {p : Bytes} {t : Tree} (hA : Agrees C st.env p t) {dk : DKey} (hdk : dk ∈ sigKeys s p)
    (htgt : st.target = some (C.key dk)) : v = keyVal C dk (sigTerm s c p t) := by
  obtain ⟨root, hr, hc⟩ := C01_value (prog_WF C c sg vld) hrun hret hnd hok
  rw [htgt] at hr
  cases hr
  exact (C12_clean_signature_iff C c sg vld hA hdk _).1 hc

/-- generic core of the soundness direction: a stored value built from another signature term than the current
tree's cannot be declared up to date -/
theorem stale_not_up_to_date {evs : List Event} {st : St} (hrun : run (prog C c sg vld) {} evs = some st)
    (hnd : st.pendingDropped = false) {s : Bool} {p : Bytes} {t : Tree} (hA : Agrees C st.env p t)
    {dk : DKey} (hdk : dk ∈ sigKeys s p) {old : HashTerm}
    (hstored : (st.mem.res (C.key dk)).value = keyVal C dk old) (hne : old ≠ sigTerm s c p t) :
    step (prog C c sg vld) st (.upToDate (C.key dk)) = none := by
  cases hup : step (prog C c sg vld) st (.upToDate (C.key dk)) with
  | none => rfl
  | some st' =>
    have hcl := upToDate_stored_clean (prog_WF C c sg vld) hrun hnd hup
    have := (C12_clean_signature_iff C c sg vld hA hdk _).1 hcl
    rw [hstored] at this
    exact absurd (keyVal_inj C this) hne

/-- generic core of the "no spurious re-run" direction -/
theorem current_is_kept {evs : List Event} {st : St} (hrun : run (prog C c sg vld) {} evs = some st)
    (hnd : st.pendingDropped = false) {s : Bool} {p : Bytes} {t : Tree} (hA : Agrees C st.env p t)
    {dk : DKey} (hdk : dk ∈ sigKeys s p)
    (hstored : (st.mem.res (C.key dk)).value = keyVal C dk (sigTerm s c p t)) :
    (∀ w, Clean (prog C c sg vld) st.env (C.key dk) w ↔ w = (st.mem.res (C.key dk)).value) ∧
    (∀ v f st', step (prog C c sg vld) st (.complete (C.key dk) v f) = some st' →
      v = (st.mem.res (C.key dk)).value ∧
      (st'.mem.res (C.key dk)).computedAt = (st.mem.res (C.key dk)).computedAt ∧
      (st'.mem.res (C.key dk)).value = (st.mem.res (C.key dk)).value) := by
  refine ⟨fun w => by rw [hstored]; exact C12_clean_signature_iff C c sg vld hA hdk w, ?_⟩
  intro v f st' hc
  obtain ⟨hcl, hkeep⟩ := complete_clean (prog_WF C c sg vld) hrun hnd hc
  have hv : v = (st.mem.res (C.key dk)).value := by
    rw [hstored]; exact (C12_clean_signature_iff C c sg vld hA hdk v).1 hcl
  exact ⟨hv, hkeep rfl hv⟩

/-- `C12_rerun_iff`, soundness, directory-TREE input ("re-executed after any observable change anywhere beneath
that directory"): let the stored result of the consuming command (or of `Node(p/)`, or of the signature key) be the
one a build over tree `t₁` left (`C12_built_value`); after any further history — edits between builds, builds of
other keys, restarts — let the file system show `t₂` with `observe t₁ ≠ observe t₂`.  Then NO accepted trace
declares it up to date: `upToDate` is refused, so a scan of it can only end in `needs` (it is re-executed; the
reported reason is true by C02) — and a successful build returns `t₂`'s value (`C12_build_returns_current`). -/
theorem C12_tree_changed_not_up_to_date {evs : List Event} {st : St}
    (hrun : run (prog C c sg vld) {} evs = some st) (hnd : st.pendingDropped = false)
    (p : Bytes) (i₁ i₂ : Info) (cs₁ cs₂ : List (Name × Tree))
    (h₁ : Listed c (.dir i₁ cs₁)) (h₂ : Listed c (.dir i₂ cs₂))
    (hA : Agrees C st.env p (.dir i₂ cs₂)) {dk : DKey} (hdk : dk ∈ sigKeys false p)
    (hstored : (st.mem.res (C.key dk)).value = keyVal C dk (treeSig c p (.dir i₁ cs₁)))
    (hchg : observe c (.dir i₁ cs₁) ≠ observe c (.dir i₂ cs₂)) :
    step (prog C c sg vld) st (.upToDate (C.key dk)) = none := by
  apply stale_not_up_to_date C c sg vld hrun hnd hA hdk hstored
  intro h
  exact hchg ((C12_tree_sig_injective c p i₁ i₂ cs₁ cs₂ h₁ h₂).1 (by simpa [sigTerm] using h))

/-- `C12_rerun_iff`, soundness, directory-STRUCTURE input ("triggers on additions, removals and type changes at any
depth"): the same with `structSig` / `observeStruct`. -/
theorem C12_struct_changed_not_up_to_date {evs : List Event} {st : St}
    (hrun : run (prog C c sg vld) {} evs = some st) (hnd : st.pendingDropped = false)
    (p : Bytes) (i₁ i₂ : Info) (cs₁ cs₂ : List (Name × Tree))
    (h₁ : Listed c (.dir i₁ cs₁)) (h₂ : Listed c (.dir i₂ cs₂))
    (hA : Agrees C st.env p (.dir i₂ cs₂)) {dk : DKey} (hdk : dk ∈ sigKeys true p)
    (hstored : (st.mem.res (C.key dk)).value = keyVal C dk (structSig c p (.dir i₁ cs₁)))
    (hchg : observeStruct c (.dir i₁ cs₁) ≠ observeStruct c (.dir i₂ cs₂)) :
    step (prog C c sg vld) st (.upToDate (C.key dk)) = none := by
  apply stale_not_up_to_date C c sg vld hrun hnd hA hdk hstored
  intro h
  exact hchg ((C12_struct_sig c p i₁ i₂ cs₁ cs₂ h₁ h₂).1 (by simpa [sigTerm] using h))

/-- `C12_rerun_iff`, no spurious re-run, directory-TREE input ("not re-executed when nothing beneath it changed"):
if the file system now shows a tree with the SAME observation as the one the stored signature was built from
(whatever else changed: hidden entries, directory order, unobserved root record under filters), then the stored
value of the signature key / `Node(p/)` / the command IS the unique clean value, and if the engine re-executes the
rule anyway (some per-node key beneath it changed) the task completes with the stored value, so `computedAt` does
not move: the "input rebuilt" test of every dependent (`needsOk` reason 3) sees no change from this execution. -/
theorem C12_tree_unchanged_is_current {evs : List Event} {st : St}
    (hrun : run (prog C c sg vld) {} evs = some st) (hnd : st.pendingDropped = false)
    (p : Bytes) (i₁ i₂ : Info) (cs₁ cs₂ : List (Name × Tree))
    (h₁ : Listed c (.dir i₁ cs₁)) (h₂ : Listed c (.dir i₂ cs₂))
    (hA : Agrees C st.env p (.dir i₂ cs₂)) {dk : DKey} (hdk : dk ∈ sigKeys false p)
    (hstored : (st.mem.res (C.key dk)).value = keyVal C dk (treeSig c p (.dir i₁ cs₁)))
    (hsame : observe c (.dir i₁ cs₁) = observe c (.dir i₂ cs₂)) :
    (∀ w, Clean (prog C c sg vld) st.env (C.key dk) w ↔ w = (st.mem.res (C.key dk)).value) ∧
    (∀ v f st', step (prog C c sg vld) st (.complete (C.key dk) v f) = some st' →
      v = (st.mem.res (C.key dk)).value ∧
      (st'.mem.res (C.key dk)).computedAt = (st.mem.res (C.key dk)).computedAt ∧
      (st'.mem.res (C.key dk)).value = (st.mem.res (C.key dk)).value) := by
  apply current_is_kept C c sg vld hrun hnd hA hdk
  rw [hstored, (C12_tree_sig_injective c p i₁ i₂ cs₁ cs₂ h₁ h₂).2 hsame]
  simp [sigTerm]

/-- `C12_rerun_iff`, no spurious re-run, directory-STRUCTURE input ("but not on content-only changes"): the same
with `structSig` / `observeStruct`; by `C12_content_edit_keeps_struct_sig` every mode-preserving rewrite of stat
records is such a change. -/
theorem C12_struct_unchanged_is_current {evs : List Event} {st : St}
    (hrun : run (prog C c sg vld) {} evs = some st) (hnd : st.pendingDropped = false)
    (p : Bytes) (i₁ i₂ : Info) (cs₁ cs₂ : List (Name × Tree))
    (h₁ : Listed c (.dir i₁ cs₁)) (h₂ : Listed c (.dir i₂ cs₂))
    (hA : Agrees C st.env p (.dir i₂ cs₂)) {dk : DKey} (hdk : dk ∈ sigKeys true p)
    (hstored : (st.mem.res (C.key dk)).value = keyVal C dk (structSig c p (.dir i₁ cs₁)))
    (hsame : observeStruct c (.dir i₁ cs₁) = observeStruct c (.dir i₂ cs₂)) :
    (∀ w, Clean (prog C c sg vld) st.env (C.key dk) w ↔ w = (st.mem.res (C.key dk)).value) ∧
    (∀ v f st', step (prog C c sg vld) st (.complete (C.key dk) v f) = some st' →
      v = (st.mem.res (C.key dk)).value ∧
      (st'.mem.res (C.key dk)).computedAt = (st.mem.res (C.key dk)).computedAt ∧
      (st'.mem.res (C.key dk)).value = (st.mem.res (C.key dk)).value) := by
  apply current_is_kept C c sg vld hrun hnd hA hdk
  rw [hstored, (C12_struct_sig c p i₁ i₂ cs₁ cs₂ h₁ h₂).2 hsame]
  simp [sigTerm]


/-- The positive form of soundness, at ANY point of any build: whenever the engine declares the signature key, the
directory node or the consuming command up to date, its stored value is the model's signature of the tree the file
system shows at that moment. -/
theorem C12_up_to_date_is_current {evs : List Event} {st st' : St}
    (hrun : run (prog C c sg vld) {} evs = some st) (hnd : st.pendingDropped = false)
    {s : Bool} {p : Bytes} {t : Tree} (hA : Agrees C st.env p t) {dk : DKey} (hdk : dk ∈ sigKeys s p)
    (hup : step (prog C c sg vld) st (.upToDate (C.key dk)) = some st') :
    (st.mem.res (C.key dk)).value = keyVal C dk (sigTerm s c p t) :=
  (C12_clean_signature_iff C c sg vld hA hdk _).1 (upToDate_stored_clean (prog_WF C c sg vld) hrun hnd hup)

/-- … and whatever the engine hands to a task for a directory input (the signature to `Node(p/)`, `Node(p/)`'s
value to the command, a sub-directory's signature to its parent's signature task) is the model's signature of the
current tree, never one left over from an earlier state (instance of `C01_inputs`). -/
theorem C12_delivered_is_current {evs : List Event} {st st' : St} {k : Key} {id : Nat} {v : Val} {reqs : List Req}
    (hrun : run (prog C c sg vld) {} evs = some st) (hnd : st.pendingDropped = false)
    {s : Bool} {p : Bytes} {t : Tree} (hA : Agrees C st.env p t) {dk : DKey} (hdk : dk ∈ sigKeys s p)
    (hprov : step (prog C c sg vld) st (.provide k id (C.key dk) v reqs) = some st') :
    v = keyVal C dk (sigTerm s c p t) :=
  (C12_clean_signature_iff C c sg vld hA hdk _).1 (C01_inputs (prog_WF C c sg vld) hrun hnd hprov)

/-- The soundness direction over whole histories: from the moment the file system shows a tree whose signature
differs from the one the stored value was built from, through ANY continuation of the trace — the rest of the
build, later builds of any keys, cancellations, failures — for as long as the file system is not edited again, the
process is not restarted and the rule's own task has not completed, no accepted trace declares the rule up to date.
(A scan of it can therefore only end in `needs`: it is re-executed.) -/
theorem stale_never_up_to_date {evs es : List Event} {st st2 : St}
    (hrun : run (prog C c sg vld) {} evs = some st) {s : Bool} {p : Bytes} {t : Tree} (hA : Agrees C st.env p t)
    {dk : DKey} (hdk : dk ∈ sigKeys s p) {old : HashTerm}
    (hstored : (st.mem.res (C.key dk)).value = keyVal C dk old) (hne : old ≠ sigTerm s c p t)
    (hcont : run (prog C c sg vld) st es = some st2) (hnd : st2.pendingDropped = false)
    (hes : ∀ e ∈ es, keepsFs e = true ∧ ∀ v f, e ≠ .complete (C.key dk) v f) :
    step (prog C c sg vld) st2 (.upToDate (C.key dk)) = none := by
  obtain ⟨henv, hval⟩ := run_keeps (C.key dk) es st st2 hcont hes
  have hrun2 : run (prog C c sg vld) {} (evs ++ es) = some st2 := by
    rw [run_append, hrun]; exact hcont
  exact stale_not_up_to_date C c sg vld hrun2 hnd (by rw [henv]; exact hA) hdk (by rw [hval]; exact hstored) hne

/-- `C12_rerun_iff`, soundness over whole histories, directory-TREE input: see `stale_never_up_to_date`;
`observe` changed ⇒ never `upToDate` until re-executed. -/
theorem C12_tree_changed_never_up_to_date {evs es : List Event} {st st2 : St}
    (hrun : run (prog C c sg vld) {} evs = some st)
    (p : Bytes) (i₁ i₂ : Info) (cs₁ cs₂ : List (Name × Tree))
    (h₁ : Listed c (.dir i₁ cs₁)) (h₂ : Listed c (.dir i₂ cs₂))
    (hA : Agrees C st.env p (.dir i₂ cs₂)) {dk : DKey} (hdk : dk ∈ sigKeys false p)
    (hstored : (st.mem.res (C.key dk)).value = keyVal C dk (treeSig c p (.dir i₁ cs₁)))
    (hchg : observe c (.dir i₁ cs₁) ≠ observe c (.dir i₂ cs₂))
    (hcont : run (prog C c sg vld) st es = some st2) (hnd : st2.pendingDropped = false)
    (hes : ∀ e ∈ es, keepsFs e = true ∧ ∀ v f, e ≠ .complete (C.key dk) v f) :
    step (prog C c sg vld) st2 (.upToDate (C.key dk)) = none := by
  apply stale_never_up_to_date C c sg vld hrun hA hdk hstored _ hcont hnd hes
  intro h
  exact hchg ((C12_tree_sig_injective c p i₁ i₂ cs₁ cs₂ h₁ h₂).1 (by simpa [sigTerm] using h))

/-- … and directory-STRUCTURE input: `observeStruct` changed ⇒ never `upToDate` until re-executed. -/
theorem C12_struct_changed_never_up_to_date {evs es : List Event} {st st2 : St}
    (hrun : run (prog C c sg vld) {} evs = some st)
    (p : Bytes) (i₁ i₂ : Info) (cs₁ cs₂ : List (Name × Tree))
    (h₁ : Listed c (.dir i₁ cs₁)) (h₂ : Listed c (.dir i₂ cs₂))
    (hA : Agrees C st.env p (.dir i₂ cs₂)) {dk : DKey} (hdk : dk ∈ sigKeys true p)
    (hstored : (st.mem.res (C.key dk)).value = keyVal C dk (structSig c p (.dir i₁ cs₁)))
    (hchg : observeStruct c (.dir i₁ cs₁) ≠ observeStruct c (.dir i₂ cs₂))
    (hcont : run (prog C c sg vld) st es = some st2) (hnd : st2.pendingDropped = false)
    (hes : ∀ e ∈ es, keepsFs e = true ∧ ∀ v f, e ≠ .complete (C.key dk) v f) :
    step (prog C c sg vld) st2 (.upToDate (C.key dk)) = none := by
  apply stale_never_up_to_date C c sg vld hrun hA hdk hstored _ hcont hnd hes
  intro h
  exact hchg ((C12_struct_sig c p i₁ i₂ cs₁ cs₂ h₁ h₂).1 (by simpa [sigTerm] using h))

/-- The "no spurious re-run" direction over whole histories: once the stored value of the signature key /
`Node(p/)` / the command is the signature of the tree the file system shows, then through ANY continuation of the
trace without edits or restarts — however often the engine re-executes the rule because something unobserved
beneath the directory changed — its stored value and its `computedAt` never move, so no dependent is ever told
"input rebuilt" (reason 3 compares against `computedAt`) on its account. -/
theorem current_stays_current {s : Bool} {p : Bytes} {t : Tree} {dk : DKey} (hdk : dk ∈ sigKeys s p) :
    ∀ (es evs : List Event) (st st2 : St), run (prog C c sg vld) {} evs = some st → Agrees C st.env p t →
    (st.mem.res (C.key dk)).value = keyVal C dk (sigTerm s c p t) →
    run (prog C c sg vld) st es = some st2 → st2.pendingDropped = false → (∀ e ∈ es, keepsFs e = true) →
    (st2.mem.res (C.key dk)).value = (st.mem.res (C.key dk)).value ∧
    (st2.mem.res (C.key dk)).computedAt = (st.mem.res (C.key dk)).computedAt ∧ st2.env = st.env
  | [], _, st, st2, _, _, _, hcont, _, _ => by simp [run] at hcont; subst hcont; exact ⟨rfl, rfl, rfl⟩
  | e :: es, evs, st, st2, hrun, hA, hstored, hcont, hnd2, hes => by
    have hnd : st.pendingDropped = false := by
      cases hd : st.pendingDropped
      · rfl
      · have := run_dropped_keeps (e :: es) st st2 hcont hes hd
        rw [hnd2] at this; cases this
    have hcont' := hcont
    simp only [run] at hcont'
    cases hs : step (prog C c sg vld) st e with
    | none => rw [hs] at hcont'; simp at hcont'
    | some s1 =>
      rw [hs] at hcont'
      simp only [Option.bind] at hcont'
      have hrun1 : run (prog C c sg vld) {} (evs ++ [e]) = some s1 := by
        rw [run_append, hrun]; simp [run, hs]
      have hstep : s1.env = st.env ∧ (s1.mem.res (C.key dk)).value = (st.mem.res (C.key dk)).value ∧
          (s1.mem.res (C.key dk)).computedAt = (st.mem.res (C.key dk)).computedAt := by
        by_cases hc : ∃ v f, e = .complete (C.key dk) v f
        · obtain ⟨v, f, rfl⟩ := hc
          obtain ⟨_, h2, h3⟩ := (current_is_kept C c sg vld hrun hnd hA hdk hstored).2 v f s1 hs
          refine ⟨?_, h3, h2⟩
          simp only [step] at hs
          split at hs
          · cases hs; rfl
          · cases hs
        · have hk : ∀ v f, e ≠ .complete (C.key dk) v f := fun v f h => hc ⟨v, f, h⟩
          have h1 := step_keeps (C.key dk) hs (hes e (by simp)) hk
          exact ⟨h1.1, h1.2, step_keeps_computedAt (C.key dk) hs (hes e (by simp)) hk⟩
      obtain ⟨hv, hca, henv⟩ := current_stays_current hdk es (evs ++ [e]) s1 st2 hrun1 (by rw [hstep.1]; exact hA)
        (by rw [hstep.2.1]; exact hstored) hcont' hnd2 (fun e' he' => hes e' (List.mem_cons_of_mem _ he'))
      exact ⟨hv.trans hstep.2.1, hca.trans hstep.2.2, henv.trans hstep.1⟩

/-- `C12_rerun_iff`, no spurious re-run over whole histories, directory-TREE input: if the file system shows a tree
with the same `observe` as the one the stored value was built from, nothing the engine does afterwards (short of a
new edit or a restart) moves the value or `computedAt` of the signature key / `Node(p/)` / the command. -/
theorem C12_tree_unchanged_stays_current {evs es : List Event} {st st2 : St}
    (hrun : run (prog C c sg vld) {} evs = some st)
    (p : Bytes) (i₁ i₂ : Info) (cs₁ cs₂ : List (Name × Tree))
    (h₁ : Listed c (.dir i₁ cs₁)) (h₂ : Listed c (.dir i₂ cs₂))
    (hA : Agrees C st.env p (.dir i₂ cs₂)) {dk : DKey} (hdk : dk ∈ sigKeys false p)
    (hstored : (st.mem.res (C.key dk)).value = keyVal C dk (treeSig c p (.dir i₁ cs₁)))
    (hsame : observe c (.dir i₁ cs₁) = observe c (.dir i₂ cs₂))
    (hcont : run (prog C c sg vld) st es = some st2) (hnd : st2.pendingDropped = false)
    (hes : ∀ e ∈ es, keepsFs e = true) :
    (st2.mem.res (C.key dk)).value = (st.mem.res (C.key dk)).value ∧
    (st2.mem.res (C.key dk)).computedAt = (st.mem.res (C.key dk)).computedAt := by
  have := current_stays_current C c sg vld (s := false) (t := .dir i₂ cs₂) hdk es evs st st2 hrun hA
    (by rw [hstored, (C12_tree_sig_injective c p i₁ i₂ cs₁ cs₂ h₁ h₂).2 hsame]; simp [sigTerm]) hcont hnd hes
  exact ⟨this.1, this.2.1⟩

/-- … and directory-STRUCTURE input (same `observeStruct`: e.g. after any content-only edit). -/
theorem C12_struct_unchanged_stays_current {evs es : List Event} {st st2 : St}
    (hrun : run (prog C c sg vld) {} evs = some st)
    (p : Bytes) (i₁ i₂ : Info) (cs₁ cs₂ : List (Name × Tree))
    (h₁ : Listed c (.dir i₁ cs₁)) (h₂ : Listed c (.dir i₂ cs₂))
    (hA : Agrees C st.env p (.dir i₂ cs₂)) {dk : DKey} (hdk : dk ∈ sigKeys true p)
    (hstored : (st.mem.res (C.key dk)).value = keyVal C dk (structSig c p (.dir i₁ cs₁)))
    (hsame : observeStruct c (.dir i₁ cs₁) = observeStruct c (.dir i₂ cs₂))
    (hcont : run (prog C c sg vld) st es = some st2) (hnd : st2.pendingDropped = false)
    (hes : ∀ e ∈ es, keepsFs e = true) :
    (st2.mem.res (C.key dk)).value = (st.mem.res (C.key dk)).value ∧
    (st2.mem.res (C.key dk)).computedAt = (st.mem.res (C.key dk)).computedAt := by
  have := current_stays_current C c sg vld (s := true) (t := .dir i₂ cs₂) hdk es evs st st2 hrun hA
    (by rw [hstored, (C12_struct_sig c p i₁ i₂ cs₁ cs₂ h₁ h₂).2 hsame]; simp [sigTerm]) hcont hnd hes
  exact ⟨this.1, this.2.1⟩

end Client

/-! ### non-vacuity -/

section Examples

/-- a numbering of keys and values exists -/
noncomputable example : Coding := natCoding

mutual
/-- the slots a tree occupies: one `stat` slot per node, one `readdir` slot per directory -/
def slots (C : Coding) : Bytes → Tree → List (Nat × Nat)
  | p, .file i => [(C.key (.stat p), C.val (.stat (some i) false))]
  | p, .link v => [(C.key (.stat p), C.val (.stat v false))]
  | p, .dir i cs =>
    (C.key (.stat p), C.val (.stat (some i) true)) :: (C.key (.ents p), C.val (.ents (rawEnts cs))) :: slotsL C p cs
def slotsL (C : Coding) : Bytes → List (Name × Tree) → List (Nat × Nat)
  | _, [] => []
  | p, (n, t) :: rest => slots C (pathAppend p n) t ++ slotsL C p rest
end

def setSlots (sl : List (Nat × Nat)) (env : Env) : Env := sl.foldl (fun e kv => upd e kv.1 kv.2) env

/-- any finite assignment of slots is reached by `mutate` events (edits between builds), in every client -/
theorem run_mutates (P : Program) : ∀ (sl : List (Nat × Nat)) (st : St), st.target = none →
    ∃ st', run P st (sl.map (fun kv => Event.mutate kv.1 kv.2)) = some st' ∧ st'.env = setSlots sl st.env ∧
      st'.pendingDropped = st.pendingDropped ∧ st'.target = none
  | [], st, h => ⟨st, rfl, rfl, rfl, h⟩
  | (k, v) :: rest, st, h => by
    obtain ⟨st', h1, h2, h3, h4⟩ := run_mutates P rest { st with env := upd st.env k v } h
    refine ⟨st', ?_, h2, h3, h4⟩
    have hs : step P st (.mutate k v) = some { st with env := upd st.env k v } := by
      simp only [step, h, Option.isNone_none, if_true]
    simp only [List.map_cons, run, hs]
    exact h1

theorem key_eq_iff (C : Coding) (a b : DKey) : C.key a = C.key b ↔ a = b :=
  ⟨C.key_inj, fun h => by rw [h]⟩

/-- the example tree of Props/C12.lean (`d/{b, a/{x, y -> nowhere}, x}`) laid out at path `d` … -/
def exEnv (C : Coding) : Env := setSlots (slots C [0x64] exTree) (fun _ => 0)

theorem exEnv_agrees (C : Coding) : Agrees C (exEnv C) [0x64] exTree := by
  have hp1 : pathAppend [0x64] [0x62] = [0x64, 0x2f, 0x62] := by decide
  have hp2 : pathAppend [0x64] [0x61] = [0x64, 0x2f, 0x61] := by decide
  have hp3 : pathAppend [0x64] [0x78] = [0x64, 0x2f, 0x78] := by decide
  have hp4 : pathAppend [0x64, 0x2f, 0x61] [0x78] = [0x64, 0x2f, 0x61, 0x2f, 0x78] := by decide
  have hp5 : pathAppend [0x64, 0x2f, 0x61] [0x79] = [0x64, 0x2f, 0x61, 0x2f, 0x79] := by decide
  simp only [exEnv, exTree, slots, slotsL, setSlots, Agrees, AgreesL, hp1, hp2, hp3, hp4, hp5, List.cons_append,
    List.nil_append, List.append_nil, List.foldl_cons, List.foldl_nil, upd, key_eq_iff]
  simp

/-- … is the file-system state of a reachable engine state, in which a brand-new engine computes exactly the
model's tree signature for the command (so the hypotheses `hrun`, `hnd`, `hA` of the theorems above hold together
and the `Clean` value they speak about exists) -/
example (sg : Env → Key → Nat) (vld : Env → Key → Val → Bool) :
    ∃ evs st, run (prog natCoding exNoFilter sg vld) {} evs = some st ∧ st.pendingDropped = false ∧
      Agrees natCoding st.env [0x64] exTree ∧
      Clean (prog natCoding exNoFilter sg vld) st.env (natCoding.key (.cmd false [0x64]))
        (keyVal natCoding (.cmd false [0x64]) (treeSig exNoFilter [0x64] exTree)) := by
  obtain ⟨st, h1, h2, h3, _⟩ := run_mutates (prog natCoding exNoFilter sg vld) (slots natCoding [0x64] exTree) {} rfl
  have hA : Agrees natCoding st.env [0x64] exTree := by rw [h2]; exact exEnv_agrees natCoding
  refine ⟨_, st, h1, h3, hA, ?_⟩
  exact (C12_clean_signature_iff natCoding exNoFilter sg vld (s := false) hA (by simp [sigKeys]) _).2 (by simp [sigTerm])

/-- `b` edited (size, mtime) -/
def exTreeEdited : Tree := exTree.mapInfo fun i => if i.inode = 3 then { i with size := 6, mtimeSec := 20 } else i
/-- the hidden `x` entries edited -/
def exTreeHiddenEdit : Tree := exTree.mapInfo fun i => if i.inode = 6 ∨ i.inode = 5 then { i with size := 9, mtimeSec := 30 } else i

theorem exTree_listed : Listed exNoFilter exTree ∧ Listed exNoFilter exTreeEdited ∧
    Listed exCfg exTree ∧ Listed exCfg exTreeHiddenEdit := by
  have h1 : obs exNoFilter exTree = .dir (dirInfo 2 10) [([0x61], .dir (dirInfo 4 12) [([0x78], .leaf (some (fileInfo 5 1 13))), ([0x79], .leaf none)]),
      ([0x62], .leaf (some (fileInfo 3 5 11))), ([0x78], .leaf (some (fileInfo 6 2 14)))] := by rfl
  have h2 : obs exNoFilter exTreeEdited = .dir (dirInfo 2 10) [([0x61], .dir (dirInfo 4 12) [([0x78], .leaf (some (fileInfo 5 1 13))), ([0x79], .leaf none)]),
      ([0x62], .leaf (some (.plain 1 3 0o100644 6 20 0))), ([0x78], .leaf (some (fileInfo 6 2 14)))] := by rfl
  have h3 : obs exCfg exTree = .dir (dirInfo 2 10) [([0x61], .dir (dirInfo 4 12) [([0x79], .leaf none)]),
      ([0x62], .leaf (some (fileInfo 3 5 11)))] := by rfl
  have h4 : obs exCfg exTreeHiddenEdit = .dir (dirInfo 2 10) [([0x61], .dir (dirInfo 4 12) [([0x79], .leaf none)]),
      ([0x62], .leaf (some (fileInfo 3 5 11)))] := by rfl
  refine ⟨?_, ?_, ?_, ?_⟩
  · simp only [Listed, h1, Obs.OK, Obs.OKs, namesOK, names]; decide
  · simp only [Listed, h2, Obs.OK, Obs.OKs, namesOK, names]; decide
  · simp only [Listed, h3, Obs.OK, Obs.OKs, namesOK, names]; decide
  · simp only [Listed, h4, Obs.OK, Obs.OKs, namesOK, names]; decide

/-- an observable edit (content of `b`): the hypotheses of `C12_tree_changed_not_up_to_date` about the trees hold -/
theorem exTree_changed : observe exNoFilter exTree ≠ observe exNoFilter exTreeEdited := by
  intro h
  have := (C12_tree_sig_injective exNoFilter [0x64] _ _ _ _ exTree_listed.1 exTree_listed.2.1).2 h
  revert this
  decide

/-- an unobservable edit (only entries hidden by the filter `x` change): the hypotheses of
`C12_tree_unchanged_is_current` about the trees hold -/
theorem exTree_unchanged : observe exCfg exTree = observe exCfg exTreeHiddenEdit := by rfl

/-- the soundness theorem applied: once the file system shows the edited tree, a command result built from the
original tree is never declared up to date -/
example (sg : Env → Key → Nat) (vld : Env → Key → Val → Bool) {evs : List Event} {st : St}
    (hrun : run (prog natCoding exNoFilter sg vld) {} evs = some st) (hnd : st.pendingDropped = false)
    (hA : Agrees natCoding st.env [0x64] exTreeEdited)
    (hstored : (st.mem.res (natCoding.key (.cmd false [0x64]))).value =
      keyVal natCoding (.cmd false [0x64]) (treeSig exNoFilter [0x64] exTree)) :
    step (prog natCoding exNoFilter sg vld) st (.upToDate (natCoding.key (.cmd false [0x64]))) = none :=
  C12_tree_changed_not_up_to_date natCoding exNoFilter sg vld hrun hnd [0x64] _ _ _ _ exTree_listed.1 exTree_listed.2.1
    hA (by simp [sigKeys]) hstored exTree_changed

/-- the no-spurious-re-run theorem applied (filtered input, hidden entries edited) -/
example (sg : Env → Key → Nat) (vld : Env → Key → Val → Bool) {evs : List Event} {st : St}
    (hrun : run (prog natCoding exCfg sg vld) {} evs = some st) (hnd : st.pendingDropped = false)
    (hA : Agrees natCoding st.env [0x64] exTreeHiddenEdit)
    (hstored : (st.mem.res (natCoding.key (.sig false [0x64]))).value =
      keyVal natCoding (.sig false [0x64]) (treeSig exCfg [0x64] exTree)) :
    ∀ w, Clean (prog natCoding exCfg sg vld) st.env (natCoding.key (.sig false [0x64])) w ↔
      w = (st.mem.res (natCoding.key (.sig false [0x64]))).value :=
  (C12_tree_unchanged_is_current natCoding exCfg sg vld hrun hnd [0x64] _ _ _ _ exTree_listed.2.2.1 exTree_listed.2.2.2
    hA (by simp [sigKeys]) hstored exTree_unchanged).1

end Examples

end LLBuild.DirTree
