/- C10: decision tables of the BuildSystem client (Props/C10.lean) + the engine-level clauses derived from them for an
arbitrary client (Props/C10Engine.lean) + the instance for the BuildSystem's rule set (Props/C10Client.lean). -/
import LLBuild.Props.C10
import LLBuild.Props.C10Engine
import LLBuild.Props.C10Client
import LLBuild.Props.C08X
