/-
C02 aggregate: the monitor-level theorems (Props/C02.lean, through Props/C01Gen.lean which also holds the engine
half of C09), the concrete engine model's corollaries (Props/EngineImplSound.lean: `EngineImpl_sound_C02_once`) and
the schedule-free characterisation of the executed set on the concrete model's printed traces
(Props/EngineImplSched2.lean: `T k ∈ trace ↔ MustRun …` — "a rule is executed only if …" WITH the converse).
-/
import LLBuild.Props.C01Gen
import LLBuild.Props.EngineImplSound
import LLBuild.Props.EngineImplSched2
import LLBuild.Props.EngineImplSched3
import LLBuild.Props.EngineImplSched5
