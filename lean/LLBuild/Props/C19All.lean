/-
C19 — all parts: the joining module `LLBuild.Props.C19` (Ninja lexer, Makefile-style dependency files, dependency-info
files, Ninja manifest parser and loader) plus the build-description (YAML) loader clause, `LLBuild.Props.C19Yaml`
(`LLBuild.BuildFileLoader.C19_yaml_*`).  States nothing itself.
-/
import LLBuild.Props.C19
import LLBuild.Props.C19Yaml
