/-
C09 (signature half) — executable model of command signatures.  CORE LEAN ONLY.

* `Recipe`            the shape of a `getSignature()` body: an ordered list of `combine` calls with the
                      overload clang selected, loops and the explicit-signature branch.  The recipes
                      themselves are NOT written here: `extract/x_signature.py` regenerates them from the
                      clang JSON AST of the repository into `LLBuild/Generated/SignatureRecipe.lean`.
* `CommandDef`        the signature-relevant attributes of a command definition after loading.
* `HashTerm`          the pre-hash free term: what is fed to `llvm::hash_combine`, before any 64-bit mixing.
* `sigTerm`           interpreter: recipe × definition → term (fails closed: `none` on anything ill-typed).
* `HashTerm.eval`     bit-exact re-implementation of `llvm::hash_value(StringRef)`, `llvm::hash_combine`
                      (include/llvm/ADT/Hashing.h, fixed seed 0xff51afd7ed558ccd) and the
                      `CommandSignature::combine` overloads, so that correspondence compares 64-bit values.
-/
import LLBuild.Model.Bytes

namespace LLBuild.Signature

/-! ## Recipes (data produced by the extractor) -/

/-- The `CommandSignature::combine` overload selected by overload resolution (its parameter type). -/
inductive Overload
  | stringRef   -- combine(StringRef)            : hash_combine(value, string)
  | stdString   -- combine(const std::string&)   : hash_combine(value, string)
  | bool        -- combine(bool)                 : hash_combine(value, b)           (one raw byte)
  | integral    -- template combine(T), T integral ≠ bool : hash_combine(value, uint64_t(v))
  deriving DecidableEq, Repr

/-- Data members read by the `getSignature` bodies. -/
inductive Field
  -- Command
  | name
  -- ExternalCommand
  | inputs | outputs | allowMissingInputs | allowModifiedOutputs | alwaysOutOfDate
  -- ShellCommand
  | args | env | depsPaths | depsStyle | inheritEnv | canSafelyInterrupt | signatureData | cachedSignature
  | workingDirectory | controlEnabled
  -- BuildNode
  | type
  -- ClangShellCommand (`args`) / SwiftCompilerShellCommand / SymlinkCommand
  | executable | moduleName | moduleAliases | moduleOutputPath | sourcesList | objectsList | importPaths
  | tempsPath | otherArgs | isLibrary | contents
  | enableWholeModuleOptimization | numThreads
  -- ClangShellCommand (`depsPath`), SharedLibraryShellCommand (`executable`, `otherArgs`, `compilerStyle`)
  | depsPath | compilerStyle
  deriving DecidableEq, Repr

inductive Method
  | getName | size | empty | getProducers
  deriving DecidableEq, Repr

inductive Sel
  | first | second
  deriving DecidableEq, Repr

/-- Argument / condition expressions, with the implicit conversions clang inserted made explicit. -/
inductive Expr
  | this                              -- the command object
  | member (f : Field)                -- this->f
  | loopVar                           -- the variable of the enclosing range-for
  | call (recv : Expr) (m : Method)   -- recv.m() / recv->m()
  | sel (e : Expr) (s : Sel)          -- e.first / e.second
  | index (e : Expr) (i : Nat)        -- e[i]
  | toBool (e : Expr)                 -- ImplicitCastExpr IntegralToBoolean
  | toInt (e : Expr)                  -- IntegralCast (explicit `int(x)`, `static_cast<unsigned>(x)` or implicit)
  | toStringRef (e : Expr)            -- StringRef(const std::string&)
  | not (e : Expr)
  deriving DecidableEq, Repr

/-- One `combine(arg)` call. -/
structure Comb where
  ov : Overload
  arg : Expr
  deriving DecidableEq, Repr

inductive Stmt
  | comb (c : Comb)
  | forRange (range : Expr) (body : List Comb)     -- for (… : range) { combine…; … }
  | note (s : String)                              -- provenance marker (no effect), e.g. an inlined vector overload
  deriving Repr

/-- Class whose `getSignature` a recipe describes / delegates to. -/
inductive Cls
  | command | externalCommand | shellCommand | buildNode
  | clangShellCommand | swiftCompilerShellCommand | symlinkCommand | sharedLibraryShellCommand
  deriving DecidableEq, Repr

inductive Step
  | initDefault                                    -- CommandSignature sig;            (value 0)
  | initString (e : Expr)                          -- CommandSignature code(<StringRef>)
  | initBase (c : Cls)                             -- auto code = Base::getSignature()
  | stmt (s : Stmt)
  | ifElse (cond : Expr) (thn els : List Stmt)
  | cacheLoad (f : Field)                          -- sig = cached; if (!sig.isNull()) return sig;
  | nullToOne                                      -- if (sig.isNull()) sig = CommandSignature(1);
  | cacheStore (f : Field)                         -- cached = sig;
  deriving Repr

abbrev Recipe := List Step

/-! ## Definitions and values -/

/-- A command definition after loading, restricted to what `getSignature` can read.
`depsStyle` is the ordinal of `ShellCommand::DepsStyle` (0 unused, 1 makefile, 2 dependency-info,
3 makefile-ignoring-subsequent-outputs).

The members after `signatureData` belong to the other classes whose `getSignature` is regenerated
(they default to the value a freshly constructed object has, so shell / phony definitions need not
mention them): `args` is shared by ShellCommand and ClangShellCommand; `executable` … `numThreads`
are SwiftCompilerShellCommand's (`executable`, `otherArgs` also SharedLibraryShellCommand's); `contents` is SymlinkCommand's; `type` (ordinal of
`BuildNode::NodeType`: 0 plain, 1 directory, 2 directory-structure, 3 virtual) and `producers`
(names of the commands returned by `getProducers()`) are BuildNode's — for that class `name` is
unused by the recipe. -/
structure CommandDef where
  name : Bytes
  inputs : List Bytes
  outputs : List Bytes
  allowMissingInputs : Bool
  allowModifiedOutputs : Bool
  alwaysOutOfDate : Bool
  args : List Bytes
  env : List (Bytes × Bytes)
  depsPaths : List Bytes
  depsStyle : Nat
  inheritEnv : Bool
  canSafelyInterrupt : Bool
  signatureData : Bytes
  -- SwiftCompilerShellCommand
  executable : Bytes := []
  moduleName : Bytes := []
  moduleAliases : List Bytes := []
  moduleOutputPath : Bytes := []
  sourcesList : List Bytes := []
  objectsList : List Bytes := []
  importPaths : List Bytes := []
  tempsPath : Bytes := []
  otherArgs : List Bytes := []
  isLibrary : Bool := false
  enableWholeModuleOptimization : Bool := false
  /-- the attribute text ("0" by default) -/
  numThreads : Bytes := [48]
  -- SymlinkCommand
  contents : Bytes := []
  -- ShellCommand: the working directory as stored (made absolute by `configureAttribute`), `control-enabled`
  workingDirectory : Bytes := []
  controlEnabled : Bool := true
  -- ClangShellCommand: path of the dependency file
  depsPath : Bytes := []
  -- SharedLibraryShellCommand (shares `executable`, default "", and `otherArgs` with the Swift members)
  compilerStyle : Bytes := []
  -- BuildNode
  type : Nat := 0
  producers : List Bytes := []
  deriving DecidableEq, Repr

inductive Val
  | str (b : Bytes)
  | bool (b : Bool)
  | int (n : Nat)
  | node (name : Bytes)
  | pair (a b : Bytes)
  | strs (l : List Bytes)
  | nodes (l : List Bytes)
  | pairs (l : List (Bytes × Bytes))
  | cmd
  deriving DecidableEq, Repr

def CommandDef.member (d : CommandDef) : Field → Option Val
  | .name => some (.str d.name)
  | .inputs => some (.nodes d.inputs)
  | .outputs => some (.nodes d.outputs)
  | .allowMissingInputs => some (.bool d.allowMissingInputs)
  | .allowModifiedOutputs => some (.bool d.allowModifiedOutputs)
  | .alwaysOutOfDate => some (.bool d.alwaysOutOfDate)
  | .args => some (.strs d.args)
  | .env => some (.pairs d.env)
  | .depsPaths => some (.strs d.depsPaths)
  | .depsStyle => some (.int d.depsStyle)
  | .inheritEnv => some (.bool d.inheritEnv)
  | .canSafelyInterrupt => some (.bool d.canSafelyInterrupt)
  | .signatureData => some (.str d.signatureData)
  | .executable => some (.str d.executable)
  | .moduleName => some (.str d.moduleName)
  | .moduleAliases => some (.strs d.moduleAliases)
  | .moduleOutputPath => some (.str d.moduleOutputPath)
  | .sourcesList => some (.strs d.sourcesList)
  | .objectsList => some (.strs d.objectsList)
  | .importPaths => some (.strs d.importPaths)
  | .tempsPath => some (.str d.tempsPath)
  | .otherArgs => some (.strs d.otherArgs)
  | .isLibrary => some (.bool d.isLibrary)
  | .contents => some (.str d.contents)
  | .enableWholeModuleOptimization => some (.bool d.enableWholeModuleOptimization)
  | .numThreads => some (.str d.numThreads)
  | .workingDirectory => some (.str d.workingDirectory)
  | .controlEnabled => some (.bool d.controlEnabled)
  | .depsPath => some (.str d.depsPath)
  | .compilerStyle => some (.str d.compilerStyle)
  | .type => some (.int d.type)
  | .cachedSignature => none      -- only touched by cacheLoad / cacheStore, never an argument

def Val.elems : Val → Option (List Val)
  | .strs l => some (l.map .str)
  | .nodes l => some (l.map .node)
  | .pairs l => some (l.map fun p => .pair p.1 p.2)
  | _ => none

def callMethod (d : CommandDef) : Val → Method → Option Val
  | .cmd, .getName => some (.str d.name)
  | .cmd, .getProducers => some (.nodes d.producers)     -- commands; the recipe only calls getName() on them
  | .node n, .getName => some (.str n)
  | .strs l, .size => some (.int l.length)
  | .nodes l, .size => some (.int l.length)
  | .pairs l, .size => some (.int l.length)
  | .str b, .empty => some (.bool b.isEmpty)
  | .strs l, .empty => some (.bool l.isEmpty)
  | .nodes l, .empty => some (.bool l.isEmpty)
  | .pairs l, .empty => some (.bool l.isEmpty)
  | _, _ => none

def evalExpr (d : CommandDef) (loop : Option Val) : Expr → Option Val
  | .this => some .cmd
  | .member f => d.member f
  | .loopVar => loop
  | .call r m => match evalExpr d loop r with
    | some v => callMethod d v m
    | none => none
  | .sel e s => match evalExpr d loop e, s with
    | some (.pair a _), .first => some (.str a)
    | some (.pair _ b), .second => some (.str b)
    | _, _ => none
  | .index e i => match evalExpr d loop e with
    | some (.nodes l) => (l[i]?).map .node      -- out of bounds: no value (undefined behaviour in the code)
    | some (.strs l) => (l[i]?).map .str
    | _ => none
  | .toBool e => match evalExpr d loop e with
    | some (.int n) => some (.bool (n != 0))
    | some (.bool b) => some (.bool b)
    | _ => none
  | .toInt e => match evalExpr d loop e with
    | some (.int n) => some (.int n)
    | some (.bool b) => some (.int (if b then 1 else 0))
    | _ => none
  | .toStringRef e => match evalExpr d loop e with
    | some (.str b) => some (.str b)
    | _ => none
  | .not e => match evalExpr d loop e with
    | some (.bool b) => some (.bool (!b))
    | _ => none

/-! ## The pre-hash term -/

/-- What reaches `llvm::hash_combine`, before mixing.
`seed` is a default-constructed `CommandSignature` (value 0); `str` stands for `hash_value` of the
bytes; `bool`/`int` are raw data (1 resp. 8 bytes); `comb a b` is `hash_combine(a, b)`. -/
inductive HashTerm
  | seed
  | str (b : Bytes)
  | bool (b : Bool)
  | int (n : Nat)
  | comb (a b : HashTerm)
  deriving DecidableEq, Repr

/-- The datum an overload feeds to `hash_combine`, given the (already converted) argument value. -/
def leafOf : Overload → Val → Option HashTerm
  | .stringRef, .str b => some (.str b)
  | .stdString, .str b => some (.str b)
  | .bool, .bool b => some (.bool b)
  | .integral, .int n => some (.int n)
  | _, _ => none

def runComb (d : CommandDef) (loop : Option Val) (t : HashTerm) (c : Comb) : Option HashTerm :=
  match evalExpr d loop c.arg with
  | some v => match leafOf c.ov v with
    | some l => some (.comb t l)
    | none => none
  | none => none

def runCombs (d : CommandDef) (loop : Option Val) : HashTerm → List Comb → Option HashTerm
  | t, [] => some t
  | t, c :: cs => match runComb d loop t c with
    | some t' => runCombs d loop t' cs
    | none => none

def runLoop (d : CommandDef) (body : List Comb) : HashTerm → List Val → Option HashTerm
  | t, [] => some t
  | t, v :: vs => match runCombs d (some v) t body with
    | some t' => runLoop d body t' vs
    | none => none

def runStmt (d : CommandDef) (t : HashTerm) : Stmt → Option HashTerm
  | .comb c => runComb d none t c
  | .forRange r body => match evalExpr d none r with
    | some v => match v.elems with
      | some vs => runLoop d body t vs
      | none => none
    | none => none
  | .note _ => some t

def runStmts (d : CommandDef) : HashTerm → List Stmt → Option HashTerm
  | t, [] => some t
  | t, s :: ss => match runStmt d t s with
    | some t' => runStmts d t' ss
    | none => none

/-- One top-level step.  The accumulator is `none` until an `init*` step has run.
`cacheLoad`/`cacheStore`/`nullToOne` do not change the TERM (the cache is written only by the
function itself with the value it is about to return — checked by the extractor; the 0 ↦ 1
replacement acts on the 64-bit value and is applied by `evalSig`). -/
def runStep (d : CommandDef) (base : Cls → Option HashTerm) (acc : Option HashTerm) : Step → Option (Option HashTerm)
  | .initDefault => match acc with
    | none => some (some .seed)
    | some _ => none
  | .initString e => match acc, evalExpr d none e with
    | none, some (.str b) => some (some (.str b))
    | _, _ => none
  | .initBase c => match acc, base c with
    | none, some t => some (some t)
    | _, _ => none
  | .stmt s => match acc with
    | some t => (runStmt d t s).map some
    | none => none
  | .ifElse c thn els => match acc, evalExpr d none c with
    | some t, some (.bool b) => (runStmts d t (if b then thn else els)).map some
    | _, _ => none
  | .cacheLoad _ => some acc
  | .nullToOne => some acc
  | .cacheStore _ => some acc

def runSteps (d : CommandDef) (base : Cls → Option HashTerm) : Option HashTerm → List Step → Option HashTerm
  | acc, [] => acc
  | acc, s :: ss => match runStep d base acc s with
    | some acc' => runSteps d base acc' ss
    | none => none

/-- The signature term of class `c` for definition `d`, interpreting the recipes `rs`
(`fuel` bounds the depth of `Base::getSignature()` delegation). -/
def sigTerm (rs : Cls → Option Recipe) (d : CommandDef) : Nat → Cls → Option HashTerm
  | 0, _ => none
  | fuel + 1, c => match rs c with
    | some r => runSteps d (fun c' => sigTerm rs d fuel c') none r
    | none => none

def Recipe.nullToOne (r : Recipe) : Bool :=
  r.any fun | .nullToOne => true | _ => false

/-! ## Bit-exact hashing (include/llvm/ADT/Hashing.h) -/

namespace Hash

def k0 : UInt64 := 0xc3a5c85c97cb3127
def k1 : UInt64 := 0xb492b66fbe98f273
def k2 : UInt64 := 0x9ae16a3b2f90404f
def k3 : UInt64 := 0xc949d7c7509e6557
/-- `get_execution_seed()` with `fixed_seed_override == 0` -/
def seed : UInt64 := 0xff51afd7ed558ccd

def byteAt (s : Bytes) (i : Nat) : UInt64 := (s.getD i 0).toUInt64

/-- little-endian loads; every call site below stays inside the buffer (as the C++ does) -/
def fetch32 (s : Bytes) (o : Nat) : UInt64 :=
  byteAt s o ||| (byteAt s (o+1) <<< 8) ||| (byteAt s (o+2) <<< 16) ||| (byteAt s (o+3) <<< 24)

def fetch64 (s : Bytes) (o : Nat) : UInt64 :=
  fetch32 s o ||| (fetch32 s (o+4) <<< 32)

def le64 (v : UInt64) : Bytes :=
  (List.range 8).map fun i => (v >>> (8 * i).toUInt64).toUInt8

def rotate (v : UInt64) (shift : Nat) : UInt64 :=
  if shift == 0 then v else (v >>> shift.toUInt64) ||| (v <<< (64 - shift).toUInt64)

def shiftMix (v : UInt64) : UInt64 := v ^^^ (v >>> 47)

def hash16 (low high : UInt64) : UInt64 :=
  let kMul : UInt64 := 0x9ddfea08eb382d69
  let a := (low ^^^ high) * kMul
  let a := a ^^^ (a >>> 47)
  let b := (high ^^^ a) * kMul
  let b := b ^^^ (b >>> 47)
  b * kMul

def hash1to3 (s : Bytes) (seed : UInt64) : UInt64 :=
  let len := s.length
  let a := byteAt s 0
  let b := byteAt s (len / 2)
  let c := byteAt s (len - 1)
  let y := a + (b <<< 8)                 -- uint32 arithmetic; no overflow at these sizes
  let z := len.toUInt64 + (c <<< 2)
  shiftMix (y * k2 ^^^ z * k3 ^^^ seed) * k2

def hash4to8 (s : Bytes) (seed : UInt64) : UInt64 :=
  let len := s.length
  let a := fetch32 s 0
  hash16 (len.toUInt64 + (a <<< 3)) (seed ^^^ fetch32 s (len - 4))

def hash9to16 (s : Bytes) (seed : UInt64) : UInt64 :=
  let len := s.length
  let a := fetch64 s 0
  let b := fetch64 s (len - 8)
  hash16 (seed ^^^ a) (rotate (b + len.toUInt64) len) ^^^ b

def hash17to32 (s : Bytes) (seed : UInt64) : UInt64 :=
  let len := s.length
  let a := fetch64 s 0 * k1
  let b := fetch64 s 8
  let c := fetch64 s (len - 8) * k2
  let d := fetch64 s (len - 16) * k0
  hash16 (rotate (a - b) 43 + rotate (c ^^^ seed) 30 + d)
         (a + rotate (b ^^^ k3) 20 - c + len.toUInt64 + seed)

def hash33to64 (s : Bytes) (seed : UInt64) : UInt64 :=
  let len := s.length
  let z := fetch64 s 24
  let a := fetch64 s 0 + (len.toUInt64 + fetch64 s (len - 16)) * k0
  let b := rotate (a + z) 52
  let c := rotate a 37
  let a := a + fetch64 s 8
  let c := c + rotate a 7
  let a := a + fetch64 s 16
  let vf := a + z
  let vs := b + rotate a 31 + c
  let a := fetch64 s 16 + fetch64 s (len - 32)
  let z := fetch64 s (len - 8)
  let b := rotate (a + z) 52
  let c := rotate a 37
  let a := a + fetch64 s (len - 24)
  let c := c + rotate a 7
  let a := a + fetch64 s (len - 16)
  let wf := a + z
  let ws := b + rotate a 31 + c
  let r := shiftMix ((vf + ws) * k2 + (wf + vs) * k0)
  shiftMix ((seed ^^^ (r * k0)) + vs) * k2

/-- `hash_short(s, length, seed)` for `length ≤ 64` -/
def hashShort (s : Bytes) (seed : UInt64) : UInt64 :=
  let len := s.length
  if 4 ≤ len ∧ len ≤ 8 then hash4to8 s seed
  else if 8 < len ∧ len ≤ 16 then hash9to16 s seed
  else if 16 < len ∧ len ≤ 32 then hash17to32 s seed
  else if 32 < len then hash33to64 s seed
  else if len ≠ 0 then hash1to3 s seed
  else k2 ^^^ seed

structure State where
  h0 : UInt64
  h1 : UInt64
  h2 : UInt64
  h3 : UInt64
  h4 : UInt64
  h5 : UInt64
  h6 : UInt64

/-- `mix_32_bytes(s + o, a, b)` returning the new (a, b) -/
def mix32 (s : Bytes) (o : Nat) (a b : UInt64) : UInt64 × UInt64 :=
  let a := a + fetch64 s o
  let c := fetch64 s (o + 24)
  let b := rotate (b + a + c) 21
  let d := a
  let a := a + (fetch64 s (o + 8) + fetch64 s (o + 16))
  let b := b + (rotate a 44 + d)
  let a := a + c
  (a, b)

/-- `hash_state::mix` over one 64-byte block -/
def State.mix (st : State) (s : Bytes) : State :=
  let h0 := rotate (st.h0 + st.h1 + st.h3 + fetch64 s 8) 37 * k1
  let h1 := rotate (st.h1 + st.h4 + fetch64 s 48) 42 * k1
  let h0 := h0 ^^^ st.h6
  let h1 := h1 + (st.h3 + fetch64 s 40)
  let h2 := rotate (st.h2 + st.h5) 33 * k1
  let h3 := st.h4 * k1
  let h4 := h0 + st.h5
  let (h3, h4) := mix32 s 0 h3 h4
  let h5 := h2 + st.h6
  let h6 := h1 + fetch64 s 16
  let (h5, h6) := mix32 s 32 h5 h6
  { h0 := h2, h1 := h1, h2 := h0, h3 := h3, h4 := h4, h5 := h5, h6 := h6 }

def State.create (s : Bytes) (seed : UInt64) : State :=
  let h4 := seed * k1
  let h5 := shiftMix seed
  let st : State := { h0 := 0, h1 := seed, h2 := hash16 seed k1, h3 := rotate (seed ^^^ k1) 49,
                      h4 := h4, h5 := h5, h6 := hash16 h4 h5 }
  st.mix s

def State.finalize (st : State) (length : Nat) : UInt64 :=
  hash16 (hash16 st.h3 st.h5 + shiftMix st.h1 * k1 + st.h2)
         (hash16 st.h4 st.h6 + shiftMix length.toUInt64 * k1 + st.h0)

/-- the aligned 64-byte blocks after the first one -/
def mixBlocks : Nat → State → Bytes → State
  | 0, st, _ => st
  | fuel + 1, st, rest => if rest.length ≥ 64 then mixBlocks fuel (st.mix (rest.take 64)) (rest.drop 64) else st

/-- `hash_combine_range` over a byte range (`llvm::hash_value(StringRef)`, `hash_value(std::string)`):
`hash_short` up to 64 bytes; otherwise 64-byte blocks, the last partial block replaced by the LAST 64 bytes. -/
def hashBytes (s : Bytes) : UInt64 :=
  let len := s.length
  if len ≤ 64 then hashShort s seed
  else
    let st := State.create (s.take 64) seed
    let st := mixBlocks len st (s.drop 64)
    let st := if len % 64 ≠ 0 then st.mix (s.drop (len - 64)) else st
    st.finalize len

end Hash

/-- The 64-bit value of a term.  `comb a b` is `hash_combine(a, b)`: the bytes of the two arguments are
laid out in a (≤ 16 byte) buffer and hashed with `hash_short`: `a` as 8 bytes; `b` as one byte when it is a
`bool`, as the 8 bytes of `hash_value(string)` when it is a string, as the 8 bytes of the integer otherwise. -/
def HashTerm.eval : HashTerm → UInt64
  | .seed => 0
  | .str b => Hash.hashBytes b
  | .bool b => if b then 1 else 0
  | .int n => n.toUInt64
  | .comb a b =>
    let datum : Bytes := match b with
      | .bool x => [if x then 1 else 0]
      | _ => Hash.le64 b.eval
    Hash.hashShort (Hash.le64 a.eval ++ datum) Hash.seed

/-- The value `getSignature()` returns: the evaluated term, with 0 replaced by 1 where the recipe says so. -/
def evalSig (r : Recipe) (t : HashTerm) : UInt64 :=
  let v := t.eval
  if r.nullToOne && v == 0 then 1 else v

end LLBuild.Signature
