/-
C11 / C19 model: index-level transliteration of `DependencyInfoParser::parse`
(lib/Core/DependencyInfoParser.cpp) and the record writer it inverts.  CORE LEAN ONLY.
Every read goes through `MakeDeps.peek`; `.error idx` = out-of-bounds read at `idx`.
Opcode values and the presence of the `cur == end` guard (F12) come from Generated/DepsTables.lean.
-/
import LLBuild.Model.MakeDeps

set_option linter.unusedVariables false

namespace LLBuild.DepInfo
open LLBuild.MakeDeps (R peek peek_lt mapOk slice)

inductive ErrKind
  | missingNul          -- "missing null terminator"
  | missingVersion      -- "missing version record"
  | emptyOperand        -- "empty operand"
  | duplicateVersion    -- "invalid duplicate version"
  | unknownOpcode       -- "unknown opcode in file"
  deriving DecidableEq, Repr

inductive Action
  | version (s : Bytes)
  | input (s : Bytes)
  | missing (s : Bytes)
  | output (s : Bytes)
  | error (kind : ErrKind) (pos : Nat)
  deriving DecidableEq, Repr

/-- `while (*cur != '\0') ++cur;` — no bounds test of its own: it relies on the final NUL. -/
def scanNul (inp : Bytes) (pos : Nat) : R Nat :=
  match h : peek inp pos with
  | none => .error pos
  | some c => if c == 0 then .ok pos else scanNul inp (pos + 1)
termination_by inp.length - pos
decreasing_by have := peek_lt h; omega

theorem scanNul_ge {inp : Bytes} {pos q : Nat} (h : scanNul inp pos = .ok q) : pos ≤ q := by
  fun_induction scanNul inp pos <;> try (first | (cases h; done) | (cases h; omega))
  rename_i ih
  have := ih h
  omega

/-- the `switch (opcode)` -/
def dispatch (op : UInt8) (opcodeStart : Nat) (operand : Bytes) : Action :=
  if op == Generated.diOpVersion then
    (if opcodeStart != 0 then .error .duplicateVersion opcodeStart else .version operand)
  else if op == Generated.diOpInput then .input operand
  else if op == Generated.diOpMissing then .missing operand
  else if op == Generated.diOpOutput then .output operand
  else .error .unknownOpcode opcodeStart

/-- "Parse the records in turn." from cursor `pos` -/
def records (inp : Bytes) (pos : Nat) : R (List Action) :=
  if pos = inp.length then .ok []
  else match h : peek inp pos with            -- `Opcode(*cur++)`
    | none => .error pos
    | some op =>
      -- repaired tree: `if (cur == end) { error("empty operand"); break; }`
      if Generated.diOperandGuard && pos + 1 == inp.length then .ok [.error .emptyOperand pos]
      else match h2 : scanNul inp (pos + 1) with
        | .error e => .error e
        | .ok q =>
          if q = pos + 1 then .ok [.error .emptyOperand pos]
          else mapOk (dispatch op pos (slice inp (pos + 1) q) :: ·) (records inp (q + 1))
termination_by inp.length - pos
decreasing_by have := peek_lt h; have := scanNul_ge h2; omega

/-- `DependencyInfoParser(data, actions).parse()` -/
def parse (inp : Bytes) : R (List Action) :=
  -- `data.endswith(StringRef("\0", 1))`: length test first, then the last byte
  if inp.length = 0 then .ok [.error .missingNul inp.length]
  else match peek inp (inp.length - 1) with
    | none => .error (inp.length - 1)
    | some l =>
      if l != 0 then .ok [.error .missingNul inp.length]
      else match peek inp 0 with                 -- `data[0]`
        | none => .error 0
        | some c0 =>
          if c0 != Generated.diOpVersion then .ok [.error .missingVersion 0]
          else records inp 0

/-! ### writer -/

inductive Rec
  | version (s : Bytes) | input (s : Bytes) | missing (s : Bytes) | output (s : Bytes)
  deriving DecidableEq, Repr

def Rec.opcode : Rec → UInt8
  | .version _ => Generated.diOpVersion
  | .input _ => Generated.diOpInput
  | .missing _ => Generated.diOpMissing
  | .output _ => Generated.diOpOutput

def Rec.operand : Rec → Bytes
  | .version s | .input s | .missing s | .output s => s

def Rec.action : Rec → Action
  | .version s => .version s
  | .input s => .input s
  | .missing s => .missing s
  | .output s => .output s

def Rec.isVersion : Rec → Bool
  | .version _ => true
  | _ => false

/-- `<opcode> <operand> NUL` -/
def encodeRec (r : Rec) : Bytes := r.opcode :: r.operand ++ [0]

def encode (rs : List Rec) : Bytes := rs.flatMap encodeRec

/-! ### `processDependencyInfoDiscoveredDependencies` (ShellCommand.cpp) -/

def numErrors (acts : List Action) : Nat := (acts.filter (fun a => match a with | .error _ _ => true | _ => false)).length

def processDepInfo (contents : Bytes) : R Bool := mapOk (fun acts => numErrors acts == 0) (parse contents)

end LLBuild.DepInfo

/-! ### `ShellCommand::processDiscoveredDependencies` and the completion decision of `executeExternalCommand` -/
namespace LLBuild.ShellDeps
open LLBuild.MakeDeps (R mapOk)

inductive DepsStyle
  | unused | makefile | dependencyInfo | makefileIgnoringSubsequentOutputs
  deriving DecidableEq, Repr

/-- one `deps:` entry: `none` = `getFileContents` returned null -/
abbrev DepsFile := Option Bytes

/-- the body of the `for (const auto& depsPath: depsPaths)` loop for one file: `true` = fall through to `continue`,
`false` = `return false`; an out-of-bounds read inside a parser has no defined result. -/
def processFile (style : DepsStyle) : DepsFile → R Bool
  | none => .ok false
  | some contents =>
    match style with
    | .unused => .ok false
    | .makefile => MakeDeps.processMakefile false contents
    | .makefileIgnoringSubsequentOutputs => MakeDeps.processMakefile true contents
    | .dependencyInfo => DepInfo.processDepInfo contents

/-- `ShellCommand::processDiscoveredDependencies` -/
def processDiscoveredDependencies (style : DepsStyle) : List DepsFile → R Bool
  | [] => if style = .unused then .ok false else .ok true
  | f :: fs =>
    if style = .unused then .ok false
    else match processFile style f with
      | .error e => .error e
      | .ok false => .ok false
      | .ok true => processDiscoveredDependencies style fs

/-- `actOnInput` of `processDependencyInfoDiscoveredDependencies`: the node key made from an input record.  The operand is
used as it is unless the (extracted) code puts the command's working directory in front of a relative one, as
`actOnRuleDependency` does for Makefile-style files. -/
def depInfoKey (wd p : Bytes) : Bytes :=
  if Generated.shDepInfoInputResolved then MakeDeps.resolve wd p else p

/-- the node keys ONE dependency file hands to `ti.discoveredDependency`, in order (the callbacks run while the file is
parsed, i.e. also for a file that then turns out to contain an error) -/
def fileKeys (style : DepsStyle) (wd : Bytes) : DepsFile → R (List Bytes)
  | none => .ok []
  | some contents =>
    match style with
    | .unused => .ok []
    | .makefile => mapOk (MakeDeps.discovered wd) (MakeDeps.parse false contents)
    | .makefileIgnoringSubsequentOutputs => mapOk (MakeDeps.discovered wd) (MakeDeps.parse true contents)
    | .dependencyInfo =>
      mapOk (fun acts => acts.filterMap (fun a => match a with | .input s => some (depInfoKey wd s) | _ => none))
        (DepInfo.parse contents)

/-- every key `processDiscoveredDependencies` has handed to the engine when it returns: the keys of each file of the
`deps:` list up to and including the first one that makes it `return false` -/
def discoveredKeys (style : DepsStyle) (wd : Bytes) : List DepsFile → R (List Bytes)
  | [] => .ok []
  | f :: fs =>
    if style = .unused then .ok []
    else match processFile style f, fileKeys style wd f with
      | .error e, _ => .error e
      | _, .error e => .error e
      | .ok false, .ok ks => .ok ks
      | .ok true, .ok ks => mapOk (fun rest => ks ++ rest) (discoveredKeys style wd fs)

inductive Status
  | succeeded | failed
  deriving DecidableEq, Repr

/-- `commandCompletionFn` for a process that exited successfully: with `deps:` configured, a `false` from
`processDiscoveredDependencies` turns the result into `ProcessStatus::Failed` (⇒ `BuildValue::makeFailedCommand`). -/
def completion (style : DepsStyle) (files : List DepsFile) : R Status :=
  if files.isEmpty then .ok .succeeded
  else mapOk (fun ok => if ok then .succeeded else .failed) (processDiscoveredDependencies style files)

end LLBuild.ShellDeps
