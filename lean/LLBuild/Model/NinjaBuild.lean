/-
Decision logic of the Ninja driver (`lib/Commands/NinjaBuildCommand.cpp`) as pure functions.

* `BuildValue` (l.154-340): kind, command hash, output infos.
* `commandIsResultValid` = `buildCommandIsResultValid` (l.1620-1651, with the phony-alias repair F37).
* `requests` = `NinjaCommandTask::start` (explicit / implicit inputs requested, order-only via `mustFollow`).
* `provide` = `provideValue` (skip on failed / missing input, `canUpdateIfNewer`, `newestModTime`).
* `inputsAvailable` = the decision chain of `inputsAvailable` (cancelled, phony, update-if-newer, simulate, skip, run).
* `afterExecute` = the completion in `executeCommand` (`ForceChange = !restat`).

Everything table-like (value kinds, comparison operators, request kinds, guard list, decision order, polarity of the
restat flag) comes from `LLBuild.Generated.NinjaBuildTables`, regenerated from the source on every run; the
functions below *interpret* those tables, so the theorems in `Props/C18.lean` are about what the code says now.
CORE LEAN ONLY.
-/
import LLBuild.Generated.NinjaBuildTables

namespace LLBuild.NinjaBuild
open Gen

/-- `basic::FileTimestamp`: compared lexicographically on (seconds, nanoseconds) -/
structure TS where
  sec : Nat
  nsec : Nat
  deriving DecidableEq, Repr, Inhabited

def TS.lt (a b : TS) : Bool := a.sec < b.sec || (a.sec == b.sec && a.nsec < b.nsec)
def TS.le (a b : TS) : Bool := a.sec < b.sec || (a.sec == b.sec && a.nsec ≤ b.nsec)

/-- `a <op> b` for the extracted operators (`>` is `rhs < *this`, `>=` is `rhs <= *this`, as in FileInfo.h) -/
def Gen.Cmp.eval : Cmp → TS → TS → Bool
  | .lt, a, b => a.lt b
  | .le, a, b => a.le b
  | .gt, a, b => b.lt a
  | .ge, a, b => b.le a

/-- `basic::FileInfo` without the checksum (never computed by this driver) -/
structure FInfo where
  device : Nat
  inode : Nat
  mode : Nat
  size : Nat
  mtime : TS
  deriving DecidableEq, Repr, Inhabited

def FInfo.missing : FInfo := ⟨0, 0, 0, 0, ⟨0, 0⟩⟩

def FInfo.isMissing (i : FInfo) : Bool :=
  i.device == 0 && i.inode == 0 && i.mode == 0 && i.size == 0 && i.mtime.sec == 0 && i.mtime.nsec == 0

/-- `FileInfo::operator==` (mode is not compared; missing-ness is) -/
def FInfo.same (a b : FInfo) : Bool :=
  a.isMissing == b.isMissing && a.device == b.device && a.inode == b.inode && a.size == b.size && a.mtime == b.mtime

/-- the Ninja `BuildValue`; `infos.length` is `numOutputInfos` -/
structure BuildValue where
  kind : Kind
  hash : Nat := 0
  infos : List FInfo := []
  deriving DecidableEq, Repr, Inhabited

def BuildValue.skipped : BuildValue := { kind := .skippedCommand }
def BuildValue.failed : BuildValue := { kind := .failedCommand }
def BuildValue.missingInput : BuildValue := { kind := .missingInput }
def BuildValue.existing (i : FInfo) : BuildValue := { kind := .existingInput, infos := [i] }

/-- `getNthOutputInfo(n)` with asserts off: a value with at most one info answers with its inline info for
every `n`; a value with several infos indexes its heap array, and an index past the end is an out-of-bounds read -/
def BuildValue.nthInfo (v : BuildValue) (n : Nat) : Option FInfo :=
  if v.infos.length > 1 then v.infos[n]? else some (v.infos.headD FInfo.missing)

/-- `getOutputInfo()` (callers hold a single-info value; a value without infos has a zeroed inline info) -/
def BuildValue.outputInfo (v : BuildValue) : FInfo := v.infos.headD FInfo.missing

/-- what the decision logic reads of a `ninja::Command` -/
structure Cmd where
  hash : Nat
  generator : Bool := false
  restat : Bool := false
  phony : Bool := false
  hasDeps : Bool := false        -- getDepsStyle() != None
  hasInputs : Bool := true       -- !getInputs().empty()
  deriving DecidableEq, Repr, Inhabited

/-! ### buildCommandIsResultValid -/

inductive VR | valid | invalid | oob
  deriving DecidableEq, Repr, Inhabited

def hasGuard (g : Guard) : Bool := validGuards.contains g

/-- the leading guards (before the loop over the outputs) -/
def leadingInvalid (c : Cmd) (v : BuildValue) : Bool :=
  (hasGuard .notSuccessful && v.kind != .successfulCommand) ||
  (hasGuard .hashDiffersUnlessGenerator && !c.generator && v.hash != c.hash) ||
  (hasGuard .hashDiffers && v.hash != c.hash)

/-- an output that does not exist invalidates the result (unless the command is a phony alias with inputs) -/
def missingInvalid (c : Cmd) (now : FInfo) : Bool :=
  now.isMissing && ((hasGuard .outputMissing) || (hasGuard .outputMissingUnlessAlias && !(c.phony && c.hasInputs)))

/-- the loop over `command->getOutputs()`; `i` is the output index, `now` its `getInfoForPath` -/
def checkOutputs (c : Cmd) (v : BuildValue) : Nat → List FInfo → VR
  | _, [] => .valid
  | i, now :: rest =>
    if missingInvalid c now then .invalid
    else if hasGuard .outputInfoDiffers then
      match v.nthInfo i with
      | none => .oob
      | some st => if st.same now then checkOutputs c v (i + 1) rest else .invalid
    else checkOutputs c v (i + 1) rest

def commandIsResultValid (c : Cmd) (v : BuildValue) (outsNow : List FInfo) : VR :=
  if leadingInvalid c v then .invalid else checkOutputs c v 0 outsNow

/-! ### NinjaCommandTask -/

/-- the three classes of inputs of a build statement, each carrying whatever is attached to an input -/
structure Inputs (α : Type) where
  explicit : List α
  implicit : List α
  orderOnly : List α

/-- `start()`: the requests issued, in order -/
def requests {α : Type} (ins : Inputs α) : List (ReqKind × α) :=
  ins.explicit.map (fun x => (explicitReq, x)) ++ ins.implicit.map (fun x => (implicitReq, x)) ++
    ins.orderOnly.map (fun x => (orderOnlyReq, x))

/-- the values the engine hands to `provideValue`: `mustFollow` requests deliver nothing -/
def received {α : Type} (ins : Inputs α) : List α :=
  ((requests ins).filter (fun r => r.1 != .mustFollow)).map (·.2)

structure Acc where
  shouldSkip : Bool := false
  hasMissingInput : Bool := false
  canUpdateIfNewer : Bool := true
  newest : TS := ⟨0, 0⟩
  deriving DecidableEq, Repr, Inhabited

/-- constructor -/
def Acc.init (c : Cmd) : Acc := { canUpdateIfNewer := !(depsDisableUpdateIfNewer && c.hasDeps) }

/-- `provideValue` (a failed / skipped / missing input also clears `canUpdateIfNewer`: repair F43) -/
def provide (a : Acc) (v : BuildValue) : Acc :=
  if !(okInputKinds.contains v.kind) then
    { a with shouldSkip := true, hasMissingInput := a.hasMissingInput || v.kind == missingInputKind,
             canUpdateIfNewer := a.canUpdateIfNewer && !badInputDisablesUpdateIfNewer }
  else if v.outputInfo.isMissing then { a with canUpdateIfNewer := false }
  else if newestCmp.eval v.outputInfo.mtime a.newest then { a with newest := v.outputInfo.mtime }
  else a

/-- the task's state when `inputsAvailable` is called (values arrive in any order; see `Lemmas`) -/
def accumulate (c : Cmd) (ins : Inputs BuildValue) : Acc := (received ins).foldl provide (Acc.init c)

structure Ctx where
  cancelled : Bool := false
  simulate : Bool := false
  strict : Bool := false
  deriving DecidableEq, Repr, Inhabited

inductive Outcome
  /-- `ti.complete(value, force)` without executing the command -/
  | complete (v : BuildValue) (force : Bool)
  /-- the command is spawned -/
  | execute
  deriving DecidableEq, Repr, Inhabited

/-- `computeCommandResult` -/
def computeResult (c : Cmd) (outsNow : List FInfo) : BuildValue :=
  { kind := .successfulCommand, hash := c.hash, infos := outsNow }

/-- `canUpdateIfNewerWithResult` -/
def canUpdateWithResult (ctx : Ctx) (newest : TS) (outsNow : List FInfo) : Bool :=
  outsNow.all fun o =>
    !o.isMissing && !((if ctx.strict then refuseCmpStrict else refuseCmpNonStrict).eval o.mtime newest)

/-- `providePriorValue`: (hasPriorResult, priorCommandHash) -/
def priorOf (prior : Option BuildValue) : Bool × Nat :=
  match prior with
  | some v => if v.kind == .successfulCommand then (true, v.hash) else (false, 0)
  | none => (false, 0)

/-- the guard in `inputsAvailable` that clears `canUpdateIfNewer` -/
def shortcutDisabled (c : Cmd) (prior : Option BuildValue) : Bool :=
  (!shortcutGeneratorExempt || !c.generator) &&
    ((shortcutRequiresPrior && !(priorOf prior).1) || (shortcutComparesHash && (priorOf prior).2 != c.hash))

/-- the update-if-newer shortcut fires -/
def shortcut (ctx : Ctx) (c : Cmd) (a : Acc) (prior : Option BuildValue) (outsNow : List FInfo) : Bool :=
  a.canUpdateIfNewer && !shortcutDisabled c prior && canUpdateWithResult ctx a.newest outsNow

/-- one decision of `inputsAvailable`: `some o` = the function returns here -/
def decide1 (ctx : Ctx) (c : Cmd) (a : Acc) (prior : Option BuildValue) (outsNow : List FInfo) : Decision → Option Outcome
  | .cancelled => if ctx.cancelled then some (.complete .skipped false) else none
  | .phony =>
    if c.phony then
      if phonyPropagatesSkip && a.shouldSkip then some (.complete .skipped false)
      else some (.complete (computeResult c outsNow) (outsNow.any (·.isMissing)))
    else none
  | .updateIfNewer => if shortcut ctx c a prior outsNow then some (.complete (computeResult c outsNow) false) else none
  | .simulate => if ctx.simulate then some (.complete .skipped false) else none
  | .skip => if a.shouldSkip then some (.complete .skipped false) else none
  | .run => some .execute

def firstSome {α β : Type} (f : α → Option β) : List α → Option β
  | [] => none
  | x :: xs => match f x with
    | some y => some y
    | none => firstSome f xs

/-- `inputsAvailable` -/
def inputsAvailable (ctx : Ctx) (c : Cmd) (a : Acc) (prior : Option BuildValue) (outsNow : List FInfo) : Outcome :=
  (firstSome (decide1 ctx c a prior outsNow) decisionOrder).getD .execute

/-- the completion in `executeCommand`: (value, ForceChange) -/
def afterExecute (c : Cmd) (succeeded depsOk : Bool) (outsAfter : List FInfo) : BuildValue × Bool :=
  if !succeeded then (.failed, true)
  else if !depsOk then (.failed, true)
  else (computeResult c outsAfter, if forceIsNotRestat then !c.restat else c.restat)

/-! ### the dependency list the engine records for a command rule

`BuildEngine` appends one entry per input request (`mustFollow` ⇒ `orderOnly = true`) at the moment the requested rule
has been scanned - so the requests appear as a permutation of the request order, which the harness compares as a
multiset - then, when the task completes, its discovered dependencies (`orderOnly = false`) in the order discovered,
without removing duplicates; on the next build a rule
whose stored result is valid is re-run exactly when one of its NON-order-only dependencies was rebuilt with a changed
value (lib/Core/BuildEngine.cpp, `processInputRequest` / `processFinishedTask` / the scan of `checkRule`). -/

/-- one recorded dependency -/
structure DepEntry (α : Type) where
  key : α
  orderOnly : Bool
  deriving DecidableEq, Repr

/-- the entries recorded for the requests of `start()` -/
def requestDeps {α : Type} (ins : Inputs α) : List (DepEntry α) :=
  (requests ins).map fun r => ⟨r.2, r.1 == .mustFollow⟩

/-- `processDiscoveredDependencies` after a successful execution: the depfile's entries in file order, `none` = a path
that `Manifest::normalize_path` rejects.  `extra` is whatever further condition the source puts between the
normalisation and `ti.discoveredDependency(path)` (there is none when `discoveredUnconditional`). -/
def discovered {α : Type} (c : Cmd) (entries : List (Option α)) (extra : α → Bool) : List (DepEntry α) :=
  if c.hasDeps then
    ((entries.filterMap id).filter fun p => discoveredUnconditional || extra p).map fun p => ⟨p, false⟩
  else []

/-- what the engine stores for a command that executed successfully -/
def dependencyList {α : Type} (c : Cmd) (ins : Inputs α) (entries : List (Option α)) (extra : α → Bool) : List (DepEntry α) :=
  requestDeps ins ++ discovered c entries extra

/-- the engine's scan: some dependency that is not order-only changed -/
def triggersRerun {α : Type} (deps : List (DepEntry α)) (changed : α → Bool) : Bool :=
  deps.any fun d => !d.orderOnly && changed d.key

/-! ### input rules and select rules -/

/-- `buildInputIsResultValid` -/
def inputIsResultValid (v : BuildValue) (now : FInfo) : Bool :=
  v.kind == .existingInput && !now.isMissing && v.outputInfo.same now

/-- `NinjaInputTask::inputsAvailable` -/
def inputValue (now : FInfo) : BuildValue := if now.isMissing then .missingInput else .existing now

/-- `selectCompositeIsResultValid` -/
def selectIsResultValid (c : Cmd) (v : BuildValue) : Bool := v.kind == .successfulCommand && v.hash == c.hash

/-- `SelectResultTask::inputsAvailable`: (value, ForceChange), `none` = out-of-bounds read -/
def selectValue (composite : BuildValue) (idx : Nat) : Option (BuildValue × Bool) :=
  if composite.kind == .failedCommand || composite.kind == .skippedCommand then some (composite, true)
  else match composite.nthInfo idx with
    | none => none
    | some i => some ({ kind := .successfulCommand, hash := composite.hash, infos := [i] }, false)

/-! ### file-system histories (for the soundness statement of the update-if-newer shortcut) -/

/-- one write: the file, the mtime the write leaves on it, the content written -/
structure Write where
  file : Nat
  stamp : TS
  content : Nat
  deriving DecidableEq, Repr, Inhabited

/-- a history, oldest write first -/
abbrev History := List Write

/-- every write stamps an mtime strictly greater than all earlier ones -/
def Increasing : History → Prop
  | [] => True
  | w :: rest => (∀ w' ∈ rest, w.stamp.lt w'.stamp = true) ∧ Increasing rest

instance : (h : History) → Decidable (Increasing h)
  | [] => inferInstanceAs (Decidable True)
  | w :: rest =>
    have : Decidable (Increasing rest) := instDecidableIncreasing rest
    inferInstanceAs (Decidable ((∀ w' ∈ rest, w.stamp.lt w'.stamp = true) ∧ Increasing rest))

/-- `f` is written somewhere in `h` -/
def writes (h : History) (f : Nat) : Bool := h.any (fun w => w.file == f)

/-- the last write of `f` -/
def lastWrite : History → Nat → Option Write
  | [], _ => none
  | w :: rest, f =>
    match lastWrite rest f with
    | some w' => some w'
    | none => if w.file == f then some w else none

/-- `f` is written after the last write of `o` -/
def writtenAfter : History → Nat → Nat → Bool
  | [], _, _ => false
  | w :: rest, o, f => if writes rest o then writtenAfter rest o f else (w.file == o && writes rest f)

/-- the history up to and including the last write of `o` (empty if `o` is never written) -/
def upToLast : History → Nat → History
  | [], _ => []
  | w :: rest, o => if writes rest o then w :: upToLast rest o else if w.file == o then [w] else []

end LLBuild.NinjaBuild
