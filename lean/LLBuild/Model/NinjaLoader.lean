/-
C17LOAD model: the Ninja manifest *loader* (lib/Ninja/ManifestLoader.cpp, lib/Ninja/Manifest.cpp,
include/llbuild/Ninja/Manifest.h) at the level of the parser's declaration stream
(`ParseActions`, lib/Ninja/Parser.cpp).  The lexer is NOT modelled here.  CORE LEAN ONLY.

The model is parameterised by `Cfg` so that it describes both the code as found
(`Cfg.asFound`: F14 unguarded recursion, F15 unchained rule lookup) and the repaired code
(`Cfg.fixed`, fixes/F14-*.diff and fixes/F15-*.diff).
-/
import LLBuild.Model.Bytes
import LLBuild.Generated.NinjaLoaderTables

namespace LLBuild.NinjaLoader

open LLBuild.Generated.NinjaLoaderTables

/-! ## Declaration stream (what `Parser` hands to `ParseActions`) -/

/-- `name = value`; `value` is the raw text of the value token (unevaluated). -/
structure Binding where
  name : Bytes
  value : Bytes
  deriving DecidableEq, Repr, Inhabited

inductive Decl
  /-- `actOnBindingDecl` -/
  | binding (b : Binding)
  /-- `actOnBeginRuleDecl`, `actOnRuleBindingDecl`*, `actOnEndRuleDecl` -/
  | rule (name : Bytes) (params : List Binding)
  /-- `actOnBeginBuildDecl` (rule name, output tokens, input tokens, #explicit, #implicit),
      `actOnBuildBindingDecl`*, `actOnEndBuildDecl` -/
  | build (rule : Bytes) (outs ins : List Bytes) (nExp nImp : Nat) (params : List Binding)
  /-- `actOnDefaultDecl` -/
  | default (names : List Bytes)
  /-- `actOnBeginPoolDecl`, `actOnPoolBindingDecl`*, `actOnEndPoolDecl` -/
  | pool (name : Bytes) (params : List Binding)
  /-- `actOnIncludeDecl(true, path)` -/
  | include (path : Bytes)
  /-- `actOnIncludeDecl(false, path)` -/
  | subninja (path : Bytes)
  /-- `ParseActions::error` raised by the parser itself -/
  | perr
  deriving DecidableEq, Repr, Inhabited

/-- The files `ManifestLoaderActions::readFile` can deliver: absolute path ↦ declaration stream. -/
abbrev Files := List (Bytes × List Decl)

/-! ## Character classes (extracted) -/

def inClass (rs : List (UInt8 × UInt8)) (ss : List UInt8) (c : UInt8) : Bool :=
  rs.any (fun r => r.1 ≤ c && c ≤ r.2) || ss.contains c

/-- `Lexer::isIdentifierChar` -/
def isIdentChar (c : UInt8) : Bool := inClass identRanges identSingles c
/-- `Lexer::isSimpleIdentifierChar` -/
def isSimpleIdentChar (c : UInt8) : Bool := inClass simpleIdentRanges simpleIdentSingles c
/-- C `isspace` in the "C" locale -/
def isSpace (c : UInt8) : Bool := c == 32 || (9 ≤ c && c ≤ 13)
/-- `c == ' ' || c == ':' || c == '$'` in `evalString` -/
def isDollarEscape (c : UInt8) : Bool := dollarEscapes.contains c

/-! ## Errors (the harness maps the message text to the same names) -/

inductive Err
  | parse | dollarAtEnd | missingBrace | badVarName | badEscape
  | unknownTarget | unknownRule | emptyOutput | emptyInput
  | badDeps | depfileWithStyle | missingDepfile | unknownPool
  | duplicatePool | badDepth | poolUnexpectedVar | missingDepth
  | duplicateRule | ruleUnexpectedVar | missingCommand
  | readFile | cycle
  /-- not an error of the code: the model ran out of fuel, i.e. the modelled recursion does not
      terminate within the bound (the C++ would overflow its stack) -/
  | outOfFuel
  /-- likewise for nested `include`/`subninja` (no guard exists in the code) -/
  | includeDepth
  deriving DecidableEq, Repr, Inhabited

def Err.name : Err → String
  | .parse => "parse" | .dollarAtEnd => "dollarAtEnd" | .missingBrace => "missingBrace"
  | .badVarName => "badVarName" | .badEscape => "badEscape" | .unknownTarget => "unknownTarget"
  | .unknownRule => "unknownRule" | .emptyOutput => "emptyOutput" | .emptyInput => "emptyInput"
  | .badDeps => "badDeps" | .depfileWithStyle => "depfileWithStyle" | .missingDepfile => "missingDepfile"
  | .unknownPool => "unknownPool" | .duplicatePool => "duplicatePool" | .badDepth => "badDepth"
  | .poolUnexpectedVar => "unexpectedVar" | .missingDepth => "missingDepth"
  | .duplicateRule => "duplicateRule" | .ruleUnexpectedVar => "unexpectedVar"
  | .missingCommand => "missingCommand" | .readFile => "readFile" | .cycle => "cycle"
  | .outOfFuel => "outOfFuel" | .includeDepth => "includeDepth"

/-- what an evaluation writes to `result` and reports through `error` -/
abbrev Out := Bytes × List Err

def Out.emit (v : Out) (rest : Out) : Out := (v.1 ++ rest.1, v.2 ++ rest.2)

/-! ## `evalString` (ManifestLoader.cpp l.129-228)

The C++ walks `pos` over the string once; the model walks the remaining suffix once, with the
position inside a `$`-construct as an explicit mode. Every read in the C++ is guarded by
`pos != end`, which is the `[]` case here. -/

inductive Mode
  | text
  /-- just after `$` -/
  | dollar
  /-- after `$\n`: `while (pos != end && isspace(*pos)) ++pos` -/
  | skipws
  /-- inside `${`: bytes since `varStart`, and `isValid` -/
  | brace (name : Bytes) (valid : Bool)
  /-- inside `$name`: bytes since `varStart` -/
  | simple (name : Bytes)

def evalGo (lookup : Bytes → Out) : Mode → Bytes → Out
  | .text, [] => ([], [])
  | .text, c :: r =>
    if c = 36 then evalGo lookup .dollar r else Out.emit ([c], []) (evalGo lookup .text r)
  | .dollar, [] => ([], [.dollarAtEnd])
  | .dollar, c :: r =>
    if c = 10 then evalGo lookup .skipws r
    else if isDollarEscape c then Out.emit ([c], []) (evalGo lookup .text r)
    else if c = 123 then evalGo lookup (.brace [] true) r
    else if isSimpleIdentChar c then evalGo lookup (.simple [c]) r
    else ([], [.badEscape])
  | .skipws, [] => ([], [])
  | .skipws, c :: r =>
    if isSpace c then evalGo lookup .skipws r
    else if c = 36 then evalGo lookup .dollar r
    else Out.emit ([c], []) (evalGo lookup .text r)
  | .brace _ _, [] => ([], [.missingBrace])
  | .brace name valid, c :: r =>
    if c = 125 then
      Out.emit (if valid then lookup name else ([], [.badVarName])) (evalGo lookup .text r)
    else evalGo lookup (.brace (name ++ [c]) (valid && isIdentChar c)) r
  | .simple name, [] => lookup name
  | .simple name, c :: r =>
    if isSimpleIdentChar c then evalGo lookup (.simple (name ++ [c])) r
    else if c = 36 then Out.emit (lookup name) (evalGo lookup .dollar r)
    else Out.emit (lookup name) (Out.emit ([c], []) (evalGo lookup .text r))

def evalString (lookup : Bytes → Out) (s : Bytes) : Out := evalGo lookup .text s

/-! ## Scopes (Manifest.h `Scope`) — a `StringMap` is an association list, newest entry first -/

structure RuleV where
  name : Bytes
  /-- raw, unevaluated parameter texts (newest first) -/
  params : List (Bytes × Bytes)
  deriving DecidableEq, Repr, Inhabited

structure Frame where
  vars : List (Bytes × Bytes) := []
  rules : List (Bytes × RuleV) := []
  deriving Repr, Inhabited

/-- `Scope::lookupBinding`: own entries, then the parent chain, then "" -/
def lookupVar : List Frame → Bytes → Bytes
  | [], _ => []
  | f :: ps, n => match f.vars.lookup n with
    | some v => v
    | none => lookupVar ps n

/-- the repaired rule lookup (fixes/F15): own map, then the parent chain -/
def lookupRuleChain : List Frame → Bytes → Option RuleV
  | [], _ => none
  | f :: ps, n => match f.rules.lookup n with
    | some r => some r
    | none => lookupRuleChain ps n

structure Cfg where
  /-- fixes/F14: names under expansion are tracked, a repeated one is reported -/
  guardRecursion : Bool
  /-- fixes/F15: rule lookup walks the enclosing scopes -/
  chainRules : Bool
  /-- fixes/F22: `default` targets are evaluated like every other path string -/
  evalDefaults : Bool
  deriving DecidableEq, Repr

def Cfg.fixed : Cfg := ⟨true, true, true⟩
def Cfg.asFound : Cfg := ⟨false, false, false⟩

/-- `getCurrentScope().getRules().find(name)` as found; chained after the repair -/
def lookupRule (cfg : Cfg) (cur : Frame) (parents : List Frame) (n : Bytes) : Option RuleV :=
  if cfg.chainRules then lookupRuleChain (cur :: parents) n else cur.rules.lookup n

/-! ## Environment parameters -/

/-- Pieces of the platform the loader calls into.  The theorems hold for every instance; the driver
instantiates them with transliterations (`normalizePath`, `shellEscape`, `makeAbsolute`). -/
structure Params where
  /-- `Manifest::normalize_path(workingDirectory, ·)` (never fails for an absolute working directory) -/
  norm : Bytes → Bytes
  /-- `basic::shellEscaped` -/
  esc : Bytes → Bytes
  /-- `llvm::sys::fs::make_absolute(workingDirectory, ·)` in `enterFile` -/
  absPath : Bytes → Bytes

/-! ## Nodes, commands, manifest -/

structure Node where
  canon : Bytes
  screen : Bytes
  deriving DecidableEq, Repr, Inhabited

def mkNode (norm : Bytes → Bytes) (p : Bytes) : Node := ⟨norm p, p⟩

/-- `Manifest::findOrCreateNode`: the node table is keyed by the normalised path; the *first*
spelling becomes the node's screen path. -/
def findOrCreate (norm : Bytes → Bytes) (nodes : List Node) (p : Bytes) : Node × List Node :=
  match nodes.find? (fun n => n.canon == norm p) with
  | some n => (n, nodes)
  | none => (mkNode norm p, mkNode norm p :: nodes)

structure Cmd where
  rule : Bytes
  outs : List Node
  ins : List Node
  nExp : Nat
  nImp : Nat
  command : Bytes
  description : Bytes
  depfile : Bytes
  /-- `DepsStyleKind`: 0 none, 1 gcc, 2 msvc -/
  depsStyle : Nat
  rspfile : Bytes
  rspContent : Bytes
  generator : Bool
  restat : Bool
  /-- the pool object the command points to: name and depth -/
  pool : Option (Bytes × Nat)
  deriving DecidableEq, Repr, Inhabited

structure St where
  cur : Frame
  parents : List Frame
  nodes : List Node
  cmds : List Cmd
  pools : List (Bytes × Nat)
  defaults : List Bytes
  errs : List Err
  deriving Repr, Inhabited

def strPhony : Bytes := [112, 104, 111, 110, 121]
def strConsole : Bytes := [99, 111, 110, 115, 111, 108, 101]
def strCommand : Bytes := [99, 111, 109, 109, 97, 110, 100]
def strDescription : Bytes := [100, 101, 115, 99, 114, 105, 112, 116, 105, 111, 110]
def strDeps : Bytes := [100, 101, 112, 115]
def strDepfile : Bytes := [100, 101, 112, 102, 105, 108, 101]
def strGenerator : Bytes := [103, 101, 110, 101, 114, 97, 116, 111, 114]
def strPool : Bytes := [112, 111, 111, 108]
def strRestat : Bytes := [114, 101, 115, 116, 97, 116]
def strRspfile : Bytes := [114, 115, 112, 102, 105, 108, 101]
def strRspfileContent : Bytes := [114, 115, 112, 102, 105, 108, 101, 95, 99, 111, 110, 116, 101, 110, 116]
def strDepth : Bytes := [100, 101, 112, 116, 104]
def strGcc : Bytes := [103, 99, 99]
def strMsvc : Bytes := [109, 115, 118, 99]

def phonyRule : RuleV := ⟨strPhony, []⟩

/-- `Manifest::Manifest()`: console pool of depth 1, phony rule in the root scope -/
def St.init : St :=
  { cur := { vars := [], rules := [(strPhony, phonyRule)] }, parents := [], nodes := [], cmds := [],
    pools := [(strConsole, 1)], defaults := [], errs := [] }

/-! ## Build-parameter lookup (ManifestLoader.cpp l.389-442) -/

/-- what `lookupBuildParameterImpl` can see of the build statement being finished -/
structure BuildCtx where
  /-- screen paths of the explicit inputs -/
  ins : List Bytes
  /-- screen paths of the outputs -/
  outs : List Bytes
  /-- `decl->getParameters()` (already evaluated) -/
  params : List (Bytes × Bytes)
  /-- `decl->getRule()->getParameters()` (raw text) -/
  rule : List (Bytes × Bytes)
  /-- `getCurrentScope().lookupBinding` -/
  scope : Bytes → Bytes

def joinWith (sep : Bytes) : List Bytes → Bytes
  | [] => []
  | [x] => x
  | x :: y :: r => x ++ sep ++ joinWith sep (y :: r)

/-- `lookupBuildParameterImpl`.  `fuel` bounds the recursion depth (the C++ has no bound);
`active` is the list of rule parameters under expansion (only consulted after fixes/F14). -/
def lookupParam (cfg : Cfg) (esc : Bytes → Bytes) (ctx : BuildCtx) (shellEscape : Bool) :
    Nat → List Bytes → Bytes → Out
  | 0, _, _ => ([], [.outOfFuel])
  | fuel + 1, active, name =>
    let q := fun p => if shellEscape then esc p else p
    if name = nameIn then (joinWith sepIn (ctx.ins.map q), [])
    else if name = nameInNewline then (joinWith sepInNewline (ctx.ins.map q), [])
    else if name = nameOut then (joinWith [32] (ctx.outs.map q), [])
    else match ctx.params.lookup name with
      | some v => (v, [])
      | none =>
        match ctx.rule.lookup name with
        | some text =>
          if cfg.guardRecursion && active.contains name then ([], [.cycle])
          else evalString (fun n => lookupParam cfg esc ctx shellEscape fuel (name :: active) n) text
        | none => (ctx.scope name, [])

/-- enough for every chain of distinct rule parameters plus the call that detects a repetition -/
def paramFuel (ctx : BuildCtx) : Nat := ctx.rule.length + 1

/-- the `shellEscapeInAndOut` expression of `lookupNamedBuildParameter` (extracted) -/
def shouldEscape (name : Bytes) : Bool :=
  if escapeListed then escapeNames.contains name else !escapeNames.contains name

/-- `lookupNamedBuildParameter` -/
def lookupNamed (cfg : Cfg) (esc : Bytes → Bytes) (ctx : BuildCtx) (name : Bytes) : Out :=
  lookupParam cfg esc ctx (shouldEscape name) (paramFuel ctx) [] name

/-! ## Parser actions -/

def scopeLookup (st : St) : Bytes → Out := fun n => (lookupVar (st.cur :: st.parents) n, [])

def evalInScope (st : St) (s : Bytes) : Out := evalString (scopeLookup st) s

/-- outputs / inputs of `actOnBeginBuildDecl` -/
def evalPaths (norm : Bytes → Bytes) (st : St) (emptyErr : Err) :
    List Bytes → List Node → List Node × List Node × List Err
  | [], nodes => ([], nodes, [])
  | t :: ts, nodes =>
    let pe := evalInScope st t
    let e2 := if pe.1.isEmpty then [emptyErr] else []
    let nn := findOrCreate norm nodes pe.1
    let rest := evalPaths norm st emptyErr ts nn.2
    (nn.1 :: rest.1, rest.2.1, pe.2 ++ e2 ++ rest.2.2)

/-- `actOnBuildBindingDecl`*: each value is evaluated in the file scope, newest entry first -/
def evalBindings (st : St) : List Binding → List (Bytes × Bytes) → List (Bytes × Bytes) × List Err
  | [], acc => (acc, [])
  | b :: bs, acc =>
    let ve := evalInScope st b.value
    let rest := evalBindings st bs ((b.name, ve.1) :: acc)
    (rest.1, ve.2 ++ rest.2)

/-- the strings `actOnEndBuildDecl` looks up -/
structure Looked where
  command : Bytes
  description : Bytes
  deps : Bytes
  depfile : Bytes
  pool : Bytes
  generator : Bytes
  restat : Bytes
  rspfile : Bytes
  /-- only looked up when `rspfile` is non-empty -/
  rspContent : Bytes
  deriving DecidableEq, Repr, Inhabited

def lookAll (cfg : Cfg) (esc : Bytes → Bytes) (ctx : BuildCtx) : Looked × List Err :=
  let c := lookupNamed cfg esc ctx strCommand
  let d := lookupNamed cfg esc ctx strDescription
  let dp := lookupNamed cfg esc ctx strDeps
  let df := lookupNamed cfg esc ctx strDepfile
  let p := lookupNamed cfg esc ctx strPool
  let g := lookupNamed cfg esc ctx strGenerator
  let r := lookupNamed cfg esc ctx strRestat
  let rf := lookupNamed cfg esc ctx strRspfile
  let rc := if rf.1.isEmpty then ([], []) else lookupNamed cfg esc ctx strRspfileContent
  (⟨c.1, d.1, dp.1, df.1, p.1, g.1, r.1, rf.1, rc.1⟩,
   c.2 ++ d.2 ++ dp.2 ++ df.2 ++ p.2 ++ g.2 ++ r.2 ++ rf.2 ++ rc.2)

/-- the attribute logic of `actOnEndBuildDecl` (deps style, depfile, pool, flags, rspfile) -/
def assemble (norm : Bytes → Bytes) (pools : List (Bytes × Nat)) (rule : Bytes) (outs ins : List Node)
    (nExp nImp : Nat) (l : Looked) : Cmd × List Err :=
  let styleE : Nat × List Err :=
    if l.deps = [] then (if l.depfile ≠ [] then 1 else 0, [])
    else if l.deps = strGcc then (1, [])
    else if l.deps = strMsvc then (2, [])
    else (0, [.badDeps])
  let dfE : Bytes × List Err :=
    if l.depfile ≠ [] then (if styleE.1 ≠ 1 then ([], [.depfileWithStyle]) else (l.depfile, []))
    else (if styleE.1 = 1 then ([], [.missingDepfile]) else ([], []))
  let poolE : Option (Bytes × Nat) × List Err :=
    if l.pool ≠ [] then
      match pools.lookup l.pool with
      | some d => (some (l.pool, d), [])
      | none => (none, [.unknownPool])
    else (none, [])
  let rsp : Bytes := if l.rspfile = [] then [] else norm l.rspfile
  ({ rule := rule, outs := outs, ins := ins, nExp := nExp, nImp := nImp, command := l.command,
     description := l.description, depfile := dfE.1, depsStyle := styleE.1, rspfile := rsp,
     rspContent := l.rspContent, generator := l.generator ≠ [], restat := l.restat ≠ [], pool := poolE.1 },
   styleE.2 ++ dfE.2 ++ poolE.2)

def isValidParameterName (n : Bytes) : Bool := ruleParamNames.contains n

/-- `actOnRuleBindingDecl`* -/
def ruleParams : List Binding → List (Bytes × Bytes) → List (Bytes × Bytes) × List Err
  | [], acc => (acc, [])
  | b :: bs, acc =>
    if isValidParameterName b.name then ruleParams bs ((b.name, b.value) :: acc)
    else
      let rest := ruleParams bs acc
      (rest.1, Err.ruleUnexpectedVar :: rest.2)

/-- `StringRef::getAsInteger(10, long)` on a digit string, then `intValue <= 0`, then the
`uint32_t` cast: `none` = "invalid depth" -/
def parseDepthGo : Bytes → Nat → Option Nat
  | [], acc => some acc
  | c :: r, acc => if 48 ≤ c ∧ c ≤ 57 then parseDepthGo r (acc * 10 + (c.toNat - 48)) else none

def parseDepth (s : Bytes) : Option Nat :=
  if s = [] then none else
  match parseDepthGo s 0 with
  | some v => if v = 0 ∨ v ≥ 2 ^ 63 then none else some (v % 2 ^ 32)
  | none => none

/-- `actOnPoolBindingDecl`*: returns the depth (0 = unset) -/
def poolParams (st : St) : List Binding → Nat → Nat × List Err
  | [], d => (d, [])
  | b :: bs, d =>
    let ve := evalInScope st b.value
    if b.name = strDepth then
      match parseDepth ve.1 with
      | some v => let rest := poolParams st bs v; (rest.1, ve.2 ++ rest.2)
      | none => let rest := poolParams st bs d; (rest.1, ve.2 ++ [.badDepth] ++ rest.2)
    else
      let rest := poolParams st bs d
      (rest.1, ve.2 ++ [.poolUnexpectedVar] ++ rest.2)

/-- `actOnDefaultDecl`: as found the raw token text is looked up; after fixes/F22 it is evaluated -/
def defaultsGo (cfg : Cfg) (norm : Bytes → Bytes) (st : St) : List Bytes → List Bytes × List Err
  | [] => ([], [])
  | t :: ts =>
    let pe : Out := if cfg.evalDefaults then evalInScope st t else (t, [])
    let rest := defaultsGo cfg norm st ts
    match st.nodes.find? (fun n => n.canon == norm pe.1) with
    | some n => (n.canon :: rest.1, pe.2 ++ rest.2)
    | none => (rest.1, pe.2 ++ Err.unknownTarget :: rest.2)

def addErrs (st : St) (es : List Err) : St := { st with errs := st.errs ++ es }

/-- One parser action group.  `recur` loads an included file's declarations (one level deeper). -/
def step (cfg : Cfg) (P : Params) (files : Files) (recur : List Decl → St → St) : Decl → St → St
  | .perr, st => addErrs st [.parse]
  | .binding b, st =>
    let ve := evalInScope st b.value
    addErrs { st with cur := { st.cur with vars := (b.name, ve.1) :: st.cur.vars } } ve.2
  | .default names, st =>
    let de := defaultsGo cfg P.norm st names
    addErrs { st with defaults := st.defaults ++ de.1 } de.2
  | .include path, st =>
    let pe := evalInScope st path
    let st := addErrs st pe.2
    match files.lookup (P.absPath pe.1) with
    | some ds => recur ds st
    | none => addErrs st [.readFile]
  | .subninja path, st =>
    let pe := evalInScope st path
    let st := addErrs st pe.2
    match files.lookup (P.absPath pe.1) with
    | some ds =>
      -- `Scope subninjaScope(&getCurrentScope())`: a fresh scope whose parent is the current one;
      -- dropped when the file has been parsed
      let st' := recur ds { st with cur := {}, parents := st.cur :: st.parents }
      { st' with cur := st.cur, parents := st.parents }
    | none => addErrs st [.readFile]
  | .rule name params, st =>
    let e1 := if (st.cur.rules.lookup name).isSome then [Err.duplicateRule] else []
    let pe := ruleParams params []
    let e3 := if (pe.1.lookup strCommand).isSome then [] else [Err.missingCommand]
    addErrs { st with cur := { st.cur with rules := (name, ⟨name, pe.1⟩) :: st.cur.rules } } (e1 ++ pe.2 ++ e3)
  | .pool name params, st =>
    let e1 := if (st.pools.lookup name).isSome then [Err.duplicatePool] else []
    let de := poolParams st params 0
    let e3 := if de.1 = 0 then [Err.missingDepth] else []
    addErrs { st with pools := (name, de.1) :: st.pools } (e1 ++ de.2 ++ e3)
  | .build rname outs ins nExp nImp params, st =>
    let re : RuleV × List Err :=
      match lookupRule cfg st.cur st.parents rname with
      | some r => (r, [])
      | none => (phonyRule, [.unknownRule])
    let oe := evalPaths P.norm st .emptyOutput outs st.nodes
    let ie := evalPaths P.norm st .emptyInput ins oe.2.1
    let be := evalBindings st params []
    let ctx : BuildCtx :=
      { ins := (ie.1.take nExp).map (·.screen), outs := oe.1.map (·.screen), params := be.1,
        rule := re.1.params, scope := fun n => lookupVar (st.cur :: st.parents) n }
    let le := lookAll cfg P.esc ctx
    let ce := assemble P.norm st.pools re.1.name oe.1 ie.1 nExp nImp le.1
    addErrs { st with nodes := ie.2.1, cmds := st.cmds ++ [ce.1] }
      (re.2 ++ oe.2.2 ++ ie.2.2 ++ be.2 ++ le.2 ++ ce.2)

/-- `Parser::parse` over one file's declarations; `fuel` bounds the include nesting -/
def loadDecls (cfg : Cfg) (P : Params) (files : Files) : Nat → List Decl → St → St
  | 0, _, st => addErrs st [.includeDepth]
  | fuel + 1, ds, st => ds.foldl (fun st d => step cfg P files (loadDecls cfg P files fuel) d st) st

/-- `ManifestLoader::load` -/
def load (cfg : Cfg) (P : Params) (files : Files) (fuel : Nat) (main : List Decl) : St :=
  loadDecls cfg P files fuel main St.init

/-! ## Concrete platform functions used by the driver (and by correspondence) -/

/-- `basic::shellEscaped` (ShellUtility.cpp, non-Windows branch) -/
def shellEscape (s : Bytes) : Bytes :=
  if s.all (fun c => shellWhitelist.contains c) then s
  else [39] ++ s.flatMap (fun c => if c = 39 then [39, 92, 39, 39] else [c]) ++ [39]

/-- `llvm::sys::fs::make_absolute(workingDirectory, path)` on POSIX -/
def makeAbsolute (wd p : Bytes) : Bytes :=
  match p with
  | 47 :: _ => p
  | _ => if wd.getLast? = some 47 then wd ++ p else wd ++ [47] ++ p   -- also for the empty path: "/w/"

/-- `llvm::sys::path::root_name(tmp).size()` on POSIX: `//net` prefixes only -/
def rootNameLength (t : Array UInt8) : Nat :=
  if t.size > 2 ∧ t[0]! = 47 ∧ t[1]! = 47 ∧ t[2]! ≠ 47 then
    match (t.toList.drop 2).findIdx? (· == 47) with
    | some i => 2 + i
    | none => t.size
  else 0

/-- the `for (dst_it -= 2; dst_it > begin; --dst_it)` scan of `normalize_path` -/
def backUp (out : Array UInt8) (b : Nat) : Nat → Nat → Nat
  | 0, d => d
  | fuel + 1, d => if d > b then (if out[d]! = 47 then d + 1 else backUp out b fuel (d - 1)) else d

/-- the main loop of `Manifest::normalize_path`; `src` reads the unmodified input (the writes never
overtake the reads), `out[0..dst)` is the prefix rewritten so far -/
def normLoop (t : Array UInt8) (b : Nat) : Nat → Nat → Array UInt8 → Array UInt8
  | 0, _, out => out
  | fuel + 1, src, out =>
    if src ≥ t.size then out else
    let c := t[src]!
    if c ≠ 47 then normLoop t b fuel (src + 1) (out.push c) else
    let out := if out.size = b ∨ out[out.size - 1]! ≠ 47 then out.push 47 else out
    if src + 1 ≥ t.size then out else
    if t[src + 1]! ≠ 46 then normLoop t b fuel (src + 1) out else
    if src + 2 ≥ t.size then normLoop t b fuel (src + 2) out else
    if t[src + 2]! ≠ 46 then
      if t[src + 2]! = 47 then normLoop t b fuel (src + 2) out
      else normLoop t b fuel (src + 2) (out.push t[src + 1]!)
    else
    if src + 3 < t.size ∧ t[src + 3]! ≠ 47 then normLoop t b fuel (src + 1) out else
    let out :=
      if out.size - b ≤ 1 then out
      else
        let d := backUp out b out.size (out.size - 2)
        let out := out.extract 0 d
        if d = b then out.push 47 else out
    if src + 3 < t.size then normLoop t b fuel (src + 3) out else out

/-- `Manifest::normalize_path(workingDirectory, path)` for an absolute working directory -/
def normalizePath (wd p : Bytes) : Bytes :=
  let t := (makeAbsolute wd p).toArray
  let b := rootNameLength t
  (normLoop t b (t.size + 1) b (t.extract 0 b)).toList

def Params.concrete (wd : Bytes) : Params :=
  { norm := normalizePath wd, esc := shellEscape, absPath := makeAbsolute wd }

end LLBuild.NinjaLoader
