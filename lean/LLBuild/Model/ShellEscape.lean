/-
C17 (lexical half): `basic::appendShellEscapedString` / `shellEscaped` (lib/Basic/ShellUtility.cpp,
non-Windows branch) and `Sh.words`, a model of POSIX `sh` word splitting and quote removal for exactly
the sub-language `shellEscaped` can emit.  CORE LEAN ONLY.

The whitelist, the quote character and the replacement emitted for an embedded quote come from
`Generated/ShellWhitelist.lean`.
-/
import LLBuild.Model.Bytes
import LLBuild.Generated.ShellWhitelist

namespace LLBuild.ShellEscape

/-- `string.find_first_not_of(whitelist)` -/
def findFirstNotOf (wl : Bytes) (s : Bytes) : Option Nat := s.findIdx? (fun c => !wl.contains c)

/-- `string.find_first_of(q, pos)` -/
def findFirstOfFrom (q : UInt8) (s : Bytes) (pos : Nat) : Option Nat :=
  ((s.drop pos).findIdx? (fun c => c == q)).map (· + pos)

/-- the `for (idx = singleQuotePos; idx < size; idx++)` loop -/
def escapeFrom (q : UInt8) (repl : Bytes) (s : Bytes) : Bytes :=
  s.flatMap (fun c => if c = q then repl else [c])

/-- `appendShellEscapedString(os, string)`: what is appended to `os` -/
def shellEscapedWith (wl : Bytes) (q : UInt8) (repl : Bytes) (s : Bytes) : Bytes :=
  match findFirstNotOf wl s with
  | none => s
  | some pos =>
    match findFirstOfFrom q s pos with
    | none => [q] ++ s ++ [q]
    | some sq => [q] ++ s.take sq ++ escapeFrom q repl (s.drop sq) ++ [q]

/-- `basic::shellEscaped` with the extracted constants -/
def shellEscaped (s : Bytes) : Bytes :=
  shellEscapedWith Generated.Shell.whitelist Generated.Shell.quote Generated.Shell.quoteReplacement s

/-- the whitelist before repair F4 (contains `#`) -/
def legacyWhitelist : Bytes :=
  [97, 98, 99, 100, 101, 102, 103, 104, 105, 106, 107, 108, 109, 110, 111, 112, 113, 114, 115, 116, 117, 118, 119, 120,
   121, 122, 65, 66, 67, 68, 69, 70, 71, 72, 73, 74, 75, 76, 77, 78, 79, 80, 81, 82, 83, 84, 85, 86, 87, 88, 89, 90,
   49, 50, 51, 52, 53, 54, 55, 56, 57, 48, 45, 95, 47, 58, 64, 35, 37, 43, 61, 46, 44]

/-! ### `Sh.words`: POSIX sh tokenisation of the sub-language (XCU 2.2 quoting, 2.3 token recognition)

Modelled: unquoted literal characters (letters, digits, `- _ / : @ % + = . ,`), blanks separating words,
single-quoted spans (everything up to the next `'` is literal; NUL cannot occur in a shell command),
backslash-quote `\'` outside quotes, and `#` at the beginning of a word starting a comment that runs to the
end of the line (`#` inside a word is literal).  Anything else (other unquoted metacharacters, an
unterminated quote, a backslash before another character, a newline after a comment) is outside the
sub-language: `none`. -/
namespace Sh

/-- bytes that are literal when they occur unquoted inside an argument word -/
def plain (c : UInt8) : Bool :=
  (decide (97 ≤ c) && decide (c ≤ 122)) || (decide (65 ≤ c) && decide (c ≤ 90)) || (decide (48 ≤ c) && decide (c ≤ 57)) ||
  [45, 95, 47, 58, 64, 37, 43, 61, 46, 44].contains c

inductive Q where
  | unq   -- not inside quotes
  | sq    -- inside '...'
  | bs    -- just after an unquoted backslash
  deriving DecidableEq, Repr

def push (cur : Option Bytes) (c : UInt8) : Option Bytes := some (cur.getD [] ++ [c])

/-- `cur` = the word being accumulated (`none` at a word boundary) -/
def go : Q → Option Bytes → Bytes → Option (List Bytes)
  | .unq, cur, [] => some cur.toList
  | .sq, _, [] => none
  | .bs, _, [] => none
  | .sq, cur, c :: rest =>
    if c = 39 then go .unq cur rest
    else if c = 0 then none
    else go .sq (push cur c) rest
  | .bs, cur, c :: rest =>
    if c = 39 then go .unq (push cur 39) rest else none
  | .unq, cur, c :: rest =>
    if c = 39 then go .sq (some (cur.getD [])) rest
    else if c = 92 then go .bs cur rest
    else if c = 32 ∨ c = 9 then
      match cur with
      | none => go .unq none rest
      | some w => (go .unq none rest).map (fun ws => w :: ws)
    else if c = 35 ∧ cur = none then (if rest.contains 10 then none else some [])
    else if plain c ∨ c = 35 then go .unq (push cur c) rest
    else none

/-- the fields `/bin/sh` passes to a command for the argument text `s` -/
def words (s : Bytes) : Option (List Bytes) := go .unq none s

end Sh

end LLBuild.ShellEscape
