/-
C15 — executable model of the BuildSystem wire formats.  CORE LEAN ONLY.

What is modelled (hand-written here, corresponded against the real classes by harness/vc15.cpp):
  * `BinaryEncoder::write(uintN_t)` / `BinaryDecoder::readN()`        (include/llbuild/Basic/BinaryCoding.h)
  * `StringList` packing, `encode`, decoding constructor, `getValues`  (include/llbuild/Basic/StringList.h)
  * `BinaryCodingTraits<FileInfo>` (+ FileTimestamp, FileChecksum), `BinaryCodingTraits<CommandSignature>`
  * `BuildValue::toData()` and `BuildValue(BinaryDecoder&)` followed by the public accessors
  * `BuildKey` private constructors (both layouts), `getKind`, and the accessors

What is *generated* from the source on every run (LLBuild/Generated/Codec.lean) and only interpreted here:
byte order of the integer writers/readers, leaf order and widths of the FileInfo traits, width of the
StringList size, BuildValue kinds/ordinals/predicates/step order/widths, BuildKey switch tables and layouts.

Conventions: integers travel as `Nat`; a writer of width `w` emits the low `8·w` bits.  Every read is
bounds-checked in the model and yields `Err.oob` where the C++ (compiled with NDEBUG, asserts off) would
read beyond the buffer.  Target is little-endian (the `memcpy` of `nameSize` in BuildKey is native-endian).
-/
import LLBuild.Model.Bytes
import LLBuild.Generated.Codec

namespace LLBuild.Codec
open LLBuild.Generated.Codec

inductive Err where
  /-- the C++ would read outside the buffer (`data[pos++]`, `readBytes`, `strlen` in `getValues`, `key.data()[..]`) -/
  | oob
  /-- the decoded kind tag / key identifier is not one of the enumerators (C++: an object of no known kind) -/
  | unknownKind (tag : Nat)
  deriving DecidableEq, Repr

/-! ## BinaryCoding.h -/

/-- bit shifts of the bytes emitted by `write(uintN_t)`, `N = 8·w` -/
def writeShifts : Nat → List Nat
  | 1 => [0]
  | 2 => write16Shifts
  | 4 => write32Shifts
  | 8 => write64Shifts
  | _ => []

def readShifts : Nat → List Nat
  | 1 => [0]
  | 2 => read16Shifts
  | 4 => read32Shifts
  | 8 => read64Shifts
  | _ => []

/-- `BinaryEncoder::write(uintN_t value)`: one byte `uint8_t(value >> s)` per shift -/
def wLE (w v : Nat) : Bytes := (writeShifts w).map fun s => UInt8.ofNat (v >>> s)

/-- `result |= uintN_t(byte) << s` over disjoint shifts, as a sum -/
def combine : List UInt8 → List Nat → Nat
  | b :: bs, s :: ss => (b.toNat <<< s) + combine bs ss
  | _, _ => 0

/-- `BinaryDecoder::readN()` with the bounds check the C++ omits -/
def rLE (w : Nat) (bs : Bytes) : Except Err (Nat × Bytes) :=
  let sh := readShifts w
  if bs.length < sh.length then .error .oob
  else .ok (combine (bs.take sh.length) sh, bs.drop sh.length)

/-- `memcpy(&buf[pos], &v, w)` of an unsigned `w`-byte integer on a little-endian target (BuildKey's `nameSize`);
deliberately independent of the extracted BinaryCoding byte order -/
def nativeShifts (w : Nat) : List Nat := (List.range w).map (8 * ·)

def wNative (w v : Nat) : Bytes := (nativeShifts w).map fun s => UInt8.ofNat (v >>> s)

/-- `memcpy(&v, &buf[pos], w)` with the bounds check the C++ omits -/
def rNative (w : Nat) (bs : Bytes) : Except Err (Nat × Bytes) :=
  if bs.length < w then .error .oob
  else .ok (combine (bs.take w) (nativeShifts w), bs.drop w)

/-- `BinaryDecoder::readBytes(count, value)` -/
def readBytes (n : Nat) (bs : Bytes) : Except Err (Bytes × Bytes) :=
  if bs.length < n then .error .oob else .ok (bs.take n, bs.drop n)

/-- `for (i = 0; i != n; ++i) coder.read(x[i])` -/
def readN {α : Type} (rd : Bytes → Except Err (α × Bytes)) : Nat → Bytes → Except Err (List α × Bytes)
  | 0, bs => .ok ([], bs)
  | n + 1, bs =>
    match rd bs with
    | .error e => .error e
    | .ok (a, bs') =>
      match readN rd n bs' with
      | .error e => .error e
      | .ok (as, bs'') => .ok (a :: as, bs'')

/-! ## StringList.h -/

/-- the packing constructors: every value followed by the terminator -/
def packStrings (vs : List Bytes) : Bytes := vs.flatMap fun s => s ++ [stringListTerminator]

/-- `StringList::getValues()` on the `size` packed bytes; `none` = the last value is not terminated inside
the buffer, i.e. `StringRef(&contents[i])` runs `strlen` beyond `size` -/
def unpackStrings : Bytes → Option (List Bytes)
  | [] => some []
  | b :: bs =>
    match unpackStrings bs with
    | none => none
    | some r =>
      if b = stringListTerminator then some ([] :: r)
      else match r with
        | [] => none
        | s :: r' => some ((b :: s) :: r')

/-- `StringList::encode`: `write(size); writeBytes(contents, size)` -/
def encodeStringList (vs : List Bytes) : Bytes :=
  let p := packStrings vs
  wLE stringListSizeWidth p.length ++ p

/-- `StringList(BinaryDecoder&)` followed by `getValues()` -/
def decodeStringList (bs : Bytes) : Except Err (List Bytes × Bytes) :=
  match rLE stringListSizeWidth bs with
  | .error e => .error e
  | .ok (n, rest) =>
    match readBytes n rest with
    | .error e => .error e
    | .ok (p, rest') =>
      match unpackStrings p with
      | none => .error .oob
      | some vs => .ok (vs, rest')

/-- what the packing constructors `assert`: no value contains the terminator -/
def nulFree (s : Bytes) : Bool := !s.contains stringListTerminator

/-! ## FileInfo.h -/

structure FileInfo where
  device : UInt64
  inode : UInt64
  mode : UInt64
  size : UInt64
  modTime_seconds : UInt64
  modTime_nanoseconds : UInt64
  checksum_bytes : Bytes
  deriving DecidableEq, Repr

/-- a default-constructed `FileInfo` as far as decoding can tell (every field is overwritten) -/
def FileInfo.zero : FileInfo := ⟨0, 0, 0, 0, 0, 0, []⟩

/-- `uint8_t bytes[32]` is a fixed-size array -/
def FileInfo.WF (fi : FileInfo) : Bool := fi.checksum_bytes.length == 32

def FileInfo.getScalar (fi : FileInfo) : FIField → Nat
  | .device => fi.device.toNat
  | .inode => fi.inode.toNat
  | .mode => fi.mode.toNat
  | .size => fi.size.toNat
  | .modTime_seconds => fi.modTime_seconds.toNat
  | .modTime_nanoseconds => fi.modTime_nanoseconds.toNat
  | .checksum_bytes => 0

def FileInfo.setScalar (fi : FileInfo) (f : FIField) (v : Nat) : FileInfo :=
  match f with
  | .device => { fi with device := UInt64.ofNat v }
  | .inode => { fi with inode := UInt64.ofNat v }
  | .mode => { fi with mode := UInt64.ofNat v }
  | .size => { fi with size := UInt64.ofNat v }
  | .modTime_seconds => { fi with modTime_seconds := UInt64.ofNat v }
  | .modTime_nanoseconds => { fi with modTime_nanoseconds := UInt64.ofNat v }
  | .checksum_bytes => fi

def FileInfo.getArray (fi : FileInfo) : FIField → List Nat
  | .checksum_bytes => fi.checksum_bytes.map (·.toNat)
  | _ => []

def FileInfo.setArray (fi : FileInfo) (f : FIField) (vs : List Nat) : FileInfo :=
  match f with
  | .checksum_bytes => { fi with checksum_bytes := vs.map UInt8.ofNat }
  | _ => fi

def FileInfo.encodeLeaf (fi : FileInfo) : FILeaf → Bytes
  | .scalar f w => wLE w (fi.getScalar f)
  | .array f n w => ((fi.getArray f).take n).flatMap (wLE w)

/-- `BinaryCodingTraits<FileInfo>::encode` -/
def FileInfo.encode (fi : FileInfo) : Bytes := fileInfoEncodeLayout.flatMap fi.encodeLeaf

def FileInfo.decodeLeaf (fi : FileInfo) (l : FILeaf) (bs : Bytes) : Except Err (FileInfo × Bytes) :=
  match l with
  | .scalar f w =>
    match rLE w bs with
    | .error e => .error e
    | .ok (v, rest) => .ok (fi.setScalar f v, rest)
  | .array f n w =>
    match readN (rLE w) n bs with
    | .error e => .error e
    | .ok (vs, rest) => .ok (fi.setArray f vs, rest)

def FileInfo.decodeLeaves : List FILeaf → FileInfo → Bytes → Except Err (FileInfo × Bytes)
  | [], fi, bs => .ok (fi, bs)
  | l :: ls, fi, bs =>
    match fi.decodeLeaf l bs with
    | .error e => .error e
    | .ok (fi', rest) => decodeLeaves ls fi' rest

/-- `BinaryCodingTraits<FileInfo>::decode` -/
def FileInfo.decode (bs : Bytes) : Except Err (FileInfo × Bytes) :=
  FileInfo.decodeLeaves fileInfoDecodeLayout FileInfo.zero bs

/-- the value of a field as compared by `operator==` -/
def FileInfo.fieldBytes (fi : FileInfo) : FIField → Bytes
  | .checksum_bytes => fi.checksum_bytes
  | f => wLE 8 (fi.getScalar f)

/-- `FileInfo::isMissing` -/
def FileInfo.cppIsMissing (a : FileInfo) : Bool := fileInfoMissingFields.all fun f => a.fieldBytes f == FileInfo.zero.fieldBytes f

/-- `FileInfo::operator==` -/
def FileInfo.cppEq (a b : FileInfo) : Bool :=
  (!fileInfoEqChecksMissing || a.cppIsMissing == b.cppIsMissing) &&
  fileInfoEqFields.all fun f => a.fieldBytes f == b.fieldBytes f

/-! ## BuildValue.h -/

def hasSignature (k : VKind) : Bool := kindHasSignatureKinds.contains k
def hasOutputInfo (k : VKind) : Bool := kindHasOutputInfoKinds.contains k
def hasStringList (k : VKind) : Bool := kindHasStringListKinds.contains k

def guardHolds : VGuard → VKind → Bool
  | .always, _ => true
  | .hasSignature, k => hasSignature k
  | .hasOutputInfo, k => hasOutputInfo k
  | .hasStringList, k => hasStringList k

/-- A `BuildValue` as its public constructors build it and its public accessors show it. -/
structure Value where
  kind : VKind
  signature : UInt64
  outputs : List FileInfo
  strings : List Bytes
  deriving DecidableEq, Repr

def Value.empty (k : VKind) : Value := ⟨k, 0, [], []⟩

/-- What the `make*` functions and constructors guarantee or `assert` (asserts are compiled out):
fields the kind does not carry keep their defaults; a kind with output infos has at least one and fewer than
2^32 (`numOutputInfos` is a `uint32_t`); checksums are 32 bytes; string values contain no NUL and their packed
size fits the 64-bit size field. -/
def Value.WF (v : Value) : Bool :=
  (hasSignature v.kind || v.signature == 0) &&
  (if hasOutputInfo v.kind then decide (1 ≤ v.outputs.length) && decide (v.outputs.length < 2 ^ 32) else v.outputs.isEmpty) &&
  v.outputs.all FileInfo.WF &&
  (hasStringList v.kind || v.strings.isEmpty) &&
  v.strings.all nulFree &&
  decide ((packStrings v.strings).length < 2 ^ 64)

def Value.writeAction (v : Value) : VAction → Bytes
  | .kind => wLE kindTagWriteWidth v.kind.ord
  | .signature => wLE commandSignatureWidth v.signature.toNat
  | .outputInfos => wLE numOutputInfosWidth v.outputs.length ++ v.outputs.flatMap FileInfo.encode
  | .stringList => encodeStringList v.strings

/-- `BuildValue::toData()` -/
def Value.encode (v : Value) : Bytes :=
  toDataSteps.flatMap fun (g, a) => if guardHolds g v.kind then v.writeAction a else []

def Value.readAction (v : Value) (a : VAction) (bs : Bytes) : Except Err (Value × Bytes) :=
  match a with
  | .kind =>
    match rLE kindTagReadWidth bs with
    | .error e => .error e
    | .ok (t, rest) =>
      match VKind.ofOrd? t with
      | none => .error (.unknownKind t)
      | some k => .ok ({ v with kind := k }, rest)
  | .signature =>
    match rLE commandSignatureWidth bs with
    | .error e => .error e
    | .ok (s, rest) => .ok ({ v with signature := UInt64.ofNat s }, rest)
  | .outputInfos =>
    match rLE numOutputInfosWidth bs with
    | .error e => .error e
    | .ok (n, rest) =>
      match readN FileInfo.decode n rest with
      | .error e => .error e
      | .ok (infos, rest') => .ok ({ v with outputs := infos }, rest')
  | .stringList =>
    match decodeStringList bs with
    | .error e => .error e
    | .ok (vs, rest) => .ok ({ v with strings := vs }, rest)

def Value.runSteps : List (VGuard × VAction) → Value → Bytes → Except Err (Value × Bytes)
  | [], v, bs => .ok (v, bs)
  | (g, a) :: rest, v, bs =>
    if guardHolds g v.kind then
      match v.readAction a bs with
      | .error e => .error e
      | .ok (v', bs') => runSteps rest v' bs'
    else runSteps rest v bs

/-- `BuildValue::fromData` followed by the accessors; also returns the bytes `finish()` would find unread
(its `assert(isEmpty())` is compiled out). -/
def Value.decodeRest (bs : Bytes) : Except Err (Value × Bytes) :=
  if bs.isEmpty then .ok (Value.empty emptyDecodesAs, [])
  else Value.runSteps fromDataSteps (Value.empty emptyDecodesAs) bs

def Value.decode (bs : Bytes) : Except Err Value :=
  match Value.decodeRest bs with
  | .error e => .error e
  | .ok (v, _) => .ok v

/-! ## BuildKey.h -/

inductive Payload where
  | none
  | raw (b : Bytes)
  | strings (vs : List Bytes)
  deriving DecidableEq, Repr

/-- A `BuildKey` as its `make*` functions build it. -/
structure Key where
  kind : KKind
  name : Bytes
  payload : Payload
  deriving DecidableEq, Repr

/-- `encoder.write(data)`: raw bytes for a `StringRef`, `StringList::encode` for a `StringList` -/
def Payload.encode : Payload → Bytes
  | .none => []
  | .raw b => b
  | .strings vs => encodeStringList vs

/-- Preconditions of the `make*` functions: the payload has the type the kind's `make*` takes; name and
encoded payload are shorter than 2^32 (`uint32_t nameSize`, `dataSize`); filter strings are NUL-free. -/
def Key.WF (k : Key) : Bool :=
  (match keyLayout k.kind, k.payload with
   | .nameOnly, .none => true
   | .nameBytes, .raw _ => true
   | .nameStringList, .strings vs => vs.all nulFree
   | _, _ => false) &&
  decide (k.name.length < 2 ^ 32) && decide (k.payload.encode.length < 2 ^ 32)

/-- the private constructors `BuildKey(char, StringRef)` and `BuildKey(char, StringRef, const T&)` -/
def Key.encode (k : Key) : Bytes :=
  match keyLayout k.kind with
  | .nameOnly => identifierForKind k.kind :: k.name
  | .nameBytes | .nameStringList =>
    let p := k.payload.encode
    let nameSize := k.name.length % 2 ^ 32
    let dataSize := p.length % 2 ^ 32
    identifierForKind k.kind :: (wNative keyNameSizeWidth nameSize ++ k.name.take nameSize ++ p.take dataSize)
  | .noMake => []

/-- `getKind()`: `kindForIdentifier(key.data()[0])`; an empty `std::string` has `data()[0] == '\0'` -/
def keyKind (key : Bytes) : KKind := kindForIdentifier (key.headD 0)

/-- `StringRef(key.data()+1, key.size()-1)` -/
def keySimpleName (key : Bytes) : Except Err Bytes :=
  match key with
  | [] => .error .oob
  | _ :: t => .ok t

/-- `(nameSize, bytes after the length field)` -/
def keyNameSize (key : Bytes) : Except Err (Nat × Bytes) :=
  match key with
  | [] => .error .oob
  | _ :: t => rNative keyNameSizeWidth t

/-- `getCustomTaskName` / `getDirectoryTreeSignaturePath` / `getFilteredDirectoryPath` -/
def keyName (key : Bytes) : Except Err Bytes :=
  match keyNameSize key with
  | .error e => .error e
  | .ok (n, r) => if r.length < n then .error .oob else .ok (r.take n)

/-- `getCustomTaskData` / `getContentExclusionPatterns` -/
def keyData (key : Bytes) : Except Err Bytes :=
  match keyNameSize key with
  | .error e => .error e
  | .ok (n, r) => if r.length < n then .error .oob else .ok (r.drop n)

/-- `getContentExclusionPatternsAsStringList().getValues()` -/
def keyFilters (key : Bytes) : Except Err (List Bytes) :=
  match keyData key with
  | .error e => .error e
  | .ok d =>
    match decodeStringList d with
    | .error e => .error e
    | .ok (vs, _) => .ok vs

/-- `BuildKey::fromData` followed by `getKind()` and the accessors of that kind -/
def Key.decode (key : Bytes) : Except Err Key :=
  let k := keyKind key
  match keyLayout k with
  | .nameOnly =>
    match keySimpleName key with
    | .error e => .error e
    | .ok n => .ok ⟨k, n, .none⟩
  | .nameBytes =>
    match keyName key, keyData key with
    | .ok n, .ok d => .ok ⟨k, n, .raw d⟩
    | .error e, _ => .error e
    | _, .error e => .error e
  | .nameStringList =>
    match keyName key, keyFilters key with
    | .ok n, .ok vs => .ok ⟨k, n, .strings vs⟩
    | .error e, _ => .error e
    | _, .error e => .error e
  | .noMake => .error (.unknownKind (key.headD 0).toNat)

end LLBuild.Codec
