/-
C11 / C19 model: index-level transliteration of lib/Core/MakefileDepsParser.cpp
(`skipWhitespaceAndComments`, `skipNonNewlineWhitespace`, `skipToEndOfLine`, `lexWord`,
`MakefileDepsParser::parse`), the documented escaping (`escape`, `mkDepsFile`), and the decision
`ShellCommand::processDiscoveredDependencies` takes on the action stream.  CORE LEAN ONLY.

The buffer is a `List UInt8`, `cur`/`end` are `Nat` indices (`end = inp.length`).  EVERY read of
`*cur` / `cur[k]` goes through `peek`, and a read at an index that is not inside the buffer makes the
whole run end in `.error idx` ("out-of-bounds read at idx").  `cur != end` is modelled as `pos ≠ length`
(a pointer inequality, exactly as in the source: a cursor that stepped over `end` keeps going).
Character classes and the three repaired spots (F11, F18; F12 in DepInfo.lean) come from
Generated/DepsTables.lean, so the model follows the working tree.

Termination proofs are real (`termination_by inp.length - pos`); the facts they need
(each helper returns a cursor ≥ its argument, `skipToEndOfLine` makes progress) are proved right here.
-/
import LLBuild.Model.Bytes
import LLBuild.Generated.DepsTables

set_option linter.unusedVariables false

namespace LLBuild.MakeDeps

/-- `.ok a`, or `.error idx` = the code read the byte at `idx`, which is outside the buffer. -/
abbrev R := Except Nat

deriving instance DecidableEq for Except

/-- The one and only way the model reads the input. -/
def peek (inp : Bytes) (i : Nat) : Option UInt8 := inp[i]?

theorem peek_lt {inp : Bytes} {i : Nat} {c : UInt8} (h : peek inp i = some c) : i < inp.length := by
  unfold peek at h
  exact (List.getElem?_eq_some_iff.1 h).1

theorem peek_of_lt {inp : Bytes} {i : Nat} (h : i < inp.length) : peek inp i = some inp[i] := by
  unfold peek
  exact List.getElem?_eq_getElem h

def mapOk {α β : Type} (f : α → β) : R α → R β
  | .ok a => .ok (f a)
  | .error e => .error e

/-- prepend already produced bytes to the result of the rest of a word -/
def prepend (pre : Bytes) (r : R (Nat × Bytes)) : R (Nat × Bytes) := mapOk (fun x => (x.1, pre ++ x.2)) r

def isWordChar (c : UInt8) : Bool := !(Generated.mdNonWordChars.contains c)
def isEscLiteral (c : UInt8) : Bool := Generated.mdEscapeLiteral.contains c
def isWsAll (c : UInt8) : Bool := Generated.mdWhitespaceAll.contains c
def isWsNonNewline (c : UInt8) : Bool := Generated.mdWhitespaceNonNewline.contains c

/-- `cur + 1 != end && cur[1] == b` (short-circuit: `cur[1]` is read only when `cur + 1 != end`). -/
def nextIs (inp : Bytes) (pos : Nat) (b : UInt8) : R Bool :=
  if pos + 1 = inp.length then .ok false
  else match peek inp (pos + 1) with
    | none => .error (pos + 1)
    | some d => .ok (d == b)

/-- `cur + 2 < end && cur[1] == '\r' && cur[2] == '\n'`. -/
def crlfFollows (inp : Bytes) (pos : Nat) : R Bool :=
  if pos + 2 < inp.length then
    match peek inp (pos + 1) with
    | none => .error (pos + 1)
    | some d =>
      if d == 13 then
        match peek inp (pos + 2) with
        | none => .error (pos + 2)
        | some e => .ok (e == 10)
      else .ok false
  else .ok false

/-- the loop condition's second half, `cur[1] OP '\n'` with OP from the source (`!=` when repaired). -/
def commentCont (d : UInt8) : Bool := if Generated.mdCommentLoopNe then d != 10 else d == 10

/-- `while (cur + 1 != end && cur[1] OP '\n') ++cur;` — returns the final `cur`. -/
def skipComment (inp : Bytes) (pos : Nat) : R Nat :=
  if pos + 1 = inp.length then .ok pos
  else match h : peek inp (pos + 1) with
    | none => .error (pos + 1)
    | some d => if commentCont d then skipComment inp (pos + 1) else .ok pos
termination_by inp.length - pos
decreasing_by have := peek_lt h; omega

theorem skipComment_ge {inp : Bytes} {pos p : Nat} (h : skipComment inp pos = .ok p) : pos ≤ p := by
  fun_induction skipComment inp pos with
  | case1 pos _ => cases h; omega
  | case2 pos _ _ => cases h
  | case3 pos _ d _ _ ih => have := ih h; omega
  | case4 pos _ d _ _ => cases h; omega

/-- `skipWhitespaceAndComments(cur, end)`. -/
def skipWsC (inp : Bytes) (pos : Nat) : R Nat :=
  if pos = inp.length then .ok pos
  else match h : peek inp pos with
    | none => .error pos
    | some c =>
      if c == Generated.mdCommentChar then
        match h2 : skipComment inp pos with
        | .error e => .error e
        | .ok p => skipWsC inp (p + 1)
      else if isWsAll c then skipWsC inp (pos + 1)
      else .ok pos
termination_by inp.length - pos
decreasing_by
  · have := peek_lt h; have := skipComment_ge h2; omega
  · have := peek_lt h; omega

/-- `skipNonNewlineWhitespace(cur, end)`. -/
def skipNNW (inp : Bytes) (pos : Nat) : R Nat :=
  if pos = inp.length then .ok pos
  else match h : peek inp pos with
    | none => .error pos
    | some c =>
      if isWsNonNewline c then skipNNW inp (pos + 1)
      else if c == 92 then
        match nextIs inp pos 10 with
        | .error e => .error e
        | .ok true => skipNNW inp (pos + 2)
        | .ok false =>
          match crlfFollows inp pos with
          | .error e => .error e
          | .ok true => skipNNW inp (pos + 3)
          | .ok false => .ok pos
      else .ok pos
termination_by inp.length - pos
decreasing_by all_goals (have := peek_lt h; omega)

/-- `skipToEndOfLine(cur, end)`. -/
def skipEOL (inp : Bytes) (pos : Nat) : R Nat :=
  if pos = inp.length then .ok pos
  else match h : peek inp pos with
    | none => .error pos
    | some c => if c == 10 then .ok (pos + 1) else skipEOL inp (pos + 1)
termination_by inp.length - pos
decreasing_by have := peek_lt h; omega

/-- `lexWord(cur, end, unescapedWord)`: returns the final `cur` and the bytes pushed onto `unescapedWord`. -/
def lexWord (inp : Bytes) (pos : Nat) : R (Nat × Bytes) :=
  if pos = inp.length then .ok (pos, [])
  else match h : peek inp pos with
    | none => .error pos
    | some c =>
      if c == 92 then
        -- a line continuation ends the word
        match nextIs inp pos 10 with
        | .error e => .error e
        | .ok true => .ok (pos, [])
        | .ok false =>
          -- `++cur;` then (repaired tree) `if (cur == end) { push '\\'; break; }`
          if Generated.mdTrailingBackslashGuard && pos + 1 == inp.length then .ok (pos + 1, [92])
          else match peek inp (pos + 1) with      -- `int c = *cur;`
            | none => .error (pos + 1)
            | some d => prepend (if isEscLiteral d then [d] else [92, d]) (lexWord inp (pos + 2))
      else if c == 36 then
        match nextIs inp pos 36 with
        | .error e => .error e
        | .ok true => prepend [36] (lexWord inp (pos + 2))
        | .ok false => if isWordChar c then prepend [c] (lexWord inp (pos + 1)) else .ok (pos, [])
      else if isWordChar c then prepend [c] (lexWord inp (pos + 1))
      else .ok (pos, [])
termination_by inp.length - pos
decreasing_by all_goals (have := peek_lt h; omega)

theorem prepend_ok {pre : Bytes} {r : R (Nat × Bytes)} {p : Nat} {w : Bytes} (h : prepend pre r = .ok (p, w)) :
    ∃ w', r = .ok (p, w') ∧ w = pre ++ w' := by
  cases r with
  | error e => simp [prepend, mapOk] at h
  | ok x => simp [prepend, mapOk] at h; exact ⟨x.2, by rw [← h.1], h.2.symm⟩

theorem lexWord_ge {inp : Bytes} {pos : Nat} {r : Nat × Bytes} (h : lexWord inp pos = .ok r) : pos ≤ r.1 := by
  fun_induction lexWord inp pos generalizing r <;> try (first | (cases h; done) | (cases h; simp; done))
  all_goals
    rename_i ih
    obtain ⟨p, w⟩ := r
    obtain ⟨w', hw, _⟩ := prepend_ok h
    have := ih hw
    simp at this ⊢
    omega

/-- a successful non-empty-range call has read `inp[pos]`: the cursor was inside the buffer. -/
theorem lexWord_lt {inp : Bytes} {pos : Nat} {r : Nat × Bytes} (h : lexWord inp pos = .ok r)
    (hne : pos ≠ inp.length) : pos < inp.length := by
  unfold lexWord at h
  simp only [hne, ↓reduceIte] at h
  split at h
  · cases h
  · rename_i c hc; exact peek_lt hc

theorem skipNNW_ge {inp : Bytes} {pos p : Nat} (h : skipNNW inp pos = .ok p) : pos ≤ p := by
  fun_induction skipNNW inp pos <;> try (first | (cases h; done) | (cases h; omega))
  all_goals
    rename_i ih
    have := ih h
    omega

theorem skipEOL_ge {inp : Bytes} {pos p : Nat} (h : skipEOL inp pos = .ok p) : pos ≤ p := by
  fun_induction skipEOL inp pos <;> try (first | (cases h; done) | (cases h; omega))
  rename_i ih
  have := ih h
  omega

theorem skipEOL_gt {inp : Bytes} {pos p : Nat} (h : skipEOL inp pos = .ok p) (hne : pos ≠ inp.length) : pos < p := by
  unfold skipEOL at h
  simp only [hne, ↓reduceIte] at h
  split at h
  · cases h
  · split at h
    · cases h; omega
    · have := skipEOL_ge h; omega

theorem skipWsC_ge {inp : Bytes} {pos p : Nat} (h : skipWsC inp pos = .ok p) : pos ≤ p := by
  fun_induction skipWsC inp pos <;> try (first | (cases h; done) | (cases h; omega))
  · rename_i hsc ih
    have := ih h
    have := skipComment_ge hsc
    omega
  · rename_i ih
    have := ih h
    omega

/-- `while (cur != end && *cur == ':') { push ':'; ++cur; lexWord(...); }` -/
def lexColons (inp : Bytes) (pos : Nat) : R (Nat × Bytes) :=
  if pos = inp.length then .ok (pos, [])
  else match h : peek inp pos with
    | none => .error pos
    | some c =>
      if c == 58 then
        match h2 : lexWord inp (pos + 1) with
        | .error e => .error e
        | .ok r => prepend (58 :: r.2) (lexColons inp r.1)
      else .ok (pos, [])
termination_by inp.length - pos
decreasing_by have := peek_lt h; have := lexWord_ge h2; omega

theorem lexColons_ge {inp : Bytes} {pos : Nat} {r : Nat × Bytes} (h : lexColons inp pos = .ok r) : pos ≤ r.1 := by
  fun_induction lexColons inp pos generalizing r <;> try (first | (cases h; done) | (cases h; simp; done))
  rename_i hlw ih
  obtain ⟨p, w⟩ := r
  obtain ⟨w', hw, _⟩ := prepend_ok h
  have := ih hw
  have := lexWord_ge hlw
  simp at *
  omega

inductive ErrKind
  | unexpectedInFile        -- "unexpected character in file"
  | missingColon            -- "missing ':' following rule"
  | unexpectedInPrereqs     -- "unexpected character in prerequisites"
  deriving DecidableEq, Repr

inductive Action
  | ruleStart (raw unescaped : Bytes)
  | dep (raw unescaped : Bytes)
  | ruleEnd
  | error (kind : ErrKind) (pos : Nat)
  deriving DecidableEq, Repr

/-- `StringRef(wordStart, cur - wordStart)` -/
def slice (inp : Bytes) (a b : Nat) : Bytes := (inp.drop a).take (b - a)

def consActs (pre : List Action) (r : R (Nat × List Action)) : R (Nat × List Action) :=
  mapOk (fun x => (x.1, pre ++ x.2)) r

theorem consActs_ok {pre : List Action} {r : R (Nat × List Action)} {p : Nat} {l : List Action}
    (h : consActs pre r = .ok (p, l)) : ∃ l', r = .ok (p, l') ∧ l = pre ++ l' := by
  cases r with
  | error e => simp [consActs, mapOk] at h
  | ok x => simp [consActs, mapOk] at h; exact ⟨x.2, by rw [← h.1], h.2.symm⟩

/-- The inner loop of `parse`: "Consume dependency words until we reach the end of a line."
Returns the cursor at the `break` and the actions emitted. -/
def parseDeps (inp : Bytes) (pos : Nat) : R (Nat × List Action) :=
  if pos = inp.length then .ok (pos, [])
  else match h1 : skipNNW inp pos with
    | .error e => .error e
    | .ok p1 =>
      if p1 = inp.length then .ok (p1, [])
      else match h2 : peek inp p1 with
        | none => .error p1
        | some c =>
          if c == 10 then .ok (p1, [])
          else match h3 : lexWord inp p1 with
            | .error e => .error e
            | .ok r =>
              if r.1 = p1 then
                match h4 : skipEOL inp p1 with
                | .error e => .error e
                | .ok p3 => consActs [.error .unexpectedInPrereqs p1] (parseDeps inp p3)
              else
                match h5 : lexColons inp r.1 with
                | .error e => .error e
                | .ok r2 => consActs [.dep (slice inp p1 r2.1) (r.2 ++ r2.2)] (parseDeps inp r2.1)
termination_by inp.length - pos
decreasing_by
  · have := peek_lt h2; have := skipNNW_ge h1; have := skipEOL_gt h4 (by omega); omega
  · have := peek_lt h2; have := skipNNW_ge h1; have := lexWord_ge h3; have := lexColons_ge h5; omega

theorem parseDeps_ge {inp : Bytes} {pos : Nat} {r : Nat × List Action} (h : parseDeps inp pos = .ok r) : pos ≤ r.1 := by
  fun_induction parseDeps inp pos generalizing r <;> try (first | (cases h; done) | (cases h; simp; done))
  · cases h; have := skipNNW_ge ‹skipNNW inp _ = .ok _›; simpa using this
  · cases h; have := skipNNW_ge ‹skipNNW inp _ = .ok _›; simpa using this
  · rename_i ih
    obtain ⟨p, l⟩ := r
    obtain ⟨l', hl, _⟩ := consActs_ok h
    have := ih hl
    have := skipNNW_ge ‹skipNNW inp _ = .ok _›
    have := skipEOL_ge ‹skipEOL inp _ = .ok _›
    simp at *; omega
  · rename_i ih
    obtain ⟨p, l⟩ := r
    obtain ⟨l', hl', _⟩ := consActs_ok h
    have := ih hl'
    have := skipNNW_ge ‹skipNNW inp _ = .ok _›
    have := lexWord_ge ‹lexWord inp _ = .ok _›
    have := lexColons_ge ‹lexColons inp _ = .ok _›
    simp at *; omega

/-- `cur == end || *cur != ':'` negated: there is a colon at `cur`. -/
def colonAt (inp : Bytes) (pos : Nat) : R Bool :=
  if pos = inp.length then .ok false
  else match peek inp pos with
    | none => .error pos
    | some c => .ok (c == 58)

/-- The outer loop of `MakefileDepsParser::parse` from cursor `pos`. -/
def parseRules (ign : Bool) (inp : Bytes) (pos : Nat) : R (List Action) :=
  if pos = inp.length then .ok []
  else match h1 : skipWsC inp pos with
    | .error e => .error e
    | .ok p1 =>
      if p1 = inp.length then .ok []
      else match h2 : lexWord inp p1 with
        | .error e => .error e
        | .ok r =>
          if r.1 = p1 then
            match h3 : skipEOL inp p1 with
            | .error e => .error e
            | .ok p3 => mapOk ([.error .unexpectedInFile p1] ++ ·) (parseRules ign inp p3)
          else
            match h4 : skipNNW inp r.1 with
            | .error e => .error e
            | .ok p3 =>
              match colonAt inp p3 with
              | .error e => .error e
              | .ok false =>
                match h5 : skipEOL inp p3 with
                | .error e => .error e
                | .ok p4 =>
                  mapOk ([.ruleStart (slice inp p1 r.1) r.2, .error .missingColon p3, .ruleEnd] ++ ·) (parseRules ign inp p4)
              | .ok true =>
                match h6 : parseDeps inp (p3 + 1) with
                | .error e => .error e
                | .ok d =>
                  if ign then .ok (.ruleStart (slice inp p1 r.1) r.2 :: d.2 ++ [.ruleEnd])
                  else mapOk ((.ruleStart (slice inp p1 r.1) r.2 :: d.2 ++ [.ruleEnd]) ++ ·) (parseRules ign inp d.1)
termination_by inp.length - pos
decreasing_by
  · have := skipWsC_ge h1; have := lexWord_lt h2 (by omega); have := skipEOL_gt h3 (by omega); omega
  · have := skipWsC_ge h1; have := lexWord_lt h2 (by omega); have := lexWord_ge h2
    have := skipNNW_ge h4; have := skipEOL_ge h5; omega
  · have := skipWsC_ge h1; have := lexWord_lt h2 (by omega); have := lexWord_ge h2
    have := skipNNW_ge h4; have := parseDeps_ge h6; omega

/-- `MakefileDepsParser(data, actions, ignoreSubsequentOutputs).parse()`: the action stream, or the index of an
out-of-bounds read. -/
def parse (ign : Bool) (inp : Bytes) : R (List Action) := parseRules ign inp 0

/-! ### The writer side: the documented escaping -/

/-- space, `#` and backslash are preceded by a backslash, `$` is doubled, every other byte is written as is. -/
def escapeByte (c : UInt8) : Bytes :=
  if c == 32 || c == 35 || c == 92 then [92, c]
  else if c == 36 then [36, 36]
  else [c]

def escape (p : Bytes) : Bytes := p.flatMap escapeByte

/-- how two prerequisites are separated: a blank, a backslash-newline continuation, or a backslash-CRLF one -/
inductive Sep
  | space | cont | contCRLF
  deriving DecidableEq, Repr

def Sep.bytes : Sep → Bytes
  | .space => [32]
  | .cont => [32, 92, 10, 32, 32]
  | .contCRLF => [32, 92, 13, 10, 32]

/-- one rule: `target: dep dep \<nl> dep ...<eol>`; every prerequisite carries the separator written before it. -/
def mkRule (target : Bytes) (deps : List (Sep × Bytes)) (eol : Bytes) : Bytes :=
  escape target ++ [58] ++ deps.flatMap (fun d => d.1.bytes ++ escape d.2) ++ eol

structure Rule where
  target : Bytes
  deps : List (Sep × Bytes)
  crlf : Bool          -- line ends in CRLF instead of LF
  deriving Repr

def Rule.eol (r : Rule) : Bytes := if r.crlf then [13, 10] else [10]

def mkDepsFile (rules : List Rule) : Bytes := rules.flatMap (fun r => mkRule r.target r.deps r.eol)

/-- what the parser is expected to report for one rule (raw spellings aside) -/
def Action.unescaped? : Action → Option (Bool × Bytes)
  | .ruleStart _ u => some (true, u)
  | .dep _ u => some (false, u)
  | _ => none

/-- the action stream with the raw (escaped) spellings erased -/
inductive Event
  | start (p : Bytes) | dep (p : Bytes) | finish | error (k : ErrKind) (pos : Nat)
  deriving DecidableEq, Repr

def Action.event : Action → Event
  | .ruleStart _ u => .start u
  | .dep _ u => .dep u
  | .ruleEnd => .finish
  | .error k p => .error k p

def Rule.events (r : Rule) : List Event := .start r.target :: r.deps.map (fun d => .dep d.2) ++ [.finish]

/-! ### What `ShellCommand` does with the stream (lib/BuildSystem/ShellCommand.cpp) -/

/-- `DepsActions::numErrors` after the parse -/
def numErrors (acts : List Action) : Nat := (acts.filter (fun a => match a with | .error _ _ => true | _ => false)).length

/-- `llvm::sys::path::is_absolute` (POSIX style): a root directory is present.  `//net` alone is a root *name*
without a root directory. -/
def isAbsolute : Bytes → Bool
  | 47 :: 47 :: c :: rest => if c != 47 then (c :: rest).contains 47 else true
  | 47 :: _ => true
  | _ => false

/-- `llvm::sys::path::append(path, component)` for one component (POSIX style). -/
def pathAppend (path comp : Bytes) : Bytes :=
  match path.getLast? with
  | some 47 => path ++ comp.dropWhile (· == 47)
  | some _ => if comp.head? == some 47 then path ++ comp else path ++ [47] ++ comp
  | none => path ++ comp

/-- `actOnRuleDependency`: absolute paths are taken as they are, relative ones are appended to the working
directory (which `configureAttribute("working-directory")` already made absolute). -/
def resolve (wd p : Bytes) : Bytes := if isAbsolute p then p else pathAppend wd p

/-- the discovered-dependency keys a Makefile-style stream produces, in order -/
def discovered (wd : Bytes) (acts : List Action) : List Bytes :=
  acts.filterMap (fun a => match a with | .dep _ u => some (resolve wd u) | _ => none)

/-- `processMakefileDiscoveredDependencies`: `return actions.numErrors == 0;`
(an out-of-bounds read has no defined result; it is reported as such) -/
def processMakefile (ign : Bool) (contents : Bytes) : R Bool := mapOk (fun acts => numErrors acts == 0) (parse ign contents)

/-! ### Which paths the documented escaping can express -/

/-- NUL, TAB, LF and CR cannot be written: the escaping has no spelling for them (a backslash in front of TAB/CR/NUL
stays in the path, and LF ends the line).  Every other byte value is expressible. -/
def exprByte (c : UInt8) : Bool := c != 0 && c != 9 && c != 10 && c != 13

/-- a rule target: non-empty, expressible bytes, no `:` (the colon ends the target) -/
def validTarget (p : Bytes) : Bool := !p.isEmpty && p.all (fun c => exprByte c && c != 58)

/-- a prerequisite: non-empty, expressible bytes, `:` anywhere but in first position -/
def validDep (p : Bytes) : Bool := !p.isEmpty && p.all exprByte && p.head? != some 58

def Rule.valid (r : Rule) : Bool := validTarget r.target && r.deps.all (fun d => validDep d.2)

/-- `lexWord` followed by the `:`-continuation loop, i.e. how `parse` reads one prerequisite -/
def lexDep (inp : Bytes) (pos : Nat) : R (Nat × Bytes) :=
  match lexWord inp pos with
  | .error e => .error e
  | .ok r => prepend r.2 (lexColons inp r.1)

/-- what may follow a word: end of input, or a byte that ends `lexWord` (not a word character, not `$`) -/
def stopsWord : Bytes → Bool
  | [] => true
  | d :: _ => !isWordChar d && d != 36

/-- what may follow a prerequisite: as above and not a `:` -/
def stopsDep : Bytes → Bool
  | [] => true
  | d :: _ => !isWordChar d && d != 36 && d != 58

/-- NUL, TAB and CR reach a reported path only directly behind a backslash that is itself part of the path -/
def isCtl (c : UInt8) : Bool := c == 0 || c == 9 || c == 13

def ctlOnlyAfterBackslash (prevBackslash : Bool) : Bytes → Bool
  | [] => true
  | c :: rest => (prevBackslash || !isCtl c) && ctlOnlyAfterBackslash (c == 92) rest

end LLBuild.MakeDeps
