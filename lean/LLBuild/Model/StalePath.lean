/-
C14 model: `pathIsPrefixedByPath` (lib/BuildSystem/BuildSystem.cpp) and the
stale-file-removal decision loop (`StaleFileRemovalCommand::execute`,
`computeFilesToDelete`).  CORE LEAN ONLY.
-/
import LLBuild.Model.Bytes
import LLBuild.Generated.PathSeps

namespace LLBuild.StalePath

/-- `pathSeparators.find(c) != npos`, with the separator set extracted from
`sys::getPathSeparators()` (non-Windows branch). -/
def isSep (c : UInt8) : Bool := Generated.pathSeparators.contains c

/-- `std::mismatch(prefix.begin(), prefix.end(), path.begin())` followed by the
two "exhausted or separator" tests; only called when `prefix.length ≤ path.length`.
`pfxExhaustedSep` says whether the already consumed prefix ended in a separator
(used by the repaired code: a root spelled with a trailing separator). -/
def mismatchTail (lastWasSep : Bool) : Bytes → Bytes → Bool
  | [], [] => true
  | [], c :: _ => isSep c || lastWasSep
  | p :: _, [] => isSep p            -- unreachable under the length guard
  | p :: ps, c :: cs =>
    if p == c then mismatchTail (isSep p) ps cs
    else isSep p && isSep c

/-- `llbuild::buildsystem::pathIsPrefixedByPath(path, prefixPath)`. -/
def pathIsPrefixedByPath (path pfx : Bytes) : Bool :=
  if pfx.length > path.length then
    match pfx.getLast? with
    | some l => pfx.dropLast == path && isSep l
    | none => false
  else mismatchTail false pfx path

/-! ### `computeFilesToDelete` : `std::set` difference -/

def bytesLt : Bytes → Bytes → Bool
  | [], [] => false
  | [], _ :: _ => true
  | _ :: _, [] => false
  | a :: as, b :: bs => if a < b then true else if b < a then false else bytesLt as bs

/-- insertion into a sorted duplicate-free list (`std::set<std::string>`). -/
def insertSorted (x : Bytes) : List Bytes → List Bytes
  | [] => [x]
  | y :: ys => if bytesLt x y then x :: y :: ys else if x == y then y :: ys else y :: insertSorted x ys

def toSet (l : List Bytes) : List Bytes := l.foldr insertSorted []

/-- `std::set_difference(prior, expected)` on the two sets. -/
def filesToDelete (prior expected : List Bytes) : List Bytes :=
  (toSet prior).filter (fun p => !(toSet expected).contains p)

inductive Action
  | remove (p : Bytes)
  | warnRelative (p : Bytes)
  | warnOutside (p : Bytes)
  deriving DecidableEq, Repr

/-- `fileToDelete[0]` on a `std::string`: index 0 of an empty string is the NUL terminator. -/
def firstChar (p : Bytes) : UInt8 := p.headD 0

/-- The decision loop of `execute` for one candidate. -/
def decide1 (roots : List Bytes) (p : Bytes) : Action :=
  if roots.length > 0 && !isSep (firstChar p) then .warnRelative p
  else if roots.length == 0 || roots.any (fun r => pathIsPrefixedByPath p r) then .remove p
  else .warnOutside p

/-- `execute` when a prior stale-file-removal value exists. -/
def actions (prior expected roots : List Bytes) : List Action :=
  (filesToDelete prior expected).map (decide1 roots)

def removals (prior expected roots : List Bytes) : List Bytes :=
  (actions prior expected roots).filterMap (fun a => match a with | .remove p => some p | _ => none)

/-! ### Specification (written from the property text) -/

/-- A root spelled with one trailing separator means the same as without it. -/
def rootCanon (r : Bytes) : Bytes :=
  match r.getLast? with
  | some l => if isSep l then r.dropLast else r
  | none => r

/-- `p` lies at or beneath `r` by whole path components. -/
def under (r p : Bytes) : Bool :=
  let rc := rootCanon r
  rc.isPrefixOf p && (match p.drop rc.length with | [] => true | c :: _ => isSep c)

end LLBuild.StalePath
