/-
The BuildSystem client of `Model/BuildSystemClient.lean` EXTENDED with the two things a `ShellCommand` does beyond
"a function of its declared inputs" (nothing of the existing model is changed; `clientX` with trivial extensions IS
`client`, `C08X_extends_client`):

(a) DISCOVERED DEPENDENCIES (`deps:` / `deps-style:`; lib/BuildSystem/ShellCommand.cpp).  After the process of a shell
    command exited with status 0 — and only then: `commandCompletionFn` returns at once for any other status, "If the
    command failed, there is no need to gather dependencies" — and when `depsPaths` is not empty,
    `processDiscoveredDependencies` goes through the dependency files in order.  For the ENGINE all three styles do
    the same thing: while a file is parsed every input path found is handed to
    `ti.discoveredDependency(BuildKey::makeNode(path))` (a plain file-node key; relative paths made absolute against
    the working directory) — also the paths in front of a syntax error, the callbacks run during the parse —; the
    loop stops with `false` at the first file that cannot be opened ("unable to open dependencies file") or whose
    parse reported an error, and at once when `deps-style` was not given ("missing required 'deps-style'
    specifier"); `false` turns the result into `ProcessStatus::Failed`, i.e. the command FAILS
    (`BuildValue::makeFailedCommand`).  What differs between the styles is which paths of a file are inputs
    (Makefile: all prerequisites of all rules; ...-ignoring-subsequent-outputs: of the first rule; dependency-info:
    the input records) — that is the parsers' business (Model/MakeDeps.lean, Model/DepInfo.lean, `ShellDeps.fileKeys`);
    here a dependency file is what the loop sees of it: `DepsFile.unreadable` or `.parsed keys ok`.
    The dependency files are written by the process, so what they contain is a function of what the process read:
    `CmdX.depsTable` / `depsElse` give the files per value `h` of the declared inputs' contents (a finite table and a
    default: every finitely-described function; finite so that `DescX.discsAreSources` is decidable).
    `Engine.Program.disc` is a function of the RECEIVED VALUES only, so the discovered list cannot depend on the
    content of a discovered file (a header that includes another header): such a command is modelled by the list of
    all headers it ends up reading, as a function of its declared inputs.
    The process READS the discovered files (`readDiscovered`: directly from the file system, `env`), which is the
    only place where a command's value depends on the external state (`Program.WF.out_local`).

(b) OWN FAILURE: `CmdX.exitsNonZero h` — the process exits with a non-zero status (or is killed) as a predicate of the
    contents of its declared inputs.  `ExternalCommand::execute` then completes with `makeFailedCommand` (signal:
    `makeCancelledCommand`); in the value encoding of the base model that is `vFailedCmd` (tag 6 = Failed /
    PropagatedFailure / Cancelled — every consumer, `getResultForOutput`, `isResultValid`, treats the three alike);
    WHICH of them it is, is `runX … .status` (`exitedNonZero` / `depsFailed` = FailedCommand, `skipped` =
    PropagatedFailureCommand from the skip block of `execute`).  Propagation to dependents is the base model's.

Keys, values, `ruleOf`, `nextOf`, `validOf`, `resultForOutput` are the base model's.  `absDepsFile` connects `DepsFile` to the
byte-level parser models of C11 (Model/MakeDeps.lean, Model/DepInfo.lean).  CORE LEAN ONLY.
-/
import LLBuild.Model.BuildSystemClient
import LLBuild.Model.DepInfo

namespace LLBuild.BuildSystemClient
open LLBuild.Engine
open LLBuild.Generated.BuildSystemRules

/-- one entry of `depsPaths` as the loop of `ShellCommand::processDiscoveredDependencies` sees it after the process
ran: it cannot be opened, or it was parsed — `keys` = the node indices handed to `ti.discoveredDependency` while
parsing, in order; `ok` = the parse reported no error (`numErrors == 0`) -/
inductive DepsFile
  | unreadable
  | parsed (keys : List Nat) (ok : Bool)
  deriving DecidableEq, Repr, Inhabited

def DepsFile.keys : DepsFile → List Nat
  | .unreadable => []
  | .parsed ks _ => ks

/-- the `for (const auto& depsPath: depsPaths)` loop: (every key handed to the engine, the return value) -/
def processDeps : List DepsFile → List Nat × Bool
  | [] => ([], true)
  | .unreadable :: _ => ([], false)
  | .parsed ks ok :: rest =>
    if ok then (ks ++ (processDeps rest).1, (processDeps rest).2) else (ks, false)

/-- what a shell command has beyond `Cmd` -/
structure CmdX where
  /-- the `deps:` attribute: the names of the dependency files (opaque numbers); empty = no attribute -/
  depsPaths : List Nat := []
  /-- `deps-style:` 0 = not given (`DepsStyle::Unused`), 1 makefile, 2 dependency-info,
  3 makefile-ignoring-subsequent-outputs -/
  depsStyle : Nat := 0
  /-- the process ends with a non-zero exit status / a signal, as a predicate of the contents of the declared inputs
  it read (`h`, the fold of `foldInputs`) -/
  exitsNonZero : Nat → Bool := fun _ => false
  /-- the dependency files the process leaves behind when it read `h`, by position in `depsPaths` -/
  depsTable : List (Nat × List DepsFile) := []
  /-- ... for every `h` not in the table -/
  depsElse : List DepsFile := []
  deriving Inhabited

/-- the dependency files after a run that read `h`: one entry per name in `depsPaths` (a missing entry = a file the
process did not write: it cannot be opened) -/
def CmdX.filesAt (e : CmdX) (h : Nat) : List DepsFile :=
  let fs := match e.depsTable.find? (fun p => p.1 == h) with
    | some p => p.2
    | none => e.depsElse
  (List.range e.depsPaths.length).map (fun j => fs.getD j .unreadable)

/-- `ShellCommand::processDiscoveredDependencies`: (keys handed to `ti.discoveredDependency`, return value) -/
def CmdX.discovered (e : CmdX) (h : Nat) : List Nat × Bool :=
  if e.depsStyle = 0 then ([], false) else processDeps (e.filesAt h)

/-- every node a command can ever report (all files of all table rows and of the default) -/
def CmdX.allKeys (e : CmdX) : List Nat :=
  (e.depsTable.map (·.2) ++ [e.depsElse]).flatMap (fun fs => fs.flatMap DepsFile.keys)

/-- how one execution of a shell command ends -/
inductive RunStatus
  /-- skip block of `ExternalCommand::execute` (a missing / failed input): PropagatedFailureCommand, not started -/
  | skipped
  /-- the process ran and ended with a non-zero status: FailedCommand (CancelledCommand for SIGKILL / SIGINT) -/
  | exitedNonZero
  /-- the process exited with 0 but `processDiscoveredDependencies` returned false: FailedCommand -/
  | depsFailed
  | succeeded
  deriving DecidableEq, Repr, Inhabited

structure Run where
  status : RunStatus
  /-- what the process computed from the declared inputs it read -/
  h : Nat
  /-- the nodes handed to `ti.discoveredDependency`, in order -/
  keys : List Nat
  deriving DecidableEq, Repr, Inhabited

/-- one execution of the shell command `c` with extension `e`, given the values of its declared inputs by position -/
def runX (c : Cmd) (e : CmdX) (get : Nat → Option Val) : Run :=
  match foldInputs c get (List.range c.inputs.length) c.salt with
  | none => ⟨.skipped, 0, []⟩
  | some h =>
    if e.exitsNonZero h then ⟨.exitedNonZero, h, []⟩
    else if e.depsPaths.isEmpty then ⟨.succeeded, h, []⟩
    else ⟨if (e.discovered h).2 then .succeeded else .depsFailed, h, (e.discovered h).1⟩

/-- the process reads the discovered files from the file system (state 0 = missing, x+1 = present with content x) -/
def readDiscovered (env : Env) (h : Nat) (keys : List Nat) : Nat :=
  keys.foldl (fun a p => mix a (env (nodeKey p))) h

/-- the value a command task completes with; only `tool: shell` has the extension -/
def cmdOutX (c : Cmd) (e : CmdX) (env : Env) (get : Nat → Option Val) : Val :=
  match c.tool with
  | .shell =>
    if (runX c e get).status = .succeeded then
      successValue c (readDiscovered env (runX c e get).h (runX c e get).keys)
    else vFailedCmd
  | _ => cmdOut c get

/-- the keys a command task reports through `ti.discoveredDependency` before it completes -/
def cmdDiscX (c : Cmd) (e : CmdX) (get : Nat → Option Val) : List Key :=
  match c.tool with
  | .shell => (runX c e get).keys.map nodeKey
  | _ => []

/-- a description with extended shell commands: `ext[c]` belongs to `base.cmds[c]` (absent = trivial) -/
structure DescX where
  base : Desc := {}
  ext : List CmdX := []
  deriving Inhabited

def DescX.cmdX (dx : DescX) (c : Nat) : CmdX := (dx.ext[c]?).getD {}

def outOfX (dx : DescX) (k : Key) (env : Env) (recv : Recv) : Val :=
  match ruleOf dx.base k with
  | .commandTask => cmdOutX (dx.base.cmd (k / 3)) (dx.cmdX (k / 3)) env (getRecv recv)
  | _ => outOf dx.base k env recv

def discOfX (dx : DescX) (k : Key) (recv : Recv) : List Key :=
  match ruleOf dx.base k with
  | .commandTask => cmdDiscX (dx.base.cmd (k / 3)) (dx.cmdX (k / 3)) (getRecv recv)
  | _ => []

/-- `ShellCommand::getSignature` also combines `depsPaths` and `depsStyle` (in front of the base term, so that the
two parts can be told apart) -/
def sigTermX (dx : DescX) (k : Key) : List Nat :=
  if k % 3 = 1 ∧ k / 3 < dx.base.cmds.length then
    [(dx.cmdX (k / 3)).depsPaths.length] ++ (dx.cmdX (k / 3)).depsPaths ++ [(dx.cmdX (k / 3)).depsStyle] ++ sigTerm dx.base k
  else sigTerm dx.base k

/-- The rule set of the BuildSystem for the extended description `dx`. -/
def clientX (H : List Nat → Nat) (dx : DescX) : Program where
  sig := fun _ k => H (sigTermX dx k)
  valid := validOf dx.base
  next := fun k _ => nextOf dx.base k
  disc := discOfX dx
  out := outOfX dx
  force := fun k => ruleOf dx.base k == .missingCommandTask && missingCommandForceChange
  self := fun k => ruleOf dx.base k == .fileInputNodeTask

/-- `DiscsAreSources`: every path a command can report as a discovered dependency is a plain SOURCE file of the
description — no command produces it and it is not virtual — i.e. its key is an input rule (`FileInputNodeTask`).
(The real system reports a produced path all the same and the engine brings it up to date AFTER the discovering
task finished — BuildEngine.cpp: "... keys for rules which have not been run, which would indicate an underspecified
build (e.g., a generated header)"; such descriptions are outside `Program.WF`, see `NeedDiscsAreSources`.) -/
def DescX.discsAreSources (dx : DescX) : Bool :=
  (List.range dx.base.cmds.length).all fun c =>
    (dx.cmdX c).allKeys.all fun p => (dx.base.producers p).isEmpty && !dx.base.isVirtual p

/-! ### executable clean evaluation -/

def cleanEvalX (dx : DescX) (env : Env) : Nat → Key → Option Val
  | 0, _ => none
  | f + 1, k =>
    match ruleOf dx.base k with
    | .fileInputNodeTask => some (fileValue (env k))
    | .virtualInputNodeTask => some vVirtual
    | .producedNodeTask =>
      match dx.base.producers (k / 3) with
      | [c] =>
        match cleanEvalX dx env f (cmdKey c) with
        | some cv => some (resultForOutput dx.base (dx.base.cmd c) (k / 3) cv)
        | none => none
      | _ => some vFailedInput
    | .commandTask =>
      let c := dx.base.cmd (k / 3)
      if c.tool = .symlink then some (successValue c c.salt)
      else
        let get := fun j => match c.inputs[j]? with
          | some n => cleanEvalX dx env f (nodeKey n)
          | none => none
        if allSome get (List.range c.inputs.length) then some (cmdOutX c (dx.cmdX (k / 3)) env get) else none
    | .missingCommandTask => some vInvalid
    | .targetTask => some vTarget
    | _ => none

/-- the execution record of shell command `c` in a clean build (how it ends, which keys it reports) -/
def cleanRunX (dx : DescX) (env : Env) (f : Nat) (c : Nat) : Option Run :=
  let cm := dx.base.cmd c
  let get := fun j => match cm.inputs[j]? with
    | some n => cleanEvalX dx env f (nodeKey n)
    | none => none
  if allSome get (List.range cm.inputs.length) then some (runX cm (dx.cmdX c) get) else none

/-! ### from bytes to `DepsFile`: the parser models of C11 -/

def styleCode : ShellDeps.DepsStyle → Nat
  | .unused => 0
  | .makefile => 1
  | .dependencyInfo => 2
  | .makefileIgnoringSubsequentOutputs => 3

/-- a dependency file given by its contents (`none` = it cannot be opened) as the loop of `processDiscoveredDependencies`
sees it: the keys `ShellDeps.fileKeys` makes of it (absolute paths; `idx` numbers them as nodes) and the verdict of
`ShellDeps.processFile`.  (An out-of-bounds read of a parser has no defined result; `C19_*_no_oob` proves there is none.) -/
def absDepsFile (style : ShellDeps.DepsStyle) (wd : Bytes) (idx : Bytes → Nat) : ShellDeps.DepsFile → DepsFile
  | none => .unreadable
  | some c =>
    match ShellDeps.processFile style (some c), ShellDeps.fileKeys style wd (some c) with
    | .ok b, .ok ks => .parsed (ks.map idx) b
    | _, _ => .unreadable

end LLBuild.BuildSystemClient
