/- The Ninja driver's manifest self-regeneration loop (`executeNinjaBuildCommand`, lib/Commands/NinjaBuildCommand.cpp):

     for (iteration = 0; iteration != maxIterations; ++iteration) {
       load the manifest (main file and everything it includes) ... register the rules ...
       if (autoRegenerateManifest && iteration == 0) {
         engine.build(manifest path);                  -- bring the manifest up to date under the graph just loaded
         if (context.numBuiltCommands) continue;       -- RELOAD decision (regenerated: Gen.reloadIfAnyCommandRan)
       }
       main build with the graph loaded in THIS iteration ...
       if (iteration == 0) break;
     }

   The loop bound, the reload decision, the place where `numBuiltCommands` is incremented and the final `break` are
   regenerated from the source by extract/x_ninjabuild.py (Generated/NinjaBuildTables.lean).  The file system, the
   manifest loader and the engine are parameters (`Sys`).  Core Lean only. -/
import LLBuild.Generated.NinjaBuildTables

namespace LLBuild.NinjaRegen
open LLBuild.NinjaBuild

/-- `load`: what ManifestLoader makes of the manifest files on a disk (main file AND included / subninja'd files);
    `regen g d`: `engine.build(manifest path)` under graph `g` on disk `d`: the disk afterwards and the number of
    commands that actually ran (`numBuiltCommands`). -/
structure Sys (Disk Graph : Type) where
  load : Disk → Graph
  regen : Graph → Disk → Disk × Nat

variable {Disk Graph : Type}

/-- The loop, generic in the reload decision (`reload before after ran`).  `n` = iterations left, `i` = iteration index.
    The result is the graph the MAIN build runs with and the disk it starts from; `none` = the loop ended without a
    main build. -/
def iter (S : Sys Disk Graph) (reload : Disk → Disk → Nat → Bool) (auto : Bool) : Nat → Nat → Disk → Option (Graph × Disk)
  | 0, _, _ => none
  | n + 1, i, d =>
    let g := S.load d
    if auto && i == 0 then
      let r := S.regen g d
      if reload d r.1 r.2 then iter S reload auto n (i + 1) r.1 else some (g, r.1)
    else some (g, d)

/-- The reload decision as coded.  A condition the extractor does not recognise is modelled as "never reload", so that
    the theorems about the coded driver stop checking and the check searches for a failing history. -/
def codedReload (_before _after : Disk) (ran : Nat) : Bool :=
  Gen.reloadIfAnyCommandRan && Gen.builtCounterCountsEveryRun && ran != 0

/-- The driver as coded. -/
def driver (S : Sys Disk Graph) (auto : Bool) (d : Disk) : Option (Graph × Disk) :=
  iter S codedReload auto Gen.maxIterations 0 d

/-- World assumption (external state is frozen during a build; only commands write files): if bringing the manifest up
    to date ran NO command, the manifest files are what was loaded. -/
def Quiet (S : Sys Disk Graph) : Prop :=
  ∀ g d, (S.regen g d).2 = 0 → S.load (S.regen g d).1 = S.load d

end LLBuild.NinjaRegen
