/-
C10 — hand-written layer over the GENERATED value-kind decision chains
(`LLBuild/Generated/FailTables.lean`, regenerated from the repository on every run).

Nothing here re-states a decision of the code: the only hand-written semantics are
  * the five node classes of `BuildNode` and their two attribute bits,
  * how a chain outcome (`Res`) becomes a value kind,
  * the per-execution state of `ExternalCommand` (`skipValue`, `missingInputKeys`) folded over the inputs
    that `provideValue` receives, and the first statement of `execute`,
  * the count of `hadCommandFailure()` calls over the completions of one build.
These are corresponded exhaustively against the real classes by `harness/vc10.cpp`.  CORE LEAN ONLY.
-/
import LLBuild.Generated.FailTables

namespace LLBuild.FailProp
open LLBuild.Generated.FailTables

/-- `BuildNode` classes (`NodeType` plus the command-timestamp attribute, which forces `Virtual`). -/
inductive NodeClass where
  | plain | directory | directoryStructure | virtual | commandTimestamp
  deriving DecidableEq, Repr

def NodeClass.all : List NodeClass := [.plain, .directory, .directoryStructure, .virtual, .commandTimestamp]

def NodeClass.isVirtual : NodeClass → Bool
  | .virtual | .commandTimestamp => true
  | _ => false

def NodeClass.isCommandTimestamp : NodeClass → Bool
  | .commandTimestamp => true
  | _ => false

def NodeClass.name : NodeClass → String
  | .plain => "plain" | .directory => "directory" | .directoryStructure => "directoryStructure"
  | .virtual => "virtual" | .commandTimestamp => "commandTimestamp"

/-- a chain outcome as a value kind; `k` is the producer's kind (for `asIs`) -/
def Res.eval (r : Res) (k : Kind) : Option Kind :=
  match r with
  | .kind k' => some k'
  | .asIs => some k
  | .unreachable => none
  | .continue => none

/-- the value a produced node gets: `producingCommand->getResultForOutput(&node, value)` -/
def nodeValue (c : CommandClass) (k : Kind) (nc : NodeClass) (miss : Bool) : Option Kind :=
  Res.eval (resultForOutput c k nc.isVirtual nc.isCommandTimestamp miss) k

/-- the three ways a command result says "did not succeed" -/
def isFailureKind (k : Kind) : Bool :=
  k == .failedCommand || k == .propagatedFailureCommand || k == .cancelledCommand

/-- per-execution state of `ExternalCommand`: `skipValue` and `missingInputKeys.size()` -/
structure CmdState where
  skip : Option Kind
  missing : Nat
  deriving DecidableEq, Repr

def CmdState.init : CmdState := ⟨none, 0⟩

/-- `ExternalCommand::provideValue` for one input value of kind `k`; `none` = `llvm_unreachable` -/
def provide (allow : Bool) (s : CmdState) (k : Kind) : Option CmdState :=
  if provideValueEarlyReturn k then some s
  else match skipValueForInput k allow with
    | .continue => some s
    | .kind k' => some ⟨some k', if recordsMissingInput k then s.missing + 1 else s.missing⟩
    | .asIs => none
    | .unreachable => none

def provideAll (allow : Bool) : CmdState → List Kind → Option CmdState
  | s, [] => some s
  | s, k :: ks => match provide allow s k with
    | some s' => provideAll allow s' ks
    | none => none

/-- what the first statement of `ExternalCommand::execute` decides -/
inductive Decision where
  | run                                  -- goes on to `commandStarted` / `executeExternalCommand`
  | skip (result : Kind) (reported : Bool) -- completes with the skip value; `hadCommandFailure()` called?
  deriving DecidableEq, Repr

def execute (s : CmdState) : Decision :=
  match s.skip with
  | some k => .skip k (skipPathReportsFailure (s.missing == 0))
  | none => .run

/-- does this input make an external command skip? (specification side of `C10_failed_input_skips`) -/
def blocksConsumer (allow : Bool) (k : Kind) : Bool :=
  k == .failedInput || (k == .missingInput && !allow)

/-- one command completion of a build, as far as failure accounting sees it -/
structure Completion where
  result : Kind
  viaSkip : Bool        -- completed through the skip block of `execute`
  missingEmpty : Bool   -- `missingInputKeys.empty()` at that point
  deriving DecidableEq, Repr

/-- number of `hadCommandFailure()` calls caused by one completion: the skip block's own call plus the
    completion lambda of `CommandTask` (which sees the same result) -/
def reports (buildCancelled : Bool) (c : Completion) : Nat :=
  (if c.viaSkip && skipPathReportsFailure c.missingEmpty then 1 else 0) +
  (if commandTaskReportsFailure c.result buildCancelled then 1 else 0)

def failureCount (buildCancelled : Bool) : List Completion → Nat
  | [] => 0
  | c :: cs => reports buildCancelled c + failureCount buildCancelled cs

end LLBuild.FailProp
