/-
C10 — hand-written layer over the GENERATED value-kind decision chains
(`LLBuild/Generated/FailTables.lean`, regenerated from the repository on every run).

Nothing here re-states a decision of the code: the only hand-written semantics are
  * the five node classes of `BuildNode` and their two attribute bits,
  * how a chain outcome (`Res`) becomes a value kind,
  * the per-execution state of `ExternalCommand` (`skipValue`, `missingInputKeys`) folded over the inputs
    that `provideValue` receives, and the first statement of `execute`,
  * the count of `hadCommandFailure()` calls over the completions of one build,
  * how a child process can end (exit code / signal) and the Linux encoding of that as a wait status,
  * the life of one `ExternalCommand` object over several executions (`start`, `providePriorValue`, `provideValue`*,
    `execute`) with its two "update without running" flags.
These are corresponded exhaustively against the real classes by `harness/vc10.cpp`.  CORE LEAN ONLY.
-/
import LLBuild.Generated.FailTables

namespace LLBuild.FailProp
open LLBuild.Generated.FailTables

/-- `BuildNode` classes (`NodeType` plus the command-timestamp attribute, which forces `Virtual`). -/
inductive NodeClass where
  | plain | directory | directoryStructure | virtual | commandTimestamp
  deriving DecidableEq, Repr

def NodeClass.all : List NodeClass := [.plain, .directory, .directoryStructure, .virtual, .commandTimestamp]

def NodeClass.isVirtual : NodeClass → Bool
  | .virtual | .commandTimestamp => true
  | _ => false

def NodeClass.isCommandTimestamp : NodeClass → Bool
  | .commandTimestamp => true
  | _ => false

def NodeClass.name : NodeClass → String
  | .plain => "plain" | .directory => "directory" | .directoryStructure => "directoryStructure"
  | .virtual => "virtual" | .commandTimestamp => "commandTimestamp"

/-- a chain outcome as a value kind; `k` is the producer's kind (for `asIs`) -/
def Res.eval (r : Res) (k : Kind) : Option Kind :=
  match r with
  | .kind k' => some k'
  | .asIs => some k
  | .unreachable => none
  | .continue => none

/-- the value a produced node gets: `producingCommand->getResultForOutput(&node, value)` -/
def nodeValue (c : CommandClass) (k : Kind) (nc : NodeClass) (miss : Bool) : Option Kind :=
  Res.eval (resultForOutput c k nc.isVirtual nc.isCommandTimestamp miss) k

/-- the three ways a command result says "did not succeed" -/
def isFailureKind (k : Kind) : Bool :=
  k == .failedCommand || k == .propagatedFailureCommand || k == .cancelledCommand

/-- per-execution state of `ExternalCommand`: `skipValue` and `missingInputKeys.size()` -/
structure CmdState where
  skip : Option Kind
  missing : Nat
  deriving DecidableEq, Repr

def CmdState.init : CmdState := ⟨none, 0⟩

/-- `ExternalCommand::provideValue` for one input value of kind `k`; `none` = `llvm_unreachable` -/
def provide (allow : Bool) (s : CmdState) (k : Kind) : Option CmdState :=
  if provideValueEarlyReturn k then some s
  else match skipValueForInput k allow with
    | .continue => some s
    | .kind k' => some ⟨some k', if recordsMissingInput k then s.missing + 1 else s.missing⟩
    | .asIs => none
    | .unreachable => none

def provideAll (allow : Bool) : CmdState → List Kind → Option CmdState
  | s, [] => some s
  | s, k :: ks => match provide allow s k with
    | some s' => provideAll allow s' ks
    | none => none

/-- what the first statement of `ExternalCommand::execute` decides -/
inductive Decision where
  | run                                  -- goes on to `commandStarted` / `executeExternalCommand`
  | skip (result : Kind) (reported : Bool) -- completes with the skip value; `hadCommandFailure()` called?
  deriving DecidableEq, Repr

def execute (s : CmdState) : Decision :=
  match s.skip with
  | some k => .skip k (skipPathReportsFailure (s.missing == 0))
  | none => .run

/-- does this input make an external command skip? (specification side of `C10_failed_input_skips`) -/
def blocksConsumer (allow : Bool) (k : Kind) : Bool :=
  k == .failedInput || (k == .missingInput && !allow)

/-- one command completion of a build, as far as failure accounting sees it -/
structure Completion where
  result : Kind
  viaSkip : Bool        -- completed through the skip block of `execute`
  missingEmpty : Bool   -- `missingInputKeys.empty()` at that point
  deriving DecidableEq, Repr

/-- number of `hadCommandFailure()` calls caused by one completion: the skip block's own call plus the
    completion lambda of `CommandTask` (which sees the same result) -/
def reports (buildCancelled : Bool) (c : Completion) : Nat :=
  (if c.viaSkip && skipPathReportsFailure c.missingEmpty then 1 else 0) +
  (if commandTaskReportsFailure c.result buildCancelled then 1 else 0)

def failureCount (buildCancelled : Bool) : List Completion → Nat
  | [] => 0
  | c :: cs => reports buildCancelled c + failureCount buildCancelled cs

/-! ### how a child ends, and what an executed command then reports -/

/-- the two ways `wait4(pid, &status, 0, …)` reports a child: it called `exit(code)` or it was killed by a signal -/
inductive ChildEnd where
  | exited (code : Nat)
  | signaled (sig : Nat) (core : Bool)
  deriving DecidableEq, Repr

/-- exit codes are 8 bits; Linux has the signals 1..64 -/
def ChildEnd.wf : ChildEnd → Bool
  | .exited c => c < 256
  | .signaled s _ => 1 ≤ s && s ≤ 64

/-- the wait status the kernel reports (Linux): `code << 8`, or `sig | 0x80 if a core was dumped` -/
def ChildEnd.encode : ChildEnd → Nat
  | .exited c => c * 256
  | .signaled s core => s + (if core then 128 else 0)

def ChildEnd.all : List ChildEnd :=
  (List.range 256).map .exited ++ (List.range 64).flatMap fun s => [.signaled (s + 1) false, .signaled (s + 1) true]

/-- the result of an executed external command whose child ended as `e`: `cleanUpExecutedProcess` classifies the wait
    status, the completion lambda of `ExternalCommand::execute` maps the `ProcessStatus` -/
def executedResult (e : ChildEnd) : Res := processResult (waitProcStatus e.encode)

/-! ### one command object over several executions -/

/-- the private members `canUpdateIfNewer`, `hasPriorResult` -/
structure UpdState where
  canUpdate : Bool
  hasPrior : Bool
  deriving DecidableEq, Repr

/-- a freshly constructed command (member initialisers) -/
def UpdState.init : UpdState := ⟨canUpdateIfNewerInit, hasPriorResultInit⟩

structure Life where
  cmd : CmdState
  upd : UpdState
  deriving DecidableEq, Repr

def Life.init : Life := ⟨CmdState.init, UpdState.init⟩

/-- the calls the engine makes on a command's task before `execute` -/
inductive LifeStep where
  | start
  | prior (k : Kind)     -- providePriorValue with a value of kind k
  | input (k : Kind)     -- provideValue with a value of kind k
  deriving DecidableEq, Repr

/-- `none` = `llvm_unreachable` inside `provideValue` -/
def Life.step (allow : Bool) (l : Life) : LifeStep → Option Life
  | .start => some ⟨CmdState.init, ⟨startCanUpdate l.upd.canUpdate, startHasPrior l.upd.hasPrior⟩⟩
  | .prior k => some ⟨l.cmd, ⟨l.upd.canUpdate, priorHasPrior k l.upd.hasPrior⟩⟩
  | .input k =>
    match provide allow l.cmd k with
    | none => none
    | some c =>
      if provideValueEarlyReturn k then some ⟨c, l.upd⟩
      else match skipValueForInput k allow with
        | .continue => some ⟨c, ⟨inputCanUpdate k l.upd.canUpdate, l.upd.hasPrior⟩⟩
        | _ => some ⟨c, l.upd⟩

def Life.steps (allow : Bool) : Life → List LifeStep → Option Life
  | l, [] => some l
  | l, s :: ss => match l.step allow s with
    | some l' => Life.steps allow l' ss
    | none => none

/-- what `ExternalCommand::execute` does -/
inductive Decision2 where
  | run                                      -- `commandStarted`, `executeExternalCommand`
  | skip (result : Kind) (reported : Bool)
  | update                                   -- completes with `computeCommandResult` (a successful kind) WITHOUT starting the command
  deriving DecidableEq, Repr

/-- amo = `allow-modified-outputs`; anyMissing = some output is missing on disk now -/
def execute2 (amo anyMissing : Bool) (l : Life) : Decision2 :=
  match execute l.cmd with
  | .skip k r => .skip k r
  | .run => if updateGuard l.upd.canUpdate l.upd.hasPrior && canUpdateWithResult amo anyMissing then .update else .run

/-- one build's calls on the command: start, the prior value if the engine has one, the input values -/
def buildSteps (prior : Option Kind) (inputs : List Kind) : List LifeStep :=
  .start :: (match prior with | some k => [.prior k] | none => []) ++ inputs.map .input

end LLBuild.FailProp
