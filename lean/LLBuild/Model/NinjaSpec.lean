/-
C17LOAD reference semantics: what a Ninja manifest means, written from the Ninja manual
("Variables", "Variable expansion", "Evaluation and scoping", "Rule variables", "Pools",
"include / subninja") and validated against the installed `ninja` binary by the check
(`ninja -t commands`, `ninja -n`, `ninja -n -d explain`, `ninja -t query`).  CORE LEAN ONLY.

It works on the same declaration stream as the loader model but is organised differently:

* string evaluation is a recursive descent over the *text* (`$$`, `$ `, `$:`, `$\n` + indentation,
  `${name}`, `$name`), not a cursor machine;
* an environment is a flat pair of functions (variables, rules); `include` threads it through,
  `subninja` runs the child file on a *copy* and throws the copy away (so the child sees every
  variable **and rule** of the parent and the parent sees nothing of the child);
* anything Ninja rejects (bad `$`-escape, unknown rule or pool, duplicate rule in the same scope,
  rule without `command`, unknown rule variable, empty path, cyclic rule variables, …) makes the
  whole result `none`: the manifest is not in the language.

Where the manual is silent or differs from the implementation the spec is restricted instead:
a second spelling of a file already named (`./a` after `a`) gives `none` (llbuild keeps the first
spelling, Ninja canonicalises both), and file-level variables are read at the build statement
(the property's carve-out: Ninja's implementation reads them at the end of the file).
-/
import LLBuild.Model.NinjaLoader

namespace LLBuild.NinjaLoader.Spec

/-! ## Variable expansion -/

def isIdentCharS (c : UInt8) : Bool :=
  (97 ≤ c && c ≤ 122) || (65 ≤ c && c ≤ 90) || (48 ≤ c && c ≤ 57) || c == 95 || c == 46 || c == 45

/-- `$name` without braces: letters, digits, `_` and `-` (no `.`) -/
def isSimpleCharS (c : UInt8) : Bool :=
  (97 ≤ c && c ≤ 122) || (65 ≤ c && c ≤ 90) || (48 ≤ c && c ≤ 57) || c == 95 || c == 45

def isBlank (c : UInt8) : Bool := c == 32 || c == 9 || c == 10 || c == 11 || c == 12 || c == 13

/-- Expand a value.  `lookup` gives a variable's value (or fails, for cyclic rule variables). -/
def eval (lookup : Bytes → Option Bytes) : Bytes → Option Bytes
  | [] => some []
  | c :: r =>
    if c ≠ 36 then (eval lookup r).map (c :: ·)
    else
      match hr : r with
      | [] => none                                         -- a lone `$` at the end
      | d :: r' =>
        if d = 10 then eval lookup (r'.dropWhile isBlank)   -- `$` newline: continuation, skip indentation
        else if d = 32 ∨ d = 58 ∨ d = 36 then (eval lookup r').map (d :: ·)   -- `$ `, `$:`, `$$`
        else if d = 123 then                               -- `${name}`
          match hd : r'.dropWhile (· ≠ 125) with
          | [] => none
          | _ :: r'' =>
            if (r'.takeWhile (· ≠ 125)).all isIdentCharS then
              (lookup (r'.takeWhile (· ≠ 125))).bind fun v => (eval lookup r'').map (v ++ ·)
            else none
        else if isSimpleCharS d then                       -- `$name`: the longest simple name
          (lookup (d :: r'.takeWhile isSimpleCharS)).bind fun v =>
            (eval lookup (r'.dropWhile isSimpleCharS)).map (v ++ ·)
        else none
termination_by s => s.length
decreasing_by
  all_goals simp_wf
  · have := (List.dropWhile_sublist (l := r') isBlank).length_le; omega
  · omega
  · have := (List.dropWhile_sublist (l := r') (· ≠ 125)).length_le
    rw [hd] at this; simp at this; omega
  · have := (List.dropWhile_sublist (l := r') isSimpleCharS).length_le; omega

/-! ## Environments -/

structure Env where
  /-- value of a variable as seen from here ("" when unbound) -/
  vars : Bytes → Bytes
  /-- rules visible from here -/
  rules : Bytes → Option RuleV
  /-- rules declared in this very scope (declaring one of them again is an error) -/
  own : Bytes → Bool

def upd {α : Type} (f : Bytes → α) (k : Bytes) (v : α) : Bytes → α := fun n => if n = k then v else f n

/-- the built-in `phony` rule lives in the top-level scope -/
def Env.init : Env :=
  { vars := fun _ => [], rules := upd (fun _ => none) strPhony (some phonyRule),
    own := upd (fun _ => false) strPhony true }

structure SSt where
  env : Env
  /-- the files named so far, newest first (a node is identified by its normalised path) -/
  paths : List Bytes
  cmds : List Cmd
  pools : List (Bytes × Nat)
  defaults : List Bytes

def SSt.init : SSt :=
  { env := Env.init, paths := [], cmds := [], pools := [(strConsole, 1)], defaults := [] }

/-! ## Build statements -/

/-- Lookup order inside a build statement (manual, "Evaluation and scoping"):
1. the built-ins `$in`, `$in_newline`, `$out`;  2. build-level bindings;  3. rule-level bindings,
expanded *now*, in this same order (late binding);  4. the file's variables and those of the
enclosing scopes.  A rule variable that needs its own value is a cycle: the manifest is rejected.
`fuel` only bounds the nesting of rule variables. -/
def expand (esc : Bytes → Bytes) (ctx : BuildCtx) (quote : Bool) : Nat → List Bytes → Bytes → Option Bytes
  | 0, _, _ => none
  | fuel + 1, expanding, name =>
    let q := fun p => if quote then esc p else p
    if name = [105, 110] then some (joinWith [32] (ctx.ins.map q))
    else if name = [105, 110, 95, 110, 101, 119, 108, 105, 110, 101] then some (joinWith [10] (ctx.ins.map q))
    else if name = [111, 117, 116] then some (joinWith [32] (ctx.outs.map q))
    else match ctx.params.lookup name with
      | some v => some v
      | none =>
        match ctx.rule.lookup name with
        | some text =>
          if expanding.contains name then none
          else eval (fun n => expand esc ctx quote fuel (name :: expanding) n) text
        | none => some (ctx.scope name)

/-- `$in`/`$out` are shell-quoted in everything except the two file-name parameters -/
def quoted (name : Bytes) : Bool := !(name == strDepfile || name == strRspfile)

def expandNamed (esc : Bytes → Bytes) (ctx : BuildCtx) (name : Bytes) : Option Bytes :=
  expand esc ctx (quoted name) (ctx.rule.length + 1) [] name

def lookAllS (esc : Bytes → Bytes) (ctx : BuildCtx) : Option Looked :=
  (expandNamed esc ctx strCommand).bind fun c =>
  (expandNamed esc ctx strDescription).bind fun d =>
  (expandNamed esc ctx strDeps).bind fun dp =>
  (expandNamed esc ctx strDepfile).bind fun df =>
  (expandNamed esc ctx strPool).bind fun p =>
  (expandNamed esc ctx strGenerator).bind fun g =>
  (expandNamed esc ctx strRestat).bind fun r =>
  (expandNamed esc ctx strRspfile).bind fun rf =>
  (if rf.isEmpty then some [] else expandNamed esc ctx strRspfileContent).bind fun rc =>
  some ⟨c, d, dp, df, p, g, r, rf, rc⟩

/-- attributes: `deps` is "", `gcc` (needs a depfile) or `msvc` (no depfile); a named pool must
have been declared; the response file is identified by its normalised path -/
def depsStyleS (l : Looked) : Option Nat :=
  if l.deps = [] then some (if l.depfile = [] then 0 else 1)
  else if l.deps = strGcc then (if l.depfile = [] then none else some 1)
  else if l.deps = strMsvc then (if l.depfile = [] then some 2 else none)
  else none

def poolS (pools : List (Bytes × Nat)) (l : Looked) : Option (Option (Bytes × Nat)) :=
  if l.pool = [] then some none
  else match pools.lookup l.pool with
    | some d => some (some (l.pool, d))
    | none => none

def assembleS (norm : Bytes → Bytes) (pools : List (Bytes × Nat)) (rule : Bytes) (outs ins : List Node)
    (nExp nImp : Nat) (l : Looked) : Option Cmd :=
  (depsStyleS l).bind fun style =>
  (poolS pools l).bind fun pool =>
  some { rule := rule, outs := outs, ins := ins, nExp := nExp, nImp := nImp, command := l.command,
         description := l.description, depfile := l.depfile, depsStyle := style,
         rspfile := if l.rspfile = [] then [] else norm l.rspfile, rspContent := l.rspContent,
         generator := l.generator ≠ [], restat := l.restat ≠ [], pool := pool }

/-- name a file: a new spelling of an already named file is outside the modelled fragment -/
def addPath (norm : Bytes → Bytes) (seen : List Bytes) (p : Bytes) : Option (List Bytes) :=
  match seen.find? (fun q => norm q == norm p) with
  | some q => if q = p then some seen else none
  | none => some (p :: seen)

def evalPathsS (norm : Bytes → Bytes) (vars : Bytes → Bytes) :
    List Bytes → List Bytes → Option (List Bytes × List Bytes)
  | [], seen => some ([], seen)
  | t :: ts, seen =>
    (eval (fun n => some (vars n)) t).bind fun p =>
      if p.isEmpty then none else
      (addPath norm seen p).bind fun seen1 =>
        (evalPathsS norm vars ts seen1).map fun r => (p :: r.1, r.2)

/-- build-level bindings are evaluated immediately, in the file scope; the last one of a name wins -/
def evalBindingsS (vars : Bytes → Bytes) : List Binding → Option (List (Bytes × Bytes))
  | [] => some []
  | b :: bs =>
    (eval (fun n => some (vars n)) b.value).bind fun v =>
      (evalBindingsS vars bs).map fun r => r ++ [(b.name, v)]

/-- rule bindings are kept unevaluated; only the documented rule variables are allowed -/
def isRuleVariable (n : Bytes) : Bool :=
  n == strCommand || n == strDescription || n == strDeps || n == strDepfile || n == strGenerator ||
  n == strPool || n == strRestat || n == strRspfile || n == strRspfileContent

def ruleParamsS (bs : List Binding) : Option (List (Bytes × Bytes)) :=
  if bs.all (fun b => isRuleVariable b.name) then
    some (bs.reverse.map fun b => (b.name, b.value))
  else none

def poolDepthS (vars : Bytes → Bytes) : List Binding → Nat → Option Nat
  | [], d => some d
  | b :: bs, _ =>
    if b.name = strDepth then
      (eval (fun n => some (vars n)) b.value).bind fun v =>
        (parseDepth v).bind fun k => poolDepthS vars bs k
    else none

def defaultsS (norm : Bytes → Bytes) (vars : Bytes → Bytes) (seen : List Bytes) : List Bytes → Option (List Bytes)
  | [] => some []
  | t :: ts =>
    (eval (fun n => some (vars n)) t).bind fun p =>
      match seen.find? (fun q => norm q == norm p) with
      | some _ => (defaultsS norm vars seen ts).map fun r => norm p :: r
      | none => none

def stepS (P : Params) (files : Files) (recur : List Decl → SSt → Option SSt) : Decl → SSt → Option SSt
  | .perr, _ => none
  | .binding b, s =>
    (eval (fun n => some (s.env.vars n)) b.value).map fun v =>
      { s with env := { s.env with vars := upd s.env.vars b.name v } }
  | .default names, s =>
    (defaultsS P.norm s.env.vars s.paths names).map fun ds => { s with defaults := s.defaults ++ ds }
  | .include path, s =>
    (eval (fun n => some (s.env.vars n)) path).bind fun p =>
      match files.lookup (P.absPath p) with
      | some ds => recur ds s                              -- same scope: the file is read in place
      | none => none
  | .subninja path, s =>
    (eval (fun n => some (s.env.vars n)) path).bind fun p =>
      match files.lookup (P.absPath p) with
      | some ds =>
        -- a new scope that starts as a copy of this one; its bindings and rules are dropped at the end
        (recur ds { s with env := { s.env with own := fun _ => false } }).map fun s' => { s' with env := s.env }
      | none => none
  | .rule name params, s =>
    if s.env.own name then none else
    (ruleParamsS params).bind fun ps =>
      if (ps.lookup strCommand).isSome then
        some { s with env := { s.env with rules := upd s.env.rules name (some ⟨name, ps⟩),
                                          own := upd s.env.own name true } }
      else none
  | .pool name params, s =>
    if (s.pools.lookup name).isSome then none else
    (poolDepthS s.env.vars params 0).bind fun d =>
      if d = 0 then none else some { s with pools := (name, d) :: s.pools }
  | .build rname outs ins nExp nImp params, s =>
    (s.env.rules rname).bind fun r =>
    (evalPathsS P.norm s.env.vars outs s.paths).bind fun o =>
    (evalPathsS P.norm s.env.vars ins o.2).bind fun i =>
    (evalBindingsS s.env.vars params).bind fun bs =>
      let ctx : BuildCtx :=
        { ins := i.1.take nExp, outs := o.1, params := bs, rule := r.params, scope := s.env.vars }
      (lookAllS P.esc ctx).bind fun l =>
      (assembleS P.norm s.pools r.name (o.1.map (mkNode P.norm)) (i.1.map (mkNode P.norm)) nExp nImp l).map fun c =>
        { s with paths := i.2, cmds := s.cmds ++ [c] }

def foldS (f : Decl → SSt → Option SSt) : List Decl → SSt → Option SSt
  | [], s => some s
  | d :: ds, s => (f d s).bind (foldS f ds)

def loadDeclsS (P : Params) (files : Files) : Nat → List Decl → SSt → Option SSt
  | 0, _, _ => none
  | fuel + 1, ds, s => foldS (stepS P files (loadDeclsS P files fuel)) ds s

/-- the part of a loaded manifest the property talks about -/
structure Manifest where
  cmds : List Cmd
  pools : List (Bytes × Nat)
  defaults : List Bytes
  deriving DecidableEq, Repr

def load (P : Params) (files : Files) (fuel : Nat) (main : List Decl) : Option Manifest :=
  (loadDeclsS P files fuel main SSt.init).map fun s => ⟨s.cmds, s.pools, s.defaults⟩

end LLBuild.NinjaLoader.Spec

namespace LLBuild.NinjaLoader

/-- the loader's result, projected on the same fields -/
def St.manifest (st : St) : Spec.Manifest := ⟨st.cmds, st.pools, st.defaults⟩

/-! ## Ninja's own platform functions (for validating the spec against the installed binary) -/

/-- Ninja's `GetShellEscapedString` -/
def ninjaShellEscape (s : Bytes) : Bytes :=
  let safe := fun (c : UInt8) => (65 ≤ c && c ≤ 90) || (97 ≤ c && c ≤ 122) || (48 ≤ c && c ≤ 57) ||
    c == 95 || c == 43 || c == 45 || c == 46 || c == 47
  if s.all safe then s
  else [39] ++ s.flatMap (fun c => if c = 39 then [39, 92, 39, 39] else [c]) ++ [39]

end LLBuild.NinjaLoader
