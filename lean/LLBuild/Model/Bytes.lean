/-
Shared byte-string utilities for the executable models.  CORE LEAN ONLY.
-/
namespace LLBuild

abbrev Bytes := List UInt8

namespace Hex

def hexDigit (n : Nat) : Char :=
  if n < 10 then Char.ofNat (48 + n) else Char.ofNat (87 + n)

def ofByte (b : UInt8) : String :=
  String.ofList [hexDigit (b.toNat / 16), hexDigit (b.toNat % 16)]

def encode (bs : Bytes) : String :=
  if bs.isEmpty then "-" else String.join (bs.map ofByte)

def digitVal (c : Char) : Option Nat :=
  if '0' ≤ c ∧ c ≤ '9' then some (c.toNat - 48)
  else if 'a' ≤ c ∧ c ≤ 'f' then some (c.toNat - 87)
  else if 'A' ≤ c ∧ c ≤ 'F' then some (c.toNat - 55)
  else none

def decodeAux : List Char → Bytes → Option Bytes
  | [], acc => some acc.reverse
  | [_], _ => none
  | a :: b :: rest, acc =>
    match digitVal a, digitVal b with
    | some x, some y => decodeAux rest (UInt8.ofNat (x * 16 + y) :: acc)
    | _, _ => none

/-- "-" is the empty string; otherwise pairs of hex digits. -/
def decode (s : String) : Option Bytes :=
  if s == "-" then some [] else decodeAux s.toList []

end Hex

def bytesOfString (s : String) : Bytes := s.toUTF8.toList

end LLBuild
