/-
C06(c): the hand-off of finished tasks between completing threads and the engine thread, at lock
granularity.  Anchors: lib/Core/BuildEngine.cpp — the wait at the end of the work loop
(`unique_lock lock(finishedTaskInfosMutex); if (finishedTaskInfos.empty()) wait(lock);`), the drain
of `finishedTaskInfos` under the same mutex, and `taskIsComplete` (`{ lock_guard; push_back } notify_one`).
Each transition is one critical section (or the notify, which happens outside the lock).  The two
shape parameters are what the fingerprint extractor reads from the source: whether the engine
re-checks emptiness under the mutex before waiting, and whether the push happens before the notify.
CORE LEAN ONLY.
-/
namespace LLBuild.Handshake

/-- engine thread: working outside the critical section, holding the mutex at the emptiness check,
asleep in `wait` (mutex released), or notified and waiting to re-acquire the mutex -/
inductive EPc | work | locked | sleeping | woken
  deriving DecidableEq, Repr

/-- completing thread of one task: not yet reporting, inside `{lock; push}`, pushed and about to
`notify_one`, finished -/
inductive CPc | idle | pushing | toNotify | done
  deriving DecidableEq, Repr

structure St where
  e : EPc := .work
  c : List CPc := []
  /-- entries in `finishedTaskInfos` -/
  finished : Nat := 0
  /-- tasks the engine has taken out of `finishedTaskInfos` -/
  drained : Nat := 0
  mutexFree : Bool := true
  deriving DecidableEq, Repr

def setC (l : List CPc) (i : Nat) (x : CPc) : List CPc := l.set i x

/-- `recheck`: the engine tests `finishedTaskInfos.empty()` under the mutex before waiting. -/
inductive Step (recheck : Bool) : St → St → Prop
  /-- the engine takes everything out of the queue in one critical section -/
  | drain (s : St) : s.e = .work → s.mutexFree = true →
      Step recheck s { s with finished := 0, drained := s.drained + s.finished }
  /-- nothing else to do and tasks outstanding: take the mutex for the wait -/
  | lock (s : St) : s.e = .work → s.mutexFree = true → s.drained < s.c.length →
      Step recheck s { s with e := .locked, mutexFree := false }
  /-- still empty (or no re-check): wait — releases the mutex atomically -/
  | sleep (s : St) : s.e = .locked → (recheck = true → s.finished = 0) →
      Step recheck s { s with e := .sleeping, mutexFree := true }
  /-- something arrived in the meantime: do not wait -/
  | skip (s : St) : s.e = .locked → recheck = true → s.finished ≠ 0 →
      Step recheck s { s with e := .work, mutexFree := true }
  /-- after a notification the engine re-acquires the mutex and goes on -/
  | resume (s : St) : s.e = .woken → s.mutexFree = true →
      Step recheck s { s with e := .work }
  /-- a completing thread enters `{ lock_guard; push_back }` -/
  | cLock (s : St) (i : Nat) : s.c[i]? = some .idle → s.mutexFree = true →
      Step recheck s { s with c := setC s.c i .pushing, mutexFree := false }
  | cPush (s : St) (i : Nat) : s.c[i]? = some .pushing →
      Step recheck s { s with c := setC s.c i .toNotify, finished := s.finished + 1, mutexFree := true }
  /-- `notify_one` (outside the lock): wakes the engine if it is waiting -/
  | cNotify (s : St) (i : Nat) : s.c[i]? = some .toNotify →
      Step recheck s { s with c := setC s.c i .done, e := if s.e = .sleeping then .woken else s.e }

def init (n : Nat) : St := { c := List.replicate n .idle }

inductive Reach (recheck : Bool) (n : Nat) : St → Prop
  | init : Reach recheck n (init n)
  | step (s s' : St) : Reach recheck n s → Step recheck s s' → Reach recheck n s'

def countP (p : CPc → Bool) (l : List CPc) : Nat := (l.filter p).length

def pushed (x : CPc) : Bool := x == .toNotify || x == .done
def holding (x : CPc) : Bool := x == .pushing

end LLBuild.Handshake
