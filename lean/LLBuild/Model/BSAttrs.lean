/-
C09 — from the DEFINITION of a command (the keys of its mapping in the build file) to the MEMBERS of the command
object that `getSignature()` reads.  CORE LEAN ONLY.

* `ToolTable` / `ClassInfo`  the shape of the `configureAttribute` overloads (scalar / list / map) and of
                             `configureInputs` / `configureOutputs` / `configureDescription` of every command class:
                             per attribute name the member(s) assigned and the conversion (`Conv`) applied to the
                             value, the fall-through (`Otherwise`) and the defaults of the data members.  The tables
                             themselves are NOT written here: `extract/x_bsattrs.py` regenerates them from clang's
                             JSON AST into `LLBuild/Generated/BSAttrs.lean`.
* `Definition`               tool + command name + the ORDERED entries of the command's mapping (after `tool:`):
                             `inputs`, `outputs`, `description`, or an attribute with a scalar / list / map value —
                             what `BuildFileImpl::parseCommandsMapping` hands to the command, in file order.
* `run`                      interpreter: the generated table of the tool, applied entry by entry (a later entry
                             overwrites or appends exactly as the C++ statement does); result `Outcome`:
                             `loaded members diagnostics` | `aborted diagnostics` (`configureAttribute` returned false:
                             the loader gives up) | `stuck` (ill-typed table: never on the generated one, see Drv).
                             NOTE: `ctx.error(..)` WITHOUT `return false` (and every error of the `void` functions
                             configureInputs / configureOutputs) does not stop the load: `BuildFileImpl::numErrors` is
                             never consulted, so the command exists with the members as assigned; the frontend builds
                             and exits 1.  Such messages are the `diagnostics` of a `loaded` outcome.
* `configure`                `run` as `Except LoadError Members` (clean loads only), `Members.sig : CommandDef` being
                             exactly the record the recipe interpreter `sigTerm` consumes.
* hand models of the three llvm helpers the conversions call: `parseInt10` (`StringRef::getAsInteger(10, int&)`),
  `makeAbsolute` (`llvm::sys::fs::make_absolute` + `path::append`, POSIX), `splitDropEmpty` (`StringRef::split(.., sep,
  -1, KeepEmpty=false)`) and of `BuildSystemImpl::createNode`'s name rule (`isVirtualName`); they are tied by the
  `c09configure` correspondence only.
-/
import LLBuild.Model.Signature

namespace LLBuild.BSAttrs
open LLBuild LLBuild.Signature

/-! ## Table data types (produced by the extractor) -/

/-- A C string literal of the source: as text (for the pinned, readable tables) and as bytes (what the
interpreter compares with / emits).  The driver mode `c09attrcheck` re-checks `s.toUTF8 = b` on every run. -/
structure Lit where
  s : String
  b : Bytes
  deriving DecidableEq, Repr

/-- One operand of the `"…" + name + "…"` argument of `ctx.error`. -/
inductive MsgPart
  | lit (l : Lit)
  | attrName        -- `name`
  | attrValue       -- `value` (scalar overload)
  | cmdName         -- `getName()`
  | nodeName        -- the offending node's `getName()`
  deriving DecidableEq, Repr

abbrev Msg := List MsgPart

/-- How one handler turns the incoming value into the new value of ONE data member. -/
inductive Conv
  -- scalar value ----------------------------------------------------------------------------------------------
  /-- `m = value;` -/
  | verbatim
  /-- `if (value != t && value != f) { ctx.error(err); return false; }  m = value == t;`
  (also the `if (value == t) m = true; else if (value == f) m = false; else { error; return false; }` spelling) -/
  | boolStrict (t f : Lit) (err : Msg)
  /-- `m = value == t;` with no check of the value -/
  | boolLenient (t : Lit)
  /-- `if (value == l₁) m = E::c₁; else if … else { ctx.error(err); return false; }` — ordinal of the enumerator -/
  | enumStrict (cases : List (Lit × Nat)) (err : Msg)
  /-- `if (value != a₁ && …) { ctx.error(err); }  m = value;` — the error does NOT stop the load -/
  | oneOfLenient (allowed : List Lit) (err : Msg)
  /-- `int n = 0; if (value.getAsInteger(10, n)) { error notInt; return false; } if (n < 0) { error negative; return false; } m = value;` -/
  | nonNegInt (notInt negative : Msg)
  /-- `m.clear(); m.push_back(p₁); …; m.push_back(value);` — a scalar `args` runs through the shell -/
  | shellWrap (pre : List Lit)
  /-- `m.clear(); m.emplace_back(value);` -/
  | singleton
  /-- `StringRef(value).split(v, sep, -1, /*KeepEmpty=*/false); m = vector<string>(v.begin(), v.end());` -/
  | splitDropEmpty (sep : Lit)
  /-- `SmallString<> wd = value; llvm::sys::fs::make_absolute(wd); m = wd;` -/
  | makeAbsolute
  -- list value ------------------------------------------------------------------------------------------------
  /-- `m = values` (assignment, or clear + copy) -/
  | listCopy
  /-- `if (values.empty()) { ctx.error(err); return false; }` then `listCopy` -/
  | listCopyNonEmpty (err : Msg)
  /-- `for (v : values) m.emplace_back(v);` WITHOUT a clear: a repeated key appends -/
  | listAppend
  -- map value -------------------------------------------------------------------------------------------------
  /-- `m.clear(); for (e : values) m.emplace_back(e.first, e.second);` -/
  | mapCopy
  -- node lists (configureInputs / configureOutputs) -----------------------------------------------------------
  /-- `for (n : value) m.emplace_back(n);` WITHOUT a clear -/
  | nodesAppend
  /-- `if (value.size() == 1) m.push_back(value[0]); else if (value.empty()) error missing; else error extra(value[1]);` -/
  | nodesExactlyOne (missing extra : Msg)
  /-- `for (n : get<src>()) if (!n->isVirtual()) m.push_back(n->getName());  if (m.empty()) error empty;` -/
  | nonVirtualNamesOf (src : String) (empty : Msg)
  /-- `for (n : get<src>()) if (!n->isVirtual()) { if (m.empty()) m = n->getName(); else error extra(n); }  if (m.empty()) error missing;` -/
  | firstNonVirtualNameOf (src : String) (extra missing : Msg)
  deriving DecidableEq, Repr

/-- `member ← conv(value)` -/
structure Assign where
  member : String
  conv : Conv
  deriving DecidableEq, Repr

/-- One `name == "<attr>"` branch of a `configureAttribute` overload. -/
structure Row where
  attr : Lit
  assigns : List Assign
  deriving DecidableEq, Repr

/-- What an overload does with a name none of its branches matches. -/
inductive Otherwise
  /-- `return Base::configureAttribute(ctx, name, value);` -/
  | base (cls : String)
  /-- `ctx.error("unexpected attribute: '" + name + "'"); return false;` -/
  | unexpected (err : Msg)
  /-- `return true;` — every other name is accepted and ignored -/
  | acceptAny
  deriving DecidableEq, Repr

structure Overload where
  rows : List Row
  otherwise : Otherwise
  deriving DecidableEq, Repr

/-- `configureInputs` / `configureOutputs` / `configureDescription`: an optional call of the base class's
function first, then the own assignments (`[]` with `base = none`: an empty body, the key is ignored). -/
structure Handler where
  base : Option String
  assigns : List Assign
  deriving DecidableEq, Repr

inductive MVal
  | str (b : Bytes)
  | bool (b : Bool)
  | nat (n : Nat)                       -- enumerator ordinal
  | strs (l : List Bytes)               -- string lists; node lists as the nodes' names
  | pairs (l : List (Bytes × Bytes))
  | undef                               -- not a member of the class chain / a member of a type that is not modelled
  deriving DecidableEq, Repr

/-- a data member with the value a freshly constructed object has -/
structure FieldInfo where
  name : String
  dflt : MVal
  deriving DecidableEq, Repr

/-- One command class as written (own overloads only; `none` = not overridden, the base class's is used). -/
structure ClassInfo where
  name : String
  base : Option String
  fields : List FieldInfo
  scalar : Option Overload
  list : Option Overload
  map : Option Overload
  inputs : Option Handler
  outputs : Option Handler
  description : Option Handler
  deriving DecidableEq, Repr

/-- A tool's command class with the inheritance chain resolved: what a key of that tool's command runs. -/
structure ToolTable where
  tool : String
  cls : String
  fields : List FieldInfo
  scalar : Overload          -- `otherwise` is never `.base` here
  list : Overload
  map : Overload
  inputs : List Assign
  outputs : List Assign
  description : List Assign
  deriving DecidableEq, Repr

/-! ## Resolving the inheritance chain (the generated `tables` are checked against this by `decide`) -/

def findClass (cs : List ClassInfo) (n : String) : Option ClassInfo := cs.find? (·.name == n)

/-- the overload a class uses: its own, or the nearest base class's -/
def ownOverload (cs : List ClassInfo) (sel : ClassInfo → Option Overload) : Nat → String → Option Overload
  | 0, _ => none
  | fuel + 1, n => match findClass cs n with
    | none => none
    | some c => match sel c with
      | some o => some o
      | none => match c.base with
        | some b => ownOverload cs sel fuel b
        | none => none

/-- rows of the overload followed by the rows of the overloads it delegates to; first match wins, so a row
shadowed by an earlier one of the same attribute is dropped -/
def flatOverload (cs : List ClassInfo) (sel : ClassInfo → Option Overload) : Nat → String → Option Overload
  | 0, _ => none
  | fuel + 1, n => match ownOverload cs sel (fuel + 1) n with
    | none => none
    | some o => match o.otherwise with
      | .base b => match flatOverload cs sel fuel b with
        | some o' => some { rows := o.rows ++ o'.rows.filter (fun r => !(o.rows.any (·.attr.b == r.attr.b))),
                            otherwise := o'.otherwise }
        | none => none
      | _ => some o

def ownHandler (cs : List ClassInfo) (sel : ClassInfo → Option Handler) : Nat → String → Option Handler
  | 0, _ => none
  | fuel + 1, n => match findClass cs n with
    | none => none
    | some c => match sel c with
      | some h => some h
      | none => match c.base with
        | some b => ownHandler cs sel fuel b
        | none => none

def flatHandler (cs : List ClassInfo) (sel : ClassInfo → Option Handler) : Nat → String → Option (List Assign)
  | 0, _ => none
  | fuel + 1, n => match ownHandler cs sel (fuel + 1) n with
    | none => none
    | some h => match h.base with
      | some b => (flatHandler cs sel fuel b).map (· ++ h.assigns)
      | none => some h.assigns

/-- data members of the class and of its bases (most derived first) -/
def chainFields (cs : List ClassInfo) : Nat → String → List FieldInfo
  | 0, _ => []
  | fuel + 1, n => match findClass cs n with
    | none => []
    | some c => c.fields ++ (match c.base with | some b => chainFields cs fuel b | none => [])

def flatten (cs : List ClassInfo) (tool cls : String) : Option ToolTable :=
  match flatOverload cs (·.scalar) 8 cls, flatOverload cs (·.list) 8 cls, flatOverload cs (·.map) 8 cls,
        flatHandler cs (·.inputs) 8 cls, flatHandler cs (·.outputs) 8 cls, flatHandler cs (·.description) 8 cls with
  | some s, some l, some m, some i, some o, some d =>
    some { tool := tool, cls := cls, fields := chainFields cs 8 cls, scalar := s, list := l, map := m,
           inputs := i, outputs := o, description := d }
  | _, _, _, _, _, _ => none

/-! ## Definitions -/

inductive AttrValue
  | scalar (v : Bytes)
  | list (vs : List Bytes)
  | map (kvs : List (Bytes × Bytes))
  deriving DecidableEq, Repr

/-- one key of the command's mapping, after `tool:` -/
inductive Entry
  | inputs (names : List Bytes)
  | outputs (names : List Bytes)
  | description (v : Bytes)
  | attr (key : Bytes) (v : AttrValue)
  deriving DecidableEq, Repr

structure Definition where
  tool : String
  name : Bytes
  entries : List Entry
  deriving DecidableEq, Repr

/-! ## Hand models of the helpers the conversions call -/

/-- `BuildSystemImpl::createNode`: an implicitly created node is virtual iff its name is `<…>` (and does not end in
`/`, which a name ending in `>` cannot).  Nodes declared in a `nodes:` section are out of the model. -/
def isVirtualName (n : Bytes) : Bool :=
  match n.head?, n.getLast? with
  | some a, some z => a == 60 && z == 62
  | _, _ => false

def isDigit (c : UInt8) : Bool := 48 ≤ c && c ≤ 57

def digitsVal : Bytes → Nat → Nat
  | [], acc => acc
  | c :: cs, acc => digitsVal cs (acc * 10 + (c.toNat - 48))

/-- `StringRef::getAsInteger(10, int&)`: an optional `-`, at least one decimal digit, nothing else, and the value
fits an `int`; `none` = the call returns true (failure).  (`consumeUnsignedInteger`'s overflow test is exact for
radix 10, so "fits" can be decided on the unbounded value.) -/
def parseInt10 (s : Bytes) : Option Int :=
  match s with
  | 45 :: ds =>
    if ds.isEmpty || !ds.all isDigit then none
    else let v := digitsVal ds 0
      if v ≤ 2147483648 then some (-(Int.ofNat v)) else none
  | ds =>
    if ds.isEmpty || !ds.all isDigit then none
    else let v := digitsVal ds 0
      if v ≤ 2147483647 then some (Int.ofNat v) else none

/-- `StringRef::split(A, sep, -1, /*KeepEmpty=*/false)` for a one-byte separator -/
def splitDropEmptyAux (sep : UInt8) : Bytes → Bytes → List Bytes
  | [], cur => if cur.isEmpty then [] else [cur.reverse]
  | c :: cs, cur =>
    if c == sep then (if cur.isEmpty then splitDropEmptyAux sep cs [] else cur.reverse :: splitDropEmptyAux sep cs [])
    else splitDropEmptyAux sep cs (c :: cur)

def splitDropEmpty (sep : UInt8) (s : Bytes) : List Bytes := splitDropEmptyAux sep s []

/-- POSIX `path::has_root_directory`: a leading `/`, except that `//net` (exactly two slashes, then a name) is a
root NAME which has a root directory only when another `/` follows -/
def hasRootDirectory (p : Bytes) : Bool :=
  match p with
  | 47 :: 47 :: c :: rest => if c != 47 then rest.contains 47 else true
  | 47 :: _ => true
  | _ => false

/-- `//name…`: exactly two leading separators, then a non-separator (POSIX network root name) -/
def isNetName (p : Bytes) : Bool :=
  match p with
  | 47 :: 47 :: c :: _ => c != 47
  | _ => false

/-- one round of the loop of `path::append(path, a, b, c, d)` -/
def appendComponent (path comp : Bytes) : Bytes :=
  if path.getLast? == some 47 then path ++ comp.dropWhile (· == 47)
  else if comp.head? == some 47 then path ++ comp
  else if path.isEmpty || isNetName comp then path ++ comp
  else path ++ [47] ++ comp

/-- `llvm::sys::fs::make_absolute(p)` (POSIX: every path "has a root name") in a process whose current directory
is `cwd`, an absolute path beginning with exactly one `/`: a path with a root directory is kept; otherwise
`append("", root_name(p), root_directory(cwd), relative_path(cwd), relative_path(p))`.  So `""` becomes `cwd/`
and `//net` becomes `//net/<cwd without its leading slash>/`. -/
def makeAbsolute (cwd p : Bytes) : Bytes :=
  if hasRootDirectory p then p
  else
    let rootName := if isNetName p then p else []
    let rel := if isNetName p then [] else p
    appendComponent (appendComponent (appendComponent (appendComponent [] rootName) [47]) (cwd.drop 1)) rel

/-! ## The interpreter -/

abbrev Mem := String → MVal

def Mem.set (m : Mem) (k : String) (v : MVal) : Mem := fun k' => if k' = k then v else m k'

def initMem (fields : List FieldInfo) : Mem := fun k =>
  match fields.find? (·.name == k) with
  | some f => f.dflt
  | none => .undef

/-- the value an entry carries -/
inductive EVal
  | scalar (v : Bytes)
  | list (vs : List Bytes)
  | map (kvs : List (Bytes × Bytes))
  | nodes (names : List Bytes)
  deriving DecidableEq, Repr

structure Ctx where
  cwd : Bytes
  cmd : Bytes        -- the command's name
  key : Bytes        -- the attribute name (`inputs` / `outputs` / `description` for those keys)
  deriving DecidableEq, Repr

def renderMsg (c : Ctx) (value node : Bytes) : Msg → Bytes
  | [] => []
  | .lit l :: r => l.b ++ renderMsg c value node r
  | .attrName :: r => c.key ++ renderMsg c value node r
  | .attrValue :: r => value ++ renderMsg c value node r
  | .cmdName :: r => c.cmd ++ renderMsg c value node r
  | .nodeName :: r => node ++ renderMsg c value node r

inductive ConvResult
  | set (v : MVal) (diags : List Bytes)   -- the member is assigned; `diags`: errors that do not stop the load
  | keep (diags : List Bytes)             -- the member is not assigned; the load continues
  | abort (diag : Bytes)                  -- `return false`
  | stuck                                 -- conversion applied to a value / member of the wrong type
  deriving DecidableEq, Repr

/-- the loop of `firstNonVirtualNameOf` -/
def firstNonVirtualLoop (c : Ctx) (extra : Msg) : List Bytes → Bytes → List Bytes → Bytes × List Bytes
  | [], cur, ds => (cur, ds.reverse)
  | n :: ns, cur, ds =>
    if isVirtualName n then firstNonVirtualLoop c extra ns cur ds
    else if cur.isEmpty then firstNonVirtualLoop c extra ns n ds
    else firstNonVirtualLoop c extra ns cur (renderMsg c [] n extra :: ds)

/-- `conv` applied to the incoming value `ev`, given the member's current value `old` and (for the derived
members) the current value `src` of the member it is computed from -/
def applyConv (c : Ctx) (conv : Conv) (old src : MVal) (ev : EVal) : ConvResult :=
  match conv, ev with
  | .verbatim, .scalar v => .set (.str v) []
  | .boolStrict t f err, .scalar v =>
    if v == t.b then .set (.bool true) []
    else if v == f.b then .set (.bool false) []
    else .abort (renderMsg c v [] err)
  | .boolLenient t, .scalar v => .set (.bool (v == t.b)) []
  | .enumStrict cases err, .scalar v =>
    match cases.find? (·.1.b == v) with
    | some (_, n) => .set (.nat n) []
    | none => .abort (renderMsg c v [] err)
  | .oneOfLenient allowed err, .scalar v =>
    if allowed.any (·.b == v) then .set (.str v) [] else .set (.str v) [renderMsg c v [] err]
  | .nonNegInt notInt negative, .scalar v =>
    match parseInt10 v with
    | none => .abort (renderMsg c v [] notInt)
    | some n => if n < 0 then .abort (renderMsg c v [] negative) else .set (.str v) []
  | .shellWrap pre, .scalar v => .set (.strs (pre.map (·.b) ++ [v])) []
  | .singleton, .scalar v => .set (.strs [v]) []
  | .splitDropEmpty sep, .scalar v =>
    match sep.b with
    | [s] => .set (.strs (splitDropEmpty s v)) []
    | _ => .stuck
  | .makeAbsolute, .scalar v => .set (.str (makeAbsolute c.cwd v)) []
  | .listCopy, .list vs => .set (.strs vs) []
  | .listCopyNonEmpty err, .list vs => if vs.isEmpty then .abort (renderMsg c [] [] err) else .set (.strs vs) []
  | .listAppend, .list vs =>
    match old with
    | .strs l => .set (.strs (l ++ vs)) []
    | _ => .stuck
  | .mapCopy, .map kvs => .set (.pairs kvs) []
  | .nodesAppend, .nodes ns =>
    match old with
    | .strs l => .set (.strs (l ++ ns)) []
    | _ => .stuck
  | .nodesExactlyOne missing extra, .nodes ns =>
    match old, ns with
    | .strs l, [n] => .set (.strs (l ++ [n])) []
    | .strs _, [] => .keep [renderMsg c [] [] missing]
    | .strs _, _ :: n2 :: _ => .keep [renderMsg c [] n2 extra]
    | _, _ => .stuck
  | .nonVirtualNamesOf _ empty, .nodes _ =>
    match old, src with
    | .strs l, .strs s =>
      let l' := l ++ s.filter (fun n => !isVirtualName n)
      .set (.strs l') (if l'.isEmpty then [renderMsg c [] [] empty] else [])
    | _, _ => .stuck
  | .firstNonVirtualNameOf _ extra missing, .nodes _ =>
    match old, src with
    | .str cur, .strs s =>
      let (cur', ds) := firstNonVirtualLoop c extra s cur []
      .set (.str cur') (ds ++ (if cur'.isEmpty then [renderMsg c [] [] missing] else []))
    | _, _ => .stuck
  | _, _ => .stuck

/-- the member a derived conversion reads besides its own -/
def Conv.source : Conv → Option String
  | .nonVirtualNamesOf s _ => some s
  | .firstNonVirtualNameOf s _ _ => some s
  | _ => none

/-- members an assignment reads: its target (append-style conversions) and its source -/
def Assign.reads (a : Assign) : List String :=
  a.member :: (match a.conv.source with | some s => [s] | none => [])

inductive Outcome
  | loaded (m : Mem) (diags : List Bytes)
  | aborted (diags : List Bytes)
  | stuck

/-- result of one entry (or of a prefix of its statements) -/
inductive Step
  | next (m : Mem) (diags : List Bytes)
  | abort (diags : List Bytes)          -- `return false`; the last message is the fatal one
  | stuck

/-- the current value of the member a derived conversion is computed from -/
def Assign.srcVal (a : Assign) (m : Mem) : MVal :=
  match a.conv.source with
  | some s => m s
  | none => .undef

def runAssign (c : Ctx) (ev : EVal) (a : Assign) (m : Mem) : Step :=
  match applyConv c a.conv (m a.member) (a.srcVal m) ev with
  | .set v ds => .next (m.set a.member v) ds
  | .keep ds => .next m ds
  | .abort d => .abort [d]
  | .stuck => .stuck

/-- the statements of one branch, in order -/
def runAssigns (c : Ctx) (ev : EVal) : List Assign → Mem → Step
  | [], m => .next m []
  | a :: as, m =>
    match runAssign c ev a m with
    | .next m' ds => match runAssigns c ev as m' with
      | .next m'' ds' => .next m'' (ds ++ ds')
      | .abort ds' => .abort (ds ++ ds')
      | .stuck => .stuck
    | .abort ds => .abort ds
    | .stuck => .stuck

inductive Resolved
  | assigns (key : Bytes) (ev : EVal) (as : List Assign)
  | unexpected (key : Bytes) (err : Msg)
  | ignored

def resolveAttr (o : Overload) (key : Bytes) (ev : EVal) : Resolved :=
  match o.rows.find? (·.attr.b == key) with
  | some r => .assigns key ev r.assigns
  | none => match o.otherwise with
    | .unexpected err => .unexpected key err
    | .acceptAny => .ignored
    | .base _ => .unexpected key []       -- not in a flattened table (`flatten` removes every `.base`)

def keyInputs : Bytes := [105, 110, 112, 117, 116, 115]
def keyOutputs : Bytes := [111, 117, 116, 112, 117, 116, 115]
def keyDescription : Bytes := [100, 101, 115, 99, 114, 105, 112, 116, 105, 111, 110]

def resolve (t : ToolTable) : Entry → Resolved
  | .inputs ns => .assigns keyInputs (.nodes ns) t.inputs
  | .outputs ns => .assigns keyOutputs (.nodes ns) t.outputs
  | .description v => .assigns keyDescription (.scalar v) t.description
  | .attr k (.scalar v) => resolveAttr t.scalar k (.scalar v)
  | .attr k (.list vs) => resolveAttr t.list k (.list vs)
  | .attr k (.map kvs) => resolveAttr t.map k (.map kvs)

/-- one entry of the definition -/
def stepEntry (t : ToolTable) (cwd cmd : Bytes) (e : Entry) (m : Mem) : Step :=
  match resolve t e with
  | .assigns key ev as => runAssigns { cwd := cwd, cmd := cmd, key := key } ev as m
  | .unexpected key err => .abort [renderMsg { cwd := cwd, cmd := cmd, key := key } [] [] err]
  | .ignored => .next m []

def runEntries (t : ToolTable) (cwd cmd : Bytes) : List Entry → Mem → Outcome
  | [], m => .loaded m []
  | e :: es, m =>
    match stepEntry t cwd cmd e m with
    | .next m' ds => match runEntries t cwd cmd es m' with
      | .loaded m'' ds' => .loaded m'' (ds ++ ds')
      | .aborted ds' => .aborted (ds ++ ds')
      | .stuck => .stuck
    | .abort ds => .aborted ds
    | .stuck => .stuck

def findTable (ts : List ToolTable) (tool : String) : Option ToolTable := ts.find? (·.tool == tool)

/-- **the loader's configure step** for one command definition, on the tables `ts` -/
def run (ts : List ToolTable) (cwd : Bytes) (d : Definition) : Outcome :=
  match findTable ts d.tool with
  | some t => runEntries t cwd d.name d.entries (initMem t.fields)
  | none => .stuck

/-! ## Members as the recipe model's `CommandDef` -/

def MVal.strD : MVal → Bytes | .str b => b | _ => []
def MVal.boolD (d : Bool) : MVal → Bool | .bool b => b | _ => d
def MVal.natD : MVal → Nat | .nat n => n | _ => 0
def MVal.strsD : MVal → List Bytes | .strs l => l | _ => []
def MVal.pairsD : MVal → List (Bytes × Bytes) | .pairs l => l | _ => []

/-- The `CommandDef` of a configured command: every field is the data member of the same name (the names the
recipes use).  A member the class chain does not have reads as the `CommandDef` default; no recipe of that
class mentions it.  `type` / `producers` are BuildNode's. -/
def toDef (name : Bytes) (m : Mem) : CommandDef :=
  { name := name,
    inputs := (m "inputs").strsD, outputs := (m "outputs").strsD,
    allowMissingInputs := (m "allowMissingInputs").boolD false,
    allowModifiedOutputs := (m "allowModifiedOutputs").boolD false,
    alwaysOutOfDate := (m "alwaysOutOfDate").boolD false,
    args := (m "args").strsD, env := (m "env").pairsD, depsPaths := (m "depsPaths").strsD,
    depsStyle := (m "depsStyle").natD, inheritEnv := (m "inheritEnv").boolD true,
    canSafelyInterrupt := (m "canSafelyInterrupt").boolD true, signatureData := (m "signatureData").strD,
    executable := (m "executable").strD, moduleName := (m "moduleName").strD,
    moduleAliases := (m "moduleAliases").strsD, moduleOutputPath := (m "moduleOutputPath").strD,
    sourcesList := (m "sourcesList").strsD, objectsList := (m "objectsList").strsD,
    importPaths := (m "importPaths").strsD, tempsPath := (m "tempsPath").strD,
    otherArgs := (m "otherArgs").strsD, isLibrary := (m "isLibrary").boolD false,
    enableWholeModuleOptimization := (m "enableWholeModuleOptimization").boolD false,
    numThreads := (m "numThreads").strD, contents := (m "contents").strD,
    workingDirectory := (m "workingDirectory").strD, controlEnabled := (m "controlEnabled").boolD true,
    depsPath := (m "depsPath").strD, compilerStyle := (m "compilerStyle").strD }

/-- the data member a recipe `Field` names (`cachedSignature` is the cache, never an operand) -/
def Field.memberName : Field → String
  | .name => "name" | .inputs => "inputs" | .outputs => "outputs"
  | .allowMissingInputs => "allowMissingInputs" | .allowModifiedOutputs => "allowModifiedOutputs"
  | .alwaysOutOfDate => "alwaysOutOfDate" | .args => "args" | .env => "env" | .depsPaths => "depsPaths"
  | .depsStyle => "depsStyle" | .inheritEnv => "inheritEnv" | .canSafelyInterrupt => "canSafelyInterrupt"
  | .signatureData => "signatureData" | .cachedSignature => "cachedSignature"
  | .workingDirectory => "workingDirectory" | .controlEnabled => "controlEnabled" | .type => "type"
  | .executable => "executable" | .moduleName => "moduleName" | .moduleAliases => "moduleAliases"
  | .moduleOutputPath => "moduleOutputPath" | .sourcesList => "sourcesList" | .objectsList => "objectsList"
  | .importPaths => "importPaths" | .tempsPath => "tempsPath" | .otherArgs => "otherArgs"
  | .isLibrary => "isLibrary" | .contents => "contents"
  | .enableWholeModuleOptimization => "enableWholeModuleOptimization" | .numThreads => "numThreads"
  | .depsPath => "depsPath" | .compilerStyle => "compilerStyle"

/-- the configured command: every data member, and the record the recipe interpreter consumes -/
structure Members where
  all : Mem
  sig : CommandDef

inductive LoadError
  | aborted (diags : List Bytes)        -- `configureAttribute` returned false; the last message is the fatal one
  | diagnostics (diags : List Bytes)    -- loaded, but errors were reported (the frontend exits 1)
  | stuck
  deriving DecidableEq, Repr

/-- **configure** — the members of a cleanly loaded definition -/
def configure (ts : List ToolTable) (cwd : Bytes) (d : Definition) : Except LoadError Members :=
  match run ts cwd d with
  | .loaded m [] => .ok { all := m, sig := toDef d.name m }
  | .loaded _ ds => .error (.diagnostics ds)
  | .aborted ds => .error (.aborted ds)
  | .stuck => .error .stuck

/-! ## Which members a recipe hashes, and which attributes reach them (computed; pinned by Props/C09Attrs.lean) -/

def exprFields : Expr → List Field
  | .this => []
  | .member f => [f]
  | .loopVar => []
  | .call r _ => exprFields r
  | .sel e _ => exprFields e
  | .index e _ => exprFields e
  | .toBool e => exprFields e
  | .toInt e => exprFields e
  | .toStringRef e => exprFields e
  | .not e => exprFields e

/-- `this->getName()` reads the member `name` -/
def exprReadsName : Expr → Bool
  | .call .this .getName => true
  | .call r _ => exprReadsName r
  | .sel e _ => exprReadsName e
  | .index e _ => exprReadsName e
  | .toBool e => exprReadsName e
  | .toInt e => exprReadsName e
  | .toStringRef e => exprReadsName e
  | .not e => exprReadsName e
  | _ => false

def exprMembers (e : Expr) : List String :=
  (exprFields e).map Field.memberName ++ (if exprReadsName e then ["name"] else [])

def stmtMembers : Stmt → List String
  | .comb c => exprMembers c.arg
  | .forRange r body => exprMembers r ++ (body.map fun c => exprMembers c.arg).flatten
  | .note _ => []

/-- members the step reads to compute the value (the cache member is not an operand) and the base recipes it starts from -/
def stepMembers : Signature.Step → List String × List Cls
  | .initDefault => ([], [])
  | .initString e => (exprMembers e, [])
  | .initBase c => ([], [c])
  | .stmt s => (stmtMembers s, [])
  | .ifElse c t e => (exprMembers c ++ (t.map stmtMembers).flatten ++ (e.map stmtMembers).flatten, [])
  | .cacheLoad _ => ([], [])
  | .nullToOne => ([], [])
  | .cacheStore _ => ([], [])

/-- every data member the recipe of class `c` mentions, the recipes it delegates to included -/
def recipeMembers (rs : Cls → Option Recipe) : Nat → Cls → List String
  | 0, _ => []
  | fuel + 1, c => match rs c with
    | none => []
    | some r => (r.map fun st =>
        (stepMembers st).1 ++ ((stepMembers st).2.map fun b => recipeMembers rs fuel b).flatten).flatten.eraseDups

/-- one line of the attribute table of a tool: which key (and which overload) assigns which member how -/
structure Assignment where
  tool : String
  kind : String        -- "scalar" | "list" | "map" | "inputs" | "outputs" | "description"
  attr : String
  member : String
  conv : Conv
  deriving DecidableEq, Repr

def ToolTable.assignments (t : ToolTable) : List Assignment :=
  let ov (kind : String) (o : Overload) : List Assignment :=
    (o.rows.map fun r => r.assigns.map fun a => ⟨t.tool, kind, r.attr.s, a.member, a.conv⟩).flatten
  let h (kind : String) (l : List Assign) : List Assignment := l.map fun a => ⟨t.tool, kind, kind, a.member, a.conv⟩
  ov "scalar" t.scalar ++ ov "list" t.list ++ ov "map" t.map ++ h "inputs" t.inputs ++ h "outputs" t.outputs ++
    h "description" t.description

/-- the assignments of every tool whose member the tool's recipe does NOT mention -/
def unsignedAssignments (rs : Cls → Option Recipe) (tools : List (String × String × Cls)) (ts : List ToolTable) :
    List (String × String × String × String) :=
  (ts.map fun t => match tools.lookup t.tool with
    | some (_, c) => (t.assignments.filter fun a => !(recipeMembers rs 4 c).contains a.member).map
        fun a => (a.tool, a.kind, a.attr, a.member)
    | none => t.assignments.map fun a => (a.tool, a.kind, a.attr, a.member)).flatten

/-- per tool, the attribute names (any overload) ALL of whose assigned members the recipe mentions -/
def hashedAttributes (rs : Cls → Option Recipe) (tools : List (String × String × Cls)) (ts : List ToolTable) :
    List (String × List String) :=
  ts.map fun t => (t.tool, match tools.lookup t.tool with
    | some (_, c) =>
      let as := t.assignments.filter fun a => a.kind == "scalar" || a.kind == "list" || a.kind == "map"
      ((as.map (·.attr)).eraseDups).filter fun n =>
        (as.filter (·.attr == n)).all fun a => (recipeMembers rs 4 c).contains a.member
    | none => [])

/-! ## `ExternalCommand::isResultValid`: is the stored result of a command still valid on a scan?

The chain (checks before the loop, the steps of one loop iteration, the value after the loop) is generated by
extract/x_bsattrs.py from the AST of the function; tied to the real tool by the `is-mutated` two-build histories of c09.py. -/

/-- one output of the command at scan time: the node's kind and flag, the file information recorded in the stored result
(`value.getNthOutputInfo(i)`) and the one on disk now (`node->getFileInfo(..)`); `none` = `isMissing()` -/
structure OutputState where
  isVirtual : Bool
  isMutated : Bool
  recorded : Option Nat
  current : Option Nat
  deriving DecidableEq, Repr

inductive BeforeCheck
  | alwaysOutOfDate          -- if (alwaysOutOfDate) return false;
  | notSuccessfulCommand     -- if (!value.isSuccessfulCommand()) return false;
  deriving DecidableEq, Repr

inductive OutputStep
  /-- `if (node->isVirtual()) continue;` -/
  | skipVirtual
  /-- `if (node->isMutated()) { if (recorded.isMissing() != info.isMissing()) return false; continue; }` when `thenContinue`;
  `if (node->isMutated()) return recorded.isMissing() == info.isMissing();` otherwise (the function RETURNS: later outputs are not looked at) -/
  | mutatedExistence (thenContinue : Bool)
  /-- `if (recorded != info) return false;` -/
  | compareInfo
  deriving DecidableEq, Repr

structure ResultValidChain where
  before : List BeforeCheck
  perOutput : List OutputStep
  after : Bool
  deriving DecidableEq, Repr

/-- what one step of an iteration decides -/
inductive Verdict
  | fallThrough        -- next statement of the iteration
  | nextOutput         -- `continue`
  | ret (v : Bool)     -- `return v`
  deriving DecidableEq, Repr

def OutputStep.run (o : OutputState) : OutputStep → Verdict
  | .skipVirtual => if o.isVirtual then .nextOutput else .fallThrough
  | .mutatedExistence thenContinue =>
    if o.isMutated then
      (if o.recorded.isNone != o.current.isNone then .ret false else if thenContinue then .nextOutput else .ret true)
    else .fallThrough
  | .compareInfo => if o.recorded != o.current then .ret false else .fallThrough

/-- one iteration: `none` = go on with the next output -/
def runIteration (o : OutputState) : List OutputStep → Option Bool
  | [] => none
  | s :: ss => match s.run o with
    | .fallThrough => runIteration o ss
    | .nextOutput => none
    | .ret v => some v

def runOutputs (c : ResultValidChain) : List OutputState → Bool
  | [] => c.after
  | o :: os => match runIteration o c.perOutput with
    | some v => v
    | none => runOutputs c os

/-- `isResultValid` for a command with the flag `alwaysOutOfDate`, a stored value that is / is not a successful command
result, and the outputs in declaration order -/
def resultValidOf (c : ResultValidChain) (alwaysOutOfDate successful : Bool) (outs : List OutputState) : Bool :=
  if c.before.any (fun b => match b with | .alwaysOutOfDate => alwaysOutOfDate | .notSuccessfulCommand => !successful) then false
  else runOutputs c outs

/-- the output still matches what the command produced: virtual outputs always; a mutated one if it still exists / is still
missing; any other if its file information is the recorded one -/
def OutputState.matches (o : OutputState) : Bool :=
  o.isVirtual || (if o.isMutated then o.recorded.isNone == o.current.isNone else o.recorded == o.current)

end LLBuild.BSAttrs
