/-
C03 / C04 model of the database layer: `SQLiteBuildDB` (lib/Core/SQLiteBuildDB.cpp).  CORE LEAN ONLY.

* SQLite type affinity of a column from its DECLARED TYPE (extracted DDL), applied to bound texts and to
  the operand of `key == ?` (SQLite's documented rules; corresponded against the real sqlite3 library).
* the dependency blob codec with the extracted shift / mask constants.
* the database file as a `committed` snapshot + one lock bit, connections with `closed | open | inTxn`
  state, a `pending` snapshot while in a transaction and the two id caches; operations `open` (version
  gate: accept / recreate / refuse), getCurrentEpoch, setCurrentIteration, lookupRuleResult (both paths),
  setRuleResult, buildStarted, buildComplete, getKeysWithResult; `crash` discards pending + all memory.

Assumptions named here, not proved: a SQLite transaction is atomic (its writes become visible in `committed`
all at once at END, or not at all); `BEGIN EXCLUSIVE` excludes every other connection, readers included;
rowid allocation for `INTEGER PRIMARY KEY` is max+1.  The engine's key table (BuildDBDelegate) is a
bijection key <-> KeyID that is stable for the life of the BuildDB object, so the model uses the key bytes
themselves as the engine KeyID.
-/
import LLBuild.Model.Bytes
import LLBuild.Generated.SQLiteDB

namespace LLBuild.BuildDB
open LLBuild.Generated

/-! ## SQLite column affinity -/

inductive Affinity | text | numeric | integer | real | blob
  deriving DecidableEq, Repr

def upperByte (b : UInt8) : UInt8 := if 97 ≤ b && b ≤ 122 then b - 32 else b

def hasSub (needle : Bytes) : Bytes → Bool
  | [] => needle.isEmpty
  | h :: t => needle.isPrefixOf (h :: t) || hasSub needle t

/-- "Determination Of Column Affinity" (sqlite.org/datatype3.html §3.1), rules 1-5 in order. -/
def affinityOf (decl : Bytes) : Affinity :=
  let u := decl.map upperByte
  if hasSub [73,78,84] u then .integer                                                        -- INT
  else if hasSub [67,72,65,82] u || hasSub [67,76,79,66] u || hasSub [84,69,88,84] u then .text  -- CHAR CLOB TEXT
  else if u.isEmpty || hasSub [66,76,79,66] u then .blob                                       -- BLOB / no type
  else if hasSub [82,69,65,76] u || hasSub [70,76,79,65] u || hasSub [68,79,85,66] u then .real  -- REAL FLOA DOUB
  else .numeric

/-- A value as stored in a column / produced by a bind.  `real m e` is `m * 10^e` with `m` free of trailing
decimal zeros; `unmodelled` marks numeric-looking text whose IEEE-double rounding the model does not
reproduce (more than 15 significant digits, or an integral value in (2^53, 2^63) that is not exact). -/
inductive SqlValue
  | text (b : Bytes)
  | int (i : Int)
  | real (m : Int) (e : Int)
  | blob (b : Bytes)
  | unmodelled (b : Bytes)
  deriving DecidableEq, Repr

def isSpace (b : UInt8) : Bool := b == 32 || (9 ≤ b && b ≤ 13)
def isDigit (b : UInt8) : Bool := 48 ≤ b && b ≤ 57

def takeDigits : Bytes → Nat → Nat → (Nat × Nat × Bytes)
  | [], v, n => (v, n, [])
  | b :: t, v, n => if isDigit b then takeDigits t (v * 10 + (b.toNat - 48)) (n + 1) else (v, n, b :: t)

structure NumLit where
  neg : Bool
  mant : Nat
  exp10 : Int
  pureInt : Bool
  deriving DecidableEq, Repr

def takeSign : Bytes → Bool × Bytes
  | 45 :: t => (true, t)
  | 43 :: t => (false, t)
  | s => (false, s)

/-- `sqlite3AtoF`'s notion of "the whole text is a well-formed number" (leading/trailing white space allowed). -/
def parseNum (s0 : Bytes) : Option NumLit :=
  let s1 := s0.dropWhile isSpace
  let (neg, s2) := takeSign s1
  let (ip, ni, s3) := takeDigits s2 0 0
  let (m, nf, isReal, s4) : Nat × Nat × Bool × Bytes :=
    match s3 with
    | 46 :: t => let (m, nf, r) := takeDigits t ip 0; (m, nf, true, r)
    | _ => (ip, 0, false, s3)
  if ni + nf == 0 then none else
  match s4 with
  | [] => some ⟨neg, m, -(nf : Int), !isReal⟩
  | e :: t =>
    if e == 101 || e == 69 then
      let (eneg, t1) := takeSign t
      let (ev, ne, r) := takeDigits t1 0 0
      if ne == 0 then none
      else if (r.dropWhile isSpace).isEmpty then
        some ⟨neg, m, (if eneg then -(ev : Int) else (ev : Int)) - (nf : Int), false⟩
      else none
    else if ((e :: t).dropWhile isSpace).isEmpty then some ⟨neg, m, -(nf : Int), !isReal⟩
    else none

def stripZeros : Nat → Nat → Int → Nat × Int
  | 0, m, e => (m, e)
  | fuel + 1, m, e => if m != 0 && m % 10 == 0 then stripZeros fuel (m / 10) (e + 1) else (m, e)

def digitsAux : Nat → Nat → Bytes → Bytes
  | 0, _, acc => acc
  | fuel + 1, n, acc =>
    let acc' := UInt8.ofNat (48 + n % 10) :: acc
    if n / 10 == 0 then acc' else digitsAux fuel (n / 10) acc'

/-- decimal digits of `n` -/
def natDigits (n : Nat) : Bytes := digitsAux (n + 1) n []

def signed (neg : Bool) (n : Nat) : Int := if neg then -(n : Int) else (n : Int)

/-- NUMERIC/INTEGER affinity on a text (`applyNumericAffinity` with bTryForInt): integer if it is one, else real. -/
def numericOfText (s : Bytes) : SqlValue :=
  match parseNum s with
  | none => .text s
  | some lit =>
    let int64Max : Nat := 9223372036854775807
    if lit.pureInt && (if lit.neg then lit.mant ≤ int64Max + 1 else lit.mant ≤ int64Max) then .int (signed lit.neg lit.mant)
    else if lit.mant == 0 then .int 0
    else
      let (m, e) := stripZeros (s.length + 400) lit.mant lit.exp10
      if (natDigits m).length > 15 || e > 290 || e < -290 then .unmodelled s
      else if e ≥ 0 then
        let v := m * 10 ^ e.toNat
        if v < 9223372036854775807 then
          (if m * 5 ^ e.toNat < 9007199254740992 then .int (signed lit.neg v) else .unmodelled s)
        else .real (signed lit.neg m) e
      else .real (signed lit.neg m) e

/-- REAL affinity: like NUMERIC, then integers are forced to floating point. -/
def realOfText (s : Bytes) : SqlValue :=
  match numericOfText s with
  | .int i =>
    if i == 0 then .real 0 0
    else
      let (m, e) := stripZeros (s.length + 400) i.natAbs 0
      if (natDigits m).length > 15 then .unmodelled s else .real (signed (i < 0) m) e
  | v => v

/-- what a column of affinity `a` stores when `v` is inserted -/
def applyAffinity (a : Affinity) : SqlValue → SqlValue
  | .text s =>
    match a with
    | .text | .blob => .text s
    | .numeric | .integer => numericOfText s
    | .real => realOfText s
  | v => v    -- blobs are never converted; no other storage class is ever bound by this code

/-- the conversion `key == ?` applies to its right operand (datatype3 §4.2): NUMERIC if the column is
INTEGER/REAL/NUMERIC, TEXT if the column is TEXT (a no-op on text), none for BLOB. -/
def applyCompareAffinity (a : Affinity) : SqlValue → SqlValue
  | .text s =>
    match a with
    | .text | .blob => .text s
    | .numeric | .integer | .real => numericOfText s
  | v => v

/-- numeric equality of an integer with `m * 10^e` -/
def intEqReal (i m e : Int) : Bool := e ≥ 0 && i == m * 10 ^ e.toNat

/-- `==` on two values of possibly different storage class (BINARY collation) -/
def SqlValue.eqv : SqlValue → SqlValue → Bool
  | .text a, .text b => a == b
  | .blob a, .blob b => a == b
  | .int a, .int b => a == b
  | .real m e, .real m' e' => m == m' && e == e'
  | .int i, .real m e => intEqReal i m e
  | .real m e, .int i => intEqReal i m e
  | .unmodelled a, .unmodelled b => a == b
  | _, _ => false

def padZeros (n : Nat) : Bytes := List.replicate n 48

/-- `sqlite3_column_text` of a REAL: `%!.15g` of `m * 10^e` (|m| has at most 15 digits). -/
def realText (m e : Int) : Bytes :=
  if m == 0 then [48, 46, 48] else
  let ds := natDigits m.natAbs
  let sign : Bytes := if m < 0 then [45] else []
  let x : Int := (ds.length : Int) - 1 + e
  if x < -4 || x ≥ 15 then
    let frac := ds.drop 1
    let ex := natDigits x.natAbs
    sign ++ ds.take 1 ++ [46] ++ (if frac.isEmpty then [48] else frac) ++ [101] ++ (if x < 0 then [45] else [43]) ++
      (if ex.length < 2 then 48 :: ex else ex)
  else if x ≥ 0 then
    let ip := ds.take (x.toNat + 1)
    let ip := ip ++ padZeros (x.toNat + 1 - ip.length)
    let frac := ds.drop (x.toNat + 1)
    sign ++ ip ++ [46] ++ (if frac.isEmpty then [48] else frac)
  else
    sign ++ [48, 46] ++ padZeros ((-x).toNat - 1) ++ ds

/-- the bytes `sqlite3_column_text` / `sqlite3_column_bytes` return -/
def SqlValue.toText : SqlValue → Bytes
  | .text b => b
  | .blob b => b
  | .int i => (if i < 0 then [45] else []) ++ natDigits i.natAbs
  | .real m e => realText m e
  | .unmodelled b => b

def SqlValue.typeName : SqlValue → String
  | .text _ => "text" | .blob _ => "blob" | .int _ => "integer" | .real _ _ => "real" | .unmodelled _ => "unmodelled"

/-! ### The key column of `key_names` (declared type and bind kinds from the extractor) -/

def keyAffinity : Affinity := affinityOf SQLiteDB.keyColumnDeclType

def bindAs (kind : String) (k : Bytes) : SqlValue := if kind == "blob" then .blob k else .text k

def bindKind (stmt : String) : String := (SQLiteDB.keyBinds.lookup stmt).getD "text"

/-- the value stored by `INSERT OR IGNORE INTO key_names(key) VALUES (?)` -/
def storeKey (k : Bytes) : SqlValue := applyAffinity keyAffinity (bindAs (bindKind "insertIntoKeysStmt") k)
/-- the right operand of `key == ?` in `findKeyIDForKeyStmt` / `findRuleResultStmt` after conversion -/
def probeKey (k : Bytes) : SqlValue := applyCompareAffinity keyAffinity (bindAs (bindKind "findKeyIDForKeyStmt") k)
def probeKeyJoin (k : Bytes) : SqlValue := applyCompareAffinity keyAffinity (bindAs (bindKind "findRuleResultStmt") k)

/-! ## Dependency blob codec -/

def two64 : Nat := 18446744073709551616

def b2n (b : Bool) : Nat := if b then 1 else 0

/-- `(dbKeyID.value << a) + (dependency.singleUse << b) + dependency.orderOnly` in uint64 arithmetic -/
def encodeDep (c : SQLiteDB.DepEnc) (id : Nat) (singleUse orderOnly : Bool) : Nat :=
  ((id <<< c.idShift) + (b2n singleUse <<< c.singleUseShift) + (b2n orderOnly <<< c.orderOnlyShift)) % two64

/-- `orderOnly = raw & m0; singleUse = (raw >> s) & m1; id = raw >> a` → (id, singleUse, orderOnly) -/
def decodeDep (c : SQLiteDB.DepDec) (raw : Nat) : Nat × Bool × Bool :=
  (raw >>> c.idShift, ((raw >>> c.singleUseShift) &&& c.singleUseMask) != 0, (raw &&& c.orderOnlyMask) != 0)

/-- `BinaryEncoder::write(uint64_t)`: eight bytes, least significant first -/
def le8 (x : Nat) : Bytes :=
  [UInt8.ofNat (x % 256), UInt8.ofNat (x / 256 % 256), UInt8.ofNat (x / 65536 % 256), UInt8.ofNat (x / 16777216 % 256),
   UInt8.ofNat (x / 4294967296 % 256), UInt8.ofNat (x / 1099511627776 % 256), UInt8.ofNat (x / 281474976710656 % 256),
   UInt8.ofNat (x / 72057594037927936 % 256)]

def ofLe8 (b0 b1 b2 b3 b4 b5 b6 b7 : UInt8) : Nat :=
  b0.toNat + 256 * b1.toNat + 65536 * b2.toNat + 16777216 * b3.toNat + 4294967296 * b4.toNat +
  1099511627776 * b5.toNat + 281474976710656 * b6.toNat + 72057594037927936 * b7.toNat

def encodeBlob (raws : List Nat) : Bytes := raws.flatMap le8

/-- `numDependencyBytes / sizeof(uint64_t)` entries; `none` = "unexpected contents for database result" -/
def decodeBlob : Bytes → Option (List Nat)
  | [] => some []
  | b0 :: b1 :: b2 :: b3 :: b4 :: b5 :: b6 :: b7 :: rest => (decodeBlob rest).map (ofLe8 b0 b1 b2 b3 b4 b5 b6 b7 :: ·)
  | _ => none

/-! ## Database state -/

structure Dep where
  key : Bytes
  orderOnly : Bool
  singleUse : Bool
  deriving DecidableEq, Repr

/-- `core::Result` without the two timestamps (the harness stores constants there) -/
structure Result where
  value : Bytes
  signature : Nat
  builtAt : Nat
  computedAt : Nat
  deps : List Dep
  deriving DecidableEq, Repr

/-- one row of `rule_results` (key_id is the map key) -/
structure Row where
  value : Bytes
  signature : Nat
  builtAt : Nat
  computedAt : Nat
  deps : Bytes
  deriving DecidableEq, Repr

structure Snapshot where
  schema : Bool                      -- do the three tables exist
  version : Nat
  client : Nat
  iteration : Nat
  keyNames : List (Nat × SqlValue)   -- key_names(id, key), in insertion order
  rows : List (Nat × Row)            -- rule_results by key_id
  deriving DecidableEq, Repr

def Snapshot.none : Snapshot := ⟨false, 0, 0, 0, [], []⟩

/-- the schema-creation transaction of `open`: `INSERT INTO info VALUES (0, currentSchemaVersion, client, 0)` -/
def Snapshot.fresh (client : Nat) : Snapshot := ⟨true, SQLiteDB.currentSchemaVersion, client, 0, [], []⟩

inductive CState | closed | opened | inTxn
  deriving DecidableEq, Repr

structure Conn where
  client : Nat
  recreate : Bool
  state : CState
  pending : Snapshot
  engineKeyIDs : List (Nat × Bytes)   -- DBKeyID ↦ engine KeyID (= key bytes)
  dbKeyIDs : List (Bytes × Nat)       -- engine KeyID ↦ DBKeyID

def Conn.fresh (client : Nat) (recreate : Bool) : Conn := ⟨client, recreate, .closed, .none, [], []⟩

structure World where
  committed : Snapshot
  lock : Option Nat
  conns : Nat → Option Conn

def World.init : World := ⟨.none, none, fun _ => none⟩

def setConn (w : World) (c : Nat) (cn : Conn) : World :=
  { w with conns := fun i => if i = c then some cn else w.conns i }

def delConn (w : World) (c : Nat) : World :=
  { w with conns := fun i => if i = c then none else w.conns i }

inductive Err | busy | version | corrupt | dangling | other
  deriving DecidableEq, Repr

inductive Outcome
  | ok
  | epoch (n : Nat)
  | absent
  | result (r : Result)
  | keys (l : List (Bytes × Result))
  | err (e : Err)
  | noConn
  deriving DecidableEq, Repr

/-! ### `open`: the version gate -/

/-- `!(version != currentSchemaVersion || clientVersion != clientSchemaVersion)` on an existing `info` row -/
def gateOK (s : Snapshot) (client : Nat) : Bool :=
  s.schema && s.version == SQLiteDB.currentSchemaVersion && s.client == client

def blocked (w : World) (c : Nat) : Bool :=
  match w.lock with
  | some o => o != c
  | none => false

/-- `close()`: the caches are dropped iff the (repaired) code does so -/
def Conn.closed (cn : Conn) : Conn :=
  if SQLiteDB.closeClearsCaches then { cn with state := .closed, pending := .none, engineKeyIDs := [], dbKeyIDs := [] }
  else { cn with state := .closed, pending := .none }

/-- connections that merely exist as closed BuildDB objects survive a recreate; those with the file open do not -/
def forgetOpen (conns : Nat → Option Conn) : Nat → Option Conn := fun i =>
  match conns i with
  | some cn => if cn.state = .closed then some cn else none
  | none => none

/-- Every entry point starts with `open()`.  A database that fails the gate is recreated empty (and every
connection still open on the unlinked file is forgotten: it now works on an orphaned inode, outside the
model) or refused. -/
def ensureOpen (w : World) (c : Nat) (cn : Conn) : Except Err (World × Conn) :=
  if blocked w c then .error .busy
  else match cn.state with
  | .closed =>
    if gateOK w.committed cn.client then .ok (w, { cn with state := .opened })
    else if !cn.recreate then .error .version
    else .ok ({ w with committed := .fresh cn.client, conns := forgetOpen w.conns }, { cn with state := .opened })
  | _ => .ok (w, cn)

def view (w : World) (cn : Conn) : Snapshot := if cn.state = .inTxn then cn.pending else w.committed

/-- write `s` back as the connection's view: into `pending` inside a transaction, else auto-commit -/
def putView (w : World) (c : Nat) (cn : Conn) (s : Snapshot) : World :=
  if cn.state = .inTxn then setConn w c { cn with pending := s }
  else setConn { w with committed := s } c cn

/-! ### key ids -/

def findKeyIdWith (probe : SqlValue) (kn : List (Nat × SqlValue)) : Option Nat :=
  (kn.find? (fun e => e.2.eqv probe)).map (·.1)

/-- `SELECT id FROM key_names WHERE key == ? LIMIT 1` -/
def findKeyId (kn : List (Nat × SqlValue)) (k : Bytes) : Option Nat := findKeyIdWith (probeKey k) kn

def maxId : List (Nat × SqlValue) → Nat
  | [] => 0
  | e :: t => max e.1 (maxId t)

/-- `getKeyIDFromDB`: find, else `INSERT OR IGNORE` and `sqlite3_last_insert_rowid` -/
def ensureKey (kn : List (Nat × SqlValue)) (k : Bytes) : List (Nat × SqlValue) × Nat :=
  match findKeyId kn k with
  | some id => (kn, id)
  | none => (kn ++ [(maxId kn + 1, storeKey k)], maxId kn + 1)

def Conn.cache (cn : Conn) (id : Nat) (k : Bytes) : Conn :=
  { cn with engineKeyIDs := (id, k) :: cn.engineKeyIDs, dbKeyIDs := (k, id) :: cn.dbKeyIDs }

/-- `getKeyID(KeyID)` -/
def getKeyID (cn : Conn) (kn : List (Nat × SqlValue)) (k : Bytes) : Conn × List (Nat × SqlValue) × Nat :=
  match cn.dbKeyIDs.lookup k with
  | some id => (cn, kn, id)
  | none =>
    let (kn', id) := ensureKey kn k
    (if id != 0 then cn.cache id k else cn, kn', id)

/-- `getKeyIDForID(DBKeyID)`: `none` = the id has no row in key_names -/
def keyForId (cn : Conn) (kn : List (Nat × SqlValue)) (id : Nat) : Conn × Option Bytes :=
  match cn.engineKeyIDs.lookup id with
  | some k => (cn, some k)
  | none =>
    match kn.lookup id with
    | none => (cn, none)
    | some v => (cn.cache id v.toText, some v.toText)

/-- the encoding loop of `setRuleResult` (request order) -/
def encodeDeps (cn : Conn) (kn : List (Nat × SqlValue)) : List Dep → Conn × List (Nat × SqlValue) × List Nat
  | [] => (cn, kn, [])
  | d :: ds =>
    let (cn1, kn1, id) := getKeyID cn kn d.key
    let (cn2, kn2, raws) := encodeDeps cn1 kn1 ds
    (cn2, kn2, encodeDep SQLiteDB.depEnc id d.singleUse d.orderOnly :: raws)

/-- the decoding loop of `lookupRuleResult` / `getKeysWithResult` -/
def resolveDeps (dec : SQLiteDB.DepDec) (cn : Conn) (kn : List (Nat × SqlValue)) : List Nat → Conn × Except Err (List Dep)
  | [] => (cn, .ok [])
  | raw :: raws =>
    let (id, su, oo) := decodeDep dec raw
    match keyForId cn kn id with
    | (cn1, none) => (cn1, .error .dangling)
    | (cn1, some k) =>
      match resolveDeps dec cn1 kn raws with
      | (cn2, .ok ds) => (cn2, .ok (⟨k, oo, su⟩ :: ds))
      | (cn2, .error e) => (cn2, .error e)

def decodeRow (dec : SQLiteDB.DepDec) (cn : Conn) (kn : List (Nat × SqlValue)) (row : Row) : Conn × Except Err Result :=
  match decodeBlob row.deps with
  | none => (cn, .error .corrupt)
  | some raws =>
    match resolveDeps dec cn kn raws with
    | (cn1, .ok ds) => (cn1, .ok ⟨row.value, row.signature, row.builtAt, row.computedAt, ds⟩)
    | (cn1, .error e) => (cn1, .error e)

/-- `INSERT OR REPLACE INTO rule_results` -/
def putRow (rows : List (Nat × Row)) (id : Nat) (row : Row) : List (Nat × Row) :=
  rows.filter (fun e => e.1 != id) ++ [(id, row)]

/-- `setRuleResult` on the connection's view -/
def applySet (cn : Conn) (s : Snapshot) (k : Bytes) (r : Result) : Conn × Snapshot :=
  let (cn1, kn1, id) := getKeyID cn s.keyNames k
  let (cn2, kn2, raws) := encodeDeps cn1 kn1 r.deps
  (cn2, { s with keyNames := kn2, rows := putRow s.rows id ⟨r.value, r.signature, r.builtAt, r.computedAt, encodeBlob raws⟩ })

/-- the two paths of `lookupRuleResult`: (id, row, connection with the slow path's cache entry) -/
def findRow (cn : Conn) (s : Snapshot) (k : Bytes) : Option (Nat × Row × Conn) :=
  match cn.dbKeyIDs.lookup k with
  | some id => (s.rows.lookup id).map (fun row => (id, row, cn))
  | none =>
    match findKeyIdWith (probeKeyJoin k) s.keyNames with
    | none => none
    | some id => (s.rows.lookup id).map (fun row => (id, row, cn.cache id k))

def applyLookup (cn : Conn) (s : Snapshot) (k : Bytes) : Conn × Outcome :=
  match findRow cn s k with
  | none => (cn, .absent)
  | some (_, row, cn1) =>
    match decodeRow SQLiteDB.depDecLookup cn1 s.keyNames row with
    | (cn2, .ok r) => (cn2, .result r)
    | (cn2, .error e) => (cn2, .err e)

/-- `getKeysWithResult`: the join, in key_id order -/
def applyKeys (kn : List (Nat × SqlValue)) : Conn → List (Nat × Row) → Conn × Except Err (List (Bytes × Result))
  | cn, [] => (cn, .ok [])
  | cn, (id, row) :: rest =>
    match kn.lookup id with
    | none => applyKeys kn cn rest
    | some v =>
      match decodeRow SQLiteDB.depDecKeys (cn.cache id v.toText) kn row with
      | (cn1, .error e) => (cn1, .error e)
      | (cn1, .ok r) =>
        match applyKeys kn cn1 rest with
        | (cn2, .ok l) => (cn2, .ok ((v.toText, r) :: l))
        | (cn2, .error e) => (cn2, .error e)

def insertRowSorted (e : Nat × Row) : List (Nat × Row) → List (Nat × Row)
  | [] => [e]
  | h :: t => if e.1 ≤ h.1 then e :: h :: t else h :: insertRowSorted e t

def sortRows (l : List (Nat × Row)) : List (Nat × Row) := l.foldr insertRowSorted []

/-! ### operations -/

inductive Op
  | reset
  | new (c client : Nat) (recreate : Bool)
  | drop (c : Nat)
  | crash
  | epoch (c : Nat)
  | setiter (c n : Nat)
  | start (c : Nat)
  | complete (c : Nat)
  | set (c : Nat) (k : Bytes) (r : Result)
  | lookup (c : Nat) (k : Bytes)
  | keys (c : Nat)
  deriving Repr

/-- destroying the BuildDB object: `sqlite3_close` rolls an open transaction back and releases the lock -/
def dropConn (w : World) (c : Nat) : World :=
  let w1 := delConn w c
  if w.lock = some c then { w1 with lock := none } else w1

/-- run `f` on the opened connection -/
def withOpen (w : World) (c : Nat) (f : World → Conn → World × Outcome) : World × Outcome :=
  match w.conns c with
  | none => (w, .noConn)
  | some cn =>
    match ensureOpen w c cn with
    | .error e => (w, .err e)
    | .ok (w1, cn1) => f w1 cn1

def step (w : World) : Op → World × Outcome
  | .reset => (World.init, .ok)
  | .new c client recreate => (setConn (dropConn w c) c (Conn.fresh client recreate), .ok)
  | .drop c =>
    match w.conns c with
    | none => (w, .noConn)
    | some _ => (dropConn w c, .ok)
  | .crash => ({ w with lock := none, conns := fun _ => none }, .ok)
  | .epoch c => withOpen w c fun w1 cn => (setConn w1 c cn, .epoch (view w1 cn).iteration)
  | .setiter c n => withOpen w c fun w1 cn => (putView w1 c cn { view w1 cn with iteration := n }, .ok)
  | .start c => withOpen w c fun w1 cn =>
      if cn.state = .inTxn then (setConn w1 c cn, .err .other)   -- "cannot start a transaction within a transaction"
      else (setConn { w1 with lock := some c } c { cn with state := .inTxn, pending := w1.committed }, .ok)
  | .complete c =>
    match w.conns c with
    | none => (w, .noConn)
    | some cn =>
      if cn.state = .inTxn then (setConn { w with committed := cn.pending, lock := none } c cn.closed, .ok)
      else (setConn w c cn.closed, .ok)
  | .set c k r => withOpen w c fun w1 cn =>
      let (cn1, s1) := applySet cn (view w1 cn) k r
      (putView w1 c cn1 s1, .ok)
  | .lookup c k => withOpen w c fun w1 cn =>
      let (cn1, out) := applyLookup cn (view w1 cn) k
      (setConn w1 c cn1, out)
  | .keys c => withOpen w c fun w1 cn =>
      match applyKeys (view w1 cn).keyNames cn (sortRows (view w1 cn).rows) with
      | (cn1, .ok l) => (setConn w1 c cn1, .keys l)
      | (cn1, .error e) => (setConn w1 c cn1, .err e)

def run (w : World) : List Op → World
  | [] => w
  | op :: ops => run (step w op).1 ops

/-! ### BuildSystem's merged client version -/

/-- `internalSchemaVersion + (clientVersion << 16)` in `mergedWidth`-bit unsigned arithmetic -/
def mergedVersion (client : Nat) : Nat :=
  (SQLiteDB.bsInternalSchemaVersion + (client <<< SQLiteDB.mergedShift)) % 2 ^ SQLiteDB.mergedWidth

/-! ### what the hand model was written against (compared with the extractor's output by `C03_wiring`) -/

def modelledStatements : List (String × String) := [
  ("deleteFromKeysStmt", "DELETE FROM key_names WHERE key == ?;"),
  ("findRuleResultStmt", "SELECT rule_results.key_id, value, built_at, computed_at, start, end, dependencies, signature FROM rule_results INNER JOIN key_names ON key_names.id = rule_results.key_id WHERE key == ?;"),
  ("fastFindRuleResultStmt", "SELECT key_id, value, built_at, computed_at, start, end, dependencies, signature FROM rule_results WHERE key_id == ?;"),
  ("getKeysWithResultStmt", "SELECT rule_results.key_id, key_names.key, rule_results.value, rule_results.built_at, rule_results.computed_at, rule_results.start, rule_results.end, rule_results.dependencies, rule_results.signature FROM rule_results JOIN key_names WHERE rule_results.key_id == key_names.id;"),
  ("insertIntoRuleResultsStmt", "INSERT OR REPLACE INTO rule_results VALUES (?, ?, ?, ?, ?, ?, ?, ?);"),
  ("findKeyIDForKeyStmt", "SELECT id FROM key_names WHERE key == ? LIMIT 1;"),
  ("findKeyNameForKeyIDStmt", "SELECT key FROM key_names WHERE id == ? LIMIT 1;"),
  ("insertIntoKeysStmt", "INSERT OR IGNORE INTO key_names(key) VALUES (?);")]

def ruleResultsCols : List (String × String × String) := (SQLiteDB.tables.lookup "rule_results").getD []

def bindKindFor (declType : String) : String :=
  if declType == "BLOB" then "blob" else if declType == "INTEGER" then "int64" else if declType == "REAL" then "double" else "?"

/-- `INSERT .. VALUES (?, ..)` binds positionally: parameter i feeds the i-th declared column; the model assumes
parameter i carries the Result field of that column's name, with the storage class of its declared type. -/
def insertWiringOK : Bool :=
  SQLiteDB.insertBinds.length == ruleResultsCols.length &&
  SQLiteDB.insertBinds.all fun (i, kind, field) =>
    match ruleResultsCols[i - 1]? with
    | some (col, ty, _) => decide (i ≥ 1) && col == field && bindKindFor ty == kind
    | none => false

def accessorOK (field acc : String) : Bool :=
  if field == "value" || field == "dependencies" then acc == "bytes" || acc == "blob"
  else if field == "key" then acc == "text" || acc == "bytes"
  else if field == "start" || field == "end" then acc == "double"
  else acc == "int64"

/-- every `sqlite3_column_*(stmt, i)` reads the select-list column named like the Result field it feeds, and every
reader feeds all of value, signature, built_at, computed_at, dependencies -/
def readWiringOK : Bool :=
  SQLiteDB.columnReads.length == 3 &&
  SQLiteDB.columnReads.all fun (stmt, reads) =>
    match SQLiteDB.selectColumns.lookup stmt with
    | none => false
    | some cols =>
      (reads.all fun (i, acc, field) => cols[i]? == some field && accessorOK field acc) &&
      (["key_id", "value", "signature", "built_at", "computed_at", "dependencies"].all fun f => reads.any fun r => r.2.2 == f)

def fingerprintOK : Bool :=
  SQLiteDB.statements == modelledStatements &&
  SQLiteDB.buildStartedSQL == "BEGIN EXCLUSIVE;" && SQLiteDB.buildCompleteSQL == "END;" && SQLiteDB.buildCompleteClosesConnection &&
  SQLiteDB.pragmas.isEmpty &&
  SQLiteDB.versionGateCondition == "version != currentSchemaVersion || clientVersion != clientSchemaVersion" &&
  SQLiteDB.refuseCondition == "!recreateOnUnmatchedVersion" &&
  SQLiteDB.initialInfoRow == "(0, %d, %d, 0) <- currentSchemaVersion, clientSchemaVersion" &&
  SQLiteDB.versionReadAccessors == ["int", "int"] &&
  SQLiteDB.getCurrentEpochSQL == "SELECT iteration FROM info LIMIT 1" &&
  SQLiteDB.setCurrentIterationSQL == "UPDATE info SET iteration = ? WHERE id == 0;" &&
  SQLiteDB.keyBinds == [("findKeyIDForKeyStmt", "text"), ("findRuleResultStmt", "text"), ("insertIntoKeysStmt", "text")] &&
  SQLiteDB.keyColumnConstraints == "UNIQUE" &&
  (SQLiteDB.tables.map fun t => (t.1, t.2.map (·.1))) ==
    [("info", ["id", "version", "client_version", "iteration"]), ("key_names", ["id", "key"]),
     ("rule_results", ["key_id", "value", "signature", "built_at", "computed_at", "start", "end", "dependencies"])] &&
  SQLiteDB.openSQL.length == 8 && SQLiteDB.openSQL[0]? == some "SELECT version,client_version FROM info LIMIT 1" &&
  SQLiteDB.openSQL[1]? == some "BEGIN EXCLUSIVE;" && SQLiteDB.openSQL[3]? == some "INSERT INTO info VALUES (0, %d, %d, 0);" &&
  SQLiteDB.openSQL[6]? == some "CREATE UNIQUE INDEX rule_results_idx ON rule_results (key_id);" && SQLiteDB.openSQL[7]? == some "END;" &&
  SQLiteDB.closeClearsCaches && decide (SQLiteDB.busyTimeoutMs ≥ 1000) &&
  SQLiteDB.recreateFlagBuildSystem && !SQLiteDB.recreateFlagCAPI

/-! ### the transaction shape the model was written against (compared with the extractor's output by
`C04_one_transaction_per_build`): the model moves `pending` to `committed` at `complete` only, and `open` commits
only the schema-creating transaction -/

/-- transaction-control statements by function: `open` brackets the schema creation, `buildStarted` begins the
build transaction, `buildComplete` ends it; no other function (in particular `setRuleResult` and
`setCurrentIteration`) commits, begins, rolls back, or changes the journalling through a PRAGMA -/
def modelledTxnControl : List (String × List String) :=
  [("open", ["BEGIN EXCLUSIVE;", "END;"]), ("buildStarted", ["BEGIN EXCLUSIVE;"]), ("buildComplete", ["END;"])]

/-- SQL that reaches sqlite3 through a variable: the `info` row of `open` and the eight prepared statements, whose
texts are in `modelledStatements` -/
def modelledSqlArgsNotLiteral : List (String × String × String) :=
  ("open", "sqlite3_exec", "query") ::
  (["findKeyIDForKeyStmt", "findKeyNameForKeyIDStmt", "insertIntoKeysStmt", "insertIntoRuleResultsStmt", "deleteFromKeysStmt",
    "findRuleResultStmt", "fastFindRuleResultStmt", "getKeysWithResultStmt"].map fun n => ("open", "sqlite3_prepare_v2", n ++ "SQL"))

/-- the sqlite3 API surface the model describes (no `sqlite3_wal_*`, `sqlite3_db_config`, `sqlite3_file_control`,
`sqlite3_open_v2`, backup or savepoint API) -/
def modelledSqliteCalls : List String :=
  ["sqlite3_bind_blob", "sqlite3_bind_double", "sqlite3_bind_int64", "sqlite3_bind_text", "sqlite3_busy_timeout",
   "sqlite3_clear_bindings", "sqlite3_close", "sqlite3_column_blob", "sqlite3_column_bytes", "sqlite3_column_count",
   "sqlite3_column_double", "sqlite3_column_int", "sqlite3_column_int64", "sqlite3_column_text", "sqlite3_config",
   "sqlite3_db_filename", "sqlite3_errcode", "sqlite3_errmsg", "sqlite3_errstr", "sqlite3_exec", "sqlite3_finalize",
   "sqlite3_free", "sqlite3_last_insert_rowid", "sqlite3_mprintf", "sqlite3_open", "sqlite3_prepare_v2", "sqlite3_reset",
   "sqlite3_step", "sqlite3_threadsafe"]

def txnShapeOK : Bool :=
  SQLiteDB.txnControl == modelledTxnControl && SQLiteDB.sqlArgsNotLiteral == modelledSqlArgsNotLiteral &&
  SQLiteDB.sqliteCalls == modelledSqliteCalls && SQLiteDB.pragmas.isEmpty

end LLBuild.BuildDB
