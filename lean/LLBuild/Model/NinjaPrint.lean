/-
C17: a PRINTER for Ninja declaration lists, and the decidable class `Printable` of lists it can write so that
lexer + parser read back exactly the same list (Props/C17Parse.lean, `C17_print_parse_roundtrip`).  CORE LEAN ONLY.

A declaration's texts (`Decl` of Model/NinjaLoader.lean) are the RAW token texts the parser hands to the
loader, i.e. Ninja source text with its `$`-escapes and `$var` references; `render` writes them verbatim in
canonical layout: one space between the tokens of a line (none in front of `:`), `\n` line ends, two spaces of
indentation for the bindings of a rule / pool / build statement, `|` / `||` sections only when non-empty,
never a `$`-newline continuation.  `escPath` produces the raw text of a literal path.

A line is a list of `Item`s (what the parser asks the lexer for, in which mode, with or without a blank in
front); `render` is the concatenation of the items' bytes, so the layout used in the proofs IS the printer.
-/
import LLBuild.Model.NinjaParser

namespace LLBuild.NinjaPrint
open LLBuild.NinjaLexer
open LLBuild.Generated.NinjaLexer (Kind)
open LLBuild.NinjaLoader (Decl Binding)

/-! ## Which texts are one token -/

/-- bytes that end a path string: C `isspace`, `:` and `|` -/
def isStopPath (n : Nat) : Bool := decide (n = 32 ∨ (9 ≤ n ∧ n ≤ 13) ∨ n = 58 ∨ n = 124)

/-- blanks the lexer skips in front of a token -/
def isBlank (n : Nat) : Bool := decide (n = 32 ∨ n = 9 ∨ n = 11 ∨ n = 12)

/-- a path-string body: `$` always comes with a following byte that is not CR / LF (so `$ `, `$:`, `$$`,
`$x`, `${` … are fine, a continuation is not), every other byte is anything but white space, `:`, `|` —
including `#`, `=`, NUL and all bytes 0x80–0xFF -/
def pathOK : Bytes → Bool
  | [] => true
  | [b] => decide (b.toNat ≠ 36) && !isStopPath b.toNat
  | b :: c :: r =>
    if b.toNat = 36 then decide (c.toNat ≠ 10) && decide (c.toNat ≠ 13) && pathOK r
    else !isStopPath b.toNat && pathOK (c :: r)

/-- a variable-string body: `$` comes with a following byte that is not CR / LF; no raw CR / LF -/
def varOK : Bytes → Bool
  | [] => true
  | [b] => decide (b.toNat ≠ 36) && decide (b.toNat ≠ 10) && decide (b.toNat ≠ 13)
  | b :: c :: r =>
    if b.toNat = 36 then decide (c.toNat ≠ 10) && decide (c.toNat ≠ 13) && varOK r
    else decide (b.toNat ≠ 10) && decide (b.toNat ≠ 13) && varOK (c :: r)

/-- `Lexer::isIdentifierChar` on a byte (generated ranges) -/
def identB (b : UInt8) : Bool := inRanges genCfg.identRanges b

/-- an identifier: non-empty, identifier characters only -/
def nameOK (n : Bytes) : Bool := !n.isEmpty && n.all identB

/-- the text is one of the keyword literals of the generated table -/
def isKeywordText (n : Bytes) : Bool := genCfg.keywords.any fun e => e.literal == n

def pathTextOK (p : Bytes) : Bool := !p.isEmpty && pathOK p

/-- a value: non-empty (`name =` + newline is parsed by a different path and is not printed), no leading blank
(the lexer would skip it) -/
def valueOK (v : Bytes) : Bool :=
  match v with
  | [] => false
  | b :: _ => !isBlank b.toNat && varOK v

/-- the literal of a keyword, read from the generated table -/
def kwText (k : Kind) : Bytes :=
  match genCfg.keywords.find? (fun e => e.kind = k) with
  | some e => e.literal
  | none => []

/-! ## Lines as items -/

inductive Piece where
  | word (w : Bytes)      -- keyword or identifier
  | path (p : Bytes)
  | value (v : Bytes)
  | colon | pipe | pipepipe | equals | newline | indent
  | eof                   -- the end of the buffer (no bytes)
  deriving DecidableEq, Repr

def Piece.bytes : Piece → Bytes
  | .word w => w
  | .path p => p
  | .value v => v
  | .colon => [58]
  | .pipe => [124]
  | .pipepipe => [124, 124]
  | .equals => [61]
  | .newline => [10]
  | .indent => [32, 32]
  | .eof => []

/-- one lexer call of the parser: the mode it has set, whether one blank precedes the token, the token's bytes -/
structure Item where
  mode : LexMode
  sp : Bool
  piece : Piece
  deriving DecidableEq, Repr

def Item.bytes (it : Item) : Bytes := (if it.sp then [32] else []) ++ it.piece.bytes

def layoutBytes (its : List Item) : Bytes := its.flatMap Item.bytes

def pathItem (p : Bytes) : Item := ⟨.pathString, true, .path p⟩

/-- `| a b` / `|| a b`, omitted when the list is empty -/
def optSec (mark : Piece) (l : List Bytes) : List Item :=
  if l.isEmpty then [] else ⟨.pathString, true, mark⟩ :: l.map pathItem

/-- `  name = value\n`; the indentation token is what the parser looks at in mode None, name and `=` are
lexed in IdentifierSpecific mode, the value in VariableString mode -/
def bindingLine (b : Binding) : List Item :=
  [⟨.none, false, .indent⟩, ⟨.identifierSpecific, false, .word b.name⟩, ⟨.identifierSpecific, true, .equals⟩,
   ⟨.variableString, true, .value b.value⟩, ⟨.none, false, .newline⟩]

def nameLine (k : Kind) (n : Bytes) : List Item :=
  [⟨.none, false, .word (kwText k)⟩, ⟨.identifierSpecific, true, .word n⟩, ⟨.none, false, .newline⟩]

/-- the items of one declaration; the first one is the word at the start of the line (lexed in mode None) -/
def declItems : Decl → List Item
  | .binding b =>
    [⟨.none, false, .word b.name⟩, ⟨.none, true, .equals⟩, ⟨.variableString, true, .value b.value⟩, ⟨.none, false, .newline⟩]
  | .rule n ps => nameLine .KWRule n ++ ps.flatMap bindingLine
  | .pool n ps => nameLine .KWPool n ++ ps.flatMap bindingLine
  | .build r outs ins nExp nImp ps =>
    ⟨.none, false, .word (kwText .KWBuild)⟩ :: (outs.map pathItem ++ ⟨.pathString, false, .colon⟩ ::
      ⟨.identifierSpecific, true, .word r⟩ :: ((ins.take nExp).map pathItem ++ (optSec .pipe ((ins.drop nExp).take nImp) ++
        (optSec .pipepipe (ins.drop (nExp + nImp)) ++ [⟨.pathString, false, .newline⟩])))) ++ ps.flatMap bindingLine
  | .default names => ⟨.none, false, .word (kwText .KWDefault)⟩ :: (names.map pathItem ++ [⟨.pathString, false, .newline⟩])
  | .include p => [⟨.none, false, .word (kwText .KWInclude)⟩, pathItem p, ⟨.none, false, .newline⟩]
  | .subninja p => [⟨.none, false, .word (kwText .KWSubninja)⟩, pathItem p, ⟨.none, false, .newline⟩]
  | .perr => []

/-- the printer -/
def renderDecl (d : Decl) : Bytes := layoutBytes (declItems d)

def render (ds : List Decl) : Bytes := ds.flatMap renderDecl

/-! ## What can be printed -/

/-- an indented binding: any identifier as name (keywords included: the name is lexed in IdentifierSpecific mode) -/
def bindingOK (b : Binding) : Bool := nameOK b.name && valueOK b.value

def declOK : Decl → Bool
  | .binding b => bindingOK b && !isKeywordText b.name     -- at the start of a line a keyword would start a declaration
  | .rule n ps => nameOK n && ps.all bindingOK
  | .pool n ps => nameOK n && ps.all bindingOK
  | .build r outs ins nExp nImp ps =>
    nameOK r && !outs.isEmpty && outs.all pathTextOK && ins.all pathTextOK && decide (nExp + nImp ≤ ins.length) && ps.all bindingOK
  | .default names => !names.isEmpty && names.all pathTextOK
  | .include p => pathTextOK p
  | .subninja p => pathTextOK p
  | .perr => false

/-- the declaration lists `render` writes faithfully -/
def Printable (ds : List Decl) : Bool := ds.all declOK

/-! ## Literal paths -/

/-- the raw text of a literal path: `$`, blank and `:` get a `$` in front -/
def escPath (p : Bytes) : Bytes :=
  p.flatMap fun b => if b.toNat = 36 ∨ b.toNat = 32 ∨ b.toNat = 58 then [36, b] else [b]

/-- a literal path that can be written: non-empty, no `|`, no white space other than the blank -/
def literalPathOK (p : Bytes) : Bool :=
  !p.isEmpty && p.all fun b => decide (b.toNat ≠ 124) && !decide (9 ≤ b.toNat ∧ b.toNat ≤ 13)

end LLBuild.NinjaPrint
