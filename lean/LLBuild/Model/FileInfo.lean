/-
C13 model: `FileInfo` / `FileTimestamp` / `FileChecksum` (include/llbuild/Basic/FileInfo.h),
`FileInfo::getInfoForPath`, `FileChecksum::getChecksumForPath` (lib/Basic/FileInfo.cpp) and the three
file-system modes (lib/Basic/FileSystem.cpp `LocalFileSystem`, include/llbuild/Basic/FileSystem.h
`DeviceAgnosticFileSystem`, `ChecksumOnlyFileSystem`).  CORE LEAN ONLY.

Table-like parts (compared members, `isMissing` leaves, the sentinel guard, what each wrapper zeroes and
where it takes the checksum from) come from `LLBuild.Generated.FileInfo` (extractor `x_fileinfo`).
The content digest is a PARAMETER `dg : Bytes → Bytes` of every function that needs it; the driver
instantiates it with `MD5.digest` below (bit-exact re-implementation of `llvm::MD5`, used for
correspondence only), the theorems keep it abstract.

The model follows the code after the proposed repairs F02 (MD5 `finalize` writes the member) and F20
(`operator==` distinguishes the missing record); see notes/C13.md.
-/
import LLBuild.Model.Bytes
import LLBuild.Generated.FileInfo

namespace LLBuild.MD5

def sTable : Array UInt32 := #[
  7, 12, 17, 22, 7, 12, 17, 22, 7, 12, 17, 22, 7, 12, 17, 22,
  5, 9, 14, 20, 5, 9, 14, 20, 5, 9, 14, 20, 5, 9, 14, 20,
  4, 11, 16, 23, 4, 11, 16, 23, 4, 11, 16, 23, 4, 11, 16, 23,
  6, 10, 15, 21, 6, 10, 15, 21, 6, 10, 15, 21, 6, 10, 15, 21]

def kTable : Array UInt32 := #[
  0xd76aa478, 0xe8c7b756, 0x242070db, 0xc1bdceee, 0xf57c0faf, 0x4787c62a, 0xa8304613, 0xfd469501,
  0x698098d8, 0x8b44f7af, 0xffff5bb1, 0x895cd7be, 0x6b901122, 0xfd987193, 0xa679438e, 0x49b40821,
  0xf61e2562, 0xc040b340, 0x265e5a51, 0xe9b6c7aa, 0xd62f105d, 0x02441453, 0xd8a1e681, 0xe7d3fbc8,
  0x21e1cde6, 0xc33707d6, 0xf4d50d87, 0x455a14ed, 0xa9e3e905, 0xfcefa3f8, 0x676f02d9, 0x8d2a4c8a,
  0xfffa3942, 0x8771f681, 0x6d9d6122, 0xfde5380c, 0xa4beea44, 0x4bdecfa9, 0xf6bb4b60, 0xbebfbc70,
  0x289b7ec6, 0xeaa127fa, 0xd4ef3085, 0x04881d05, 0xd9d4d039, 0xe6db99e5, 0x1fa27cf8, 0xc4ac5665,
  0xf4292244, 0x432aff97, 0xab9423a7, 0xfc93a039, 0x655b59c3, 0x8f0ccc92, 0xffeff47d, 0x85845dd1,
  0x6fa87e4f, 0xfe2ce6e0, 0xa3014314, 0x4e0811a1, 0xf7537e82, 0xbd3af235, 0x2ad7d2bb, 0xeb86d391]

def rotl (x n : UInt32) : UInt32 := (x <<< n) ||| (x >>> (32 - n))

def le32 (w : UInt32) : Bytes :=
  [w.toUInt8, (w >>> 8).toUInt8, (w >>> 16).toUInt8, (w >>> 24).toUInt8]

def word (b0 b1 b2 b3 : UInt8) : UInt32 :=
  b0.toUInt32 ||| (b1.toUInt32 <<< 8) ||| (b2.toUInt32 <<< 16) ||| (b3.toUInt32 <<< 24)

/-- the little-endian 32-bit words of a block -/
def words : Bytes → List UInt32
  | b0 :: b1 :: b2 :: b3 :: rest => word b0 b1 b2 b3 :: words rest
  | _ => []

structure State where
  a : UInt32
  b : UInt32
  c : UInt32
  d : UInt32

def init : State := ⟨0x67452301, 0xefcdab89, 0x98badcfe, 0x10325476⟩

def round (m : Array UInt32) (s : State) (i : Nat) : State :=
  let (f, g) :=
    if i < 16 then ((s.b &&& s.c) ||| (~~~s.b &&& s.d), i)
    else if i < 32 then ((s.d &&& s.b) ||| (~~~s.d &&& s.c), (5 * i + 1) % 16)
    else if i < 48 then (s.b ^^^ s.c ^^^ s.d, (3 * i + 5) % 16)
    else (s.c ^^^ (s.b ||| ~~~s.d), (7 * i) % 16)
  let f := f + s.a + kTable[i]! + m[g]!
  ⟨s.d, s.b + rotl f sTable[i]!, s.b, s.c⟩

def block (s : State) (blk : Bytes) : State :=
  let m := (words blk).toArray
  let r := (List.range 64).foldl (round m) s
  ⟨s.a + r.a, s.b + r.b, s.c + r.c, s.d + r.d⟩

def blocks : Nat → State → Bytes → State
  | 0, s, _ => s
  | n + 1, s, l => if l.isEmpty then s else blocks n (block s (l.take 64)) (l.drop 64)

def le64 (n : Nat) : Bytes :=
  (List.range 8).map fun i => UInt8.ofNat ((n >>> (8 * i)) % 256)

def pad (msg : Bytes) : Bytes :=
  let n := msg.length
  let z := (55 + 64 - n % 64) % 64        -- zero bytes so that n + 1 + z ≡ 56 (mod 64)
  msg ++ [0x80] ++ List.replicate z 0 ++ le64 ((8 * n) % 2 ^ 64)

/-- MD5 of a byte string (16 bytes), as `llvm::MD5::update` + `final` compute it. -/
def digest (msg : Bytes) : Bytes :=
  let p := pad msg
  let s := blocks (p.length / 64 + 1) init p
  le32 s.a ++ le32 s.b ++ le32 s.c ++ le32 s.d

end LLBuild.MD5

namespace LLBuild.FileInfo
open LLBuild.Generated.FileInfo

/-- what `stat`/`lstat` delivered for an existing object (`None` = the call failed) -/
structure Stat where
  dev : UInt64
  ino : UInt64
  mode : UInt64
  size : UInt64
  mtimeSec : UInt64
  mtimeNsec : UInt64
  deriving DecidableEq, Repr

structure FileTimestamp where
  seconds : UInt64
  nanoseconds : UInt64
  deriving DecidableEq, Repr

/-- `struct FileInfo`; `checksum` is `FileChecksum::bytes` -/
structure FileInfo where
  device : UInt64
  inode : UInt64
  mode : UInt64
  size : UInt64
  modTime : FileTimestamp
  checksum : Bytes
  deriving DecidableEq, Repr

/-- `FileChecksum{}` / `memset(bytes, 0, …)` -/
def zeroChecksum : Bytes := List.replicate checksumBytes 0

/-- `result.bytes[0] = 1` on a zero-initialised checksum: the directory marker -/
def dirChecksum : Bytes := 1 :: List.replicate (checksumBytes - 1) 0

/-- `hasher.copy(result.bytes)` on a zero-initialised checksum: digest bytes, then zeros -/
def digestChecksum (d : Bytes) : Bytes := d ++ List.replicate (checksumBytes - digestBytes) 0

/-- `memset(&result, 0, sizeof(result))`: the missing record -/
def FileInfo.zero : FileInfo := ⟨0, 0, 0, 0, ⟨0, 0⟩, zeroChecksum⟩

def FileInfo.leaf (i : FileInfo) : Leaf → UInt64
  | .device => i.device
  | .inode => i.inode
  | .mode => i.mode
  | .size => i.size
  | .modTimeSeconds => i.modTime.seconds
  | .modTimeNanoseconds => i.modTime.nanoseconds

def FileInfo.setLeaf (i : FileInfo) (l : Leaf) (v : UInt64) : FileInfo :=
  match l with
  | .device => { i with device := v }
  | .inode => { i with inode := v }
  | .mode => { i with mode := v }
  | .size => { i with size := v }
  | .modTimeSeconds => { i with modTime := { i.modTime with seconds := v } }
  | .modTimeNanoseconds => { i with modTime := { i.modTime with nanoseconds := v } }

/-- `FileInfo::isMissing()`: every extracted leaf is 0 -/
def FileInfo.isMissing (i : FileInfo) : Bool := isMissingZero.all fun l => i.leaf l == 0

/-- `S_IFDIR` (Linux) -/
def S_IFDIR : UInt64 := 0x4000

/-- `FileInfo::isDirectory()`: `(mode & S_IFDIR) != 0` -/
def FileInfo.isDirectory (i : FileInfo) : Bool := (i.mode &&& S_IFDIR) != 0

def tsMemberEq (a b : FileTimestamp) : TSMember → Bool
  | .seconds => a.seconds == b.seconds
  | .nanoseconds => a.nanoseconds == b.nanoseconds

/-- `FileTimestamp::operator==` -/
def FileTimestamp.eq (a b : FileTimestamp) : Bool := timestampEq.all (tsMemberEq a b)

/-- one conjunct `m == rhs.m` of `FileInfo::operator==`; the checksum conjunct is
`memcmp` over the whole array (the extractor insists on `sizeof(bytes)`) -/
def memberEq (a b : FileInfo) : Member → Bool
  | .device => a.device == b.device
  | .inode => a.inode == b.inode
  | .mode => a.mode == b.mode
  | .size => a.size == b.size
  | .modTime => FileTimestamp.eq a.modTime b.modTime
  | .checksum => a.checksum == b.checksum

/-- the member conjuncts alone (the whole of `operator==` before repair F20) -/
def FileInfo.eqMembers (a b : FileInfo) : Bool := fileInfoEq.all (memberEq a b)

/-- `FileInfo::operator==` -/
def FileInfo.eq (a b : FileInfo) : Bool :=
  (if fileInfoEqSameMissing then a.isMissing == b.isMissing else true) && a.eqMembers b

/-- copy of the stat buffer into the record (`result.checksum` stays `{}`) -/
def ofStat (st : Stat) : FileInfo :=
  ⟨st.dev, st.ino, st.mode, st.size, ⟨st.mtimeSec, st.mtimeNsec⟩, zeroChecksum⟩

/-- `FileInfo::getInfoForPath`, as a function of what `stat` (or `lstat`) delivered -/
def getInfoForPath : Option Stat → FileInfo
  | none => FileInfo.zero
  | some st =>
    let r := ofStat st
    match sentinelGuard with
    | some (l, v) => if r.isMissing then r.setLeaf l (UInt64.ofNat v) else r
    | none => r

/-- Everything the code can see of one path at one instant. -/
structure Obs where
  /-- `lstat(path)` -/
  lst : Option Stat
  /-- `stat(path)` (following symbolic links) -/
  st : Option Stat
  /-- the bytes `fopen(path, "rb")` + `fread` deliver; `none` if it cannot be opened -/
  content : Option Bytes
  /-- `readlink(path)`; `none` if the path is not a symbolic link -/
  link : Option Bytes
  deriving DecidableEq, Repr

/-- `FileChecksum::getChecksumForPath` -/
def getChecksumForPath (dg : Bytes → Bytes) (o : Obs) : Bytes :=
  let fi := getInfoForPath o.st
  if fi.isMissing then zeroChecksum
  else if fi.isDirectory then dirChecksum
  else match o.content with
    | some c => digestChecksum (dg c)
    | none => zeroChecksum

/-- `PlatformSpecificHasher(target).readPathStringAndDigest(info.checksum)` or `info.checksum = {0}` -/
def linkChecksum (dg : Bytes → Bytes) (o : Obs) : Bytes :=
  match o.link with
  | some t => digestChecksum (dg t)
  | none => zeroChecksum

def zeroLeaves (ls : List Leaf) (i : FileInfo) : FileInfo := ls.foldl (fun i l => i.setLeaf l 0) i

/-- a wrapper's `getFileInfo` / `getLinkInfo`, driven by the extracted description -/
def applyWrapper (dg : Bytes → Bytes) (w : Wrapper) (o : Obs) : FileInfo :=
  let base := match w.source with
    | .fileInfo => getInfoForPath o.st
    | .linkInfo => getInfoForPath o.lst
  let z := zeroLeaves w.zeroed base
  match w.checksum with
  | .keep => z
  | .implFileChecksum => { z with checksum := getChecksumForPath dg o }
  | .readlinkDigestElseZero => { z with checksum := linkChecksum dg o }

inductive FSMode | default | deviceAgnostic | checksumOnly
  deriving DecidableEq, Repr

/-- `FileSystem::getFileInfo(path)` in each mode -/
def fileInfo (dg : Bytes → Bytes) : FSMode → Obs → FileInfo
  | .default, o => getInfoForPath o.st
  | .deviceAgnostic, o => applyWrapper dg deviceAgnosticFile o
  | .checksumOnly, o => applyWrapper dg checksumOnlyFile o

/-- `FileSystem::getLinkInfo(path)` in each mode -/
def linkInfo (dg : Bytes → Bytes) : FSMode → Obs → FileInfo
  | .default, o => getInfoForPath o.lst
  | .deviceAgnostic, o => applyWrapper dg deviceAgnosticLink o
  | .checksumOnly, o => applyWrapper dg checksumOnlyLink o

/-- `FileSystem::getFileChecksum(path)`: both wrappers forward to the local file system -/
def fileChecksum (dg : Bytes → Bytes) (_ : FSMode) (o : Obs) : Bytes := getChecksumForPath dg o

end LLBuild.FileInfo
