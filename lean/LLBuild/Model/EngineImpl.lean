/-
Concrete build engine (`EngineImpl`): an executable, deterministic TRANSLITERATION of
`BuildEngineImpl` (lib/Core/BuildEngine.cpp) together with the client the harness gives it
(harness/vengine.cpp: `DslRule`, `DslTask`, `Delegate`, `MemDB`, the hook-driven schedule).

Where the abstract monitor (`LLBuild.Engine.step`) only ACCEPTS traces, this model PRODUCES the
trace of a build: the same rule DSL (`Engine.DSL`), the same work queues with their real
disciplines, the same order of callbacks.  `vlib/engine_impl.py` checks that the trace printed here
is, event for event, the trace printed by the real engine in the harness's deterministic mode 0.

Conventions
* one flat state record `State`; every C++ function `f(args)` is a Lean function
  `f args : State → State` (or `→ Bool × State` when the C++ function returns a value); the C++ name
  is kept and quoted in the doc comment;
* `std::vector` / `std::deque` are `List`s in natural order: `push_back x` is `l ++ [x]`,
  `pop_back` is `l.getLast?` / `l.dropLast`, `pop_front` is `head` / `tail`;
* `RuleInfo*` is the rule's key; `TaskInfo*` / `Task*` is the key of the rule the task computes (a
  rule has at most one live task); the key-id table (`KeyID` = address of the interned string) is not
  modelled: it is only used as an identity and never orders anything observable;
* hash-container iteration (`taskInfos`, `ruleInfos`, `successorGraph`) is done in list order; the
  three places where the C++ iterates such a container are order-insensitive (see `findCycle`,
  `cancelRemainingTasks`);
* loops that are not structurally recursive take a fuel argument; running out of fuel emits the
  token `FUEL`, after which nothing more is recorded (`halted`).  States the C++ cannot get out of
  (abort(), out-of-bounds read, null dereference, waiting on a condition nobody will signal) emit
  `BAD <what>` in the same way.
CORE LEAN ONLY.
-/
import LLBuild.Model.EngineDSL

namespace LLBuild.EngineImpl
open LLBuild.Engine LLBuild.Engine.DSL

/-! ## Trace tokens (the harness's `ev(...)` strings) -/

inductive Tok
  | B (k : Key)
  | L (k : Key)                                   -- Delegate::lookupRule
  | G (k : Key) (found : Bool)                    -- MemDB::lookupRuleResult
  | S (k : Key) (status : Nat)                    -- Rule::updateStatus (0 scanning, 1 up to date, 2 complete)
  | V (k : Key) (v : Val) (b : Bool)              -- Rule::isResultValid
  | N (k : Key) (reason : Nat) (input : Option Key) -- Delegate::determinedRuleNeedsToRun
  | T (k : Key)                                   -- Rule::createTask
  | ST (k : Key) (reqs : List Req)                -- Task::start
  | PP (k : Key) (v : Val)                        -- Task::providePriorValue
  | PV (k : Key) (id : Nat) (key : Key) (v : Val) (reqs : List Req)   -- Task::provideValue
  | IA (k : Key) (discs : List Key)               -- Task::inputsAvailable
  | C (k : Key) (v : Val) (force : Nat)           -- DslTask::complete -> TaskInterface::complete
  | DS (k : Key) (row : Res)                      -- MemDB::setRuleResult
  | DI (e : Nat)                                  -- MemDB::setCurrentIteration
  | DB                                            -- MemDB::buildStarted
  | DE                                            -- MemDB::buildComplete
  | QC                                            -- Delegate::createExecutionQueue
  | CY (ks : List Key)                            -- Delegate::cycleDetected
  | ER (code : Nat)                               -- Delegate::error
  | X                                             -- doCancel -> BuildEngine::cancelBuild
  | R (v : Val)                                   -- build() returned
  | Z (live late : Nat)
  | FUEL
  | BAD (what : String)
  deriving Repr, Inhabited

def Tok.isQC : Tok → Bool
  | .QC => true
  | _ => false

/-! ## Data structures of `BuildEngineImpl` -/

/-- `RuleInfo::StateKind` -/
inductive StateKind
  | incomplete | isScanning | needsToRun | doesNotNeedToRun | inProgressWaiting | inProgressComputing | complete
  deriving DecidableEq, Repr, Inhabited

/-- `int(state)` -/
def StateKind.toNat : StateKind → Nat
  | .incomplete => 0 | .isScanning => 1 | .needsToRun => 2 | .doesNotNeedToRun => 3
  | .inProgressWaiting => 4 | .inProgressComputing => 5 | .complete => 6

/-- `TaskInputRequest`; `taskInfo = none` is the dummy request (`nullptr`) of `build` / discovered dependencies -/
structure TaskInputRequest where
  taskInfo : Option Key
  inputID : Nat
  inputRuleInfo : Key
  orderOnly : Bool := false
  forcePriorValue : Bool := false
  singleUse : Bool := false
  deriving DecidableEq, Repr, Inhabited

/-- `RuleScanRequest`; `inputRuleInfo = none` is `nullptr` (input not looked up yet) -/
structure RuleScanRequest where
  ruleInfo : Key
  inputIndex : Nat
  inputRuleInfo : Option Key
  orderOnly : Bool
  singleUse : Bool := false
  deriving DecidableEq, Repr, Inhabited

/-- `RuleScanRecord` -/
structure RuleScanRecord where
  pausedInputRequests : List TaskInputRequest := []
  deferredScanRequests : List RuleScanRequest := []
  deriving DecidableEq, Repr, Inhabited

/-- the union `RuleInfo::inProgressInfo` (a `TaskInfo*` is the rule's own key) -/
inductive InProgressInfo
  | null
  | pendingScanRecord (r : RuleScanRecord)
  /-- a `RuleScanRecord*` whose block was deleted at the end of `build()` (dangling) -/
  | freedScanRecord
  | pendingTaskInfo
  deriving DecidableEq, Repr, Inhabited

/-- `RuleInfo`; `signature` is `rule->signature` (fixed when the delegate created the rule) and
`result` is `core::Result` (`Engine.Res`: value, signature, computedAt, builtAt, dependencies) -/
structure RuleInfo where
  key : Key
  signature : Nat := 0
  inProgressInfo : InProgressInfo := .null
  result : Res := {}
  state : StateKind := .incomplete
  wasForced : Bool := false
  deriving Repr, Inhabited

/-- `TaskInfo` plus the state of the `DslTask` it owns (`recv`, `issuedReqs`, `done`) -/
structure TaskInfo where
  forRuleInfo : Key
  requestedBy : List TaskInputRequest := []
  deferredScanRequests : List RuleScanRequest := []
  waitCount : Nat := 0
  discoveredDependencies : List Dep := []
  /-- `DslTask::recv.got`: id ↦ (masked) value, sorted by id like the `std::map` -/
  recv : Recv := []
  /-- `DslTask::issuedReqs` -/
  issuedReqs : List Req := []
  /-- `DslTask::done` -/
  done : Bool := false
  deriving Repr, Inhabited

/-- the harness's `Store` (the data behind `MemDB`); `rows` is kept in `std::map<std::string,…>` order -/
structure Store where
  rows : List (Key × Res) := []
  iteration : Nat := 0
  failNextSet : Bool := false
  deriving Repr, Inhabited

/-- one item of the hook-driven schedule -/
structure SchedItem where
  cancel : Bool := false
  keys : List Key := []
  deriving Repr, Inhabited

structure State where
  /- the client program and the world (harness globals `program`, `env`, `store`) -/
  rules : List RuleSpec := []
  env : Env := fun _ => 0
  store : Store := {}
  /- `BuildEngineImpl` -/
  hasDB : Bool := true
  ruleInfos : List (Key × RuleInfo) := []
  taskInfos : List (Key × TaskInfo) := []
  ruleInfosToScan : List RuleScanRequest := []            -- std::vector: push_back / pop_back
  inputRequests : List TaskInputRequest := []             -- std::deque : push_back / pop_front
  finishedInputRequests : List TaskInputRequest := []     -- std::vector: push_back / pop_back
  readyTaskInfos : List Key := []                         -- std::deque : push_back / pop_front
  finishedTaskInfos : List Key := []                      -- std::vector: push_back / pop_back
  numOutstandingUnfinishedTasks : Nat := 0
  /-- `numRulesBeingScanned`: the number of rules currently in the `IsScanning` state (fix F40) -/
  numRulesBeingScanned : Nat := 0
  currentEpoch : Nat := 0
  buildCancelled : Bool := false
  /-- what `BuildEngineDelegate::shouldResolveCycle` answers (the default implementation and the
  harness's delegate: `false`) -/
  shouldResolveCycle : Bool := false
  /- harness run state -/
  /-- `events`, most recent first -/
  trace : List Tok := []
  halted : Bool := false
  cancelAtEvent : Nat := 0
  cancelIssued : Bool := false
  buildActive : Bool := false
  /-- `sched[schedPos..]` -/
  sched : List SchedItem := []
  /-- keys of `pendingDeferred` (a `std::map<U64, DslTask*>`), ascending -/
  pendingDeferred : List Key := []

/-! ## Small helpers -/

/-- association list update in place (append when absent) -/
def alSet {α : Type} (l : List (Key × α)) (k : Key) (x : α) : List (Key × α) :=
  match l with
  | [] => [(k, x)]
  | (k', y) :: rest => if k' == k then (k, x) :: rest else (k', y) :: alSet rest k x

def alErase {α : Type} (l : List (Key × α)) (k : Key) : List (Key × α) := l.filter (fun p => p.1 != k)

/-- `ruleInfos.find(keyID)->second`; every use follows a `getRuleInfoForKey` of the same key, so the default is never taken -/
def State.rule (s : State) (k : Key) : RuleInfo := (s.ruleInfos.lookup k).getD { key := k }
def State.setRule (s : State) (ri : RuleInfo) : State := { s with ruleInfos := alSet s.ruleInfos ri.key ri }
def State.modRule (s : State) (k : Key) (f : RuleInfo → RuleInfo) : State := s.setRule (f (s.rule k))

/-- `getTaskInfo(task)`; tasks only call the engine while their `TaskInfo` exists, so the default is never taken -/
def State.task (s : State) (k : Key) : TaskInfo := (s.taskInfos.lookup k).getD { forRuleInfo := k }
def State.setTask (s : State) (t : TaskInfo) : State := { s with taskInfos := alSet s.taskInfos t.forRuleInfo t }
def State.modTask (s : State) (k : Key) (f : TaskInfo → TaskInfo) : State := s.setTask (f (s.task k))

/-- lexicographic order of digit strings -/
def lexLt : List Nat → List Nat → Bool
  | [], [] => false
  | [], _ :: _ => true
  | _ :: _, [] => false
  | a :: as, b :: bs => a < b || (a == b && lexLt as bs)

/-- `KeyType::operator<` on the harness's key names `"k" + std::to_string(n)`: string order, not numeric -/
def keyLt (a b : Key) : Bool :=
  lexLt ((Nat.toDigits 10 a).map Char.toNat) ((Nat.toDigits 10 b).map Char.toNat)

/-- insert after the last element that is not greater (a stable insertion sort step) -/
def insertBy {α : Type} (lt : α → α → Bool) (x : α) : List α → List α
  | [] => [x]
  | y :: ys => if lt x y then x :: y :: ys else y :: insertBy lt x ys

def sortBy {α : Type} (lt : α → α → Bool) (l : List α) : List α := l.foldl (fun acc x => insertBy lt x acc) []

/-- `store.rows[key] = row` (`std::map<std::string, Row>`) -/
def rowsSet (rows : List (Key × Res)) (k : Key) (r : Res) : List (Key × Res) :=
  match rows with
  | [] => [(k, r)]
  | (k', r') :: rest =>
    if k' == k then (k, r) :: rest
    else if keyLt k k' then (k, r) :: (k', r') :: rest
    else (k', r') :: rowsSet rest k r

/-- `pendingDeferred[k] = task` (`std::map<U64, …>`) -/
def insertKey (k : Key) : List Key → List Key
  | [] => [k]
  | x :: xs => if k < x then k :: x :: xs else if k == x then x :: xs else x :: insertKey k xs

/-! ## The harness's event recorder -/

/-- `doCancel()`: once per build; records `X` and calls `BuildEngine::cancelBuild()` (which sets
`buildCancelled`; the serial queue has no jobs to cancel) -/
def doCancel (s : State) : State :=
  if s.cancelIssued then s
  else if s.halted then { s with cancelIssued := true, buildCancelled := true }
  else { s with cancelIssued := true, trace := .X :: s.trace, buildCancelled := true }

/-- `ev(s)`: record the event; after the `cancelAtEvent`-th event of an active build (but not from
inside `createExecutionQueue`) cancel the build -/
def emit (t : Tok) (s : State) : State :=
  if s.halted then s else
  let s := { s with trace := t :: s.trace }
  if s.cancelAtEvent != 0 && s.cancelAtEvent ≤ s.trace.length && s.buildActive && !s.cancelIssued && !t.isQC then
    doCancel s
  else s

/-- the model cannot continue like the C++ (fuel, abort, undefined behaviour, deadlock): record why and stop recording -/
def halt (t : Tok) (s : State) : State :=
  if s.halted then s else { s with trace := t :: s.trace, halted := true }

/-! ## `RuleInfo` predicates -/

/-- `RuleInfo::isScanning` -/
def RuleInfo.isScanning (ri : RuleInfo) : Bool := ri.state == .isScanning

/-- `RuleInfo::isComplete(engine)`: the lazy reset by epoch -/
def isComplete (s : State) (ri : RuleInfo) : Bool :=
  ri.state == .complete && ri.result.builtAt == s.currentEpoch

/-- `RuleInfo::isScanned(engine)` -/
def isScanned (s : State) (ri : RuleInfo) : Bool :=
  if ri.state == .complete then isComplete s ri
  else ri.state.toNat > StateKind.isScanning.toNat

def RuleInfo.isInProgressWaiting (ri : RuleInfo) : Bool := ri.state == .inProgressWaiting
def RuleInfo.isInProgressComputing (ri : RuleInfo) : Bool := ri.state == .inProgressComputing
def RuleInfo.isInProgress (ri : RuleInfo) : Bool := ri.isInProgressWaiting || ri.isInProgressComputing

/-- `RuleInfo::setComplete(engine)` -/
def setComplete (s : State) (ri : RuleInfo) : RuleInfo :=
  { ri with state := .complete, result := { ri.result with builtAt := s.currentEpoch } }

/-- `RuleInfo::setCancelled()` -/
def RuleInfo.setCancelled (ri : RuleInfo) : RuleInfo := { ri with state := .incomplete }

/-- `RuleInfo::getPendingScanRecord()` (asserts `isScanning()`).  `none`: the pointer does not point to a
live record -- it dangles (the record was freed when an earlier `build()` returned while the rule was
still `IsScanning`) or it is not a scan record at all; dereferencing it is undefined behaviour. -/
def RuleInfo.getPendingScanRecord (ri : RuleInfo) : Option RuleScanRecord :=
  match ri.inProgressInfo with
  | .pendingScanRecord r => some r
  | _ => none

/-- `ruleInfo.getPendingScanRecord()-> … push_back(…)`: update the live scan record of rule `k` -/
def modScanRecord (k : Key) (f : RuleScanRecord → RuleScanRecord) (s : State) : State :=
  match (s.rule k).getPendingScanRecord with
  | some r => s.modRule k (fun ri => { ri with inProgressInfo := .pendingScanRecord (f r) })
  | none => halt (.BAD "use-of-freed-scan-record") s

/-- `DependencyKeyIDs::cleanSingleUseDependencies` -/
def cleanSingleUseDependencies (deps : List Dep) : List Dep := deps.filter (fun d => !d.singleUse)

/-! ## Rule registration -/

/-- `getRuleInfoForKey(key)` / `getRuleInfoForKey(keyID)` + `addRule(keyID, rule)`: an unknown key is
requested from the delegate (`L`; the `DslRule` fixes its signature from the external state now) and
its stored result is fetched from the database (`G`).  The registered `RuleInfo` is then `s.rule k`. -/
def getRuleInfoForKey (k : Key) (s : State) : State :=
  match s.ruleInfos.lookup k with
  | some _ => s
  | none =>
    let s := emit (.L k) s
    let ri : RuleInfo := { key := k, signature := sigOf (specOf s.rules k) s.env }
    if s.hasDB then
      match s.store.rows.lookup k with
      | none => (emit (.G k false) s).setRule ri
      | some row => (emit (.G k true) s).setRule { ri with result := row }
    else s.setRule ri

/-! ## Task-facing entry points (`TaskInterface`) -/

/-- `BuildEngine::kMaximumInputID` = `~(uintptr_t)0xFF` -/
def kMaximumInputID : Nat := 18446744073709551616 - 256
/-- `kMustFollowInputID` = `~(uintptr_t)0` -/
def kMustFollowInputID : Nat := 18446744073709551616 - 1

/-- `addTaskInputRequest(task, key, inputID, orderOnly, singleUse)` -/
def addTaskInputRequest (task : Key) (key : Key) (inputID : Nat) (orderOnly singleUse : Bool) (s : State) : State :=
  if !(s.rule task).isInProgressWaiting then halt (.BAD "abort") s else
  let s := getRuleInfoForKey key s
  let request : TaskInputRequest :=
    { taskInfo := some task, inputID := inputID, inputRuleInfo := key, orderOnly := orderOnly,
      forcePriorValue := false, singleUse := singleUse }
  let s := { s with inputRequests := s.inputRequests ++ [request] }
  s.modTask task (fun t => { t with waitCount := t.waitCount + 1 })

/-- `taskNeedsInput(task, key, inputID)` -/
def taskNeedsInput (task key inputID : Nat) (s : State) : State :=
  if inputID > kMaximumInputID then { emit (.ER 2) s with buildCancelled := true }
  else addTaskInputRequest task key inputID false false s

/-- `taskNeedsSingleUseInput(task, key, inputID)` -/
def taskNeedsSingleUseInput (task key inputID : Nat) (s : State) : State :=
  if inputID > kMaximumInputID then { emit (.ER 2) s with buildCancelled := true }
  else addTaskInputRequest task key inputID false true s

/-- `taskMustFollow(task, key)` -/
def taskMustFollow (task key : Nat) (s : State) : State :=
  addTaskInputRequest task key kMustFollowInputID true false s

/-- `taskDiscoveredDependency(task, key)` -/
def taskDiscoveredDependency (task key : Nat) (s : State) : State :=
  if !(s.rule task).isInProgressComputing then { emit (.ER 3) s with buildCancelled := true }
  else s.modTask task (fun t => { t with discoveredDependencies := t.discoveredDependencies ++ [⟨key, false, false⟩] })

/-- `taskIsComplete(task, value, forceChange)`: the signature is always updated; value and
`computedAt` only when the value changed or the change is forced -/
def taskIsComplete (task : Key) (value : Val) (forceChange : Bool) (s : State) : State :=
  let ri := s.rule task
  if !ri.isInProgressComputing then { emit (.ER 4) s with buildCancelled := true } else
  let res : Res := { ri.result with sig := ri.signature }
  let res : Res := if !forceChange && value == res.value then res
             else { res with value := value, computedAt := s.currentEpoch }
  let s := s.setRule { ri with result := res }
  { s with finishedTaskInfos := s.finishedTaskInfos ++ [task] }

/-! ## The client: `DslTask` / `DslRule` -/

/-- `DslTask::newReqs()`: requests of the cumulative list not issued yet, in list order, without repetition -/
def newReqs (spec : RuleSpec) (t : TaskInfo) : List Req :=
  ((nextReqs spec t.recv).filter (fun q => !t.issuedReqs.contains q)).eraseDups

/-- `DslTask::issue(ti, fresh)` -/
def issue (task : Key) : List Req → State → State
  | [], s => s
  | q :: rest, s =>
    let s := s.modTask task (fun t => { t with issuedReqs := t.issuedReqs ++ [q] })
    let s := if q.kind == 0 then taskNeedsInput task q.key q.id s
             else if q.kind == 1 then taskNeedsSingleUseInput task q.key q.id s
             else taskMustFollow task q.key s
    issue task rest s

/-- `DslTask::start(ti)` -/
def taskStart (task : Key) (s : State) : State :=
  let fresh := newReqs (specOf s.rules task) (s.task task)
  let s := emit (.ST task fresh) s
  issue task fresh s

/-- is the request `(id, key)` a single-use one?  (`DslTask::provideValue`: the LAST matching issued request decides) -/
def isSingleUse (issued : List Req) (id key : Nat) : Bool :=
  issued.foldl (fun single q => if q.id == id && q.key == key && q.kind != 2 then q.kind == 1 else single) false

/-- `DslTask::provideValue(ti, id, key, v)` -/
def taskProvideValue (task : Key) (id : Nat) (key : Key) (v : Val) (s : State) : State :=
  let t := s.task task
  let single := isSingleUse t.issuedReqs id key
  let t := { t with recv := insertRecv id (if single then 0 else v) t.recv }
  let s := s.setTask t
  let fresh := newReqs (specOf s.rules task) t
  let s := emit (.PV task id key v fresh) s
  issue task fresh s

/-- `DslTask::complete()` -/
def taskComplete (task : Key) (s : State) : State :=
  let spec := specOf s.rules task
  let v := outValue spec s.env (s.task task).recv
  let s := emit (.C task v spec.force) s
  let s := s.modTask task (fun t => { t with done := true })
  taskIsComplete task v (spec.force != 0) s

/-- the `for (auto d : ds) ti.discoveredDependency(...)` of `DslTask::inputsAvailable` -/
def reportDiscovered (task : Key) : List Key → State → State
  | [], s => s
  | d :: ds, s => reportDiscovered task ds (taskDiscoveredDependency task d s)

/-- `DslTask::inputsAvailable(ti)` in hook mode: a `deferred` task is parked in `pendingDeferred` -/
def taskInputsAvailable (task : Key) (s : State) : State :=
  let spec := specOf s.rules task
  let ds := discKeys spec (s.task task).recv
  let s := emit (.IA task ds) s
  let s := reportDiscovered task ds s
  if spec.deferred == 0 then taskComplete task s
  else { s with pendingDeferred := insertKey task s.pendingDeferred }

/-- `~DslTask()`: `pendingDeferred.erase(s.key)` -/
def destroyTask (task : Key) (s : State) : State :=
  { s with pendingDeferred := s.pendingDeferred.filter (· != task) }

/-! ## The hook-driven schedule -/

/-- `completeKey(k)` -/
def completeKey (k : Key) (s : State) : Bool × State :=
  if s.pendingDeferred.contains k then
    (true, taskComplete k { s with pendingDeferred := s.pendingDeferred.filter (· != k) })
  else (false, s)

/-- `completeSmallest()` -/
def completeSmallest (s : State) : Bool × State :=
  match s.pendingDeferred with
  | [] => (false, s)
  | k :: _ => completeKey k s

/-- `for (auto k : it.keys) any |= completeKey(k);` -/
def completeKeys : List Key → Bool → State → Bool × State
  | [], any, s => (any, s)
  | k :: ks, any, s =>
    let (b, s) := completeKey k s
    completeKeys ks (any || b) s

/-- `hook(point, engine)` in mode 0 -/
def hook (point : Nat) (s : State) : State :=
  if point == 2 then (completeSmallest s).2 else
  let (any, s) :=
    match s.sched with
    | [] => (false, s)
    | it :: rest =>
      let (any, s) := completeKeys it.keys false { s with sched := rest }
      (any, if it.cancel then doCancel s else s)
  if point == 1 && !any then (completeSmallest s).2 else s

/-! ## Scanning and demanding rules -/

/-- `scanRule(ruleInfo)` -/
def scanRule (k : Key) (s : State) : Bool × State :=
  let ri := s.rule k
  -- If the rule is already scanned, we are done.
  if isScanned s ri then (true, s) else
  -- If the rule is being scanned, we don't need to do anything.
  if ri.isScanning then (false, s) else
  let ri := { ri with result := { ri.result with deps := cleanSingleUseDependencies ri.result.deps } }
  let s := s.setRule ri
  -- Report the status change.
  let s := emit (.S k 0) s
  let ri := { ri with wasForced := false }
  let s := s.setRule ri
  -- If the rule has never been run, it needs to run.
  if ri.result.builtAt == 0 then
    (true, emit (.N k 0 none) (s.setRule { ri with state := .needsToRun }))
  else if ri.signature != ri.result.sig then
    (true, emit (.N k 1 none) (s.setRule { ri with state := .needsToRun }))
  else
    -- rule->isResultValid(engine, result.value)
    let b := validOf (specOf s.rules k) s.env ri.result.value
    let s := emit (.V k ri.result.value b) s
    if !b then
      (true, emit (.N k 2 none) (s.setRule { ri with state := .needsToRun }))
    else if ri.result.deps.isEmpty then
      (true, s.setRule { ri with state := .doesNotNeedToRun })
    else
      let s := s.setRule { ri with state := .isScanning, inProgressInfo := .pendingScanRecord {} }
      let s := { s with numRulesBeingScanned := s.numRulesBeingScanned + 1 }
      (false, { s with ruleInfosToScan := s.ruleInfosToScan ++ [{ ruleInfo := k, inputIndex := 0, inputRuleInfo := none, orderOnly := false }] })

/-- `demandRule(ruleInfo)` -/
def demandRule (k : Key) (s : State) : Bool × State :=
  let ri := s.rule k
  -- If the rule is complete, we are done.
  if isComplete s ri then (true, s) else
  -- If the rule is in progress, we don't need to do anything.
  if ri.isInProgress then (false, s) else
  if ri.state == .doesNotNeedToRun then
    let s := s.setRule (setComplete s ri)
    (true, emit (.S k 1) s)
  else
    -- (assert state == NeedsToRun)  Create the task for this rule.
    let s := emit (.T k) s
    let s := s.setTask { forRuleInfo := k }
    -- Transition the rule state; reset the rule dependencies.
    let s := s.modRule k (fun ri => { ri with state := .inProgressWaiting, inProgressInfo := .pendingTaskInfo,
                                              result := { ri.result with deps := [] } })
    -- Inform the task it should start.
    let s := taskStart k s
    -- Provide the task the prior result, if present.
    let ri := s.rule k
    let s := if ri.result.builtAt != 0 && ri.signature == ri.result.sig then emit (.PP k ri.result.value) s else s
    -- If this task has no waiters, schedule it immediately for finalization.
    let s := if (s.task k).waitCount == 0 then { s with readyTaskInfos := s.readyTaskInfos ++ [k] } else s
    (false, s)

/-- `finishScanRequest(inputRuleInfo, newState)` -/
def finishScanRequest (k : Key) (newState : StateKind) (s : State) : State :=
  match (s.rule k).getPendingScanRecord with
  | none => halt (.BAD "use-of-freed-scan-record") s
  | some scanRecord =>
  -- Wake up all of the pending scan requests, and all of the input requests on this rule.
  let s := { s with ruleInfosToScan := s.ruleInfosToScan ++ scanRecord.deferredScanRequests,
                    inputRequests := s.inputRequests ++ scanRecord.pausedInputRequests }
  let s := s.modRule k (fun ri => { ri with inProgressInfo := .null, state := newState })
  -- (`--numRulesBeingScanned` on a `size_t`; it is only reached for a rule that is scanning, so never below 0)
  { s with numRulesBeingScanned := s.numRulesBeingScanned - 1 }

/-- the `do { … } while (request.inputIndex != dependencies.size())` of `processRuleScanRequest` -/
def scanLoop : Nat → RuleScanRequest → State → State
  | 0, _, s => halt .FUEL s
  | fuel + 1, request, s =>
    let k := request.ruleInfo
    -- Look up the input rule info, if not yet cached.
    let looked : Option (RuleScanRequest × Key × State) :=
      match request.inputRuleInfo with
      | some i => some (request, i, s)
      | none =>
        match (s.rule k).result.deps[request.inputIndex]? with
        | none => none
        | some d =>
          some ({ request with inputRuleInfo := some d.key, orderOnly := d.orderOnly, singleUse := d.singleUse },
                d.key, getRuleInfoForKey d.key s)
    match looked with
    | none => halt (.BAD "dependency-index-out-of-bounds") s
    | some (request, input, s) =>
      -- Scan the input.
      let (isScanned, s) := scanRule input s
      if !isScanned then
        -- inputRuleInfo.getPendingScanRecord()->deferredScanRequests.push_back(request)
        modScanRecord input (fun r => { r with deferredScanRequests := r.deferredScanRequests ++ [request] }) s
      else
      -- Demand the input.
      let (isAvailable, s) := demandRule input s
      if !isAvailable then
        -- inputRuleInfo.getPendingTaskInfo()->deferredScanRequests.push_back(request)
        s.modTask input (fun t => { t with deferredScanRequests := t.deferredScanRequests ++ [request] })
      else
      -- If the input has been computed since the last time this rule was built, it needs to run.
      if !request.orderOnly && (s.rule k).result.builtAt < (s.rule input).result.computedAt then
        let s := finishScanRequest k .needsToRun s
        emit (.N k 3 (some input)) s
      else
        let request := { request with inputIndex := request.inputIndex + 1, inputRuleInfo := none,
                                      orderOnly := false, singleUse := false }
        if request.inputIndex != (s.rule k).result.deps.length then scanLoop fuel request s
        else finishScanRequest k .doesNotNeedToRun s

def scanFuel : Nat := 100000

/-- `processRuleScanRequest(request)` -/
def processRuleScanRequest (request : RuleScanRequest) (s : State) : State :=
  if !(s.rule request.ruleInfo).isScanning then s
  else scanLoop scanFuel request s

/-- `decrementTaskWaitCount(taskInfo)` -/
def decrementTaskWaitCount (task : Key) (s : State) : State :=
  if (s.task task).waitCount == 0 then halt (.BAD "waitCount-underflow") s else
  let s := s.modTask task (fun t => { t with waitCount := t.waitCount - 1 })
  if (s.task task).waitCount == 0 then { s with readyTaskInfos := s.readyTaskInfos ++ [task] } else s

/-! ## Cancellation -/

/-- the drain loop of `cancelRemainingTasks` (hook point 2 before each wait) -/
def drainLoop : Nat → State → State
  | 0, s => halt .FUEL s
  | fuel + 1, s =>
    if s.numOutstandingUnfinishedTasks == 0 then s else
    let s := hook 2 s
    if s.finishedTaskInfos.isEmpty then
      -- finishedTaskInfosCondition.wait(lock) with nobody left to signal it
      halt (.BAD "stall") s
    else
      drainLoop fuel { s with numOutstandingUnfinishedTasks := s.numOutstandingUnfinishedTasks - s.finishedTaskInfos.length,
                              finishedTaskInfos := [] }

/-- `for (auto& it: taskInfos)`: cancel the task, marking its rule incomplete and never built -/
def cancelTasks : List (Key × TaskInfo) → State → State
  | [], s => s
  | (_, t) :: rest, s =>
    let s := s.modRule t.forRuleInfo (fun ri =>
      { ri.setCancelled with inProgressInfo := .null, result := { ri.result with builtAt := 0 } })
    cancelTasks rest s

/-- `taskInfos.clear()`: destroys the tasks -/
def destroyTasks : List (Key × TaskInfo) → State → State
  | [], s => s
  | (k, _) :: rest, s => destroyTasks rest (destroyTask k s)

def loopFuel : Nat := 1000000

/-- `cancelRemainingTasks()` -/
def cancelRemainingTasks (s : State) : State :=
  let s := drainLoop loopFuel s
  let s := cancelTasks s.taskInfos s
  -- Cancel outstanding activity on rules
  let s := { s with ruleInfos := s.ruleInfos.map (fun (p : Key × RuleInfo) => if p.2.isScanning then (p.1, p.2.setCancelled) else p),
                    numRulesBeingScanned := 0 }
  -- Delete all of the tasks.
  let tasks := s.taskInfos
  let s := { s with ruleInfosToScan := [], inputRequests := [], finishedInputRequests := [], readyTaskInfos := [],
                    finishedTaskInfos := [], taskInfos := [] }
  destroyTasks tasks s

/-! ## Cycle detection -/

/-- `std::unordered_map<Rule*, std::vector<Rule*>>` -/
abbrev Graph := List (Key × List Key)

def Graph.get (g : Graph) (k : Key) : List Key := (g.lookup k).getD []
/-- `g[k].push_back(x)` -/
def Graph.push (g : Graph) (k x : Key) : Graph := alSet g k (g.get k ++ [x])

/-- the loop over `activeRuleScanRecords` in `findCycle` (a record is identified by the rule that owns it) -/
def gatherScanRecords (s : State) : Nat → List Key → List Key → Graph → Option Graph
  | 0, _, _, _ => none
  | fuel + 1, active, visited, g =>
    match active.getLast? with
    | none => some g
    | some owner =>
      let active := active.dropLast
      if visited.contains owner then gatherScanRecords s fuel active visited g else
      let visited := owner :: visited
      match (s.rule owner).getPendingScanRecord with
      | none => none        -- reads a freed record
      | some record =>
      -- For each paused request, add the dependency.
      let g := record.pausedInputRequests.foldl (fun g request =>
        match request.taskInfo with
        | some t => g.push request.inputRuleInfo (s.task t).forRuleInfo
        | none => g) g
      -- Process the deferred scan requests (a deferred request always carries its input: `getD` is never taken).
      let g := record.deferredScanRequests.foldl (fun g request =>
        g.push (request.inputRuleInfo.getD owner) request.ruleInfo) g
      let active := record.deferredScanRequests.foldl (fun a request =>
        if (s.rule request.ruleInfo).isScanning then a ++ [request.ruleInfo] else a) active
      gatherScanRecords s fuel active visited g

/-- `WorkItem` of the search in `findCycle` -/
structure WorkItem where
  node : Key
  predecessorIndex : Nat := 0

/-- the depth-first search from the entry node (`stack` has its top at the head); `none`: out of fuel (the C++
search has no bound: it keeps searching) -/
def cycleSearch (pred : Graph) : Nat → List WorkItem → List Key → List Key → Option (List Key)
  | 0, _, _, _ => none
  | fuel + 1, stack, cycleList, cycleItems =>
    match stack with
    | [] => some cycleList
    | entry :: below =>
      let predecessors := pred.get entry.node
      -- If the index is 0, we just started visiting the node.
      let started := entry.predecessorIndex == 0
      let found := started && cycleItems.contains entry.node
      let cycleList := if started then cycleList ++ [entry.node] else cycleList
      let cycleItems := if started && !found then entry.node :: cycleItems else cycleItems
      -- If the node is already in the stack, we found a cycle.
      if found then some cycleList else
      -- Visit the next predecessor, if possible.
      match predecessors[entry.predecessorIndex]? with
      | some child =>
        cycleSearch pred fuel ({ node := child } :: { entry with predecessorIndex := entry.predecessorIndex + 1 } :: below)
          cycleList cycleItems
      | none =>
        -- Otherwise, we are done visiting this node.
        cycleSearch pred fuel below cycleList.dropLast (cycleItems.filter (· != entry.node))

/-- `findCycle(buildKey)`.  The C++ walks three hash containers; the result does not depend on their
order because every predecessor list is sorted (by key NAME) before the search.  `none`: the walk
over the scan records of all `IsScanning` rules reads a freed record, or the walk / the search ran out of fuel. -/
def findCycle (buildKey : Key) (s : State) : Option (List Key) :=
  -- Gather all of the successor relationships.
  let successorGraph : Graph := s.taskInfos.foldl (fun g p =>
    let taskInfo := p.2
    let successors := taskInfo.requestedBy.map (fun request => (s.task (request.taskInfo.getD 0)).forRuleInfo)
      ++ taskInfo.deferredScanRequests.map (fun request => request.ruleInfo)
    if (g.lookup taskInfo.forRuleInfo).isSome then g else g ++ [(taskInfo.forRuleInfo, successors)]) []
  -- Add the pending scan records for every rule.
  let active := (s.ruleInfos.filter (fun p => p.2.isScanning)).map (fun p => p.1)
  match gatherScanRecords s loopFuel active [] successorGraph with
  | none => none
  | some successorGraph =>
  -- Invert the graph, so we can search from the root.
  let predecessorGraph : Graph := successorGraph.foldl (fun pg entry =>
    entry.2.foldl (fun pg succ => pg.push succ entry.1) pg) []
  -- Normalize predecessor order.
  let predecessorGraph := predecessorGraph.map (fun entry => (entry.1, sortBy keyLt entry.2))
  cycleSearch predecessorGraph loopFuel [{ node := buildKey }] [] []

/-- `findRuleScanRequestForRule` + `erase`: drop the first scan request of `k` -/
def eraseScanRequestForRule (k : Key) : List RuleScanRequest → List RuleScanRequest
  | [] => []
  | r :: rest => if r.ruleInfo == k then rest else r :: eraseScanRequestForRule k rest

/-- `findTaskInputRequestForRule`: split `requestedBy` at the first request made by the task of rule `k` -/
def findTaskInputRequestForRule (s : State) (k : Key) : List TaskInputRequest → Option (TaskInputRequest × List TaskInputRequest)
  | [] => none
  | r :: rest =>
    if (r.taskInfo.map (fun t => (s.task t).forRuleInfo)) == some k then some (r, rest)
    else (findTaskInputRequestForRule s k rest).map (fun p => (p.1, r :: p.2))

/-- the loop of `breakCycle` over the reversed cycle list (`rev` starts at `cycleList.rbegin()`) -/
def breakCycleLoop : List Key → State → Bool × State
  | [], s => (false, s)
  | k :: rest, s =>
    let ruleInfo := s.rule k
    -- If this rule is scanning, try to force a rebuild to break the cycle
    if ruleInfo.isScanning then
      if !s.shouldResolveCycle then (false, s) else
      let s := { s with ruleInfosToScan := eraseScanRequestForRule k s.ruleInfosToScan }
      let s := finishScanRequest k .needsToRun s
      let s := emit (.N k 4 none) s
      (true, s.modRule k (fun ri => { ri with wasForced := true }))
    -- try to provide a (potentially) valid previous result to the node requesting it
    else if ruleInfo.isInProgressWaiting && ruleInfo.result.builtAt != 0 then
      match rest with
      | [] => breakCycleLoop rest s          -- the first rule of the list has no downstream node in the list
      | next :: _ =>
        match findTaskInputRequestForRule s next (s.task k).requestedBy with
        | none => breakCycleLoop rest s
        | some (it, others) =>
          if !s.shouldResolveCycle then (false, s) else
          let s := { s with finishedInputRequests := s.finishedInputRequests ++ [{ it with forcePriorValue := true }] }
          (true, s.modTask k (fun t => { t with requestedBy := others }))
    else breakCycleLoop rest s

/-- `breakCycle(cycleList)` -/
def breakCycle (cycleList : List Key) (s : State) : Bool × State := breakCycleLoop cycleList.reverse s

/-- `resolveCycle(buildKey)` -/
def resolveCycle (buildKey : Key) (s : State) : Bool × State :=
  match findCycle buildKey s with
  -- (also reached when the model's search runs out of fuel, where the C++ would keep searching)
  | none => (false, halt (.BAD "use-of-freed-scan-record") s)
  | some cycleList =>
  let (broken, s) := breakCycle cycleList s
  if broken then (true, s) else (false, emit (.CY cycleList) s)

/-! ## The work loop -/

/-- `while (!ruleInfosToScan.empty())`: process all of the pending rule scan requests -/
def scanRequestsLoop : Nat → Bool → State → Bool × State
  | 0, w, s => (w, halt .FUEL s)
  | fuel + 1, w, s =>
    match s.ruleInfosToScan.getLast? with
    | none => (w, s)
    | some request =>
      let s := { s with ruleInfosToScan := s.ruleInfosToScan.dropLast }
      scanRequestsLoop fuel true (processRuleScanRequest request s)

/-- one input request popped off the FIFO -/
def processInputRequest (request : TaskInputRequest) (s : State) : State :=
  let input := request.inputRuleInfo
  -- Request the input rule be scanned.
  let (isScanned, s) := scanRule input s
  -- If the rule is not yet scanned, suspend this input request.
  if !isScanned then
    modScanRecord input (fun r => { r with pausedInputRequests := r.pausedInputRequests ++ [request] }) s
  else
  -- Request the input rule be computed.
  let (isAvailable, s) := demandRule input s
  match request.taskInfo with
  | none => s      -- a dummy input request: done
  | some task =>
    -- Update the recorded dependencies of this task.
    let s := s.modRule (s.task task).forRuleInfo (fun ri =>
      { ri with result := { ri.result with deps := ri.result.deps ++ [⟨input, request.orderOnly, request.singleUse⟩] } })
    -- If the rule is already available, enqueue the finalize request; otherwise record the pending input request.
    if isAvailable then { s with finishedInputRequests := s.finishedInputRequests ++ [request] }
    else s.modTask input (fun t => { t with requestedBy := t.requestedBy ++ [request] })

/-- process all of the pending input requests (FIFO) -/
def inputRequestsLoop : Nat → Bool → State → Bool × State
  | 0, w, s => (w, halt .FUEL s)
  | fuel + 1, w, s =>
    match s.inputRequests with
    | [] => (w, s)
    | request :: rest => inputRequestsLoop fuel true (processInputRequest request { s with inputRequests := rest })

/-- `while (!finishedInputRequests.empty())`: process all of the finished inputs (LIFO) -/
def finishedInputsLoop : Nat → Bool → State → Bool × State
  | 0, w, s => (w, halt .FUEL s)
  | fuel + 1, w, s =>
    match s.finishedInputRequests.getLast? with
    | none => (w, s)
    | some request =>
      let s := { s with finishedInputRequests := s.finishedInputRequests.dropLast }
      match request.taskInfo with
      | none => (true, halt (.BAD "finished-dummy-request") s)
      | some task =>
        -- Provide the requesting task with the input (not for an order-only request).
        let s := if request.orderOnly then s
                 else taskProvideValue task request.inputID request.inputRuleInfo (s.rule request.inputRuleInfo).result.value s
        -- Decrement the wait count, and move to finish queue if necessary.
        finishedInputsLoop fuel true (decrementTaskWaitCount task s)

/-- `while (!readyTaskInfos.empty())`: process all of the ready to run tasks (FIFO) -/
def readyTasksLoop : Nat → Bool → State → Bool × State
  | 0, w, s => (w, halt .FUEL s)
  | fuel + 1, w, s =>
    match s.readyTaskInfos with
    | [] => (w, s)
    | task :: rest =>
      let s := { s with readyTaskInfos := rest }
      -- ruleInfo->setComputing(this)
      let s := s.modRule (s.task task).forRuleInfo (fun ri => { ri with state := .inProgressComputing })
      -- Inform the task its inputs are ready and it should finish.
      let s := taskInputsAvailable task s
      -- Increment our count of outstanding tasks.
      readyTasksLoop fuel true { s with numOutstandingUnfinishedTasks := s.numOutstandingUnfinishedTasks + 1 }

/-- the dummy input requests for a finished task's discovered dependencies -/
def pushDiscovered : List Dep → State → State
  | [], s => s
  | d :: ds, s =>
    let s := getRuleInfoForKey d.key s
    pushDiscovered ds { s with inputRequests := s.inputRequests ++
      [{ taskInfo := none, inputID := 0, inputRuleInfo := d.key, orderOnly := d.orderOnly, forcePriorValue := false, singleUse := d.singleUse }] }

/-- `MemDB::setRuleResult` -/
def setRuleResult (k : Key) (res : Res) (s : State) : Bool × State :=
  let s := emit (.DS k res) s
  if s.store.failNextSet then (false, { s with store := { s.store with failNextSet := false } })
  else (true, { s with store := { s.store with rows := rowsSet s.store.rows k res } })

/-- process all of the finished tasks (LIFO); the first component is `true` when the database write
failed and `executeTasks` has to `return false` -/
def finishedTasksLoop : Nat → Bool → State → Bool × Bool × State
  | 0, w, s => (false, w, halt .FUEL s)
  | fuel + 1, w, s =>
    match s.finishedTaskInfos.getLast? with
    | none => (false, w, s)
    | some task =>
      let s := { s with finishedTaskInfos := s.finishedTaskInfos.dropLast }
      let taskInfo := s.task task
      let k := taskInfo.forRuleInfo
      -- Transition the rule state by completing the rule.
      let s := s.modRule k (fun ri => setComplete s { ri with inProgressInfo := .null })
      -- Report the status change.
      let s := emit (.S k 2) s
      -- Add all of the task's discovered dependencies.
      let s := s.modRule k (fun ri => { ri with result := { ri.result with deps := ri.result.deps ++ taskInfo.discoveredDependencies } })
      -- Push back dummy input requests for any discovered dependencies.
      let s := pushDiscovered taskInfo.discoveredDependencies s
      -- Update the database record, if attached.
      let (ok, s) := if s.hasDB then setRuleResult k (s.rule k).result s else (true, s)
      if !ok then
        let s := emit (.ER 6) s
        let s := { s with numOutstandingUnfinishedTasks := s.numOutstandingUnfinishedTasks - 1 }
        (true, true, cancelRemainingTasks s)
      else
      -- Wake up all of the pending scan requests; push all pending input requests onto the work queue.
      let s := { s with ruleInfosToScan := s.ruleInfosToScan ++ taskInfo.deferredScanRequests,
                        finishedInputRequests := s.finishedInputRequests ++ taskInfo.requestedBy,
                        numOutstandingUnfinishedTasks := s.numOutstandingUnfinishedTasks - 1 }
      -- Delete the pending task.
      let s := destroyTask task { s with taskInfos := alErase s.taskInfos task }
      finishedTasksLoop fuel true s

/-- the `while (true)` of `executeTasks(buildKey)` -/
def executeLoop (buildKey : Key) : Nat → State → Bool × State
  | 0, s => (false, halt .FUEL s)
  | fuel + 1, s =>
    if s.halted then (false, s) else
    let s := hook 0 s
    -- Cancel the build, if requested.
    if s.buildCancelled then (false, cancelRemainingTasks s) else
    let (didWork, s) := scanRequestsLoop loopFuel false s
    let (didWork, s) := inputRequestsLoop loopFuel didWork s
    let (didWork, s) := finishedInputsLoop loopFuel didWork s
    let (didWork, s) := readyTasksLoop loopFuel didWork s
    let (failed, didWork, s) := finishedTasksLoop loopFuel didWork s
    if failed then (false, s) else
    -- If we haven't done any other work at this point but we have pending tasks, wait for a task to complete.
    let (didWork, s) :=
      if !didWork && s.numOutstandingUnfinishedTasks != 0 then
        let s := hook 1 s
        (true, if s.finishedTaskInfos.isEmpty then halt (.BAD "stall") s else s)
      else (didWork, s)
    if didWork then executeLoop buildKey fuel s else
    -- no work: running tasks, rules still being scanned (reached through a discovered dependency), or an
    -- incomplete requested rule mean a cycle
    if !s.taskInfos.isEmpty || s.numRulesBeingScanned != 0 || !isComplete s (s.rule buildKey) then
      let (resolved, s) := resolveCycle buildKey s
      if resolved then executeLoop buildKey fuel s
      else (false, cancelRemainingTasks s)
    else (true, s)

/-- `executeTasks(buildKey)` -/
def executeTasks (buildKey : Key) (s : State) : Bool × State :=
  let s := { s with finishedInputRequests := [] }
  -- Push a dummy input request for the rule to build.
  let s := getRuleInfoForKey buildKey s
  let s := { s with inputRequests := s.inputRequests ++ [{ taskInfo := none, inputID := 0, inputRuleInfo := buildKey }] }
  executeLoop buildKey loopFuel s

/-- the deferred "Clear the rule scan free-lists" of `build()`: every block of scan records is
deleted; a rule that is still `IsScanning` keeps its (now dangling) pointer -/
def freeScanRecords (s : State) : State :=
  { s with ruleInfos := s.ruleInfos.map (fun (p : Key × RuleInfo) =>
      match p.2.inProgressInfo with
      | .pendingScanRecord _ => (p.1, { p.2 with inProgressInfo := .freedScanRecord })
      | _ => p) }

/-- `build(key)` -/
def build (key : Key) (s : State) : Val × State :=
  -- db->buildStarted(); `db->buildComplete()` is deferred to every return below
  let s := if s.hasDB then emit .DB s else s
  let finishDB (s : State) : State := if s.hasDB then emit .DE s else s
  if s.buildCancelled then (0, finishDB s) else
  -- (the defers run in reverse order: scan records freed, then buildComplete)
  let finish (s : State) : State := finishDB (freeScanRecords s)
  let s := emit .QC s            -- delegate.createExecutionQueue()
  let s := { s with currentEpoch := s.currentEpoch + 1 }
  let (success, s) := executeTasks key s
  -- db->setCurrentIteration(currentEpoch)
  let s := if s.hasDB then { emit (.DI s.currentEpoch) s with store := { s.store with iteration := s.currentEpoch } } else s
  if !success then (0, finish s) else
  let s := getRuleInfoForKey key s
  ((s.rule key).result.value, finish s)

/-! ## The harness around a build -/

/-- `runBuild(key)` after the `B` op set `cancelAtEvent` and the schedule; the trace is `s.trace` (most recent first) -/
def runBuild (key cancelAt : Nat) (sched : List SchedItem) (s : State) : State :=
  let s := { s with trace := [], halted := false, cancelIssued := false, cancelAtEvent := cancelAt, sched := sched }
  let s := { s with buildCancelled := false }          -- engine->resetForBuild()
  let s := { s with buildActive := true }
  let s := emit (.B key) s
  let (v, s) := build key s
  let s := { s with buildActive := false }
  let s := emit (.R v) s
  emit (.Z s.taskInfos.length 0) s

/-- op `K`: what the forked child of a killed build had recorded when it died — it dies before its `at`-th
event (`at < 2` counts as 2: `B key` is always recorded) and at the latest before the commit `DE`; the child runs
without a cancellation point and with the cancel flags of the schedule cleared -/
def killedTrace (key at_ : Nat) (sched : List SchedItem) (s : State) : List Tok :=
  (((runBuild key 0 (sched.map fun i => { i with cancel := false }) s).trace.reverse).takeWhile
    (fun t => match t with | .DE => false | _ => true)).take (max at_ 2 - 1)

/-- `newEngine(true)`: a new `BuildEngine` attached to the persisting store (`attachDB` loads the epoch) -/
def newEngine (s : State) : State :=
  { s with hasDB := true, ruleInfos := [], taskInfos := [], ruleInfosToScan := [], inputRequests := [],
           finishedInputRequests := [], readyTaskInfos := [], finishedTaskInfos := [],
           numOutstandingUnfinishedTasks := 0, numRulesBeingScanned := 0, currentEpoch := s.store.iteration,
           buildCancelled := false }

/-- op `W` -/
def opWipe (s : State) : State := newEngine { s with store := {}, env := fun _ => 0 }
/-- op `P` (the rule lines already collected; a later rule with the same key replaces an earlier one) -/
def opProgram (rules : List RuleSpec) (s : State) : State := newEngine { s with rules := rules }
/-- op `E` -/
def opRestart (s : State) : State := newEngine s
/-- op `M` -/
def opMutate (slot val : Nat) (s : State) : State := { s with env := upd s.env slot val }
/-- op `F` -/
def opFail (s : State) : State := { s with store := { s.store with failNextSet := true } }

/-- op `O`: the value computed by a brand-new engine with no database and synchronous completions
(the hook still runs, but nothing is pending and `currentEngine` is null, so it has no effect) -/
def opOracle (key : Key) (s : State) : Val :=
  let fresh : State := { rules := s.rules.map (fun r => { r with deferred := 0 }), env := s.env, hasDB := false }
  let (v, _) := build key fresh
  v

/-! ## Rendering (the harness's text) -/

def natS (n : Nat) : String := toString n
def boolS (b : Bool) : String := if b then "1" else "0"

def reqsS (l : List Req) : String :=
  l.foldl (fun acc q => acc ++ " " ++ natS q.key ++ " " ++ natS q.id ++ " " ++ natS q.kind) (natS l.length)

def keysS (l : List Key) : String := l.foldl (fun acc k => acc ++ " " ++ natS k) (natS l.length)

def Tok.render : Tok → String
  | .B k => "B " ++ natS k
  | .L k => "L " ++ natS k
  | .G k f => "G " ++ natS k ++ " " ++ boolS f
  | .S k st => "S " ++ natS k ++ " " ++ natS st
  | .V k v b => "V " ++ natS k ++ " " ++ natS v ++ " " ++ boolS b
  | .N k r i => "N " ++ natS k ++ " " ++ natS r ++ " " ++ (match i with | some x => natS x | none => "-1")
  | .T k => "T " ++ natS k
  | .ST k reqs => "ST " ++ natS k ++ " " ++ reqsS reqs
  | .PP k v => "PP " ++ natS k ++ " " ++ natS v
  | .PV k id key v reqs => "PV " ++ natS k ++ " " ++ natS id ++ " " ++ natS key ++ " " ++ natS v ++ " " ++ reqsS reqs
  | .IA k ds => "IA " ++ natS k ++ " " ++ keysS ds
  | .C k v f => "C " ++ natS k ++ " " ++ natS v ++ " " ++ natS f
  | .DS k r =>
    r.deps.foldl (fun acc d => acc ++ " " ++ natS d.key ++ " " ++ boolS d.orderOnly ++ " " ++ boolS d.singleUse)
      ("DS " ++ natS k ++ " " ++ natS r.value ++ " " ++ natS r.sig ++ " " ++ natS r.builtAt ++ " " ++ natS r.computedAt ++ " " ++ natS r.deps.length)
  | .DI e => "DI " ++ natS e
  | .DB => "DB"
  | .DE => "DE"
  | .QC => "QC"
  | .CY ks => "CY " ++ keysS ks
  | .ER c => "ER " ++ natS c
  | .X => "X"
  | .R v => "R " ++ natS v
  | .Z a b => "Z " ++ natS a ++ " " ++ natS b
  | .FUEL => "FUEL"
  | .BAD w => "BAD " ++ w

/-- the trace line of a build, as `runBuild` prints it -/
def renderTrace (toks : List Tok) : String := " ; ".intercalate (toks.map Tok.render)

/-- the `D` dump -/
def renderStore (st : Store) : String :=
  st.rows.foldl (fun acc kr =>
    kr.2.deps.foldl (fun acc d => acc ++ " " ++ natS d.key ++ ":" ++ natS ((if d.orderOnly then 1 else 0) + (if d.singleUse then 2 else 0)))
      (acc ++ " | " ++ natS kr.1 ++ " " ++ natS kr.2.value ++ " " ++ natS kr.2.sig ++ " " ++ natS kr.2.builtAt ++ " " ++ natS kr.2.computedAt))
    ("iter " ++ natS st.iteration)

/-! ## The trace in the abstract monitor's vocabulary -/

/-- `Drv.Engine.splitAtWrite`: after `S k 2`, rule registrations (`L`/`G`), a cancellation and
completions may precede the database write `DS k …` of the same rule -/
def splitAtWrite (k : Key) : List Tok → List Tok → Option (List Tok × Res × List Tok)
  | acc, (.L a) :: rest => splitAtWrite k (acc ++ [.L a]) rest
  | acc, (.G a f) :: rest => splitAtWrite k (acc ++ [.G a f]) rest
  | acc, .X :: rest => splitAtWrite k (acc ++ [.X]) rest
  | acc, (.C a v f) :: rest => splitAtWrite k (acc ++ [.C a v f]) rest
  | acc, (.DS k' row) :: rest => if k == k' then some (acc, row, rest) else none
  | _, _ => none

/-- one token that is an event on its own (`S k 2` and `DS` are merged by `toEvents`; `FUEL`/`BAD` are
not events of any engine) -/
def Tok.toEvent? : Tok → Option Event
  | .B k => some (.buildStart k)
  | .L k => some (.lookup k)
  | .G k f => some (.dbGet k f)
  | .S k 0 => some (.scanning k)
  | .S k 1 => some (.upToDate k)
  | .S _ _ => none
  | .V k v b => some (.valid k v b)
  | .N k r i => some (.needs k r i)
  | .T k => some (.create k)
  | .ST k reqs => some (.start k reqs)
  | .PP k v => some (.prior k v)
  | .PV k id key v reqs => some (.provide k id key v reqs)
  | .IA k ds => some (.inputsAvail k ds)
  | .C k v f => some (.complete k v (f != 0))
  | .DS _ _ => none
  | .DI e => some (.dbIter e)
  | .DB => some .dbBegin
  | .DE => some .dbEnd
  | .QC => some .queueCreated
  | .CY ks => some (.cycle ks)
  | .ER c => some (.error c)
  | .X => some .cancel
  | .R v => some (.ret v)
  | .Z a b => some (.tail a b)
  | .FUEL => none
  | .BAD _ => none

/-- The trace as events of the abstract monitor, with the merging rule of `Drv.Engine.mergeFinished`:
`S k 2` … `DS k row` becomes the single event `finished k row` (placed after the registrations in
between).  `none`: the trace contains something that is not a monitor event (a completion without its
database write, `FUEL`, `BAD`). -/
def toEventsAux : Nat → List Tok → Option (List Event)
  | 0, [] => some []
  | 0, _ :: _ => none
  | _ + 1, [] => some []
  | fuel + 1, t :: rest =>
    match t with
    | .S k 2 =>
      match splitAtWrite k [] rest with
      | some (regs, row, rest') => do
        let a ← regs.mapM Tok.toEvent?
        let b ← toEventsAux fuel rest'
        some (a ++ Event.finished k row :: b)
      | none => none
    | _ => do
      let e ← t.toEvent?
      let b ← toEventsAux fuel rest
      some (e :: b)

def toEvents (toks : List Tok) : Option (List Event) := toEventsAux toks.length toks

end LLBuild.EngineImpl
