/-
C20 — what `products/libllbuild/include/llbuild/core.h` DOCUMENTS for each exported function, written by hand
from the header's comments, in the vocabulary of the generated forwarding table
(`LLBuild/Generated/CApiForward.lean`, regenerated from Core-C-API.cpp by clang's AST on every run).
CORE LEAN ONLY.
-/
import LLBuild.Model.Bytes
import LLBuild.Generated.CApiForward

namespace LLBuild.CApi
open LLBuild.Generated.CApiForward

/-- The documented engine calls of each C function (parameters 0-based, as declared in core.h).

* `llb_buildengine_task_needs_input(ti, key, input_id)` — "Specify the given Task depends upon the result of computing
  Key ... supplying the provided InputID": `TaskInterface::request(key, input_id)`.
* `llb_buildengine_task_must_follow(ti, key)` — "must be built subsequent to the computation of key":
  `TaskInterface::mustFollow(key)`.
* `llb_buildengine_task_discovered_dependency(ti, key)` — "Inform the engine of an input dependency that was
  discovered by the task during its execution": `TaskInterface::discoveredDependency(key)`.
* `llb_buildengine_task_is_complete(ti, value, force_change)` — "\param value The new value for the task's rule.
  \param force_change If true, treat the value as changed and trigger dependents to rebuild, even if the value itself
  is not different from the prior result.": `TaskInterface::complete(value, force_change)`.
* `llb_buildengine_attach_db(engine, path, schema_version, error_out)` — "\param path The path to create or load the
  database from. \param schema_version The schema version used by the client for this database. Any existing database
  will be checked against this schema version to determine if existing results can be used.":
  `createSQLiteBuildDB(path, schema_version, recreateUnmatchedVersion = true, &error)` then
  `BuildEngine::attachDB(db, &error)`.
* `llb_buildengine_build(engine, key, result_out)` — "\param key The key to build.": `BuildEngine::build(key)`.
* `llb_buildengine_create(delegate)` / `llb_buildengine_destroy(engine)` construct / delete the engine: no
  forwarding call.
Keys, values and the path are `llb_data_t` blobs "(length, data)": they are to cross with their length. -/
def documented : CFn → List Call
  | .create => []
  | .destroy => []
  | .attach_db => [⟨.createSQLiteBuildDB, .none, [.keyOf 1, .param 2, .constBool true, .addrLocal]⟩,
                   ⟨.attachDB, .ofParam 0, [.resultOf 0, .addrLocal]⟩]
  | .build => [⟨.build, .ofParam 0, [.keyOf 1]⟩]
  | .task_needs_input => [⟨.request, .ofParam 0, [.keyOf 1, .param 2]⟩]
  | .task_must_follow => [⟨.mustFollow, .ofParam 0, [.keyOf 1]⟩]
  | .task_discovered_dependency => [⟨.discoveredDependency, .ofParam 0, [.keyOf 1]⟩]
  | .task_is_complete => [⟨.complete, .ofParam 0, [.bytesCopyOf 1, .param 2]⟩]

/-- which C parameter a blob-shaped argument is made from -/
def Arg.blobSource : Arg → Option Nat
  | .keyOf i => some i
  | .keyMixed i _ => some i
  | .cstrOf i => some i
  | .bytesCopyOf i => some i
  | _ => none

/-- The bytes the engine receives for a blob-shaped argument, given the bytes each C parameter points to
(`env i` = the `length` bytes at `data` of parameter i; NUL is an ordinary byte). -/
def Arg.cross (env : Nat → Bytes) : Arg → Option Bytes
  | .keyOf i => some (env i)
  | .bytesCopyOf i => some (env i)
  | .cstrOf i => some ((env i).takeWhile (· != 0))          -- strlen stops at the first NUL
  | .keyMixed i j => some ((env i).take (env j).length)      -- (and reads out of bounds if longer: not modelled as success)
  | _ => none

/-- shapes that copy exactly `length` bytes from `data` of one and the same parameter -/
def Arg.lengthPreserving : Arg → Bool
  | .keyOf _ => true
  | .bytesCopyOf _ => true
  | _ => false

end LLBuild.CApi
