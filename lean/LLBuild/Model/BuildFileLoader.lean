/-
Executable model of the build-description loader `BuildFileImpl` of lib/BuildSystem/BuildFile.cpp
(`load()`, `parseRootNode`, `parseClientMapping`, `parseToolsMapping`, `parseTargetsMapping`, `parseDefaultTarget`,
`parseNodesMapping`, `parseCommandsMapping`, `getOrCreateTool`, `getOrCreateNode`, and the result of
`OwnershipAnalysis::establishOwnerships`).  CORE LEAN ONLY.

INPUT.  The node tree the vendored llvm YAML parser hands to the loader (`YNode`): the loader distinguishes exactly
`NK_Scalar`, `NK_Mapping`, `NK_Sequence` and "anything else" (`NK_Null`, `NK_BlockScalar`, `NK_Alias`); it never looks at
tags or anchors (`!!str "v"`, `&a [x]` are a scalar / a sequence for it) and never resolves aliases (`*a` is "anything
else").  Scalars carry `ScalarNode::getValue` (the unescaped value).  A stream is a list of documents (`Option YNode`:
`none` = `Document::getRoot()` returned a null pointer, which the parser does only for input it rejects).

OUTPUT.  The exact sequence of delegate calls and error callbacks (`Event`; a call is recorded when it RETURNS, together
with its answer and with the errors the callee reported through the `ConfigureContext` it was given), and the result
(`Result`: a description, null, or a null-pointer dereference).

DELEGATE.  Every answer of the `BuildFileDelegate` and of the `Tool` / `Node` / `Command` objects it creates is a field of
`Delegate σ` (state-passing, arbitrary state type `σ`): the theorems quantify over all of them.

CONTROL STRUCTURE.  The C++ never recurses over the tree: it only runs `for (auto& entry : *map)` /
`for (auto& node : *sequence)` loops over YAML collection iterators, nested at most four deep (root map → section map →
entry map → attribute value map / sequence).  Every loop below is a structural recursion over the list of entries; the
iterator is advanced on every path (`continue` in a range-for; the two hand-written "skip to the end" loops
`while (it != attrs->end()) ++it;` advance until the end), so there is no non-consuming iteration.
-/
import LLBuild.Model.Bytes

namespace LLBuild.BuildFileLoader

/-! ### the node tree -/

/-- the node kinds the loader lumps together (`getType()` is none of scalar / mapping / sequence) -/
inductive OtherKind where
  | null | blockScalar | alias
  deriving DecidableEq, Repr

inductive YNode where
  | scalar (v : Bytes)
  | mapping (es : List (YNode × YNode))
  | sequence (xs : List YNode)
  | other (k : OtherKind)

instance : Inhabited YNode := ⟨.other .null⟩

/-- one step down the tree; `entry i` is the `KeyValueNode` itself (the loader points one error at it) -/
inductive Step where
  | key (i : Nat) | val (i : Nat) | item (i : Nat) | entry (i : Nat)
  deriving DecidableEq, Repr

abbrev Path := List Step

/-- where an error token / a `ConfigureContext` token points: nowhere (`BuildFileToken{nullptr, 0}`) or at the source
range of a node of document `doc` -/
inductive Loc where
  | none
  | node (doc : Nat) (p : Path)
  deriving DecidableEq, Repr

abbrev at0 (p : Path) : Loc := .node 0 p

def YNode.child : YNode → Step → Option YNode
  | .mapping es, .key i => es[i]?.map (·.1)
  | .mapping es, .val i => es[i]?.map (·.2)
  | .sequence xs, .item i => xs[i]?
  | _, _ => none

/-- the node at a path of `key` / `val` / `item` steps -/
def nodeAt : Path → YNode → Option YNode
  | [], t => some t
  | s :: p, t => match t.child s with
    | some c => nodeAt p c
    | none => none

/-- does the path name a node (or, with a final `entry` step, a key/value pair) of the tree? -/
def pathValid : Path → YNode → Bool
  | [], _ => true
  | [.entry i], t => match t with
    | .mapping es => decide (i < es.length)
    | _ => false
  | s :: p, t => match t.child s with
    | some c => pathValid p c
    | none => false

def Loc.valid (docs : List (Option YNode)) : Loc → Bool
  | .none => true
  | .node i p => match docs[i]? with
    | some (some root) => pathValid p root
    | _ => false

/-! ### key words (byte literals so that `decide` can evaluate the model) -/

def kClient : Bytes := [99, 108, 105, 101, 110, 116]
def kTools : Bytes := [116, 111, 111, 108, 115]
def kTargets : Bytes := [116, 97, 114, 103, 101, 116, 115]
def kDefault : Bytes := [100, 101, 102, 97, 117, 108, 116]
def kNodes : Bytes := [110, 111, 100, 101, 115]
def kCommands : Bytes := [99, 111, 109, 109, 97, 110, 100, 115]
def kName : Bytes := [110, 97, 109, 101]
def kVersion : Bytes := [118, 101, 114, 115, 105, 111, 110]
def kPerformOwnershipAnalysis : Bytes :=
  [112, 101, 114, 102, 111, 114, 109, 45, 111, 119, 110, 101, 114, 115, 104, 105, 112, 45, 97, 110, 97, 108, 121, 115, 105, 115]
def kYes : Bytes := [121, 101, 115]
def kTool : Bytes := [116, 111, 111, 108]
def kInputs : Bytes := [105, 110, 112, 117, 116, 115]
def kOutputs : Bytes := [111, 117, 116, 112, 117, 116, 115]
def kDescription : Bytes := [100, 101, 115, 99, 114, 105, 112, 116, 105, 111, 110]

/-- the optional top-level sections, in the order `parseRootNode` tries them -/
inductive TopSec where
  | tools | targets | default | nodes | commands
  deriving DecidableEq, Repr

def TopSec.key : TopSec → Bytes
  | .tools => kTools | .targets => kTargets | .default => kDefault | .nodes => kNodes | .commands => kCommands

def allSecs : List TopSec := [.tools, .targets, .default, .nodes, .commands]

/-- the three sections whose entries carry attribute assignments -/
inductive Sec where
  | tools | nodes | commands
  deriving DecidableEq, Repr

inductive IOKey where
  | inputs | outputs | description
  deriving DecidableEq, Repr

/-! ### error messages: one constructor per `error(...)` call site class of BuildFile.cpp -/

inductive Msg where
  | unableToOpen                       -- load(): "unable to open '<file>'"                             (no token)
  | missingDocument                    -- load(): "missing document in stream"                           (no token)
  | unexpectedTopLevel                 -- "unexpected top-level node"
  | expectedClient                     -- "expected initial mapping key 'client'"
  | clientNotMap                       -- "unexpected 'client' value (expected map)"
  | clientKeyType                      -- "invalid key type in 'client' map"
  | clientValueType                    -- "invalid value type in 'client' map"
  | clientVersion                      -- "invalid version number in 'client' map"                       (continues)
  | clientConfigure                    -- "unable to configure client"
  | sectionValue (s : TopSec)          -- "unexpected 'tools' value (expected map)" / "unexpected 'default' target value (expected scalar)"
  | trailingSection                    -- "unexpected trailing top-level section"
  | additionalDocument                 -- "unexpected additional document in stream"
  | invalidDefault                     -- "invalid default target, a default target should be in targets"
  | entryKeyType (s : TopSec)          -- "invalid key type in 'tools' map"                              (continues)
  | entryValueType (s : TopSec)        -- "invalid value type in 'tools' map"                            (continues)
  | invalidTool (name : Bytes)         -- "invalid tool (<name>) type in 'tools' map"  (also from the commands section)
  | attrKeyType (s : Sec)              -- "invalid key type for tool in 'tools' map" / "… for node in 'nodes' map" / "invalid key type in 'commands' map"  (continues)
  | attrMapKeyType (s : Sec) (attr : Bytes)    -- "invalid key type for '<attr>' in 'tools' map"         (continues)
  | attrMapValueType (s : Sec) (attr : Bytes)  -- "invalid value type for '<attr>' in 'tools' map"       (continues; token = the KEY)
  | attrValueType (s : Sec)            -- "invalid value type for tool in 'tools' map" (sequence item or non-collection value; continues)
  | targetNodeType                     -- "invalid node type in 'targets' map"                           (continues)
  | duplicateCommand                   -- "duplicate command in 'commands' map"                          (continues)
  | missingToolKey                     -- "missing 'tool' key for command in 'command' map"              (continues)
  | expectedToolKey                    -- "expected 'tool' initial key for command in 'commands' map"    (continues)
  | toolValueType                      -- "invalid 'tool' value type for command in 'commands' map"      (continues)
  | toolNoCommand                      -- "tool failed to create a command"
  | ioValueType (k : IOKey)            -- "invalid value type for 'inputs' command key"                  (continues)
  | ioNodeType (k : IOKey)             -- "invalid node type in 'inputs' command key"                    (continues)
  deriving DecidableEq, Repr

/-- the error classes after which the C++ `return false` / `return nullptr` (load fails); after every other class the
loop `continue`s and a description can still be returned -/
def Msg.fatal : Msg → Bool
  | .unableToOpen | .missingDocument | .unexpectedTopLevel | .expectedClient | .clientNotMap | .clientKeyType
  | .clientValueType | .clientConfigure | .sectionValue _ | .trailingSection | .additionalDocument | .invalidDefault
  | .invalidTool _ | .toolNoCommand => true
  | _ => false

def TopSec.text : TopSec → String
  | .tools => "tools" | .targets => "targets" | .default => "default" | .nodes => "nodes" | .commands => "commands"

def Sec.text : Sec → String
  | .tools => "tools" | .nodes => "nodes" | .commands => "commands"

def Sec.noun : Sec → String
  | .tools => "tool" | .nodes => "node" | .commands => "command"

def IOKey.text : IOKey → String
  | .inputs => "inputs" | .outputs => "outputs" | .description => "description"

/-- the exact message bytes (`file` = the main file name) -/
def Msg.text (file : String) : Msg → Bytes
  | .unableToOpen => bytesOfString ("unable to open '" ++ file ++ "'")
  | .missingDocument => bytesOfString "missing document in stream"
  | .unexpectedTopLevel => bytesOfString "unexpected top-level node"
  | .expectedClient => bytesOfString "expected initial mapping key 'client'"
  | .clientNotMap => bytesOfString "unexpected 'client' value (expected map)"
  | .clientKeyType => bytesOfString "invalid key type in 'client' map"
  | .clientValueType => bytesOfString "invalid value type in 'client' map"
  | .clientVersion => bytesOfString "invalid version number in 'client' map"
  | .clientConfigure => bytesOfString "unable to configure client"
  | .sectionValue .default => bytesOfString "unexpected 'default' target value (expected scalar)"
  | .sectionValue s => bytesOfString ("unexpected '" ++ s.text ++ "' value (expected map)")
  | .trailingSection => bytesOfString "unexpected trailing top-level section"
  | .additionalDocument => bytesOfString "unexpected additional document in stream"
  | .invalidDefault => bytesOfString "invalid default target, a default target should be in targets"
  | .entryKeyType s => bytesOfString ("invalid key type in '" ++ s.text ++ "' map")
  | .entryValueType s => bytesOfString ("invalid value type in '" ++ s.text ++ "' map")
  | .invalidTool name => bytesOfString "invalid tool (" ++ name ++ bytesOfString ") type in 'tools' map"
  | .attrKeyType .commands => bytesOfString "invalid key type in 'commands' map"
  | .attrKeyType s => bytesOfString ("invalid key type for " ++ s.noun ++ " in '" ++ s.text ++ "' map")
  | .attrMapKeyType s attr => bytesOfString "invalid key type for '" ++ attr ++ bytesOfString ("' in '" ++ s.text ++ "' map")
  | .attrMapValueType s attr => bytesOfString "invalid value type for '" ++ attr ++ bytesOfString ("' in '" ++ s.text ++ "' map")
  | .attrValueType s => bytesOfString ("invalid value type for " ++ s.noun ++ " in '" ++ s.text ++ "' map")
  | .targetNodeType => bytesOfString "invalid node type in 'targets' map"
  | .duplicateCommand => bytesOfString "duplicate command in 'commands' map"
  | .missingToolKey => bytesOfString "missing 'tool' key for command in 'command' map"
  | .expectedToolKey => bytesOfString "expected 'tool' initial key for command in 'commands' map"
  | .toolValueType => bytesOfString "invalid 'tool' value type for command in 'commands' map"
  | .toolNoCommand => bytesOfString "tool failed to create a command"
  | .ioValueType k => bytesOfString ("invalid value type for '" ++ k.text ++ "' command key")
  | .ioNodeType k => bytesOfString ("invalid node type in '" ++ k.text ++ "' command key")

/-! ### delegate answers and the event stream -/

/-- the answer of a call that was given a `ConfigureContext`: its boolean result and the messages it reported through
`ctx.error(...)` (they arrive at `delegate.error` with the token the loader put into the context) -/
structure Ans where
  ok : Bool
  errs : List Bytes := []
  deriving DecidableEq, Repr

/-- the three overloads of `configureAttribute` -/
inductive AttrVal where
  | str (v : Bytes)
  | list (vs : List Bytes)
  | map (kvs : List (Bytes × Bytes))
  deriving DecidableEq, Repr

inductive Event where
  | setBuffer                                                                        -- setFileContentsBeingParsed
  | error (m : Msg) (loc : Loc)                                                      -- BuildFileImpl::error → delegate.error
  | configureClient (name : Bytes) (version : Nat) (props : List (Bytes × Bytes)) (loc : Loc) (ans : Ans)
  | lookupTool (name : Bytes) (found : Bool)
  | toolAttr (tool attr : Bytes) (v : AttrVal) (loc : Loc) (ans : Ans)               -- Tool::configureAttribute
  | createCommand (tool name : Bytes) (made : Bool)                                  -- Tool::createCommand
  | createNode (name : Bytes) (implicit : Bool)
  | nodeAttr (node attr : Bytes) (v : AttrVal) (loc : Loc) (ans : Ans)               -- Node::configureAttribute
  | cmdInputs (cmd : Bytes) (nodes : List Bytes) (loc : Loc) (errs : List Bytes)     -- Command::configureInputs
  | cmdOutputs (cmd : Bytes) (nodes : List Bytes) (loc : Loc) (errs : List Bytes)
  | cmdDescription (cmd : Bytes) (text : Bytes) (loc : Loc) (errs : List Bytes)
  | cmdAttr (cmd attr : Bytes) (v : AttrVal) (loc : Loc) (ans : Ans)                 -- Command::configureAttribute
  | loadedTarget (name : Bytes) (nodes : List Bytes)
  | loadedDefaultTarget (name : Bytes)
  | loadedCommand (name : Bytes)
  | multipleProducers (node : Bytes) (cmds : List Bytes)                             -- cannotLoadDueToMultipleProducers
  deriving DecidableEq, Repr

/-- what `OwnershipAnalysis` reads off a loaded `Command` -/
structure CmdInfo where
  outputs : List Bytes          -- names of `getOutputs()`
  external : Bool               -- `isExternalCommand()`
  repair : Bool                 -- `repairViaOwnershipAnalysis`
  deriving Repr

structure Delegate (σ : Type) where
  configureClient : σ → Bytes → Nat → List (Bytes × Bytes) → Ans × σ
  lookupTool : σ → Bytes → Bool × σ                          -- false = nullptr
  toolAttr : σ → Bytes → Bytes → AttrVal → Ans × σ           -- tool, attribute, value
  createCommand : σ → Bytes → Bytes → Bool × σ               -- tool, command name; false = nullptr
  createNode : σ → Bytes → Bool → σ                          -- must return a node (the C++ only asserts it)
  nodeAttr : σ → Bytes → Bytes → AttrVal → Ans × σ
  cmdInputs : σ → Bytes → List Bytes → List Bytes × σ        -- void; may report through its context
  cmdOutputs : σ → Bytes → List Bytes → List Bytes × σ
  cmdDescription : σ → Bytes → Bytes → List Bytes × σ
  cmdAttr : σ → Bytes → Bytes → AttrVal → Ans × σ
  loadedTarget : σ → Bytes → List Bytes → σ
  loadedDefaultTarget : σ → Bytes → σ
  loadedCommand : σ → Bytes → σ
  cmdInfo : σ → Bytes → CmdInfo
  nodeVirtual : σ → Bytes → Bool                             -- `BuildNode::isVirtual()`
  /-- NOT the delegate's: the iteration order of the `llvm::StringMap` holding the commands (a function of the
  insertion sequence; hash order) -/
  cmdOrder : List Bytes → List Bytes

/-- the fields of `BuildFileImpl` the control flow depends on -/
structure LS where
  tools : List Bytes := []        -- keys of `tools`
  nodes : List Bytes := []        -- keys of `nodes`
  targets : List Bytes := []      -- keys of `targets`
  defaultTarget : Bytes := []
  cmds : List Bytes := []         -- keys of `commands`, in insertion order
  ownership : Bool := false       -- performOwnershipAnalysis
  deriving Repr

/-- what a `bool parseX(...)` returns: the events it caused, the delegate's and the loader's state, and the boolean -/
structure R (σ : Type) where
  evs : List Event
  st : σ
  ls : LS
  ok : Bool

def R.pure {σ} (s : σ) (ls : LS) : R σ := ⟨[], s, ls, true⟩

/-- sequencing: `if (!first) return false; … rest` -/
def R.andThen {σ} (r : R σ) (f : σ → LS → R σ) : R σ :=
  if r.ok then
    let r2 := f r.st r.ls
    { r2 with evs := r.evs ++ r2.evs }
  else r

def R.pre {σ} (es : List Event) (r : R σ) : R σ := { r with evs := es ++ r.evs }

/-! ### helpers of BuildFileImpl -/

def nodeIsScalarString (n : YNode) (s : Bytes) : Bool :=
  match n with
  | .scalar v => v == s
  | _ => false

def isDigit (b : UInt8) : Bool := 48 ≤ b && b ≤ 57

def digitsValue : Bytes → Nat → Nat
  | [], acc => acc
  | b :: rest, acc => digitsValue rest (acc * 10 + (b.toNat - 48))

/-- `StringRef::getAsInteger(10, uint32_t&)`: `some n` iff the whole string is a non-empty run of decimal digits whose
value fits 32 bits (the 64-bit overflow check of `consumeUnsignedInteger` is subsumed); on failure the variable keeps
its previous value -/
def parseUInt32 (v : Bytes) : Option Nat :=
  if v.isEmpty || !v.all isDigit then none
  else
    let n := digitsValue v 0
    if n < 4294967296 then some n else none

/-- `getOrCreateTool`: cached by name; otherwise `delegate.lookupTool`, and an error at `forNode` when it returns null -/
def getOrCreateTool {σ} (d : Delegate σ) (name : Bytes) (loc : Loc) (s : σ) (ls : LS) : R σ :=
  if ls.tools.contains name then ⟨[], s, ls, true⟩
  else if (d.lookupTool s name).1 then
    ⟨[.lookupTool name true], (d.lookupTool s name).2, { ls with tools := name :: ls.tools }, true⟩
  else ⟨[.lookupTool name false, .error (.invalidTool name) loc], (d.lookupTool s name).2, ls, false⟩

/-- `getOrCreateNode`: cached by name; otherwise `delegate.createNode` (always succeeds) -/
def getOrCreateNode {σ} (d : Delegate σ) (name : Bytes) (implicit : Bool) (s : σ) (ls : LS) : R σ :=
  if ls.nodes.contains name then ⟨[], s, ls, true⟩
  else ⟨[.createNode name implicit], d.createNode s name implicit, { ls with nodes := name :: ls.nodes }, true⟩

/-- the scalar items of a sequence (what ends up in the `std::vector` handed to the callee) -/
def scalarItems : List YNode → List Bytes
  | [] => []
  | .scalar v :: rest => v :: scalarItems rest
  | _ :: rest => scalarItems rest

/-- `for (auto& nodeName : *nodeNames)`: every scalar item becomes a node, every other item an error (message `m`);
always succeeds -/
def nodeList {σ} (d : Delegate σ) (m : Msg) (p : Path) : Nat → List YNode → σ → LS → R σ
  | _, [], s, ls => .pure s ls
  | i, .scalar name :: rest, s, ls =>
    (getOrCreateNode d name true s ls).andThen fun s1 ls1 => nodeList d m p (i + 1) rest s1 ls1
  | i, _ :: rest, s, ls => (nodeList d m p (i + 1) rest s ls).pre [.error m (at0 (p ++ [.item i]))]

/-! ### attribute values: the three-way dispatch that appears in the tools, nodes and commands sections -/

/-- mapping value: the (scalar key, scalar value) pairs -/
def mapPairs : List (YNode × YNode) → List (Bytes × Bytes)
  | [] => []
  | (.scalar k, .scalar v) :: rest => (k, v) :: mapPairs rest
  | _ :: rest => mapPairs rest

/-- mapping value: `for (auto& entry : *value)`; a non-scalar key or value is reported (both AT THE KEY) and skipped -/
def mapErrs (sec : Sec) (attr : Bytes) (p : Path) : Nat → List (YNode × YNode) → List Event
  | _, [] => []
  | i, (.scalar _, .scalar _) :: rest => mapErrs sec attr p (i + 1) rest
  | i, (.scalar _, _) :: rest => .error (.attrMapValueType sec attr) (at0 (p ++ [.key i])) :: mapErrs sec attr p (i + 1) rest
  | i, _ :: rest => .error (.attrMapKeyType sec attr) (at0 (p ++ [.key i])) :: mapErrs sec attr p (i + 1) rest

/-- sequence value: a non-scalar item is reported and skipped -/
def seqErrs (sec : Sec) (p : Path) : Nat → List YNode → List Event
  | _, [] => []
  | i, .scalar _ :: rest => seqErrs sec p (i + 1) rest
  | i, _ :: rest => .error (.attrValueType sec) (at0 (p ++ [.item i])) :: seqErrs sec p (i + 1) rest

/-- which `configureAttribute` overload is called with what; `none` = the value is neither a mapping, a sequence nor a
scalar ("invalid value type …; continue") -/
def attrValue : YNode → Option AttrVal
  | .mapping es => some (.map (mapPairs es))
  | .sequence xs => some (.list (scalarItems xs))
  | .scalar v => some (.str v)
  | .other _ => none

def attrValueErrs (sec : Sec) (attr : Bytes) (vp : Path) : YNode → List Event
  | .mapping es => mapErrs sec attr vp 0 es
  | .sequence xs => seqErrs sec vp 0 xs
  | .scalar _ => []
  | .other _ => [.error (.attrValueType sec) (at0 vp)]

/-- one `key: value` attribute assignment of entry `i` of the mapping at `p`: key check, value dispatch, the
`configureAttribute` call (`call`, recorded by `mk`, context token = the key).  It fails iff the call returned false
(the loader then returns false WITHOUT reporting anything itself). -/
def attrStep {σ} (sec : Sec) (call : σ → Bytes → AttrVal → Ans × σ) (mk : Bytes → AttrVal → Loc → Ans → Event)
    (p : Path) (i : Nat) (k v : YNode) (s : σ) (ls : LS) : R σ :=
  match k with
  | .scalar attr =>
    match attrValue v with
    | none => ⟨attrValueErrs sec attr (p ++ [.val i]) v, s, ls, true⟩
    | some av =>
      ⟨attrValueErrs sec attr (p ++ [.val i]) v ++ [mk attr av (at0 (p ++ [.key i])) (call s attr av).1],
        (call s attr av).2, ls, (call s attr av).1.ok⟩
  | _ => ⟨[.error (.attrKeyType sec) (at0 (p ++ [.key i]))], s, ls, true⟩

/-- `for (auto& valueEntry : *attrs)` of the tools and nodes sections -/
def attrLoop {σ} (sec : Sec) (call : σ → Bytes → AttrVal → Ans × σ) (mk : Bytes → AttrVal → Loc → Ans → Event)
    (p : Path) : Nat → List (YNode × YNode) → σ → LS → R σ
  | _, [], s, ls => .pure s ls
  | i, (k, v) :: rest, s, ls =>
    (attrStep sec call mk p i k v s ls).andThen fun s1 ls1 => attrLoop sec call mk p (i + 1) rest s1 ls1

/-! ### parseClientMapping -/

structure ClientAcc where
  name : Bytes := []
  version : Nat := 0
  props : List (Bytes × Bytes) := []
  ownership : Bool := false

/-- the body of `for (auto& entry : *map)` after the two kind checks.  NOTE the C++ reads
`if (key == "name") … else if (key == "version") … } if (key == "perform-ownership-analysis") … else properties.push_back`
(an `else` is missing before the third `if`): `name` and `version` are ALSO appended to the property list. -/
def clientEntryAcc (key value : Bytes) (a : ClientAcc) : ClientAcc :=
  let a1 :=
    if key == kName then { a with name := value }
    else if key == kVersion then
      match parseUInt32 value with
      | some n => { a with version := n }
      | none => a
    else a
  if key == kPerformOwnershipAnalysis then
    (if value == kYes then { a1 with ownership := true } else a1)
  else { a1 with props := a1.props ++ [(key, value)] }

/-- "invalid version number in 'client' map" (the loop continues, `version` keeps its value) -/
def clientEntryErrs (p : Path) (i : Nat) (key value : Bytes) : List Event :=
  if key != kName && key == kVersion && (parseUInt32 value).isNone then [.error .clientVersion (at0 (p ++ [.val i]))] else []

structure ClientLoop where
  evs : List Event
  acc : Option ClientAcc       -- `none` = a key or value is not a scalar: return false

def clientLoop (p : Path) : Nat → List (YNode × YNode) → ClientAcc → ClientLoop
  | _, [], a => ⟨[], some a⟩
  | i, (.scalar key, .scalar value) :: rest, a =>
    ⟨clientEntryErrs p i key value ++ (clientLoop p (i + 1) rest (clientEntryAcc key value a)).evs,
      (clientLoop p (i + 1) rest (clientEntryAcc key value a)).acc⟩
  | i, (.scalar _, _) :: _, _ => ⟨[.error .clientValueType (at0 (p ++ [.val i]))], none⟩
  | i, _ :: _, _ => ⟨[.error .clientKeyType (at0 (p ++ [.key i]))], none⟩

def parseClient {σ} (d : Delegate σ) (p : Path) (es : List (YNode × YNode)) (s : σ) (ls : LS) : R σ :=
  match (clientLoop p 0 es {}).acc with
  | none => ⟨(clientLoop p 0 es {}).evs, s, ls, false⟩
  | some a =>
    let ans := (d.configureClient s a.name a.version a.props).1
    let s1 := (d.configureClient s a.name a.version a.props).2
    -- `performOwnershipAnalysis` is a member: set as soon as the key is seen
    let ls1 := { ls with ownership := a.ownership }
    let call := Event.configureClient a.name a.version a.props (at0 p) ans
    if ans.ok then ⟨(clientLoop p 0 es {}).evs ++ [call], s1, ls1, true⟩
    else ⟨(clientLoop p 0 es {}).evs ++ [call, .error .clientConfigure (at0 p)], s1, ls1, false⟩

/-! ### parseToolsMapping -/

def parseTools {σ} (d : Delegate σ) (p : Path) : Nat → List (YNode × YNode) → σ → LS → R σ
  | _, [], s, ls => .pure s ls
  | i, (.scalar name, .mapping attrs) :: rest, s, ls =>
    (getOrCreateTool d name (at0 (p ++ [.key i])) s ls).andThen fun s1 ls1 =>
      (attrLoop .tools (fun s => d.toolAttr s name) (.toolAttr name) (p ++ [.val i]) 0 attrs s1 ls1).andThen fun s2 ls2 =>
        parseTools d p (i + 1) rest s2 ls2
  | i, (.scalar _, _) :: rest, s, ls =>
    (parseTools d p (i + 1) rest s ls).pre [.error (.entryValueType .tools) (at0 (p ++ [.val i]))]
  | i, _ :: rest, s, ls => (parseTools d p (i + 1) rest s ls).pre [.error (.entryKeyType .tools) (at0 (p ++ [.key i]))]

/-! ### parseTargetsMapping (never fails; a duplicate target name silently replaces the earlier one) -/

def parseTargets {σ} (d : Delegate σ) (p : Path) : Nat → List (YNode × YNode) → σ → LS → R σ
  | _, [], s, ls => .pure s ls
  | i, (.scalar name, .sequence xs) :: rest, s, ls =>
    (nodeList d .targetNodeType (p ++ [.val i]) 0 xs s ls).andThen fun s1 ls1 =>
      (parseTargets d p (i + 1) rest (d.loadedTarget s1 name (scalarItems xs))
        { ls1 with targets := name :: ls1.targets }).pre [.loadedTarget name (scalarItems xs)]
  | i, (.scalar _, _) :: rest, s, ls =>
    (parseTargets d p (i + 1) rest s ls).pre [.error (.entryValueType .targets) (at0 (p ++ [.val i]))]
  | i, _ :: rest, s, ls => (parseTargets d p (i + 1) rest s ls).pre [.error (.entryKeyType .targets) (at0 (p ++ [.key i]))]

/-! ### parseDefaultTarget -/

def parseDefault {σ} (d : Delegate σ) (t : Bytes) (vp : Path) (s : σ) (ls : LS) : R σ :=
  if ls.targets.contains t then
    ⟨[.loadedDefaultTarget t], d.loadedDefaultTarget s t, { ls with defaultTarget := t }, true⟩
  else ⟨[.error .invalidDefault (at0 vp)], s, ls, false⟩

/-! ### parseNodesMapping (a repeated node name silently configures the same node again) -/

def parseNodes {σ} (d : Delegate σ) (p : Path) : Nat → List (YNode × YNode) → σ → LS → R σ
  | _, [], s, ls => .pure s ls
  | i, (.scalar name, .mapping attrs) :: rest, s, ls =>
    (getOrCreateNode d name false s ls).andThen fun s1 ls1 =>
      (attrLoop .nodes (fun s => d.nodeAttr s name) (.nodeAttr name) (p ++ [.val i]) 0 attrs s1 ls1).andThen fun s2 ls2 =>
        parseNodes d p (i + 1) rest s2 ls2
  | i, (.scalar _, _) :: rest, s, ls =>
    (parseNodes d p (i + 1) rest s ls).pre [.error (.entryValueType .nodes) (at0 (p ++ [.val i]))]
  | i, _ :: rest, s, ls => (parseNodes d p (i + 1) rest s ls).pre [.error (.entryKeyType .nodes) (at0 (p ++ [.key i]))]

/-! ### parseCommandsMapping -/

/-- `inputs:` / `outputs:` — the nodes, then the `configureInputs` / `configureOutputs` call (`call`, recorded by
`mk`; void) -/
def cmdIO {σ} (d : Delegate σ) (io : IOKey) (call : σ → List Bytes → List Bytes × σ) (mk : List Bytes → Loc → List Bytes → Event)
    (p : Path) (i : Nat) (v : YNode) (s : σ) (ls : LS) : R σ :=
  match v with
  | .sequence xs =>
    (nodeList d (.ioNodeType io) (p ++ [.val i]) 0 xs s ls).andThen fun s1 ls1 =>
      ⟨[mk (scalarItems xs) (at0 (p ++ [.key i])) (call s1 (scalarItems xs)).1], (call s1 (scalarItems xs)).2, ls1, true⟩
  | _ => ⟨[.error (.ioValueType io) (at0 (p ++ [.val i]))], s, ls, true⟩

/-- `description:` -/
def cmdDesc {σ} (d : Delegate σ) (cmd : Bytes) (p : Path) (i : Nat) (v : YNode) (s : σ) (ls : LS) : R σ :=
  match v with
  | .scalar text =>
    ⟨[.cmdDescription cmd text (at0 (p ++ [.key i])) (d.cmdDescription s cmd text).1], (d.cmdDescription s cmd text).2, ls, true⟩
  | _ => ⟨[.error (.ioValueType .description) (at0 (p ++ [.val i]))], s, ls, true⟩

/-- one attribute of a command: the three known keys, otherwise an attribute assignment -/
def cmdAttrStep {σ} (d : Delegate σ) (cmd : Bytes) (p : Path) (i : Nat) (k v : YNode) (s : σ) (ls : LS) : R σ :=
  if nodeIsScalarString k kInputs then cmdIO d .inputs (fun s => d.cmdInputs s cmd) (.cmdInputs cmd) p i v s ls
  else if nodeIsScalarString k kOutputs then cmdIO d .outputs (fun s => d.cmdOutputs s cmd) (.cmdOutputs cmd) p i v s ls
  else if nodeIsScalarString k kDescription then cmdDesc d cmd p i v s ls
  else attrStep .commands (fun s => d.cmdAttr s cmd) (.cmdAttr cmd) p i k v s ls

/-- `for (; it != attrs->end(); ++it)`: the attributes after the initial `tool` key -/
def cmdAttrs {σ} (d : Delegate σ) (cmd : Bytes) (p : Path) : Nat → List (YNode × YNode) → σ → LS → R σ
  | _, [], s, ls => .pure s ls
  | i, (k, v) :: rest, s, ls =>
    (cmdAttrStep d cmd p i k v s ls).andThen fun s1 ls1 => cmdAttrs d cmd p (i + 1) rest s1 ls1

/-- `tool->createCommand(name)`; a null command is an error at the `tool` value -/
def createCommand {σ} (d : Delegate σ) (tool name : Bytes) (loc : Loc) (s : σ) (ls : LS) : R σ :=
  if (d.createCommand s tool name).1 then ⟨[.createCommand tool name true], (d.createCommand s tool name).2, ls, true⟩
  else ⟨[.createCommand tool name false, .error .toolNoCommand loc], (d.createCommand s tool name).2, ls, false⟩

/-- `delegate.loadedCommand(name, *command); commands[name] = std::move(command);` -/
def finishCommand {σ} (d : Delegate σ) (name : Bytes) (s : σ) (ls : LS) : R σ :=
  ⟨[.loadedCommand name], d.loadedCommand s name, { ls with cmds := ls.cmds ++ [name] }, true⟩

/-- one command whose name (at `kp`) and attribute mapping (at `ap`) passed the kind checks and which is no duplicate.
`ok = true` also for the four "report and `continue`" exits. -/
def parseCommand {σ} (d : Delegate σ) (name : Bytes) (kp ap : Path) (attrs : List (YNode × YNode)) (s : σ) (ls : LS) : R σ :=
  match attrs with
  | [] => ⟨[.error .missingToolKey (at0 kp)], s, ls, true⟩
  | (tk, tv) :: more =>
    if !nodeIsScalarString tk kTool then ⟨[.error .expectedToolKey (at0 (ap ++ [.key 0]))], s, ls, true⟩
    else
      match tv with
      | .scalar tool =>
        (getOrCreateTool d tool (at0 (ap ++ [.val 0])) s ls).andThen fun s1 ls1 =>
          (createCommand d tool name (at0 (ap ++ [.val 0])) s1 ls1).andThen fun s2 ls2 =>
            (cmdAttrs d name ap 1 more s2 ls2).andThen fun s3 ls3 => finishCommand d name s3 ls3
      | _ => ⟨[.error .toolValueType (at0 (ap ++ [.val 0]))], s, ls, true⟩

def parseCommands {σ} (d : Delegate σ) (p : Path) : Nat → List (YNode × YNode) → σ → LS → R σ
  | _, [], s, ls => .pure s ls
  | i, (.scalar name, .mapping attrs) :: rest, s, ls =>
    if ls.cmds.contains name then
      (parseCommands d p (i + 1) rest s ls).pre [.error .duplicateCommand (at0 (p ++ [.key i]))]
    else
      (parseCommand d name (p ++ [.key i]) (p ++ [.val i]) attrs s ls).andThen fun s1 ls1 =>
        parseCommands d p (i + 1) rest s1 ls1
  | i, (.scalar _, _) :: rest, s, ls =>
    (parseCommands d p (i + 1) rest s ls).pre [.error (.entryValueType .commands) (at0 (p ++ [.val i]))]
  | i, _ :: rest, s, ls => (parseCommands d p (i + 1) rest s ls).pre [.error (.entryKeyType .commands) (at0 (p ++ [.key i]))]

/-! ### parseRootNode -/

/-- the value-kind check and the section parser of one optional section (entry `i` of the root mapping) -/
def parseSection {σ} (d : Delegate σ) (sec : TopSec) (i : Nat) (v : YNode) (s : σ) (ls : LS) : R σ :=
  match sec, v with
  | .tools, .mapping es => parseTools d [.val i] 0 es s ls
  | .targets, .mapping es => parseTargets d [.val i] 0 es s ls
  | .default, .scalar t => parseDefault d t [.val i] s ls
  | .nodes, .mapping es => parseNodes d [.val i] 0 es s ls
  | .commands, .mapping es => parseCommands d [.val i] 0 es s ls
  | sec, _ => ⟨[.error (.sectionValue sec) (at0 [.val i])], s, ls, false⟩

/-- the chain `if (it != end && nodeIsScalarString(it->getKey(), "tools")) { …; ++it; }  …  if (it != end) error(trailing)`:
`stages` = the sections still to be tried, `i`/`es` = the iterator -/
def sections {σ} (d : Delegate σ) : List TopSec → Nat → List (YNode × YNode) → σ → LS → R σ
  | _, _, [], s, ls => .pure s ls
  | [], i, _ :: _, s, ls => ⟨[.error .trailingSection (at0 [.entry i])], s, ls, false⟩
  | sec :: more, i, (k, v) :: rest, s, ls =>
    if nodeIsScalarString k sec.key then
      (parseSection d sec i v s ls).andThen fun s1 ls1 => sections d more (i + 1) rest s1 ls1
    else sections d more i ((k, v) :: rest) s ls

def parseRoot {σ} (d : Delegate σ) (root : YNode) (s : σ) (ls : LS) : R σ :=
  match root with
  | .mapping [] => ⟨[.error .expectedClient (at0 [])], s, ls, false⟩
  | .mapping ((k, v) :: rest) =>
    if !nodeIsScalarString k kClient then ⟨[.error .expectedClient (at0 [.key 0])], s, ls, false⟩
    else
      match v with
      | .mapping ces => (parseClient d [.val 0] ces s ls).andThen fun s1 ls1 => sections d allSecs 1 rest s1 ls1
      | _ => ⟨[.error .clientNotMap (at0 [.val 0])], s, ls, false⟩
  | _ => ⟨[.error .unexpectedTopLevel (at0 [])], s, ls, false⟩

/-! ### OwnershipAnalysis::establishOwnerships (only its verdict; the two repair passes change no control flow) -/

structure OutPair where
  node : Bytes
  cmd : Bytes
  qualifies : Bool      -- isExternalCommand() && repairViaOwnershipAnalysis
  deriving Repr

def endsWithSlash (b : Bytes) : Bool := b.getLast? == some 47

/-- the predicate of `includedOwnerOf`'s `find_if` -/
def ownerMatches (key path : Bytes) : Bool :=
  if endsWithSlash key then key.isPrefixOf path else (key ++ [47]).isPrefixOf path

def includedOwnerOf (inc : List (Bytes × Bytes)) (path : Bytes) : Option Bytes :=
  (inc.find? fun kc => ownerMatches kc.1 path).map (·.2)

/-- `includedPaths[node] = command` -/
def setOwner : List (Bytes × Bytes) → Bytes → Bytes → List (Bytes × Bytes)
  | [], n, c => [(n, c)]
  | (k, c0) :: rest, n, c => if k == n then (k, c) :: rest else (k, c0) :: setOwner rest n c

/-- the non-virtual outputs of every command, commands in `StringMap` iteration order -/
def outputPairs {σ} (d : Delegate σ) (s : σ) (cmds : List Bytes) : List OutPair :=
  (d.cmdOrder cmds).flatMap fun c =>
    let info := d.cmdInfo s c
    (info.outputs.filter fun n => !d.nodeVirtual s n).map fun n => ⟨n, c, info.external && info.repair⟩

def insertByLen (x : OutPair) : List OutPair → List OutPair
  | [] => [x]
  | y :: ys => if x.node.length < y.node.length then x :: y :: ys else y :: insertByLen x ys

/-- `std::sort` by name length, modelled as a STABLE sort (libstdc++ uses a plain insertion sort up to 16 elements;
beyond that the order of equal-length names is unspecified — the driver flags such inputs) -/
def sortByLen (l : List OutPair) : List OutPair := l.foldl (fun acc x => insertByLen x acc) []

/-- `some (node, [command, owner])` = `cannotLoadDueToMultipleProducers(node, {command, owner})`, load fails -/
def establish : List OutPair → List (Bytes × Bytes) → Option (Bytes × List Bytes)
  | [], _ => none
  | o :: rest, inc =>
    if o.qualifies then
      match includedOwnerOf inc o.node with
      | none => establish rest (setOwner inc o.node o.cmd)
      | some owner => if owner == o.cmd then establish rest inc else some (o.node, [o.cmd, owner])
    else establish rest inc

/-! ### load() -/

structure Desc where
  tools : List Bytes
  targets : List Bytes
  defaultTarget : Bytes
  nodes : List Bytes
  cmds : List Bytes
  deriving DecidableEq, Repr

inductive Result where
  | description (d : Desc)
  | null
  /-- `error(it->getRoot(), …)` on an additional document whose root is a null pointer (`node->getSourceRange()` on
  nullptr); the YAML parser returns a null root only for a document it rejects -/
  | crash
  deriving DecidableEq, Repr

structure Outcome (σ : Type) where
  trace : List Event
  result : Result
  st : σ

def descOf (ls : LS) : Desc := ⟨ls.tools, ls.targets, ls.defaultTarget, ls.nodes, ls.cmds⟩

/-- `input = none`: the file system has no such file; otherwise the documents of the stream -/
def load {σ} (d : Delegate σ) (input : Option (List (Option YNode))) (s : σ) : Outcome σ :=
  match input with
  | none => ⟨[.error .unableToOpen .none], .null, s⟩
  | some [] => ⟨[.setBuffer, .error .missingDocument .none], .null, s⟩       -- `it == stream.end()`: unreachable with this parser
  | some (none :: _) => ⟨[.setBuffer, .error .missingDocument .none], .null, s⟩
  | some (some root :: more) =>
    let r := parseRoot d root s {}
    if !r.ok then ⟨.setBuffer :: r.evs, .null, r.st⟩
    else
      match more with
      | none :: _ => ⟨.setBuffer :: r.evs, .crash, r.st⟩
      | some _ :: _ => ⟨.setBuffer :: (r.evs ++ [.error .additionalDocument (.node 1 [])]), .null, r.st⟩
      | [] =>
        if r.ls.ownership then
          match establish (sortByLen (outputPairs d r.st r.ls.cmds)) [] with
          | some (n, cs) => ⟨.setBuffer :: (r.evs ++ [.multipleProducers n cs]), .null, r.st⟩
          | none => ⟨.setBuffer :: r.evs, .description (descOf r.ls), r.st⟩
        else ⟨.setBuffer :: r.evs, .description (descOf r.ls), r.st⟩

/-! ### vocabulary of the theorems (Props/C19Yaml.lean) -/

mutual
/-- number of nodes of a tree -/
def YNode.size : YNode → Nat
  | .scalar _ => 1
  | .other _ => 1
  | .mapping es => 1 + sizeEntries es
  | .sequence xs => 1 + sizeItems xs
def sizeEntries : List (YNode × YNode) → Nat
  | [] => 0
  | (k, v) :: rest => k.size + v.size + sizeEntries rest
def sizeItems : List YNode → Nat
  | [] => 0
  | x :: rest => x.size + sizeItems rest
end

/-- nodes of all documents of the stream (a null root counts 0) -/
def streamSize : List (Option YNode) → Nat
  | [] => 0
  | none :: rest => streamSize rest
  | some t :: rest => t.size + streamSize rest

/-- the token an event carries: of an error, or of the `ConfigureContext` handed to a callee (every error the callee
reports through that context arrives with this token) -/
def Event.loc : Event → Loc
  | .error _ l => l
  | .configureClient _ _ _ l _ => l
  | .toolAttr _ _ _ l _ => l
  | .nodeAttr _ _ _ l _ => l
  | .cmdInputs _ _ l _ => l
  | .cmdOutputs _ _ l _ => l
  | .cmdDescription _ _ l _ => l
  | .cmdAttr _ _ _ l _ => l
  | _ => .none

/-- the events after which `load()` returns null: an error of a fatal class, a `configureAttribute` that answered
false (the loader returns false without a report of its own), the ownership verdict -/
def Event.fatal : Event → Bool
  | .error m _ => m.fatal
  | .toolAttr _ _ _ _ a => !a.ok
  | .nodeAttr _ _ _ _ a => !a.ok
  | .cmdAttr _ _ _ _ a => !a.ok
  | .multipleProducers _ _ => true
  | _ => false

/-- the events through which a PROBLEM reaches the client: `delegate.error` (directly, or from a callee through its
context) and `cannotLoadDueToMultipleProducers` -/
def Event.reports : Event → Bool
  | .error _ _ => true
  | .multipleProducers _ _ => true
  | .configureClient _ _ _ _ a => !a.errs.isEmpty
  | .toolAttr _ _ _ _ a => !a.errs.isEmpty
  | .nodeAttr _ _ _ _ a => !a.errs.isEmpty
  | .cmdAttr _ _ _ _ a => !a.errs.isEmpty
  | .cmdInputs _ _ _ errs => !errs.isEmpty
  | .cmdOutputs _ _ _ errs => !errs.isEmpty
  | .cmdDescription _ _ _ errs => !errs.isEmpty
  | _ => false

/-- a `configureAttribute` that answered false without reporting anything -/
def Event.silentFailure : Event → Bool
  | .toolAttr _ _ _ _ a => !a.ok && a.errs.isEmpty
  | .nodeAttr _ _ _ _ a => !a.ok && a.errs.isEmpty
  | .cmdAttr _ _ _ _ a => !a.ok && a.errs.isEmpty
  | _ => false

/-- the calls made while the sections after `client` are loaded (everything but the buffer registration, errors and
`configureClient` itself) -/
def Event.sectionLevel : Event → Bool
  | .setBuffer => false
  | .error _ _ => false
  | .configureClient _ _ _ _ _ => false
  | _ => true

/-- the discipline every in-tree `configureAttribute` follows: `return false` only after `ctx.error(...)` -/
def Delegate.Reports {σ} (d : Delegate σ) : Prop :=
  (∀ s t a v, (d.toolAttr s t a v).1.ok = false → (d.toolAttr s t a v).1.errs ≠ []) ∧
  (∀ s t a v, (d.nodeAttr s t a v).1.ok = false → (d.nodeAttr s t a v).1.errs ≠ []) ∧
  (∀ s t a v, (d.cmdAttr s t a v).1.ok = false → (d.cmdAttr s t a v).1.errs ≠ [])

/-- the value kind `parseRootNode` demands of a section -/
def TopSec.valueOk : TopSec → YNode → Bool
  | .default, .scalar _ => true
  | .default, _ => false
  | _, .mapping _ => true
  | _, _ => false

/-- what `parseRootNode` REALLY enforces of the entries after `client`: walking the fixed list
tools, targets, default, nodes, commands once, every entry's key is the scalar name of a not yet passed section and
its value has the section's kind (so: each section at most once, in this order, nothing else) -/
def keysInOrder : List TopSec → List (YNode × YNode) → Bool
  | _, [] => true
  | [], _ :: _ => false
  | sec :: more, (k, v) :: rest =>
    if nodeIsScalarString k sec.key then sec.valueOk v && keysInOrder more rest
    else keysInOrder more ((k, v) :: rest)

/-- index (in the root mapping; `i` = index of the first of `es`) of the first entry whose KEY cannot be consumed -/
def firstBad : List TopSec → Nat → List (YNode × YNode) → Option Nat
  | _, _, [] => none
  | [], i, _ :: _ => some i
  | sec :: more, i, (k, v) :: rest =>
    if nodeIsScalarString k sec.key then firstBad more (i + 1) rest
    else firstBad more i ((k, v) :: rest)

/-- protocol monitor over the event stream (state: what has been seen so far) -/
structure MS where
  client : Bool := false          -- configureClient was called
  clientOk : Bool := false        -- … and answered true
  tools : List Bytes := []        -- lookupTool(name) answered non-null
  made : List Bytes := []         -- createCommand(_, name) answered non-null
  dead : Bool := false            -- a fatal event was seen

def Event.isConfigureClient : Event → Bool
  | .configureClient _ _ _ _ _ => true
  | _ => false

/-- may the event happen in monitor state `m`?
`configureClient` at most once and before everything else of the delegate; every section-level call only after
`configureClient` answered true; `Tool::configureAttribute` / `createCommand` only on a tool that `lookupTool` returned;
`Command::configure*` / `loadedCommand` only on a created command -/
def Event.allowed (m : MS) : Event → Bool
  | .setBuffer => !m.client
  | .error _ _ => true
  | .configureClient _ _ _ _ _ => !m.client
  | .lookupTool _ _ => m.clientOk
  | .toolAttr t _ _ _ _ => m.clientOk && m.tools.contains t
  | .createCommand t _ _ => m.clientOk && m.tools.contains t
  | .createNode _ _ => m.clientOk
  | .nodeAttr _ _ _ _ _ => m.clientOk
  | .cmdInputs c _ _ _ => m.clientOk && m.made.contains c
  | .cmdOutputs c _ _ _ => m.clientOk && m.made.contains c
  | .cmdDescription c _ _ _ => m.clientOk && m.made.contains c
  | .cmdAttr c _ _ _ _ => m.clientOk && m.made.contains c
  | .loadedTarget _ _ => m.clientOk
  | .loadedDefaultTarget _ => m.clientOk
  | .loadedCommand c => m.clientOk && m.made.contains c
  | .multipleProducers _ _ => m.clientOk

def MS.apply (m : MS) (e : Event) : MS where
  client := m.client || e.isConfigureClient
  clientOk := match e with
    | .configureClient _ _ _ _ a => a.ok
    | _ => m.clientOk
  tools := match e with
    | .lookupTool t true => t :: m.tools
    | _ => m.tools
  made := match e with
    | .createCommand _ c true => c :: m.made
    | _ => m.made
  dead := m.dead || e.fatal

/-- `none` = the event violates the protocol in state `m`: nothing at all after a fatal event; otherwise `Event.allowed` -/
def MS.step (m : MS) (e : Event) : Option MS :=
  if m.dead then none else if e.allowed m then some (m.apply e) else none

def MS.run : MS → List Event → Option MS
  | m, [] => some m
  | m, e :: l => match m.step e with
    | some m' => m'.run l
    | none => none

/-- the tree with every collection at depth `n` emptied (`cut 0` empties the root) -/
def cut : Nat → YNode → YNode
  | _, .scalar v => .scalar v
  | _, .other k => .other k
  | 0, .mapping _ => .mapping []
  | 0, .sequence _ => .sequence []
  | n + 1, .mapping es => .mapping (es.map fun kv => (cut n kv.1, cut n kv.2))
  | n + 1, .sequence xs => .sequence (xs.map (cut n))

end LLBuild.BuildFileLoader
