/-
Abstract build engine (`Abs`): a label-deterministic transition system over the events that a
client of `core::BuildEngine` can observe (delegate, rule, task and database callbacks).  A trace
of the real engine is replayed through `step`; every event carries the data the real engine
produced, `step` checks that the engine was *allowed* to do that in the current abstract state
(enabledness) and that every value it produced is the one the model computes, and returns the
next state.  Anchors: lib/Core/BuildEngine.cpp (scanRule, demandRule, processRuleScanRequest,
executeTasks, cancelRemainingTasks, taskIsComplete, build).  CORE LEAN ONLY.
-/
namespace LLBuild.Engine

abbrev Key := Nat
abbrev Val := Nat          -- 0 is the empty byte string; otherwise an 8-byte little-endian number
abbrev Env := Nat → Nat    -- external state: slot ↦ value

/-- request kinds: 0 = `request`, 1 = `requestSingleUse`, 2 = `mustFollow` -/
structure Req where
  key : Key
  id : Nat
  kind : Nat
  deriving DecidableEq, Repr, Inhabited

structure Dep where
  key : Key
  orderOnly : Bool
  singleUse : Bool
  deriving DecidableEq, Repr, Inhabited

/-- `core::Result` (value, signature, epochs, dependencies); the default is "never built". -/
structure Res where
  value : Val := 0
  sig : Nat := 0
  computedAt : Nat := 0
  builtAt : Nat := 0
  deps : List Dep := []
  deriving DecidableEq, Repr, Inhabited

/-- values received so far: id ↦ value (single-use values masked to 0), sorted by id -/
abbrev Recv := List (Nat × Val)

def insertRecv (id : Nat) (v : Val) : Recv → Recv
  | [] => [(id, v)]
  | (i, w) :: rest =>
    if id < i then (id, v) :: (i, w) :: rest
    else if id = i then (id, v) :: rest
    else (i, w) :: insertRecv id v rest

/-- The client: rules and their (deterministic) tasks. -/
structure Program where
  sig : Env → Key → Nat
  valid : Env → Key → Val → Bool
  /-- all requests the task issues once it has received `recv` (cumulative) -/
  next : Key → Recv → List Req
  /-- discovered dependencies reported from `inputsAvailable` -/
  disc : Key → Recv → List Key
  out : Key → Env → Recv → Val
  force : Key → Bool
  /-- the rule reads the external state at its own key (an "input" rule) -/
  self : Key → Bool

def Req.toDep (q : Req) : Dep := ⟨q.key, q.kind == 2, q.kind == 1⟩
def maskVal (q : Req) (v : Val) : Val := if q.kind == 1 then 0 else v

/-- delivery sequences are kept most-recent-first -/
abbrev Seq := List (Req × Val)

/-- `recv` after a delivery sequence -/
def recvOf : Seq → Recv
  | [] => []
  | (q, v) :: rest => insertRecv q.id (maskVal q v) (recvOf rest)

def delivered (seq : Seq) (q : Req) : Bool := seq.any (fun qv => qv.1 == q)

/-- the requests a task has issued after the deliveries `seq`: each time the cumulative list
grows, the requests not issued before are issued in list order -/
def issuedAfter (P : Program) (k : Key) : Seq → List Req
  | [] => (P.next k []).eraseDups
  | (q, v) :: rest =>
    issuedAfter P k rest ++
      ((P.next k (recvOf ((q, v) :: rest))).filter (fun r => !(issuedAfter P k rest).contains r)).eraseDups

/-- a delivery sequence a task of `k` can go through: every delivered request carries a value,
was issued before, and is delivered once -/
def validSeq (P : Program) (k : Key) : Seq → Bool
  | [] => true
  | (q, _) :: rest =>
    validSeq P k rest && (issuedAfter P k rest).contains q && q.kind != 2 && !delivered rest q

/-- nothing the task asked a value for is outstanding -/
def completeSeq (P : Program) (k : Key) (seq : Seq) : Bool :=
  (issuedAfter P k seq).all (fun q => q.kind == 2 || delivered seq q)

inductive Status | idle | scanning | needsRun | running | computing | done
  deriving DecidableEq, Repr, Inhabited

structure Task where
  started : Bool := false
  priorSeen : Bool := false
  issued : List Req := []
  /-- delivery sequence, most recent first (ghost: real values) -/
  seq : Seq := []
  discs : List Key := []
  completed : Bool := false
  deriving Inhabited

inductive Event
  | buildStart (k : Key)
  | queueCreated
  | lookup (k : Key)
  | dbGet (k : Key) (found : Bool)
  | scanning (k : Key)
  | upToDate (k : Key)
  | valid (k : Key) (v : Val) (b : Bool)
  | needs (k : Key) (reason : Nat) (input : Option Key)
  | create (k : Key)
  | start (k : Key) (reqs : List Req)
  | prior (k : Key) (v : Val)
  | provide (k : Key) (id : Nat) (key : Key) (v : Val) (reqs : List Req)
  | inputsAvail (k : Key) (discs : List Key)
  | complete (k : Key) (v : Val) (force : Bool)
  /-- `updateStatus(IsComplete)` immediately followed by `setRuleResult` with this row -/
  | finished (k : Key) (row : Res)
  | dbIter (e : Nat)
  | dbBegin
  | dbEnd
  | cycle (ks : List Key)
  | error (code : Nat)
  | cancel
  | ret (v : Val)
  | tail (live late : Nat)
  | mutate (slot val : Nat)
  | restart
  | wipe
  /-- the process dies in the middle of a build: the database rolls back to the last commit -/
  | crash
  deriving Repr, Inhabited

/-- a store: results plus the ghost record of the execution that produced each of them -/
structure Store where
  res : Key → Res := fun _ => {}
  /-- ghost: delivery sequence of the execution that produced `res k` -/
  seq : Key → Seq := fun _ => []
  /-- ghost: the discovered dependencies of that execution with the value their rule had to produce -/
  disc : Key → List (Key × Val) := fun _ => []
  /-- ghost: the external state during that execution -/
  env : Key → Env := fun _ => fun _ => 0

structure St where
  env : Env := fun _ => 0
  epoch : Nat := 0
  mem : Store := {}
  db : Store := {}
  dbIter : Nat := 0
  /-- the last committed database state (`buildComplete` commits the build's transaction) -/
  cdb : Store := {}
  cdbIter : Nat := 0
  status : Key → Status := fun _ => .idle
  validSeen : Key → Option Bool := fun _ => none
  task : Key → Task := fun _ => {}
  registered : Key → Bool := fun _ => false
  sigAt : Key → Nat := fun _ => 0
  /-- discovered dependencies of tasks finished in this build that are not yet up to date,
  with the value their (input) rule must produce in the current external state -/
  pending : List (Key × Val) := []
  target : Option Key := none
  /-- the engine got past the early cancellation check of `build()` and incremented its epoch -/
  started : Bool := false
  cancelled : Bool := false
  cycleSeen : Bool := false
  errSeen : Bool := false
  returned : Bool := false
  /-- keys whose task was created in the current build (C02: at most once) -/
  ran : List Key := []
  /-- keys whose scan started in the current build -/
  scanned : List Key := []
  /-- ghost: some failed build ended while discovered dependencies were still pending -/
  pendingDropped : Bool := false

def upd {α : Type} (f : Key → α) (k : Key) (x : α) : Key → α := fun k' => if k' = k then x else f k'

@[simp] theorem upd_same {α : Type} (f : Key → α) (k : Key) (x : α) : upd f k x k = x := by simp [upd]
theorem upd_other {α : Type} (f : Key → α) (k k' : Key) (x : α) (h : k' ≠ k) : upd f k x k' = f k' := by
  simp [upd, h]

def Store.setRes (σ : Store) (k : Key) (r : Res) : Store := { σ with res := upd σ.res k r }

def isDone (s : St) (k : Key) : Bool := s.status k == .done

/-- the scan test of `processRuleScanRequest` for one recorded dependency -/
def depFresh (s : St) (r : Res) (d : Dep) : Bool :=
  isDone s d.key && (d.orderOnly || !(r.builtAt < (s.mem.res d.key).computedAt))

def isPerm {α : Type} [DecidableEq α] : List α → List α → Bool
  | [], l => l.isEmpty
  | x :: xs, l => l.contains x && isPerm xs (l.erase x)

/-- first recorded dependency that is not done (where an in-order scan is parked) -/
def firstNotDone (s : St) : List Dep → Option Key
  | [] => none
  | d :: ds => if isDone s d.key then firstNotDone s ds else some d.key

/-- wait-for relation used to validate reported cycles -/
def waitsFor (s : St) (a b : Key) : Bool :=
  match s.status a with
  | .running =>
    (s.task a).issued.any fun q => q.key == b && !delivered (s.task a).seq q && !(q.kind == 2 && isDone s b)
  | .scanning => firstNotDone s (s.mem.res a).deps == some b
  | _ => false

def lassoOk (s : St) (root : Key) (ks : List Key) : Bool :=
  match ks with
  | [] => false
  | h :: _ =>
    h == root &&
    (ks.zip ks.tail).all (fun ab => waitsFor s ab.1 ab.2) &&
    (match ks.getLast? with
     | some l => ks.dropLast.contains l
     | none => false)

/-- keys in flight: their in-memory result does not describe a completed execution -/
def inflight (s : St) (k : Key) : Bool := s.status k == .running || s.status k == .computing

def discDeps (ds : List Key) : List Dep := ds.map (fun d => ⟨d, false, false⟩)

/-- the prior value is offered exactly when a result with the current signature exists -/
def priorDue (s : St) (k : Key) : Bool :=
  (s.mem.res k).builtAt != 0 && (s.mem.res k).sig == s.sigAt k

/-- `determinedRuleNeedsToRun(reason, input)`: is the reported reason true of the abstract state?
0 never built, 1 signature changed, 2 invalid value, 3 input rebuilt (4 = forced: the delegate never opts in) -/
def needsOk (s : St) (k : Key) (reason : Nat) (input : Option Key) : Bool :=
  let r := s.mem.res k
  match reason, input with
  | 0, none => r.builtAt == 0
  | 1, none => r.builtAt != 0 && r.sig != s.sigAt k
  | 2, none => s.validSeen k == some false
  | 3, some d =>
    s.validSeen k == some true && r.deps.any (fun dp => dp.key == d && !dp.orderOnly) &&
      isDone s d && r.builtAt < (s.mem.res d).computedAt
  | _, _ => false

/-- why the engine may start scanning `k` (`demandRule`): it is the requested key, a discovered
dependency still to be brought up to date, a recorded dependency of a rule that is being scanned, or
an issued request of a task that is collecting its inputs -/
def demanded (s : St) (k : Key) : Bool :=
  s.target == some k
  || s.pending.any (fun p => p.1 == k)
  || s.scanned.any (fun a => s.status a == .scanning && (s.mem.res a).deps.any (fun d => d.key == k))
  || s.ran.any (fun a => s.status a == .running && (s.task a).issued.any (fun q => q.key == k))

/-- One observable event.  `none` = the real engine did something the model does not allow. -/
def step (P : Program) (s : St) : Event → Option St
  | .buildStart k =>
    if s.target.isNone then
      some { s with status := fun _ => .idle, validSeen := fun _ => none, task := fun _ => {}, pending := [],
                    target := some k, started := false, cancelled := false, cycleSeen := false,
                    errSeen := false, returned := false, ran := [], scanned := [] }
    else none
  | .queueCreated =>
    -- build(): the execution queue is created (unless already cancelled), then `++currentEpoch`
    if s.target.isSome && !s.started then some { s with epoch := s.epoch + 1, started := true } else none
  | .lookup k =>
    if !s.registered k then
      some { s with registered := upd s.registered k true, sigAt := upd s.sigAt k (P.sig s.env k) }
    else none
  | .dbGet k found =>
    if s.registered k && found == ((s.mem.res k).builtAt != 0) then some s else none
  | .dbBegin => some s
  | .dbEnd =>
    -- buildComplete(): the transaction of this build is committed (after setCurrentIteration)
    if !s.started || s.dbIter == s.epoch then
      some { s with cdb := s.db, cdbIter := s.dbIter, pendingDropped := s.pendingDropped || !s.pending.isEmpty }
    else none
  | .scanning k =>
    -- scanRule: the rule starts being scanned; single-use dependencies are dropped first
    if s.started && s.status k == .idle && s.registered k && demanded s k then
      let r := s.mem.res k
      some { s with status := upd s.status k .scanning, scanned := k :: s.scanned,
                    mem := s.mem.setRes k { r with deps := r.deps.filter (fun d => !d.singleUse) } }
    else none
  | .valid k v b =>
    let r := s.mem.res k
    if s.status k == .scanning && r.builtAt != 0 && r.sig == s.sigAt k && v == r.value
        && b == P.valid s.env k v && (s.validSeen k).isNone then
      some { s with validSeen := upd s.validSeen k (some b) }
    else none
  | .needs k reason input =>
    if s.status k == .scanning && needsOk s k reason input then
      some { s with status := upd s.status k .needsRun }
    else none
  | .upToDate k =>
    -- demandRule on DoesNotNeedToRun: every recorded dependency is complete and none is newer
    let r := s.mem.res k
    if s.status k == .scanning && s.validSeen k == some true && r.deps.all (depFresh s r) then
      some { s with status := upd s.status k .done, mem := s.mem.setRes k { r with builtAt := s.epoch },
                    pending := s.pending.filter (fun p => p.1 != k) }
    else none
  | .create k =>
    if s.status k == .needsRun && !s.ran.contains k then
      let r := s.mem.res k
      some { s with status := upd s.status k .running, task := upd s.task k {},
                    mem := s.mem.setRes k { r with deps := [] }, ran := k :: s.ran }
    else none
  | .start k reqs =>
    let t := s.task k
    if s.status k == .running && !t.started && reqs == issuedAfter P k [] then
      some { s with task := upd s.task k { started := true, issued := reqs } }
    else none
  | .prior k v =>
    let t := s.task k
    if s.status k == .running && t.started && !t.priorSeen && t.seq.isEmpty && priorDue s k
        && v == (s.mem.res k).value then
      some { s with task := upd s.task k { t with priorSeen := true } }
    else none
  | .provide k id key v reqs =>
    let t := s.task k
    if s.status k == .running && t.started && t.priorSeen == priorDue s k then
      -- an issued, not yet delivered, value-carrying request for (key, id)
      match t.issued.find? (fun q => q.key == key && q.id == id && q.kind != 2 && !delivered t.seq q) with
      | none => none
      | some q =>
        let seq' := (q, v) :: t.seq
        -- the key is complete in this build, the value is its value, and the task then issues
        -- exactly the requests of the cumulative list it has not issued before
        if isDone s key && v == (s.mem.res key).value && t.issued ++ reqs == issuedAfter P k seq' then
          some { s with task := upd s.task k { t with issued := t.issued ++ reqs, seq := seq' } }
        else none
    else none
  | .inputsAvail k discs =>
    let t := s.task k
    if s.status k == .running && t.started && t.priorSeen == priorDue s k
        -- every request delivered; every must-follow key complete
        && t.issued.all (fun q => if q.kind == 2 then isDone s q.key else delivered t.seq q)
        && discs == P.disc k (recvOf t.seq) then
      some { s with status := upd s.status k .computing, task := upd s.task k { t with discs := discs } }
    else none
  | .complete k v force =>
    let t := s.task k
    let r := s.mem.res k
    if s.status k == .computing && t.started && !t.completed && v == P.out k s.env (recvOf t.seq) && force == P.force k then
      -- taskIsComplete: signature always, value and computedAt only when changed or forced
      let r' : Res := if !force && v == r.value then { r with sig := s.sigAt k }
                      else { r with sig := s.sigAt k, value := v, computedAt := s.epoch }
      some { s with task := upd s.task k { t with completed := true }, mem := s.mem.setRes k r' }
    else none
  | .finished k row =>
    -- the finished task is processed: the rule is complete, its dependencies are the requests (in
    -- the order the engine recorded them) followed by the discovered ones; the row is persisted
    let t := s.task k
    let r := s.mem.res k
    let nreq := t.issued.length
    if s.status k == .computing && t.started && t.completed
        && row.value == r.value && row.sig == r.sig && row.builtAt == s.epoch && row.computedAt == r.computedAt
        && row.deps.length == nreq + t.discs.length
        && isPerm (row.deps.take nreq) (t.issued.map Req.toDep)
        && row.deps.drop nreq == discDeps t.discs then
      let r' : Res := { r with builtAt := s.epoch, deps := row.deps }
      let gd := t.discs.map (fun d => (d, P.out d s.env []))
      let put (σ : Store) : Store :=
        { res := upd σ.res k r', seq := upd σ.seq k t.seq, disc := upd σ.disc k gd, env := upd σ.env k s.env }
      some { s with status := upd s.status k .done, mem := put s.mem, db := put s.db,
                    pending := (s.pending.filter (fun p => p.1 != k)) ++ gd.filter (fun p => !(isDone s p.1) && p.1 != k) }
    else none
  | .dbIter e =>
    if s.started && e == s.epoch then some { s with dbIter := e } else none
  | .cycle ks =>
    match s.target with
    | some root =>
      -- (as coded: when the requested key is complete and only rules reached through discovered
      -- dependencies wait on each other, the search from the requested key finds nothing and the
      -- engine reports an EMPTY list; known finding F30)
      if lassoOk s root ks || (ks.isEmpty && isDone s root) then some { s with cycleSeen := true } else none
    | none => none
  | .error _ => some { s with errSeen := true }
  | .cancel => some { s with cancelled := true }
  | .ret v =>
    match s.target with
    | none => none
    | some root =>
      if s.returned then none else
      -- the work loop ran dry: the target is complete, nothing is in flight, nothing is pending
      let dry := isDone s root && v == (s.mem.res root).value && s.pending.isEmpty && s.ran.all (fun k => !inflight s k)
      if !s.cycleSeen && !s.errSeen && dry && (!s.cancelled || v != 0) then
        some { s with returned := true }
      else if (s.cancelled || s.cycleSeen || s.errSeen) && v == 0 then
        -- failure: cancelRemainingTasks marks every rule with a started task never-built (in memory only)
        some { s with returned := true,
                      mem := { s.mem with res := fun k => if inflight s k then { s.mem.res k with builtAt := 0 } else s.mem.res k },
                      pendingDropped := s.pendingDropped || !s.pending.isEmpty,
                      pending := [] }
      else none
  | .tail live late =>
    if s.returned && live == 0 && late == 0 && (!s.started || s.dbIter == s.epoch) && s.pending.isEmpty then
      -- (no rule is in flight any more: after a success none was, after a failure they were reset)
      some { s with target := none, started := false, status := fun _ => .idle,
                    mem := { s.mem with res := fun k => if inflight s k then { s.mem.res k with builtAt := 0 } else s.mem.res k } }
    else none
  | .mutate slot val =>
    if s.target.isNone then some { s with env := upd s.env slot val } else none
  | .restart =>
    if s.target.isNone then
      some { s with mem := s.db, epoch := s.dbIter, registered := fun _ => false, status := fun _ => .idle }
    else none
  | .wipe =>
    if s.target.isNone then some ({} : St) else none
  | .crash =>
    -- killed mid-build: memory is lost, the database is what the last commit left; a new process starts
    if s.target.isSome then
      some { s with mem := s.cdb, db := s.cdb, epoch := s.cdbIter, dbIter := s.cdbIter,
                    status := fun _ => .idle, validSeen := fun _ => none, task := fun _ => {},
                    registered := fun _ => false, pending := [], target := none, started := false }
    else none

def run (P : Program) : St → List Event → Option St
  | s, [] => some s
  | s, e :: es => (step P s e).bind (fun s' => run P s' es)

end LLBuild.Engine
