/-
A whole-build model of `llbuild ninja build`: files + a logical clock + the build database, a manifest of
deterministic commands, and `buildOnce`, which brings the requested targets up to date by taking, for every
command in dependency order, the decisions of the EXISTING per-command model (`Model/NinjaBuild.lean`:
`commandIsResultValid`, `dependencyList`/`triggersRerun`, `accumulate`, `inputsAvailable`, `afterExecute`,
`inputValue`/`inputIsResultValid`, `selectValue`/`selectIsResultValid`).

What of the engine/client composition is ABSTRACTED here (each point is observable through the driver mode
`c18world`, which vlib/props/c18.py compares with the real tool on every generated history):

 (A1) order: the engine demands rules recursively from the targets and runs ready tasks in a scheduling-dependent
      order; here the commands are processed once, in the manifest's (topological) order, restricted to the commands
      the targets reach through declared edges of any kind (`demanded`).  Sound when decisions do not depend on the
      order in which independent commands complete (stamps of independent files are never compared).
 (A2) epochs: a rule result carries `builtAt` (epoch of the last task run) and `computedAt` (epoch of the last value
      change or forced change), exactly as `core::Result`; a rule whose stored result is valid re-runs its task iff a
      NON-order-only entry of its stored dependency list has `computedAt` greater than the rule's `builtAt`
      (`BuildEngine.cpp`, `processRuleScanRequest`).  The in-memory `builtAt = currentEpoch` mark that `setComplete`
      puts on a rule that did not need to run is not persisted and is not modelled (one process per build).
 (A3) the stored dependency list of a command (`World.depDb`) is what the engine records when the task completes:
      the requests of `start()` and, after a successful execution of a command with a deps style, the depfile entries
      (`dependencyList`); it is the STORED list that the next scan walks, also when the statement's inputs have been edited
      since (graph edits, `GStep`).  The depfile entries of a command are a fixed list (`Command.deps`; FRAGMENT BOUNDARY:
      entries that depend on the contents read are not modelled).  The stream `c18deps` compares the stored list with
      `dependencyList` on every build.
 (A4) input rules of source files: every demanded source file - and every source file in a stored dependency list of a
      needed command - is re-validated at the beginning of the build instead of at the moment its first consumer scans
      it (same epoch, so no comparison can tell the difference).
 (A5) `FileInfo`: device / inode / mode / size are constants, the modification time is the logical stamp (any write
      with a fresh stamp changes the info; a write that re-uses a stamp does not - the documented non-monotone case).
 (A6) keep-going: a failing command does not cancel the build (`-k 0`); with `-k 1` the set of commands that had
      already started when the build was cancelled depends on scheduling and is outside the model.
 (A7) a command that fails writes nothing; a command that succeeds writes every output (restat-style commands leave
      an output whose content would not change untouched, keeping its stamp).
 (A8) select rules (one per output of a multi-output command, `SelectResultTask`) are not stored as rules of their
      own: the result of the composite rule carries, per output, the epoch at which the value handed to the consumers of
      that output last changed (`outChanged`), recomputed whenever the composite task completes - which is when the real
      select rule re-runs (its only dependency changed) and compares its new value with its stored one.
 (A9) the command lines (command hashes) live in `World.cmdline`; along a history of `Step`s the dependency graph
      (`Manifest`) is constant.  Graph edits (`GStep`, Props/C18World.lean) replace the list of build statements
      between two builds: the world - files and database rows, keyed by command name = the rule key `o1&&o2` - stays.
(A10) graph edits: a path keeps its role (source file / generated) along a history, and all statements are needed (default
      targets), so that the keys the engine demands while walking a STORED dependency list are demanded anyway.
(A11) rule signatures (F56): the result of a command rule stores the signature of the rule that produced it (`sigOf`: the
      statement's input lists by class, iff `Command.sigInputs`, whose default is EXTRACTED from `NinjaBuildCommandRule`).
      The scan compares it before anything else ("signature changed": the task runs and is handed NO prior value), but the
      row is not dropped: `taskIsComplete` compares the new value with the stored one (restat pruning survives) and
      consumers keep seeing the stored value until the task has completed.

CORE LEAN ONLY.
-/
import LLBuild.Model.NinjaBuild

namespace LLBuild.NinjaWorld
open LLBuild.NinjaBuild LLBuild.NinjaBuild.Gen

abbrev Path := Nat
/-- abstract file contents (any type with decidable equality would do; the command semantics is a parameter) -/
abbrev Content := List Nat

structure File where
  content : Content
  stamp : Nat
  deriving DecidableEq, Repr

/-- (A11) does the rule of a build statement carry the signature of its input lists?  As extracted from
`NinjaBuildCommandRule` (Generated/NinjaBuildTables.lean, `ruleSignatureFields`): `true` for the repaired code (F56: the
constructor passes `inputsSignature(command)` = number of explicit inputs, number of implicit inputs, the canonical path
of every input in order), `false` for the code as found (`core::Rule(key)`: the empty signature) -/
def sigDefault : Bool := ruleSignatureFields == [.numExplicit, .numImplicit, .inputPaths]

/-- one build statement -/
structure Command where
  name : Nat
  outs : List Path
  exp : List Path := []
  imp : List Path := []
  oo : List Path := []
  /-- the entries of the depfile the command writes (it reads these files too); recorded iff `hasDeps` -/
  deps : List Path := []
  phony : Bool := false
  restat : Bool := false
  generator : Bool := false
  hasDeps : Bool := false
  /-- configuration (A11): the rule of this statement carries the inputs signature.  The default is what the extractor
  finds in the code; `false` = the engine as found (F56), used by the witness `C18_graph_input_edit_ignored_asFound` -/
  sigInputs : Bool := sigDefault
  deriving DecidableEq, Repr

/-- `core::Rule::signature` of a command rule (`basic::CommandSignature` is treated as injective) -/
structure Sig where
  nexp : Nat := 0
  nimp : Nat := 0
  paths : List Path := []
  deriving DecidableEq, Repr

/-- `NinjaBuildCommandRule::inputsSignature` -/
def sigOf (c : Command) : Sig :=
  if c.sigInputs then ⟨c.exp.length, c.imp.length, c.exp ++ c.imp ++ c.oo⟩ else {}

/-- commands in a topological order + the (deterministic) meaning of executing one: the content written to output
`o` by a command with effective hash `h` that read the contents `r` (`none` = the file was absent) -/
structure Manifest where
  cmds : List Command
  sem : Nat → Path → List (Option Content) → Content

/-- what the decision functions of `Model/NinjaBuild.lean` read of a command -/
def Command.cmd (c : Command) (hash : Nat) : Cmd :=
  { hash := hash, generator := c.generator, restat := c.restat, phony := c.phony, hasDeps := c.hasDeps,
    hasInputs := !(c.exp ++ c.imp ++ c.oo).isEmpty }

/-- `core::Result` (value, epoch of the last task run, epoch of the last change) -/
structure Result where
  value : BuildValue
  builtAt : Nat
  computedAt : Nat
  deriving DecidableEq, Repr

/-- the stored result of a command rule; `outChanged[i]` = `computedAt` of the select rule of output `i` (A8) -/
structure CmdResult where
  value : BuildValue
  builtAt : Nat
  computedAt : Nat
  outChanged : List Nat
  /-- `core::Result::signature`: the signature of the rule whose task last completed under this key -/
  sig : Sig := {}
  deriving DecidableEq, Repr

def CmdResult.toResult (r : CmdResult) : Result := ⟨r.value, r.builtAt, r.computedAt⟩

structure World where
  files : Path → Option File
  /-- the last stamp handed out -/
  clock : Nat
  /-- commands (by name) that exit non-zero when executed -/
  failing : Nat → Bool
  /-- (A9) the current command line (hash) of every command, by command name -/
  cmdline : Nat → Nat
  /-- build database: input rules by path, command rules by command name (the rule of a single-output command is
  keyed by its output, the composite rule of a multi-output command by `o1&&o2`; select rules: (A8)) -/
  srcDb : Path → Option Result
  cmdDb : Nat → Option CmdResult
  /-- the engine's build epoch -/
  epoch : Nat
  /-- (A3) the dependency list stored with the result of a command rule, by command name -/
  depDb : Nat → List (DepEntry Path) := fun _ => []

def World.empty : World :=
  { files := fun _ => none, clock := 0, failing := fun _ => false, cmdline := fun _ => 0, srcDb := fun _ => none,
    cmdDb := fun _ => none, epoch := 0 }

def upd {β : Type} (f : Nat → β) (k : Nat) (v : β) : Nat → β := fun x => if x = k then v else f x

/-- (A5) -/
def infoOf : Option File → FInfo
  | none => FInfo.missing
  | some f => ⟨1, 1, 1, 1, ⟨f.stamp, 0⟩⟩

def World.info (w : World) (p : Path) : FInfo := infoOf (w.files p)
def World.content (w : World) (p : Path) : Option Content := (w.files p).map (·.content)

/-- the command that produces `p` -/
def producer (cs : List Command) (p : Path) : Option Command := cs.find? (fun q => q.outs.contains p)

/-- the result a consumer of key `p` is handed: an input rule, the rule of a single-output command, or the select
rule of one output of a multi-output command -/
def outView (r : CmdResult) (nouts i : Nat) : Option Result :=
  if nouts == 1 then some r.toResult
  else match selectValue r.value i with
    | some vf => some ⟨vf.1, r.builtAt, r.outChanged.getD i r.computedAt⟩
    | none => none

def resOf (cs : List Command) (w : World) (p : Path) : Option Result :=
  match producer cs p with
  | none => w.srcDb p
  | some q => (w.cmdDb q.name).bind fun r => outView r q.outs.length (q.outs.idxOf p)

/-- `taskIsComplete`: an unforced completion with the stored value leaves `computedAt` alone -/
def completeWith (E : Nat) (prior : Option Result) (v : BuildValue) (force : Bool) : Result :=
  match prior with
  | some r => if !force && v == r.value then { r with builtAt := E } else ⟨v, E, E⟩
  | none => ⟨v, E, E⟩

/-- (A8) the `computedAt` of the select rule of output `i` after the composite task completed with `v` -/
def selChanged (E : Nat) (prior : Option CmdResult) (v : BuildValue) (i : Nat) : Nat :=
  match prior with
  | none => E
  | some r =>
    match selectValue v i, selectValue r.value i with
    | some vf, some old => if !vf.2 && vf.1 == old.1 then r.outChanged.getD i r.computedAt else E
    | _, _ => E

/-- completion of a command rule with `nouts` outputs (`taskIsComplete`: the result takes the rule's signature; the value
is compared with the STORED one whatever the stored signature was) -/
def completeCmd (E : Nat) (prior : Option CmdResult) (v : BuildValue) (force : Bool) (nouts : Nat) (sig : Sig := {}) : CmdResult :=
  let b := completeWith E (prior.map (·.toResult)) v force
  ⟨b.value, b.builtAt, b.computedAt, (List.range nouts).map (selChanged E prior v), sig⟩

/-- the scan's test on one stored dependency (a dependency that was never built is built now: changed) -/
def rebuiltSince (b : Nat) : Option Result → Bool
  | some r => b < r.computedAt
  | none => true

/-! ### what a command reads -/

/-- the files an input name stands for; `before` = the earlier commands, latest first.  A phony alias stands for
its explicit and implicit inputs (the test commands are handed exactly these files) -/
def resolve : List Command → Path → List Path
  | [], p => [p]
  | q :: rest, p =>
    if q.outs.contains p then (if q.phony then (q.exp ++ q.imp).flatMap (resolve rest) else [p])
    else resolve rest p

def readsOf (before : List Command) (c : Command) : List Path :=
  (c.exp ++ c.imp).flatMap (resolve before) ++ c.deps

/-- a concrete command semantics (used by the driver mode `c18world` and by the examples): a self-delimiting, hence
injective, encoding of (hash, output, contents read) - the model's counterpart of `cksum(name, salt, contents)` in the
test commands of vlib/props/c18.py.  The theorems hold for every `Manifest.sem`. -/
def encSem (h : Nat) (o : Path) (rs : List (Option Content)) : Content :=
  [1, h, o, rs.length] ++ rs.flatMap fun
    | none => [0]
    | some c => (c.length + 1) :: c

/-- a generator command's output does not depend on its command line (Ninja's meaning of `generator`) -/
def Command.effHash (c : Command) (hash : Nat) : Nat := if c.generator then 0 else hash

/-- the content a successful execution of `c` writes to `o` in world `w` -/
def outContent (m : Manifest) (before : List Command) (c : Command) (w : World) (o : Path) : Content :=
  m.sem (c.effHash (w.cmdline c.name)) o ((readsOf before c).map w.content)

/-- (A7) write one output: fresh stamp, unless restat-style and the content would not change -/
def writeOut (restat : Bool) (x : Content) (o : Path) (fc : (Path → Option File) × Nat) : (Path → Option File) × Nat :=
  match fc.1 o with
  | some f => if restat && f.content == x then fc else (upd fc.1 o (some ⟨x, fc.2 + 1⟩), fc.2 + 1)
  | none => (upd fc.1 o (some ⟨x, fc.2 + 1⟩), fc.2 + 1)

def writeOuts (restat : Bool) : List (Path × Content) → (Path → Option File) × Nat → (Path → Option File) × Nat
  | [], fc => fc
  | (o, x) :: rest, fc => writeOuts restat rest (writeOut restat x o fc)

/-! ### one build -/

/-- what happened to a command whose task ran -/
inductive Did | executed | failed | skipped | updated | phony
  deriving DecidableEq, Repr

/-- (A1) the keys the targets reach: one pass over the manifest from the last command to the first -/
def demandedFrom : List Command → List Path → List Path
  | [], d => d
  | c :: rest, d =>      -- `c :: rest` is the manifest REVERSED
    if c.outs.any d.contains then demandedFrom rest (d ++ c.exp ++ c.imp ++ c.oo ++ (if c.hasDeps then c.deps else []))
    else demandedFrom rest d

def demanded (m : Manifest) (targets : List Path) : List Path := demandedFrom m.cmds.reverse targets

def Command.neededIn (c : Command) (d : List Path) : Bool := c.outs.any d.contains

/-- (A4) `NinjaInputRule`: `buildInputIsResultValid`, `NinjaInputTask::inputsAvailable` -/
def refreshSrc (E : Nat) (p : Path) (w : World) : World :=
  let now := w.info p
  match w.srcDb p with
  | some r => if inputIsResultValid r.value now then w
              else { w with srcDb := upd w.srcDb p (some (completeWith E (some r) (inputValue now) false)) }
  | none => { w with srcDb := upd w.srcDb p (some (completeWith E none (inputValue now) false)) }

def refreshSrcs (cs : List Command) (E : Nat) : List Path → World → World
  | [], w => w
  | p :: ps, w => refreshSrcs cs E ps (if (producer cs p).isNone then refreshSrc E p w else w)

/-- the value handed to a consumer of key `p` (every requested key has been brought up to date before; the default
can only be reached on a manifest that is not well formed) -/
def valueOf (cs : List Command) (w : World) (p : Path) : BuildValue :=
  match resOf cs w p with
  | some r => r.value
  | none => .missingInput

/-- (A3) the dependency list recorded by a successful execution of `c` -/
def storedDeps (c : Command) : List (DepEntry Path) :=
  dependencyList (c.cmd 0) ⟨c.exp, c.imp, c.oo⟩ (if c.hasDeps then c.deps.map some else []) (fun _ => false)

/-- (A3) the dependency list recorded by a task of `c` that completed without a successful execution (the requests only) -/
def requestedDeps (c : Command) : List (DepEntry Path) := requestDeps (⟨c.exp, c.imp, c.oo⟩ : Inputs Path)

/-- the stored result of `c`'s rule as far as it was stored under the rule's current signature: what the engine hands to
the task as the prior value (`ruleInfo.result.builtAt != 0 && rule->signature == result.signature`) -/
def priorRow (w : World) (c : Command) : Option CmdResult := (w.cmdDb c.name).filter (fun r => r.sig == sigOf c)

/-- (A2) the engine's scan of a command rule: does its task run?  Never built; signature changed; value invalid; a stored
dependency changed - in this order -/
def needsTask (cs : List Command) (w : World) (c : Command) : Bool :=
  match w.cmdDb c.name with
  | none => true
  | some r =>
    r.sig != sigOf c ||
    commandIsResultValid (c.cmd (w.cmdline c.name)) r.value (c.outs.map w.info) != .valid ||
    triggersRerun (w.depDb c.name) (fun k => rebuiltSince r.builtAt (resOf cs w k))

/-- the task of a command rule: `start` / `provideValue` / `inputsAvailable` / `executeCommand` -/
def runTask (m : Manifest) (before : List Command) (E : Nat) (c : Command) (w : World) : World × Did :=
  let row := w.cmdDb c.name
  let prior := priorRow w c
  let k := c.cmd (w.cmdline c.name)
  let ins : Inputs BuildValue := ⟨c.exp.map (valueOf m.cmds w), c.imp.map (valueOf m.cmds w), c.oo.map (valueOf m.cmds w)⟩
  let outsNow := c.outs.map w.info
  match inputsAvailable {} k (accumulate k ins) (prior.map (·.value)) outsNow with
  | .complete v force =>
    ({ w with cmdDb := upd w.cmdDb c.name (some (completeCmd E row v force c.outs.length (sigOf c))),
              depDb := upd w.depDb c.name (requestedDeps c) },
     if v.kind == .successfulCommand then (if c.phony then .phony else .updated) else .skipped)
  | .execute =>
    if w.failing c.name then
      let vf := afterExecute k false true []
      ({ w with cmdDb := upd w.cmdDb c.name (some (completeCmd E row vf.1 vf.2 c.outs.length (sigOf c))),
                depDb := upd w.depDb c.name (requestedDeps c) }, .failed)
    else
      let fc := writeOuts c.restat (c.outs.map fun o => (o, outContent m before c w o)) (w.files, w.clock)
      let w1 : World := { w with files := fc.1, clock := fc.2 }
      let vf := afterExecute k true true (c.outs.map w1.info)
      ({ w1 with cmdDb := upd w1.cmdDb c.name (some (completeCmd E row vf.1 vf.2 c.outs.length (sigOf c))),
                 depDb := upd w1.depDb c.name (storedDeps c) }, .executed)

/-- one command: scan, task if needed -/
def stepCmd (m : Manifest) (d : List Path) (E : Nat) (before : List Command) (c : Command) (w : World) :
    World × List (Nat × Did) :=
  if c.neededIn d && needsTask m.cmds w c then
    let r := runTask m before E c w
    (r.1, [(c.name, r.2)])
  else (w, [])

def stepAll (m : Manifest) (d : List Path) (E : Nat) : List Command → List Command → World → World × List (Nat × Did)
  | _, [], w => (w, [])
  | before, c :: rest, w =>
    let r := stepCmd m d E before c w
    let r' := stepAll m d E (c :: before) rest r.1
    (r'.1, r.2 ++ r'.2)

/-- (A4) the keys of the stored dependency lists of the needed commands -/
def storedKeys (m : Manifest) (d : List Path) (w : World) : List Path :=
  m.cmds.flatMap fun c => if c.neededIn d then (w.depDb c.name).map (·.key) else []

/-- everything a build did: the new world and, for every command whose task ran, what it did -/
def buildFull (m : Manifest) (targets : List Path) (w : World) : World × List (Nat × Did) :=
  let d := demanded m targets
  let E := w.epoch + 1
  stepAll m d E [] m.cmds (refreshSrcs m.cmds E (d ++ storedKeys m d w) { w with epoch := E })

/-- a command that was executed (spawned), and whether it succeeded -/
structure CommandRun where
  name : Nat
  ok : Bool
  deriving DecidableEq, Repr

def runsOf : List (Nat × Did) → List CommandRun
  | [] => []
  | (n, .executed) :: l => ⟨n, true⟩ :: runsOf l
  | (n, .failed) :: l => ⟨n, false⟩ :: runsOf l
  | _ :: l => runsOf l

/-- `llbuild ninja build <targets>` -/
def buildOnce (m : Manifest) (targets : List Path) (w : World) : World × List CommandRun :=
  let r := buildFull m targets w
  (r.1, runsOf r.2)

/-- the build reports an error: a command failed, or a command could not be built because an input is missing -/
def buildFailed (log : List (Nat × Did)) : Bool := log.any fun e => e.2 == .failed || e.2 == .skipped

/-! ### edits between builds -/

inductive Edit
  /-- write a source file: new content, fresh stamp -/
  | write (p : Path) (x : Content)
  /-- `touch`: same content, fresh stamp -/
  | touch (p : Path)
  /-- the documented non-monotone case: content (or `none` = keep) written with an arbitrary stamp -/
  | writeAt (p : Path) (x : Option Content) (stamp : Nat)
  /-- delete a file (an output) -/
  | delete (p : Path)
  /-- manifest edit: the command line of command `c` changes -/
  | setHash (c : Nat) (h : Nat)
  /-- command `c` starts / stops failing -/
  | setFail (c : Nat) (b : Bool)
  deriving DecidableEq, Repr

def applyEdit (w : World) : Edit → World
  | .write p x => { w with files := upd w.files p (some ⟨x, w.clock + 1⟩), clock := w.clock + 1 }
  | .touch p =>
    match w.files p with
    | some f => { w with files := upd w.files p (some ⟨f.content, w.clock + 1⟩), clock := w.clock + 1 }
    | none => w
  | .writeAt p x s =>
    match x, w.files p with
    | some x, _ => { w with files := upd w.files p (some ⟨x, s⟩) }
    | none, some f => { w with files := upd w.files p (some ⟨f.content, s⟩) }
    | none, none => w
  | .delete p => { w with files := upd w.files p none }
  | .setHash n h => { w with cmdline := upd w.cmdline n h }
  | .setFail n b => { w with failing := upd w.failing n b }

/-- `--no-db`: nothing is persisted between builds -/
def World.dropDb (w : World) : World :=
  { w with srcDb := fun _ => none, cmdDb := fun _ => none, depDb := fun _ => [] }

/-! ### what a build from scratch writes -/

/-- the content a clean build leaves in every file, given the source contents `src`: structural recursion over the
manifest (argument: the commands REVERSED, latest first) -/
def cleanContent (m : Manifest) (cmdline : Nat → Nat) (src : Path → Option Content) : List Command → Path → Option Content
  | [], p => src p
  | c :: before, p =>
    if c.outs.contains p then
      (if c.phony then none
       else some (m.sem (c.effHash (cmdline c.name)) p ((readsOf before c).map (cleanContent m cmdline src before))))
    else cleanContent m cmdline src before p

def nodupB : List Path → Bool
  | [] => true
  | x :: xs => !xs.contains x && nodupB xs

/-- well-formedness of a manifest (decidable): names and outputs unique, every input of a command is a source file or
an output of an earlier command (topological order), a phony command has inputs, depfile entries only with a deps
style, and a depfile entry that is generated is generated by a command that is certainly built before (an earlier
command; the generator of vlib/props/c18.py moreover makes it an ancestor through declared edges) -/
def wfFrom : List Command → List Command → Bool
  | _, [] => true
  | before, c :: rest =>
    (!c.outs.isEmpty && c.outs.all (fun o => (producer before o).isNone && (producer rest o).isNone) &&
     nodupB c.outs &&
     before.all (fun q => q.name != c.name) &&
     (c.exp ++ c.imp ++ c.oo ++ c.deps).all (fun p => !c.outs.contains p && (producer rest p).isNone) &&
     (!c.phony || (c.outs.length == 1 && !(c.exp ++ c.imp ++ c.oo).isEmpty && !c.hasDeps && !c.restat && !c.generator)) &&
     (c.hasDeps || c.deps.isEmpty)) && wfFrom (c :: before) rest

def Manifest.WF (m : Manifest) : Prop := wfFrom [] m.cmds = true

instance (m : Manifest) : Decidable m.WF := inferInstanceAs (Decidable (_ = true))

end LLBuild.NinjaWorld
