/-
The harness DSL for engine clients, interpreted identically by harness/vengine.cpp (with real
`core::Rule` / `core::Task` subclasses) and here.  CORE LEAN ONLY.
-/
import LLBuild.Model.Engine

namespace LLBuild.Engine.DSL
open LLBuild.Engine

def SIG_OFFSET : Nat := 1000
def FLAG_OFFSET : Nat := 2000

structure Cond where
  ck : Nat
  id : Nat
  m : Nat
  r : Nat
  deriving Repr, Inhabited

structure RuleSpec where
  key : Key := 0
  kind : Nat := 0          -- 0 input, 1 derived
  sigBase : Nat := 0
  validMode : Nat := 0     -- derived: 0 always valid, 1 never, 2 valid iff env[FLAG_OFFSET+validArg] = 0
  validArg : Nat := 0
  force : Nat := 0
  deferred : Nat := 0
  vmod : Nat := 0
  statics : List Req := []
  whens : List (Cond × List Req) := []
  discs : List (Cond × Key) := []
  deriving Repr, Inhabited

def condHolds (c : Cond) (recv : Recv) : Bool :=
  match recv.lookup c.id with
  | none => false
  | some v => c.ck == 0 || (c.m != 0 && v % c.m == c.r)

def nextReqs (s : RuleSpec) (recv : Recv) : List Req :=
  s.statics ++ (s.whens.filter (fun w => condHolds w.1 recv)).flatMap (fun w => w.2)

def discKeys (s : RuleSpec) (recv : Recv) : List Key :=
  (s.discs.filter (fun d => condHolds d.1 recv)).map (fun d => d.2)

def W64 : Nat := 18446744073709551616

def mix (h x : Nat) : Nat := ((h ^^^ x) * 1099511628211) % W64

def outValue (s : RuleSpec) (env : Env) (recv : Recv) : Val :=
  if s.kind == 0 then env s.key else
  let h := mix 1469598103934665603 s.key
  let h := recv.foldl (fun h kv => mix (mix h kv.1) kv.2) h
  let h := mix h 0xabcdef
  let h := (discKeys s recv).foldl (fun h d => mix (mix h d) (env d)) h
  let h := if s.vmod != 0 then h % s.vmod + 1 else h
  if h == 0 then 1 else h

def sigOf (s : RuleSpec) (env : Env) : Nat := s.sigBase + env (SIG_OFFSET + s.key)

def validOf (s : RuleSpec) (env : Env) (v : Val) : Bool :=
  if s.kind == 0 then v == env s.key
  else if s.validMode == 0 then true
  else if s.validMode == 1 then false
  else env (FLAG_OFFSET + s.validArg) == 0

/-- an undefined key behaves as an input rule -/
def specOf (rules : List RuleSpec) (k : Key) : RuleSpec :=
  match rules.find? (fun s => s.key == k) with
  | some s => s
  | none => { key := k, kind := 0 }

/-- input rules issue nothing and discovered dependencies point at input rules (`Program.WF`) -/
def wf (rules : List RuleSpec) : Bool :=
  rules.all fun s =>
    (s.kind != 0 || (s.statics.isEmpty && s.whens.isEmpty && s.discs.isEmpty)) &&
    s.discs.all (fun d => (specOf rules d.2).kind == 0)

def allReqs (s : RuleSpec) : List Req := s.statics ++ s.whens.flatMap (fun w => w.2)

/-- request ids are distinct within a rule and kinds are the three the engine knows (`Program.Det`) -/
def det (rules : List RuleSpec) : Bool :=
  rules.all fun s => decide (((allReqs s).map (fun q => q.id)).Nodup) && (allReqs s).all (fun q => q.kind ≤ 2)

def program (rules : List RuleSpec) : Program where
  sig env k := sigOf (specOf rules k) env
  valid env k v := validOf (specOf rules k) env v
  next k recv := nextReqs (specOf rules k) recv
  disc k recv := discKeys (specOf rules k) recv
  out k env recv := outValue (specOf rules k) env recv
  force k := (specOf rules k).force != 0
  self k := (specOf rules k).kind == 0

/-- Reference evaluation: what a brand-new engine computes (fuel bounds depth and request count). -/
def deliverLoop (P : Program) (env : Env) (ev : Key → Option Val) (k : Key) : Nat → List (Req × Val) → Option Val
  | 0, _ => none
  | n + 1, seq =>
    match (issuedAfter P k seq).find? (fun q => q.kind != 2 && !delivered seq q) with
    | none => some (P.out k env (recvOf seq))
    | some q =>
      if q.kind == 1 then deliverLoop P env ev k n ((q, 0) :: seq)
      else match ev q.key with
        | none => none
        | some v => deliverLoop P env ev k n ((q, v) :: seq)

def cleanVal (P : Program) (env : Env) : Nat → Key → Option Val
  | 0, _ => none
  | f + 1, k => deliverLoop P env (cleanVal P env f) k 64 []

end LLBuild.Engine.DSL
