/-
The BuildSystem as a CLIENT of the build engine (`LLBuild.Engine.Program`).

A build description (commands with tool shell / phony / mkdir / symlink; declared inputs and outputs; plain and
virtual nodes; targets) and a file-system state are turned into the rule set that
`BuildSystemEngineDelegate::lookupRule` (lib/BuildSystem/BuildSystem.cpp) creates: one rule per BuildKey kind.
The table-like parts (which task class a key maps to, the validity chains, forceChange) come from
`LLBuild.Generated.BuildSystemRules`, regenerated from the source on every run.

Keys:      node i ↦ 3*i      command c ↦ 3*c+1      target t ↦ 3*t+2       (indices into the description)
External state: `env (3*i)` is the state of node i's path: 0 = missing, x+1 = present with stat record x.
  "Observable edit": the stat record determines the content, so x also stands for the content.
Values (`BuildValue` kinds, payload * 8 + tag):
  0 Invalid · 1 MissingInput · 8x+2 ExistingInput(x) · 3 VirtualInput · 4 FailedInput · 8h+5 SuccessfulCommand(h)
  6 Failed/PropagatedFailure/CancelledCommand · 7 Target
  A successful command's value stands for the list of its outputs' stat records, like the real BuildValue: its payload is
  `h % MOD + MOD * codeOutputs outputs` — `h` (what the command computed from its inputs) determines the records (the output
  at position j has record/content `mix h j`, and `mix` only looks at the payload modulo MOD) and the output-node LIST is
  recorded next to it, so a command whose output list was edited completes with a different value, and a produced node finds
  its own record by looking for its node in the recorded list (`recordedPos`), not in the description.
Not modelled: discovered dependencies (C11), directory-tree nodes (C12), command-timestamp and mutated nodes,
allow-missing-inputs, stale-file removal (C14).  CORE LEAN ONLY.
-/
import LLBuild.Model.Engine
import LLBuild.Generated.BuildSystemRules

namespace LLBuild.BuildSystemClient
open LLBuild.Engine
open LLBuild.Generated.BuildSystemRules

inductive Tool | shell | phony | mkdir | symlink
  deriving DecidableEq, Repr, Inhabited

structure Cmd where
  tool : Tool := .shell
  /-- declared inputs (node indices), in order -/
  inputs : List Nat := []
  /-- declared outputs (node indices), in order -/
  outputs : List Nat := []
  /-- the rest of the signature-relevant definition (arguments, environment; `contents` of a symlink) -/
  salt : Nat := 0
  /-- which declared inputs the command's function actually reads (position ↦ bool, default true) -/
  mask : List Bool := []
  alwaysOutOfDate : Bool := false
  deriving DecidableEq, Repr, Inhabited

structure Desc where
  /-- per node: is it virtual (`<name>`, or `type: virtual`); nodes beyond the table are implicit plain nodes -/
  virt : List Bool := []
  cmds : List Cmd := []
  targets : List (List Nat) := []
  deriving Repr, Inhabited

def nodeKey (i : Nat) : Key := 3 * i
def cmdKey (c : Nat) : Key := 3 * c + 1
def tgtKey (t : Nat) : Key := 3 * t + 2

/-! ### values -/
def vInvalid : Val := 0
def vMissingInput : Val := 1
def vExisting (x : Nat) : Val := 8 * x + 2
def vVirtual : Val := 3
def vFailedInput : Val := 4
def vSuccess (h : Nat) : Val := 8 * h + 5
def vFailedCmd : Val := 6
def vTarget : Val := 7

def isExisting (v : Val) : Bool := v % 8 == 2
def isSuccess (v : Val) : Bool := v % 8 == 5

/-- what `FileInputNodeTask::inputsAvailable` completes with for the path state `x` -/
def fileValue (x : Nat) : Val := if x = 0 then vMissingInput else vExisting (x - 1)

/-- the deterministic mixing function the generated commands compute (also in /bin/sh arithmetic) -/
def mix (h v : Nat) : Nat := (h * 131 + v + 7) % 1000000007

def MOD : Nat := 1000000007

/-- an injective code of an output-node list (binary: `a` zeros and a one per element, first element lowest) -/
def codeOutputs : List Nat → Nat
  | [] => 0
  | a :: l => 2 ^ a * (2 * codeOutputs l + 1)

/-- scan the bits of a `codeOutputs` code (fuel, rest of the code, zeros seen since the last one): the position of the
first element equal to `i`; the length of the coded list if there is none (as `List.idxOf`) -/
def posScan (i : Nat) : Nat → Nat → Nat → Nat
  | 0, _, _ => 0
  | f + 1, n, z =>
    if n = 0 then 0
    else if n % 2 = 0 then posScan i f (n / 2) (z + 1)
    else if z = i then 0 else 1 + posScan i f (n / 2) 0

/-- the position of node `i` in the output list recorded in the payload `p` of a successful command's value -/
def recordedPos (p i : Nat) : Nat := posScan i (p / MOD) (p / MOD) 0

/-! ### the description -/
def Desc.isVirtual (d : Desc) (i : Nat) : Bool := d.virt.getD i false
def Desc.cmd? (d : Desc) (c : Nat) : Option Cmd := d.cmds[c]?
def Desc.cmd (d : Desc) (c : Nat) : Cmd := (d.cmds[c]?).getD {}

/-- `node->getProducers()`: the commands that list node i as an output, in description order -/
def Desc.producers (d : Desc) (i : Nat) : List Nat :=
  (List.range d.cmds.length).filter (fun c => (d.cmd c).outputs.contains i)

/-- which task class `lookupRule` creates for a key (dispatch chains from the extractor) -/
def ruleOf (d : Desc) (k : Key) : RuleClass :=
  if k % 3 = 0 then nodeRule (!(d.producers (k / 3)).isEmpty) (d.isVirtual (k / 3)) false false
  else if k % 3 = 1 then commandRule (k / 3 < d.cmds.length)
  else targetRule (k / 3 < d.targets.length)   -- a target that does not exist: `.abort`

/-- one request per element with id = position (`ExternalCommand::start`, `TargetTask::start`; kind 2 = `mustFollow`) -/
def reqsFrom (kind : Nat) : Nat → List Nat → List Req
  | _, [] => []
  | j, n :: ns => ⟨nodeKey n, j, kind⟩ :: reqsFrom kind (j + 1) ns

def nextOf (d : Desc) (k : Key) : List Req :=
  match ruleOf d k with
  | .producedNodeTask =>
    -- ProducedNodeTask::start: the single producer; several producers and a delegate that does not choose: no request
    match d.producers (k / 3) with
    | [c] => [⟨cmdKey c, 0, 0⟩]
    | _ => []
  | .commandTask =>
    let c := d.cmd (k / 3)
    reqsFrom (if c.tool = .symlink then 2 else 0) 0 c.inputs
  | .targetTask => reqsFrom 0 0 ((d.targets[k / 3]?).getD [])
  | _ => []

def getRecv : Recv → Nat → Option Val
  | [], _ => none
  | (i, v) :: rest, id => if i = id then some v else getRecv rest id

/-- `provideValue` folded over the inputs in declaration order: `none` = the command is skipped (a missing or failed
input: `getSkipValueForInput`), otherwise the mix of the contents it reads -/
def foldInputs (c : Cmd) (get : Nat → Option Val) : List Nat → Nat → Option Nat
  | [], h => some h
  | j :: js, h =>
    match get j with
    | none => none
    | some v =>
      if v = vMissingInput ∨ v = vFailedInput then none
      else if isExisting v ∧ c.mask.getD j true then foldInputs c get js (mix h (v / 8))
      else foldInputs c get js h

/-- the value of a successful execution of `c` that computed `h`: the records of its outputs (`h`) together with the
list of output nodes they belong to -/
def successValue (c : Cmd) (h : Nat) : Val := vSuccess (h % MOD + MOD * codeOutputs c.outputs)

/-- the value a command task completes with, given the values of its inputs by position -/
def cmdOut (c : Cmd) (get : Nat → Option Val) : Val :=
  match c.tool with
  | .symlink => successValue c c.salt
  | .shell =>
    match foldInputs c get (List.range c.inputs.length) c.salt with
    | some h => successValue c h
    | none => vFailedCmd
  | _ =>
    match foldInputs c get (List.range c.inputs.length) 0 with
    | some _ => successValue c 0
    | none => vFailedCmd

/-- `getResultForOutput` (ExternalCommand, with the PhonyCommand and SymlinkCommand overrides).  The record of output
node `i` is looked up in the VALUE (the position of `i` in the output list the value records — for a value the
command produced under its current definition this is `c.outputs.idxOf i`, `recordedPos_successValue`), so for a
non-virtual node the function does not depend on the producer's definition at all. -/
def resultForOutput (d : Desc) (c : Cmd) (i : Nat) (cv : Val) : Val :=
  if c.tool = .phony ∧ d.isVirtual i then vVirtual
  else if cv = vFailedCmd then vFailedInput
  else if isSuccess cv then
    if d.isVirtual i ∧ c.tool ≠ .symlink then vVirtual
    else vExisting (mix (cv / 8) (recordedPos (cv / 8) i))
  else vInvalid

def outOf (d : Desc) (k : Key) (env : Env) (recv : Recv) : Val :=
  match ruleOf d k with
  | .fileInputNodeTask => fileValue (env k)
  | .virtualInputNodeTask => vVirtual
  | .producedNodeTask =>
    match d.producers (k / 3) with
    | [c] =>
      match getRecv recv 0 with
      | some cv => resultForOutput d (d.cmd c) (k / 3) cv
      | none => vInvalid
    | _ => vFailedInput
  | .commandTask => cmdOut (d.cmd (k / 3)) (getRecv recv)
  | .missingCommandTask => vInvalid
  | .targetTask => vTarget
  | _ => vInvalid

/-- the facts `ExternalCommand::isResultValid` looks at for output j of a command whose stored value is `v` -/
def outputFacts (d : Desc) (env : Env) (c : Cmd) (v : Val) (j : Nat) : Bool × Bool × Bool × Bool :=
  let o := c.outputs.getD j 0
  let stored := mix (v / 8) j + 1
  (d.isVirtual o, false, (env (nodeKey o) == 0) == (stored == 0), env (nodeKey o) == stored)

def validOf (d : Desc) (env : Env) (k : Key) (v : Val) : Bool :=
  match ruleOf d k with
  | .fileInputNodeTask =>
    fileInputValid (env k == 0) (v == vMissingInput) (isExisting v) (v == fileValue (env k))
  | .virtualInputNodeTask => virtualInputValid (v == vVirtual)
  | .producedNodeTask => producedNodeValid (v == vFailedInput) (v == vMissingInput)
  | .commandTask =>
    let c := d.cmd (k / 3)
    match c.tool with
    | .mkdir => mkdirValid (isSuccess v) (env (nodeKey (c.outputs.getD 0 0)) == 0) true
    | .symlink =>
      symlinkValid c.outputs.isEmpty (isSuccess v) true (env (nodeKey (c.outputs.getD 0 0)) == 0)
        (env (nodeKey (c.outputs.getD 0 0)) == mix (v / 8) 0 + 1)
    | _ =>
      externalCommandValid c.alwaysOutOfDate (isSuccess v) ((List.range c.outputs.length).map (outputFacts d env c v))
  | .targetTask => targetValid
  | _ => false

/-- the pre-hash signature term of a rule: node type and producers for a node (`BuildNode::getSignature`), the
definition for a command (`ExternalCommand::getSignature` + tool-specific parts), nothing otherwise -/
def sigTerm (d : Desc) (k : Key) : List Nat :=
  match (ruleOf d k).sigSource with
  | .node =>
    nodeSignatureFields.foldl (fun acc f =>
      match f with
      | .nodeType => acc ++ [if d.isVirtual (k / 3) then 3 else 0]
      | .producerNames => acc ++ [(d.producers (k / 3)).length] ++ d.producers (k / 3)) [0]
  | .command =>
    let c := d.cmd (k / 3)
    [1, k / 3, c.inputs.length] ++ c.inputs ++ [c.outputs.length] ++ c.outputs ++
      [if c.alwaysOutOfDate then 1 else 0,
       match c.tool with | .shell => 0 | .phony => 1 | .mkdir => 2 | .symlink => 3, c.salt] ++ c.mask.map (fun b => if b then 1 else 0)
  | .none => []

/-- The rule set of the BuildSystem for description `d`; `H` is the hash applied to signature terms. -/
def client (H : List Nat → Nat) (d : Desc) : Program where
  sig := fun _ k => H (sigTerm d k)
  valid := validOf d
  next := fun k _ => nextOf d k
  disc := fun _ _ => []
  out := outOf d
  force := fun k => ruleOf d k == .missingCommandTask && missingCommandForceChange
  self := fun k => ruleOf d k == .fileInputNodeTask

/-- the description's static sanity: every path has at most one producer and every index is in range
(commands read only what they declare by construction: `cmdOut` sees declared inputs only) -/
def Desc.wf (d : Desc) : Bool :=
  (List.range d.virt.length).all (fun i => (d.producers i).length ≤ 1) &&
  d.cmds.all (fun c => c.inputs.all (· < d.virt.length) && c.outputs.all (· < d.virt.length)) &&
  d.targets.all (fun t => t.all (· < d.virt.length))

/-! ### executable clean evaluation (what a brand-new engine computes), by fuel -/
def allSome (f : Nat → Option Val) : List Nat → Bool
  | [] => true
  | j :: js => (f j).isSome && allSome f js

def cleanEval (d : Desc) (env : Env) : Nat → Key → Option Val
  | 0, _ => none
  | f + 1, k =>
    match ruleOf d k with
    | .fileInputNodeTask => some (fileValue (env k))
    | .virtualInputNodeTask => some vVirtual
    | .producedNodeTask =>
      match d.producers (k / 3) with
      | [c] =>
        match cleanEval d env f (cmdKey c) with
        | some cv => some (resultForOutput d (d.cmd c) (k / 3) cv)
        | none => none
      | _ => some vFailedInput
    | .commandTask =>
      let c := d.cmd (k / 3)
      if c.tool = .symlink then some (successValue c c.salt)
      else
        let get := fun j => match c.inputs[j]? with
          | some n => cleanEval d env f (nodeKey n)
          | none => none
        if allSome get (List.range c.inputs.length) then some (cmdOut c get) else none
    | .missingCommandTask => some vInvalid
    | .targetTask => some vTarget
    | _ => none

end LLBuild.BuildSystemClient
