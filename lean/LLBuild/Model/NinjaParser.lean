/-
C17 / C19 (the middle): transliteration of `Parser::ParserImpl` (lib/Ninja/Parser.cpp).  CORE LEAN ONLY.

* The parser DRIVES the lexer model (Model/NinjaLexer.lean): the state is the lexer cursor, the lexer's current
  `LexingMode` (`lexer.setMode(..)` is `PSt.setMode`), and the one look-ahead token `tok`.  The only place
  the lexer is called is `lexTok` (`lexer.lex(tok)`), always in the mode the C++ has set at that point; an
  out-of-bounds read or exhausted fuel inside the lexer propagates as `Res.oob` / `Res.fuel`.
* The `ParseActions` callbacks, including `error(message, at)`, are recorded as `Ev` values in the order
  the C++ makes them, with the `Token` payloads (kind, start, length, line, column) it passes.  The
  `BuildResult` / `PoolResult` / `RuleResult` handles are opaque to the parser and are not modelled; the
  declaration kind (`kind` in `parseParameterizedDecl`) selects the callback.
* Every loop of the C++ (`do … while (Comment)`, `skipPastEOL`, the `while (String)` lists, the indented
  binding loop, `do skipPastEOL while (Indentation)`, the top-level `while (!EndOfFile)`) is a function with
  structurally decreasing fuel; callers pass `fuel buf = size + 2` (one per byte, one for the look-ahead
  token that is not consumed yet, one spare).  Props/C17Parse.lean proves that it never runs out.
* `calls` is a ghost log (mode, cursor offset) of every `lexer.lex` call; nothing reads it.
* `assert`s of the C++ (NDEBUG build) are not executed; the one in `parse()` (lexer mode is None at every
  declaration start) is a theorem in Props/C17Parse.lean.
* The last section turns the callbacks into the declaration stream the loader model (Model/NinjaLoader.lean)
  consumes, so that bytes → lexer → parser → loader is one Lean function (`loadBytes`).
-/
import LLBuild.Model.NinjaLexer
import LLBuild.Model.NinjaLoader

namespace LLBuild.NinjaParser
open LLBuild.NinjaLexer
open LLBuild.Generated.NinjaLexer (Kind)

/-- the message literals passed to `ParserImpl::error` -/
inductive Msg where
  | unexpectedToken | expectedVariableName | expectedEquals | expectedVariableValue | expectedNewline
  | expectedTargetPath | expectedPathString | expectedOutputPath | expectedColon
  | expectedRuleName | expectedPoolName
  deriving DecidableEq, Repr

/-- the text of each message, as written in Parser.cpp (compared verbatim with the real callbacks) -/
def Msg.text : Msg → String
  | .unexpectedToken => "unexpected token"
  | .expectedVariableName => "expected variable name"
  | .expectedEquals => "expected '=' token"
  | .expectedVariableValue => "expected variable value"
  | .expectedNewline => "expected newline token"
  | .expectedTargetPath => "expected target path string"
  | .expectedPathString => "expected path string"
  | .expectedOutputPath => "expected output path string"
  | .expectedColon => "expected ':' token"
  | .expectedRuleName => "expected rule name identifier"
  | .expectedPoolName => "expected pool name identifier"

/-- `kind` of `parseParameterizedDecl` -/
inductive DeclKind where
  | build | pool | rule
  deriving DecidableEq, Repr

/-- one `ParseActions` callback -/
inductive Ev where
  /-- `actOnBeginManifest("<main>")` -/
  | beginManifest
  /-- `actOnEndManifest()` -/
  | endManifest
  /-- `error(message, at)` -/
  | error (m : Msg) (tok : Token)
  /-- `actOnBindingDecl(name, value)` -/
  | binding (name value : Token)
  /-- `actOnDefaultDecl(names)` -/
  | default (names : List Token)
  /-- `actOnIncludeDecl(isInclude, path)` -/
  | include (isInclude : Bool) (path : Token)
  /-- `actOnBeginBuildDecl(name, outputs, inputs, numExplicitInputs, numImplicitInputs)` -/
  | beginBuild (name : Token) (outs ins : List Token) (nExp nImp : Nat)
  /-- `actOnBeginPoolDecl(name)` -/
  | beginPool (name : Token)
  /-- `actOnBeginRuleDecl(name)` -/
  | beginRule (name : Token)
  /-- `actOnBuildBindingDecl` / `actOnPoolBindingDecl` / `actOnRuleBindingDecl (decl, name, value)` -/
  | declBinding (k : DeclKind) (name value : Token)
  /-- `actOnEndBuildDecl` / `actOnEndPoolDecl` / `actOnEndRuleDecl (decl, startTok)` -/
  | endDecl (k : DeclKind) (start : Token)
  deriving DecidableEq, Repr

/-- parser state: the lexer (cursor + mode), the look-ahead token, and what was reported so far -/
structure PSt where
  lx : St
  mode : LexMode
  tok : Token
  /-- callbacks made so far, most recent first -/
  evs : List Ev
  /-- ghost: (mode, cursor offset) of every `lexer.lex` call so far, most recent first -/
  calls : List (LexMode × Nat)
  deriving Repr, DecidableEq

namespace PSt
/-- `lexer.setMode(m)` -/
def setMode (s : PSt) (m : LexMode) : PSt := { s with mode := m }
/-- a `ParseActions` callback -/
def emit (s : PSt) (e : Ev) : PSt := { s with evs := e :: s.evs }
/-- `error(message)` = `actions.error(message, tok)` -/
def err (s : PSt) (m : Msg) : PSt := s.emit (.error m s.tok)
end PSt

/-- the fuel every loop is started with -/
def fuel (buf : Bytes) : Nat := buf.length + 2

section
variable (cfg : Cfg) (buf : Bytes)

/-- `lexer.lex(tok)` -/
def lexTok (s : PSt) : Res PSt := do
  let r ← lex cfg buf s.mode s.lx
  pure { s with lx := r.2, tok := r.1, calls := (s.mode, s.lx.pos) :: s.calls }

/-- `getNextNonCommentToken`: `do { lexer.lex(tok); } while (tok.tokenKind == Comment);` -/
def nextNonComment : Nat → PSt → Res PSt
  | 0, _ => .fuel
  | f + 1, s => do
    let s1 ← lexTok cfg buf s
    if s1.tok.kind = .Comment then nextNonComment f s1 else pure s1

/-- `consumeToken()` / `consumeExpectedToken(kind)` (the assert is compiled out) / the consuming branch of
`consumeIfToken(kind)` -/
def consume (s : PSt) : Res PSt := nextNonComment cfg buf (fuel buf) s

/-- the `while` of `skipPastEOL` (note: plain `lexer.lex`, comments are ordinary tokens here) -/
def skipLoop : Nat → PSt → Res PSt
  | 0, _ => .fuel
  | f + 1, s =>
    if s.tok.kind ≠ .Newline ∧ s.tok.kind ≠ .EndOfFile then do
      let s1 ← lexTok cfg buf s
      skipLoop f s1
    else pure s

/-- `skipPastEOL()` -/
def skipPastEOL (s : PSt) : Res PSt := do
  let s1 ← skipLoop cfg buf (fuel buf) s
  consume cfg buf s1

/-- `while (tok.tokenKind == String) list.push_back(consumeExpectedToken(String));` -/
def stringsLoop : Nat → PSt → List Token → Res (PSt × List Token)
  | 0, _, _ => .fuel
  | f + 1, s, acc =>
    if s.tok.kind = .String then do
      let s1 ← consume cfg buf s
      stringsLoop f s1 (acc ++ [s.tok])
    else pure (s, acc)

/-- `bool parseBindingInternal(Token* name_out, Token* value_out)` -/
def parseBindingInternal (s : PSt) : Res (Option (Token × Token) × PSt) :=
  if s.tok.kind ≠ .Identifier then do
    let s1 ← skipPastEOL cfg buf ((s.err .expectedVariableName).setMode .none)
    pure (none, s1)
  else do
    let name := s.tok
    let s1 ← consume cfg buf s
    if s1.tok.kind ≠ .Equals then do
      let s2 ← skipPastEOL cfg buf ((s1.err .expectedEquals).setMode .none)
      pure (none, s2)
    else do
      -- setMode(VariableString); consumeExpectedToken(Equals); setMode(None)
      let s2 ← consume cfg buf (s1.setMode .variableString)
      let s3 := s2.setMode .none
      if s3.tok.kind = .Newline then do
        -- the empty binding: a String token of length 0 derived from the newline
        let nl := s3.tok
        let s4 ← consume cfg buf s3
        pure (some (name, { nl with kind := .String, len := 0 }), s4)
      else if s3.tok.kind ≠ .String then do
        let s4 ← skipPastEOL cfg buf (s3.err .expectedVariableValue)
        pure (none, s4)
      else do
        let value := s3.tok
        let s4 ← consume cfg buf s3
        if s4.tok.kind = .Newline then do
          let s5 ← consume cfg buf s4
          pure (some (name, value), s5)
        else do
          let s5 ← skipPastEOL cfg buf (s4.err .expectedNewline)
          pure (none, s5)

/-- `parseBindingDecl()` -/
def parseBindingDecl (s : PSt) : Res PSt := do
  let r ← parseBindingInternal cfg buf s
  match r.1 with
  | some (n, v) => pure (r.2.emit (.binding n v))
  | none => pure r.2

/-- `parseDefaultDecl()` -/
def parseDefaultDecl (s : PSt) : Res PSt := do
  let s1 ← consume cfg buf (s.setMode .pathString)
  let r ← stringsLoop cfg buf (fuel buf) s1 []
  let s2 := r.1.setMode .none
  if r.2.isEmpty then skipPastEOL cfg buf (s2.err .expectedTargetPath)
  else if s2.tok.kind = .Newline then do
    let s3 ← consume cfg buf s2
    pure (s3.emit (.default r.2))
  else skipPastEOL cfg buf (s2.err .expectedNewline)

/-- `parseIncludeDecl()` -/
def parseIncludeDecl (s : PSt) : Res PSt := do
  let isInclude := decide (s.tok.kind = .KWInclude)
  let s1 ← consume cfg buf (s.setMode .pathString)
  let s2 := s1.setMode .none
  if s2.tok.kind ≠ .String then skipPastEOL cfg buf (s2.err .expectedPathString)
  else do
    let path := s2.tok
    let s3 ← consume cfg buf s2
    if s3.tok.kind = .Newline then do
      let s4 ← consume cfg buf s3
      pure (s4.emit (.include isInclude path))
    else skipPastEOL cfg buf (s3.err .expectedNewline)

/-- `[ "|" path-string-list ]`: `if (consumeIfToken(k)) while (String) inputs.push_back(..)` -/
def optStrings (k : Kind) (s : PSt) (acc : List Token) : Res (PSt × List Token) :=
  if s.tok.kind = k then do
    let s1 ← consume cfg buf s
    stringsLoop cfg buf (fuel buf) s1 acc
  else pure (s, acc)

/-- `bool parseBuildSpecifier(BuildResult*)`.  The output list is `if (!String) fail; do push while (String)`,
which is the `while (String)` loop entered with a String token. -/
def parseBuildSpecifier (s : PSt) : Res (Bool × PSt) := do
  let s1 ← consume cfg buf (s.setMode .pathString)
  if s1.tok.kind ≠ .String then pure (false, (s1.err .expectedOutputPath).setMode .none)
  else do
    let r2 ← stringsLoop cfg buf (fuel buf) s1 []
    let outs := r2.2
    if r2.1.tok.kind ≠ .Colon then pure (false, (r2.1.err .expectedColon).setMode .none)
    else do
      -- setMode(IdentifierSpecific); consumeExpectedToken(Colon); setMode(PathString)
      let s3 ← consume cfg buf (r2.1.setMode .identifierSpecific)
      let s4 := s3.setMode .pathString
      if s4.tok.kind ≠ .Identifier then pure (false, (s4.err .expectedRuleName).setMode .none)
      else do
        let name := s4.tok
        let s5 ← consume cfg buf s4
        let r6 ← stringsLoop cfg buf (fuel buf) s5 []
        let nExp := r6.2.length
        let r7 ← optStrings cfg buf .Pipe r6.1 r6.2
        let nImp := r7.2.length - nExp
        let r8 ← optStrings cfg buf .PipePipe r7.1 r7.2
        let s9 := r8.1.setMode .none
        if s9.tok.kind = .Newline then do
          let s10 ← consume cfg buf s9
          pure (true, s10.emit (.beginBuild name outs r8.2 nExp nImp))
        else pure (false, s9.err .expectedNewline)

/-- `parsePoolSpecifier` / `parseRuleSpecifier` (identical up to the message and the callback) -/
def parseNameSpecifier (m : Msg) (mk : Token → Ev) (s : PSt) : Res (Bool × PSt) := do
  let s1 ← consume cfg buf (s.setMode .identifierSpecific)
  let s2 := s1.setMode .none
  if s2.tok.kind ≠ .Identifier then pure (false, s2.err m)
  else do
    let name := s2.tok
    let s3 ← consume cfg buf s2
    if s3.tok.kind = .Newline then do
      let s4 ← consume cfg buf s3
      pure (true, s4.emit (mk name))
    else pure (false, s3.err .expectedNewline)

def parsePoolSpecifier (s : PSt) : Res (Bool × PSt) := parseNameSpecifier cfg buf .expectedPoolName .beginPool s
def parseRuleSpecifier (s : PSt) : Res (Bool × PSt) := parseNameSpecifier cfg buf .expectedRuleName .beginRule s

/-- `do { skipPastEOL(); } while (tok.tokenKind == Indentation);` -/
def skipIndented : Nat → PSt → Res PSt
  | 0, _ => .fuel
  | f + 1, s => do
    let s1 ← skipPastEOL cfg buf s
    if s1.tok.kind = .Indentation then skipIndented f s1 else pure s1

/-- the `while (tok.tokenKind == Indentation)` loop of `parseParameterizedDecl` -/
def bindingsLoop (k : DeclKind) : Nat → PSt → Res PSt
  | 0, _ => .fuel
  | f + 1, s =>
    if s.tok.kind = .Indentation then do
      let s1 ← consume cfg buf (s.setMode .identifierSpecific)
      if s1.tok.kind = .Newline then do
        let s2 ← consume cfg buf (s1.setMode .none)
        bindingsLoop k f s2
      else do
        let r ← parseBindingInternal cfg buf s1
        match r.1 with
        | some (n, v) => bindingsLoop k f (r.2.emit (.declBinding k n v))
        | none => bindingsLoop k f r.2
    else pure s

/-- `kind` of `parseParameterizedDecl` from the keyword (`default:` is KWRule) -/
def declKindOf (k : Kind) : DeclKind :=
  if k = .KWBuild then .build else if k = .KWPool then .pool else .rule

/-- `parseParameterizedDecl()` -/
def parseParameterizedDecl (s : PSt) : Res PSt := do
  let startTok := s.tok
  let k := declKindOf s.tok.kind
  let r ← (match k with
    | .build => parseBuildSpecifier cfg buf s
    | .pool => parsePoolSpecifier cfg buf s
    | .rule => parseRuleSpecifier cfg buf s)
  if r.1 then do
    let s2 ← bindingsLoop cfg buf k (fuel buf) r.2
    pure (s2.emit (.endDecl k startTok))
  else skipIndented cfg buf (fuel buf) r.2

/-- `parseDecl()` -/
def parseDecl (s : PSt) : Res PSt :=
  match s.tok.kind with
  | .Newline => consume cfg buf s
  | .KWBuild | .KWRule | .KWPool => parseParameterizedDecl cfg buf s
  | .KWDefault => parseDefaultDecl cfg buf s
  | .KWInclude | .KWSubninja => parseIncludeDecl cfg buf s
  | .Identifier => parseBindingDecl cfg buf s
  | _ => skipPastEOL cfg buf (s.err .unexpectedToken)

/-- `while (tok.tokenKind != EndOfFile) parseDecl();` -/
def declLoop : Nat → PSt → Res PSt
  | 0, _ => .fuel
  | f + 1, s =>
    if s.tok.kind ≠ .EndOfFile then do
      let s1 ← parseDecl cfg buf s
      declLoop f s1
    else pure s

/-- a fresh `ParserImpl(data, actions)`: fresh lexer (mode None); `tok` is not yet lexed (its content is
never read before the first `lexer.lex(tok)`; the kind chosen here only has to differ from EndOfFile) -/
def initSt : PSt :=
  { lx := NinjaLexer.initSt, mode := .none, tok := ⟨.Unknown, 0, 0, 0, 0⟩, evs := [], calls := [] }

/-- `ParserImpl::parse()`; the final state (its `evs` are the callbacks, most recent first) -/
def parseSt : Res PSt := do
  let s0 ← consume cfg buf initSt
  let s1 ← declLoop cfg buf (fuel buf) (s0.emit .beginManifest)
  pure (s1.emit .endManifest)

/-- the callbacks of one `Parser::parse()` in the order they are made -/
def parse : Res (List Ev) := do
  let s ← parseSt cfg buf
  pure s.evs.reverse

end

/-! ## From callbacks to the loader's declaration stream -/

/-- the text of a token: `StringRef(tok.start, tok.length)` -/
def tokText (buf : Bytes) (t : Token) : Bytes := slice buf t.start t.len

/-- declarations so far (reversed) and the rule / build / pool that is open (bindings reversed) -/
structure DS where
  decls : List NinjaLoader.Decl := []
  group : Option NinjaLoader.Decl := none

def addParam (d : NinjaLoader.Decl) (b : NinjaLoader.Binding) : NinjaLoader.Decl :=
  match d with
  | .rule n ps => .rule n (b :: ps)
  | .build r o i a c ps => .build r o i a c (b :: ps)
  | .pool n ps => .pool n (b :: ps)
  | d => d

def closeGroup (d : NinjaLoader.Decl) : NinjaLoader.Decl :=
  match d with
  | .rule n ps => .rule n ps.reverse
  | .build r o i a c ps => .build r o i a c ps.reverse
  | .pool n ps => .pool n ps.reverse
  | d => d

/-- what the loader's `ParseActions` make of one callback.  The grouping is the one `Drv.C17Load.item`
applies to the printed stream of the REAL parser: an error is a `perr` where it is raised; a rule / build /
pool becomes one declaration at its `End…Decl`. -/
def declStep (buf : Bytes) (s : DS) : Ev → DS
  | .beginManifest | .endManifest => s
  | .error _ _ => { s with decls := .perr :: s.decls }
  | .binding n v => { s with decls := .binding ⟨tokText buf n, tokText buf v⟩ :: s.decls }
  | .default names => { s with decls := .default (names.map (tokText buf)) :: s.decls }
  | .include true p => { s with decls := .include (tokText buf p) :: s.decls }
  | .include false p => { s with decls := .subninja (tokText buf p) :: s.decls }
  | .beginBuild n outs ins nExp nImp =>
    { s with group := some (.build (tokText buf n) (outs.map (tokText buf)) (ins.map (tokText buf)) nExp nImp []) }
  | .beginPool n => { s with group := some (.pool (tokText buf n) []) }
  | .beginRule n => { s with group := some (.rule (tokText buf n) []) }
  | .declBinding _ n v =>
    match s.group with
    | some g => { s with group := some (addParam g ⟨tokText buf n, tokText buf v⟩) }
    | none => s
  | .endDecl _ _ =>
    match s.group with
    | some g => { s with decls := closeGroup g :: s.decls, group := none }
    | none => s

def declsOf (buf : Bytes) (evs : List Ev) : List NinjaLoader.Decl :=
  (evs.foldl (declStep buf) {}).decls.reverse

/-- bytes → lexer → parser → declaration stream -/
def parseDecls (cfg : Cfg) (buf : Bytes) : Res (List NinjaLoader.Decl) := do
  let evs ← parse cfg buf
  pure (declsOf buf evs)

/-- all files of a manifest tree (absolute path ↦ content) through lexer and parser -/
def parseFiles (cfg : Cfg) : List (Bytes × Bytes) → Res NinjaLoader.Files
  | [] => pure []
  | (p, c) :: rest => do
    let d ← parseDecls cfg c
    let r ← parseFiles cfg rest
    pure ((p, d) :: r)

/-- the pure-Lean pipeline: the loader model run on what the parser model reports for the bytes of the main
file, with included files resolved in `raw` -/
def loadBytes (cfg : Cfg) (lcfg : NinjaLoader.Cfg) (P : NinjaLoader.Params) (raw : List (Bytes × Bytes)) (depth : Nat)
    (main : Bytes) : Res NinjaLoader.St := do
  let files ← parseFiles cfg raw
  let decls ← parseDecls cfg main
  pure (NinjaLoader.load lcfg P files depth decls)

end LLBuild.NinjaParser
