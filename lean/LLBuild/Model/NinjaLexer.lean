/-
C17 (lexical half) / C19 (Ninja lexer): index-level model of `llbuild::ninja::Lexer`
(lib/Ninja/Lexer.cpp, include/llbuild/Ninja/Lexer.h).  CORE LEAN ONLY.

* The buffer is a `List UInt8` with an explicit cursor; EVERY read of buffer memory goes through `rd`
  (bounds-checked, outcome `Res.oob i` when `i` is outside `[0, size)`), including the direct
  `bufferPos[1]` / `bufferPos[2]` reads of the `$`-newline look-ahead and the bytes `memcmp` touches.
* Every `while`/`for(;;)`/`do-while` of the C++ is a function with a fuel argument that is structurally
  decreasing; callers pass `size + 1`.  Running out of fuel is the explicit outcome `Res.fuel`
  ("the loop ran more often than the buffer has bytes" = the C++ would not terminate / not make progress).
* Everything table-like comes from `Generated/NinjaLexerTables.lean` through `Cfg`: keyword table with its
  switch and memcmp lengths, identifier character ranges, whether `peekNextChar` / `getNextChar` widen a
  signed `char` (sign extension), and the form of the two bounds guards of the `$` look-ahead.
  `genCfg` is the code as it is now; `legacyCfg` is the code before the repairs F5/F6/F13 (kept for the
  witnesses in Props/).
* `line` / `column` are `unsigned` in the C++; here `Nat` (buffers below 4 GiB).
-/
import LLBuild.Model.Bytes
import LLBuild.Generated.NinjaLexerTables

namespace LLBuild.NinjaLexer
open LLBuild.Generated.NinjaLexer (Kind KwEntry Guard)

/-- Outcome of running a piece of the lexer. -/
inductive Res (α : Type) where
  | ok (a : α)
  | oob (index : Nat)   -- a read at `index`, outside `[0, size)`
  | fuel                -- a loop did not finish within `size + 1` iterations
  deriving Repr, DecidableEq

namespace Res
def bind {α β : Type} : Res α → (α → Res β) → Res β
  | .ok a, f => f a
  | .oob i, _ => .oob i
  | .fuel, _ => .fuel
instance : Monad Res where
  pure := .ok
  bind := Res.bind
end Res

inductive LexMode where
  | none | identifierSpecific | pathString | variableString
  deriving DecidableEq, Repr

structure Cfg where
  peekSignExt : Bool
  getSignExt : Bool
  guardLF : Guard
  guardCRLF : Guard
  keywords : List KwEntry
  fallback : Kind
  identRanges : List (UInt8 × UInt8)

/-- the code as extracted from the working tree -/
def genCfg : Cfg where
  peekSignExt := Generated.NinjaLexer.peekSignExtends
  getSignExt := Generated.NinjaLexer.getSignExtends
  guardLF := Generated.NinjaLexer.dollarGuardLF
  guardCRLF := Generated.NinjaLexer.dollarGuardCRLF
  keywords := Generated.NinjaLexer.keywordTable
  fallback := Generated.NinjaLexer.fallbackKind
  identRanges := Generated.NinjaLexer.identifierCharRanges

/-- the code before the repairs: sign-extending `char`, pointer-inequality guards, `memcmp(.., 7)` for `subninja` -/
def legacyCfg : Cfg where
  peekSignExt := true
  getSignExt := true
  guardLF := .ptrNe 1
  guardCRLF := .ptrNe 2
  keywords := Generated.NinjaLexer.keywordTable.map fun e =>
    if e.kind = .KWSubninja then { e with memcmpLen := 7 } else e
  fallback := Generated.NinjaLexer.fallbackKind
  identRanges := Generated.NinjaLexer.identifierCharRanges

/-- lexer cursor: `bufferPos - buffer.data()`, `lineNumber`, `columnNumber` -/
structure St where
  pos : Nat
  line : Nat
  col : Nat
  deriving Repr, DecidableEq

structure Token where
  kind : Kind
  start : Nat
  len : Nat
  line : Nat
  col : Nat
  deriving Repr, DecidableEq

/-- the only way buffer memory is read -/
def rd (buf : Bytes) (i : Nat) : Res UInt8 :=
  match buf[i]? with
  | some b => .ok b
  | none => .oob i

/-- conversion of the fetched character to `int`: sign-extending when the value is a signed `char` -/
def widen (signExt : Bool) (b : UInt8) : Int :=
  if signExt && decide (128 ≤ b.toNat) then (b.toNat : Int) - 256 else (b.toNat : Int)

/-- `int Lexer::peekNextChar()` -/
def peekNextChar (cfg : Cfg) (buf : Bytes) (s : St) : Res Int :=
  if s.pos = buf.length then .ok (-1)
  else do
    let b ← rd buf s.pos
    pure (widen cfg.peekSignExt b)

/-- `int Lexer::getNextChar()`: folds "\r\n" / "\n\r" / "\r" into '\n' and maintains line/column -/
def getNextChar (cfg : Cfg) (buf : Bytes) (s : St) : Res (Int × St) :=
  if s.pos = buf.length then .ok (-1, s)
  else do
    let b ← rd buf s.pos
    let p1 := s.pos + 1
    if b = 10 ∨ b = 13 then do
      let p2 ← (if p1 = buf.length then (pure p1 : Res Nat) else do
        let b2 ← rd buf p1
        pure (if b2.toNat = 23 - b.toNat then p1 + 1 else p1))
      pure (10, { pos := p2, line := s.line + 1, col := 0 })
    else
      pure (widen cfg.getSignExt b, { pos := p1, line := s.line, col := s.col + 1 })

/-- libc `isspace` in the "C" locale for an `int` argument (−1 = EOF and, on glibc, negative values: false) -/
def isspaceC (c : Int) : Bool := decide (c = 32 ∨ (9 ≤ c ∧ c ≤ 13))

/-- `static bool isNonNewlineSpace(int c)` -/
def isNonNewlineSpace (c : Int) : Bool := isspaceC c && decide (c ≠ 10) && decide (c ≠ 13)

/-- implicit `int → char` conversion at the call `isIdentifierChar(peekNextChar())` -/
def lowByte (c : Int) : UInt8 := UInt8.ofNat (c % 256).toNat

def inRanges (rs : List (UInt8 × UInt8)) (b : UInt8) : Bool := rs.any fun r => decide (r.1 ≤ b) && decide (b ≤ r.2)

/-- `Lexer::isIdentifierChar(char)` applied to an `int` -/
def isIdentifierChar (cfg : Cfg) (c : Int) : Bool := inRanges cfg.identRanges (lowByte c)

def guardHolds (g : Guard) (size pos : Nat) : Bool :=
  match g with
  | .ptrNe k => decide (pos + k ≠ size)
  | .distGt k => decide (size - pos > k)

/-- `Lexer::skipToEndOfLine()` -/
def skipToEndOfLine (cfg : Cfg) (buf : Bytes) : Nat → St → Res St
  | 0, _ => .fuel
  | fuel + 1, s => do
    let c ← peekNextChar cfg buf s
    if c = -1 ∨ c = 10 ∨ c = 13 then pure s
    else do
      let r ← getNextChar cfg buf s
      skipToEndOfLine cfg buf fuel r.2

/-- `buf[start, start+len)` -/
def slice (buf : Bytes) (start len : Nat) : Bytes := (buf.drop start).take len

/-- `memcmp(lit, result.start, n) == 0`; all `n` bytes at `start` are (potentially) read -/
def memcmpEq (buf : Bytes) (start : Nat) (lit : Bytes) (n : Nat) : Res Bool :=
  if start + n > buf.length then .oob buf.length
  else .ok (slice buf start n == lit.take n)

/-- the `switch (length)` of `Lexer::setIdentifierTokenKind`, entries in source order -/
def kwLookup (buf : Bytes) (start len : Nat) : List KwEntry → Res (Option Kind)
  | [] => .ok none
  | e :: rest =>
    if len = e.switchLen then do
      let eq ← memcmpEq buf start e.literal e.memcmpLen
      if eq then pure (some e.kind) else kwLookup buf start len rest
    else kwLookup buf start len rest

/-- `setTokenKind`: the token starts where `t0` says and ends at the cursor -/
def mkTok (k : Kind) (t0 s : St) : Token :=
  { kind := k, start := t0.pos, len := s.pos - t0.pos, line := t0.line, col := t0.col }

/-- `while (isIdentifierChar(peekNextChar())) getNextChar();` -/
def identLoop (cfg : Cfg) (buf : Bytes) : Nat → St → Res St
  | 0, _ => .fuel
  | fuel + 1, s => do
    let c ← peekNextChar cfg buf s
    if isIdentifierChar cfg c then do
      let r ← getNextChar cfg buf s
      identLoop cfg buf fuel r.2
    else pure s

/-- `while (isNonNewlineSpace(peekNextChar())) getNextChar();` -/
def spaceLoop (cfg : Cfg) (buf : Bytes) : Nat → St → Res St
  | 0, _ => .fuel
  | fuel + 1, s => do
    let c ← peekNextChar cfg buf s
    if isNonNewlineSpace c then do
      let r ← getNextChar cfg buf s
      spaceLoop cfg buf fuel r.2
    else pure s

/-- the loop of `Lexer::lexPathString` -/
def pathLoop (cfg : Cfg) (buf : Bytes) : Nat → St → Res St
  | 0, _ => .fuel
  | fuel + 1, s => do
    let c ← peekNextChar cfg buf s
    if c = 36 then do
      let r1 ← getNextChar cfg buf s
      let r2 ← getNextChar cfg buf r1.2
      let s3 ← (if r2.1 = 10 then spaceLoop cfg buf (buf.length + 1) r2.2 else pure r2.2)
      pathLoop cfg buf fuel s3
    else if isspaceC c ∨ c = 58 ∨ c = 124 ∨ c = -1 then pure s
    else do
      let r ← getNextChar cfg buf s
      pathLoop cfg buf fuel r.2

/-- the loop of `Lexer::lexVariableString` -/
def varLoop (cfg : Cfg) (buf : Bytes) : Nat → St → Res St
  | 0, _ => .fuel
  | fuel + 1, s => do
    let c ← peekNextChar cfg buf s
    if c = 36 then do
      let r1 ← getNextChar cfg buf s
      let r2 ← getNextChar cfg buf r1.2
      varLoop cfg buf fuel r2.2
    else if c = 10 ∨ c = -1 ∨ c = 13 then pure s
    else do
      let r ← getNextChar cfg buf s
      varLoop cfg buf fuel r.2

/-- the condition `(g1 && bufferPos[1] == '\n') || (g2 && bufferPos[1] == '\r' && bufferPos[2] == '\n')` -/
def isNewlineEscape (cfg : Cfg) (buf : Bytes) (s : St) : Res Bool := do
  let a ← (if guardHolds cfg.guardLF buf.length s.pos then do
      let b ← rd buf (s.pos + 1)
      pure (b == 10)
    else (pure false : Res Bool))
  if a then pure true
  else if guardHolds cfg.guardCRLF buf.length s.pos then do
    let b1 ← rd buf (s.pos + 1)
    if b1 = 13 then do
      let b2 ← rd buf (s.pos + 2)
      pure (b2 == 10)
    else pure false
  else pure false

/-- the `while (true)` of `Lexer::lex` that consumes leading whitespace and `$`-newline continuations;
`c` is the C++ local `c` (always the result of `peekNextChar()` at the cursor) -/
def triviaLoop (cfg : Cfg) (buf : Bytes) : Nat → Int → St → Res (Int × St)
  | 0, _, _ => .fuel
  | fuel + 1, c, s =>
    if c = 36 ∧ s.col ≠ 0 then do
      let esc ← isNewlineEscape cfg buf s
      if esc then do
        let r1 ← getNextChar cfg buf s
        let r2 ← getNextChar cfg buf r1.2
        let c' ← peekNextChar cfg buf r2.2
        triviaLoop cfg buf fuel c' r2.2
      else pure (c, s)
    else if isNonNewlineSpace c then do
      let r1 ← getNextChar cfg buf s
      let c' ← peekNextChar cfg buf r1.2
      triviaLoop cfg buf fuel c' r1.2
    else pure (c, s)

/-- `lexIdentifier` + `setIdentifierTokenKind`, entered after the first character was consumed -/
def lexIdentifier (cfg : Cfg) (buf : Bytes) (mode : LexMode) (s0 s1 : St) : Res (Token × St) := do
  let s2 ← identLoop cfg buf (buf.length + 1) s1
  if mode = .identifierSpecific then pure (mkTok .Identifier s0 s2, s2)
  else do
    let k ← kwLookup buf s0.pos (s2.pos - s0.pos) cfg.keywords
    pure (mkTok (k.getD cfg.fallback) s0 s2, s2)

/-- the tail of `Lexer::lex`: `getNextChar(); switch (c) { ... }` -/
def lexRegular (cfg : Cfg) (buf : Bytes) (mode : LexMode) (c : Int) (s0 : St) : Res (Token × St) := do
  let r ← getNextChar cfg buf s0
  let s1 := r.2
  if c = 58 then pure (mkTok .Colon s0 s1, s1)
  else if c = 61 then pure (mkTok .Equals s0 s1, s1)
  else if c = 35 then do
    let s2 ← skipToEndOfLine cfg buf (buf.length + 1) s1
    pure (mkTok .Comment s0 s2, s2)
  else if c = 124 then do
    let c2 ← peekNextChar cfg buf s1
    if c2 = 124 then do
      let r2 ← getNextChar cfg buf s1
      pure (mkTok .PipePipe s0 r2.2, r2.2)
    else pure (mkTok .Pipe s0 s1, s1)
  else if isIdentifierChar cfg c then lexIdentifier cfg buf mode s0 s1
  else pure (mkTok .Unknown s0 s1, s1)

/-- `Lexer::lex` from "Initialize the token position" on; `c` = character at the cursor `s0` -/
def lexToken (cfg : Cfg) (buf : Bytes) (mode : LexMode) (c : Int) (s0 : St) : Res (Token × St) :=
  if c = 10 ∨ c = 13 then do
    let r ← getNextChar cfg buf s0
    pure (mkTok .Newline s0 r.2, r.2)
  else if c = -1 then pure (mkTok .EndOfFile s0 s0, s0)
  else if mode = .variableString then do
    let s1 ← varLoop cfg buf (buf.length + 1) s0
    pure (mkTok .String s0 s1, s1)
  else if mode = .pathString ∧ c ≠ 58 ∧ c ≠ 124 then do
    let s1 ← pathLoop cfg buf (buf.length + 1) s0
    pure (mkTok .String s0 s1, s1)
  else lexRegular cfg buf mode c s0

/-- `Token& Lexer::lex(Token&)` in mode `mode` from cursor `s` -/
def lex (cfg : Cfg) (buf : Bytes) (mode : LexMode) (s : St) : Res (Token × St) := do
  let c ← peekNextChar cfg buf s
  if isNonNewlineSpace c ∧ s.col = 0 then do
    let r ← getNextChar cfg buf s
    let s2 ← spaceLoop cfg buf (buf.length + 1) r.2
    pure (mkTok .Indentation s s2, s2)
  else do
    let r ← triviaLoop cfg buf (buf.length + 1) c s
    lexToken cfg buf mode r.1 r.2

/-- a fresh `Lexer(buffer)` -/
def initSt : St := { pos := 0, line := 1, col := 0 }

/-- call `lex` until it returns `EndOfFile`; token number `i` is lexed in mode `modeAt i` -/
def lexAllLoop (cfg : Cfg) (buf : Bytes) (modeAt : Nat → LexMode) : Nat → Nat → St → Res (List Token)
  | 0, _, _ => .fuel
  | fuel + 1, i, s => do
    let r ← lex cfg buf (modeAt i) s
    if r.1.kind = .EndOfFile then pure [r.1]
    else do
      let rest ← lexAllLoop cfg buf modeAt fuel (i + 1) r.2
      pure (r.1 :: rest)

def lexAll (cfg : Cfg) (buf : Bytes) (modeAt : Nat → LexMode) : Res (List Token) :=
  lexAllLoop cfg buf modeAt (buf.length + 1) 0 initSt

/-- mode of token `i` when the modes cycle through the list `ms` (harness convention) -/
def cycle (ms : List LexMode) (i : Nat) : LexMode := ms.getD (i % ms.length) .none

end LLBuild.NinjaLexer
