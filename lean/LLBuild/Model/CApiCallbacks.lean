/-
C20 — callback direction (engine → client).  What `products/libllbuild/include/llbuild/core.h` DOCUMENTS for every
callback of `llb_rule_t`, `llb_buildengine_delegate_t` and `llb_task_delegate_t`, written by hand from the header's
comments in the vocabulary of the generated callback table (`LLBuild/Generated/CApiCallbacks.lean`, regenerated from
Core-C-API.cpp by clang's AST on every run), plus the semantics of the shapes (what the client receives).
CORE LEAN ONLY.
-/
import LLBuild.Model.CApi
import LLBuild.Generated.CApiCallbacks

namespace LLBuild.CApi
open LLBuild.Generated.CApiCallbacks

/-- a documented call: which callback, with which arguments in which order, and what becomes of its result -/
structure DocSite where
  callback : Callback
  args : List CbArg
  ret : Ret
  deriving DecidableEq, Repr

def Site.toDoc (s : Site) : DocSite := ⟨s.callback, s.args, s.ret⟩

/-- The documented client calls of each C++ virtual the binding overrides (method parameters 0-based, as declared in
include/llbuild/Core/BuildEngine.h; the C++ virtual on the left is the event a C++ client observes, the callback on the
right what a C client must observe for it).  Each row quotes core.h.

`llb_rule_t` — "Rule representation."
* `Rule::createTask(engine)` → `create_task(context, engine_context)` — "The callback to create a task for computing
  this rule.  Xparam context The task context pointer.  Xparam engine_context The context pointer for the engine
  delegate."  `context` is the struct's own "User context pointer."; the returned `llb_task_t*` ("Opaque handle to an
  executing task", made by `llb_task_create`) is the task: returned as the `Task*`.
* `Rule::isResultValid(engine, value)` → `is_result_valid(context, engine_context, rule, result)` — "The callback to
  check if a previously computed result is still valid.  Xparam context ...  Xparam engine_context ...  Xparam rule The
  rule under consideration.  Xparam result The previously computed result for the rule."  The client's answer is the
  answer.
* `Rule::updateStatus(engine, status)` → `update_status(context, engine_context, kind)` — "Called to indicate a change
  in the rule status."

`llb_buildengine_delegate_t` — "Delegate structure for callbacks required by the build engine."
* destructor → `destroy_context(context)` — "Callback for releasing the user context, called on engine destruction."
* `lookupRule(key)` → `lookup_rule(context, key, rule_out)` — "Callback for resolving keys to the rule that should be
  used to compute them.  Xparam context The user context pointer.  Xparam key The key being looked up.  Xparam rule_out
  [out] On return, the rule to use to build the given key."
* `cycleDetected(items)` → `cycle_detected(context, keys, key_count)` — "Callback for cycles detected by the build
  engine.  Xparam context The user context pointer.  Xparam keys The ordered list of keys for rules comprising the
  cycle, starting from the rule which was requested to build and ending with the first rule in the cycle (i.e., the
  rule participating in the cycle will appear twice).  Xparam key_count The number of keys involved in the cycle."
* `error(message)` → `error(context, message)` — "Callback for fatal errors the build engine encounters.  Xparam context
  The user context pointer.  Xparam message Error message."  (`const char*`: a C string.)
* the `basic::ExecutionQueueDelegate` notifications and `createExecutionQueue` have no counterpart in core.h: no call.

`llb_task_delegate_t` — "Delegate structure for callbacks required by a task."
* destructor → `destroy_context(context)` — "Callback for releasing the user context, called on task destruction."
* `Task::start(ti)` → `start(context, engine_context, ti)` — "The callback indicating the task has been started.  Xparam
  context The task context pointer.  Xparam engine_context The context pointer for the engine delegate.  Xparam task The
  task which is being started."
* `Task::provideValue(ti, inputID, key, value)` → `provide_value(context, engine_context, ti, input_id, value)` — "The
  callback to provide a requested input value to the task." and, at `llb_buildengine_task_needs_input`: "The result,
  when available, will be provided to the task via Task::provideValue(), supplying the provided InputID to allow the
  task to identify the particular input."  The callback has no key parameter: `key` is the one C++ argument with no C
  slot.
* `Task::inputsAvailable(ti)` → `inputs_available(context, engine_context, ti)` — "The callback indicating that all
  requested inputs have been provided." -/
def documentedCallback : Method → List DocSite
  | .CAPIRule_createTask => [⟨.rule_create_task, [.ownContext, .engineContext], .castPtr⟩]
  | .CAPIRule_isResultValid => [⟨.rule_is_result_valid, [.ownContext, .engineContext, .ownRule, .blobOf 1], .passThrough⟩]
  | .CAPIRule_updateStatus => [⟨.rule_update_status, [.ownContext, .engineContext, .statusOf 1], .void⟩]
  | .CAPIBuildEngineDelegate_dtor => [⟨.engine_destroy_context, [.ownContext], .void⟩]
  | .CAPIBuildEngineDelegate_lookupRule => [⟨.engine_lookup_rule, [.ownContext, .blobOf 0, .newRuleOut 0], .void⟩]
  | .CAPIBuildEngineDelegate_cycleDetected => [⟨.engine_cycle_detected, [.ownContext, .arrayData, .arrayCount], .void⟩]
  | .CAPIBuildEngineDelegate_error => [⟨.engine_error, [.ownContext, .cstrOf 0], .void⟩]
  | .CAPIBuildEngineDelegate_processStarted => []
  | .CAPIBuildEngineDelegate_processHadError => []
  | .CAPIBuildEngineDelegate_processHadOutput => []
  | .CAPIBuildEngineDelegate_processFinished => []
  | .CAPIBuildEngineDelegate_queueJobStarted => []
  | .CAPIBuildEngineDelegate_queueJobFinished => []
  | .CAPIBuildEngineDelegate_createExecutionQueue => []
  | .CAPITask_dtor => [⟨.task_destroy_context, [.ownContext], .void⟩]
  | .CAPITask_start => [⟨.task_start, [.ownContext, .engineContext, .taskInterface 0], .void⟩]
  | .CAPITask_provideValue => [⟨.task_provide_value, [.ownContext, .engineContext, .taskInterface 0, .param 1, .blobOf 3], .void⟩]
  | .CAPITask_inputsAvailable => [⟨.task_inputs_available, [.ownContext, .engineContext, .taskInterface 0], .void⟩]

/-- C++ parameters of a calling method that have no slot in the C callback (documented reason):
`BuildEngine&` of the three Rule virtuals (the C client gets `engine_context` instead: "The context pointer for the engine
delegate."), and `key` of `Task::provideValue` (`provide_value(context, engine_context, ti, input_id, value)` has no key
parameter).  Only consulted for methods that call the client. -/
def documentedUnused : Method → List Nat
  | .CAPIRule_createTask => [0]
  | .CAPIRule_isResultValid => [0]
  | .CAPIRule_updateStatus => [0]
  | .CAPITask_provideValue => [2]
  | _ => []

/-- What the result of each callback is for (core.h): `create_task` returns the task ("llb_task_t* (*create_task)":
the handle IS the task, one pointer cast); `is_result_valid` returns the verdict ("check if a previously computed result
is still valid": passed through as it is); every other callback returns void. -/
def documentedRet : Callback → Ret
  | .rule_create_task => .castPtr
  | .rule_is_result_valid => .passThrough
  | _ => .void

/-- Which callbacks may be left null, and what the binding does then (`none` = required, called unconditionally).

core.h itself never says which fields may be NULL.  Required: the two delegates are "callbacks required by the build
engine" / "callbacks required by a task" (`lookup_rule`, `error`, `cycle_detected`; `start`, `provide_value`,
`inputs_available`; Core-C-API.cpp asserts "missing task start function", …) and `create_task` ("client failed to
initialize rule").  Optional, with the default of the C++ interface / of the first-party Swift binding over this very
API (products/llbuildSwift/CoreBindings.swift, "Protocol extension for default Rule methods"):
* `is_result_valid` absent ⇒ the result is valid — `func isResultValid(_ priorValue: Value) -> Bool { return true }`;
* `update_status` absent ⇒ nothing — `func updateStatus(_ status: RuleStatus) { }`, C++ `void Rule::updateStatus(BuildEngine&, StatusKind) {}`;
* `destroy_context` (both structs) absent ⇒ nothing to release — "Callback for releasing the user context". -/
def documentedOptional : Callback → Option Fallback
  | .rule_is_result_valid => some .returnTrue
  | .rule_update_status => some .returnVoid
  | .engine_destroy_context => some .skip
  | .task_destroy_context => some .skip
  | _ => none

def documentedGuard (cb : Callback) : Guard :=
  match documentedOptional cb with
  | none => .unguarded
  | some fb => .ifNull cb fb

/-- The documented status mapping: the two enums carry the same three sentences.
* "Indicates the rule is being scanned." — `Rule::StatusKind::IsScanning` / `llb_rule_is_scanning`
* "Indicates the rule is up-to-date, and doesn't need to run." — `IsUpToDate` / `llb_rule_is_up_to_date`
* "Indicates the rule was run, and is now complete." — `IsComplete` / `llb_rule_is_complete` -/
def documentedStatus : EngineStatus → CStatus
  | .IsScanning => .llb_rule_is_scanning
  | .IsUpToDate => .llb_rule_is_up_to_date
  | .IsComplete => .llb_rule_is_complete

/-- "Xparam keys The ordered list of keys for rules comprising the cycle, starting from the rule which was requested to
build and ending with the first rule in the cycle" — the same sentence as `BuildEngineDelegate::cycleDetected`'s
"\param items The ordered list of items comprising the cycle, starting from the node which was requested to build and
ending with the first node in the cycle": the engine's order, one key blob per item, from parameter 0. -/
def documentedCycleArray : ArrayShape :=
  ⟨some .CAPIBuildEngineDelegate_cycleDetected, some 0, .forward, true⟩

/-! ### semantics of the shapes: what the client (resp. the engine) receives -/

/-- which method parameter a blob-shaped callback argument is made from -/
def CbArg.blobSource : CbArg → Option Nat
  | .blobOf i => some i
  | _ => none

def CbArg.isBlob : CbArg → Bool
  | .blobOf _ => true
  | .blobBad => true
  | _ => false

/-- The bytes the client finds behind a `const llb_data_t*` argument, given the bytes of each C++ parameter
(`env i` = the `size()` bytes at `data()` of parameter i; NUL is an ordinary byte).  A blob of any other shape is not
known to deliver them. -/
def CbArg.deliver (env : Nat → Bytes) : CbArg → Option Bytes
  | .blobOf i => some (env i)
  | _ => none

/-- What the engine receives when the client's `is_result_valid` answers `b`. -/
def Ret.verdict : Ret → Bool → Option Bool
  | .passThrough, b => some b
  | .negated, b => some (!b)
  | _, _ => none

/-- The keys the client receives for the engine's cycle `keys` (the `key` of each item, in the engine's order). -/
def ArrayShape.deliver (a : ArrayShape) (keys : List Bytes) : Option (List Bytes) :=
  if a.elemIsKeyBlob then
    match a.order with
    | .forward => some keys
    | .reversed => some keys.reverse
    | .other => none
  else none

/-- What happens on an execution of the method when the callback is / is not set: is the client called? -/
def Guard.calls : Guard → (isSet : Bool) → Option Bool
  | .unguarded, _ => some true
  | .ifNull _ _, isSet => some isSet
  | .other, _ => none

/-- number of blob-shaped arguments of a site list -/
def blobArgs (l : List Site) : Nat := (l.map (fun s => (s.args.filter CbArg.isBlob).length)).sum

end LLBuild.CApi
