/-
C16 (b) model: process accounting (lib/Basic/Subprocess.cpp, executeProcess of the queues,
include/llbuild/Basic/POSIXEnvironment.h).  CORE LEAN ONLY.

  * `classify`   — the status-classification expression of `cleanUpExecutedProcess`; the signal set,
                    the success test and the three statuses come from `Generated.ProcStatus` (extracted)
  * `spawnTrace` — the control-flow paths of `spawnProcess` / `cleanUpExecutedProcess` (POSIX,
                    HAVE_POSIX_SPAWN) as the sequence of delegate / completion / process-group events;
                    one `World` field per decision the environment makes.  Derived by hand from the
                    token sequence `expectedSpawnShape` / `expectedCleanupShape`; the extractor
                    regenerates that sequence from the preprocessed source and `Props/C16.lean` asserts
                    they are equal (fail closed).
  * `executeProcess` — the cancelled-before-spawn path of the queues
  * `Group`      — the two mutex-protected steps of `ProcessGroup` racing `cancelAllJobs`
  * `assemble`   — environment assembly by `setIfMissing` in the extracted order
-/
import LLBuild.Model.Bytes
import LLBuild.Generated.ProcStatus
import LLBuild.Generated.LaneQueue

namespace LLBuild.ProcStatus
open LLBuild.Generated.ProcStatus (Status Tok)
open LLBuild.Generated.LaneQueue (EnvSource)

/-! ### wait statuses (glibc `bits/waitstatus.h`; the extractor checks this arithmetic against the C
library's macros on every 16-bit status) -/

def wTermSig (s : Nat) : Nat := s % 128
def wIfSignaled (s : Nat) : Bool := s % 128 != 0 && s % 128 != 127
def wIfExited (s : Nat) : Bool := s % 128 == 0
def wExitStatus (s : Nat) : Nat := s / 256 % 256

/-- `bool cancelled = WIFSIGNALED(exitCode) && (WTERMSIG(exitCode) == SIGINT || ...);`
    `cancelled ? Cancelled : (exitCode == 0) ? Succeeded : Failed` — on the RAW wait status -/
def classify (s : Nat) : Status :=
  let cancelled := (if Generated.ProcStatus.cancelRequiresSignaled then wIfSignaled s else true) &&
                   Generated.ProcStatus.cancelSignals.contains (wTermSig s)
  if cancelled then Generated.ProcStatus.statusIfCancelled
  else if s == Generated.ProcStatus.successRawStatus then Generated.ProcStatus.statusIfSuccessTest
  else Generated.ProcStatus.statusOtherwise

/-- what really happened to the child (wait4 with options 0 reports only these two) -/
inductive Fate
  | exited (code : Nat)
  | signaled (sig : Nat) (core : Bool)
  deriving DecidableEq, Repr

def Fate.valid : Fate → Prop
  | .exited c => c < 256
  | .signaled s _ => 1 ≤ s ∧ s ≤ 126

/-- the kernel's encoding of the fate into the wait status -/
def encode : Fate → Nat
  | .exited c => c * 256
  | .signaled s core => s + (if core then 128 else 0)

/-! ### control-flow paths of spawnProcess -/

inductive Ev
  | started (pidValid : Bool)
  | error
  | output
  | finished (st : Status)
  | completion (st : Status)
  | groupAdd
  | groupRemove
  | released
  deriving DecidableEq, Repr

/-- one field per decision point whose outcome the environment determines -/
structure World where
  noArgs : Bool            -- commandLine.size() == 0
  closed : Bool            -- pgrp.isClosed() read under pgrp.mutex
  pipeFail : Bool          -- createCommunicationPipes failed
  chdirUnsupported : Bool  -- working directory requested, no posix_spawn chdir support
  spawnFail : Bool         -- posix_spawn(...) != 0
  chunks : Nat             -- number of non-empty reads of the output pipe before EOF
  pollFail : Bool          -- poll() fails with an errno other than EAGAIN / EINTR
  release : Bool           -- the control channel asked for the lane to be released
  chunksAfterRelease : Nat
  waitFail : Bool          -- wait4 == -1
  status : Nat             -- the wait status
  deriving Repr

/-- `cleanUpExecutedProcess` (POSIX) -/
def cleanUp (w : World) : List Ev :=
  [.groupRemove] ++
  (if w.waitFail then [.error, .finished .failed, .completion .failed]
   else [.finished (classify w.status), .completion (classify w.status)])

def expectedCleanupShape : List Tok :=
  [.wait, .loop, .wait, .groupRemove, .error, .finished, .completion, .ret, .finished, .completion]

/-- `spawnProcess`; `pollAborts` = a poll failure returns without reaping (the code before fix F161) -/
def spawnTraceWith (pollAborts : Bool) (w : World) : List Ev :=
  if w.noArgs then [.started false, .error, .finished .failed, .completion .failed]
  else if w.closed then [.completion .cancelled]                     -- wasCancelled: break; makeCancelled
  else if w.pipeFail then [.started false, .error, .finished .failed, .completion .failed]
  else if w.chdirUnsupported || w.spawnFail then
    [.started false, .error, .finished .failed, .completion .failed]  -- pid = -1; makeFailed after the block
  else
    [.started true, .groupAdd] ++ List.replicate w.chunks .output ++
    (if w.pollFail then
      [.error] ++ (if pollAborts then [] else cleanUp w)
     else if w.release then
      [.released] ++ List.replicate w.chunksAfterRelease .output ++ cleanUp w   -- processWait(): capture + cleanUp
     else cleanUp w)

def expectedSpawnShape : List Tok :=
  [.started, .error, .finished, .completion, .ret, .cont, .doBlock, .lockGroup, .isClosed, .brk,
   .started, .error, .finished, .completion, .ret, .spawn, .started, .error, .finished, .groupAdd,
   .completion, .ret, .output, .ret, .error, .ret, .loop, .loop, .poll, .cont, .error, .brk, .brk,
   .error, .cont, .shouldRelease, .release, .moveCompletion, .capture, .cleanup, .moveCompletion, .ret,
   .cleanup, .moveCompletion]

/-- the code as it is now -/
def spawnTrace (w : World) : List Ev := spawnTraceWith Generated.ProcStatus.pollFailureAborts w

def completions (t : List Ev) : List Status := t.filterMap (fun | .completion st => some st | _ => none)
def startedCount (t : List Ev) : Nat := (t.filter (fun | .started _ => true | _ => false)).length
def finishedCount (t : List Ev) : Nat := (t.filter (fun | .finished _ => true | _ => false)).length
def spawned (t : List Ev) : Bool := t.contains .groupAdd

/-- `LaneBasedExecutionQueue::executeProcess` / `SerialExecutionQueue::executeProcess` (a completion
function is supplied): the `cancelled` flag is read first, under the queue's mutex -/
def executeProcess (queueCancelled : Bool) (w : World) : List Ev :=
  if queueCancelled then [.completion .cancelled] else spawnTrace w

/-! ### ProcessGroup vs cancelAllJobs: the mutex-protected steps -/
namespace Group

inductive Phase
  | start                   -- executeProcess entered
  | checked                 -- `cancelled` was false under readyJobsMutex
  | running (pid : Nat)     -- spawned and registered under pgrp.mutex
  | done (st : Status) (everSpawned : Bool)
  deriving DecidableEq, Repr

structure State where
  cancelled : Bool                 -- queue.cancelled
  closed : Bool                    -- pgrp.closed
  procs : List (Nat × Bool)        -- pgrp.processes: pid ↦ canSafelyInterrupt
  launches : List Phase
  intSent : List Nat               -- pids that were sent the interrupt signal
  killSent : List Nat
  intDone : Bool                   -- signalAll(SIGINT) of cancelAllJobs has run
  killDone : Bool                  -- signalAll(SIGKILL) of killAfterTimeout has run
  nextPid : Nat
  /-- ghost: for every posix_spawn, whether the group was closed at that moment -/
  spawnLog : List (Nat × Bool)
  deriving Repr

def init (n : Nat) : State :=
  { cancelled := false, closed := false, procs := [], launches := List.replicate n .start, intSent := [], killSent := [],
    intDone := false, killDone := false, nextPid := 1, spawnLog := [] }

inductive Act
  | newLaunch                                -- another job calls executeProcess
  | check (t : Nat)                          -- { lock(readyJobsMutex); if (cancelled) {complete Cancelled; return;} }
  | spawnCS (t : Nat) (safe ok : Bool)       -- { lock(pgrp.mutex); wasCancelled = isClosed(); ... posix_spawn; pgrp.add }
  | reap (t : Nat) (st : Status)             -- wait4; pgrp.remove(pid); completion
  | cancelCS                                 -- { lock both; if (cancelled) return; cancelled = true; close(); }
  | signalInt                                -- spawnedProcesses.signalAll(SIGINT)
  | signalKill                               -- killAfterTimeout: signalAll(SIGKILL)
  deriving Repr

def step (s : State) : Act → Option State
  | .newLaunch => some { s with launches := s.launches ++ [.start] }
  | .check t =>
    if s.launches[t]? = some .start then
      if s.cancelled then some { s with launches := s.launches.set t (.done .cancelled false) }
      else some { s with launches := s.launches.set t .checked }
    else none
  | .spawnCS t safe ok =>
    if s.launches[t]? = some .checked then
      if s.closed then some { s with launches := s.launches.set t (.done .cancelled false) }
      else if ok then
        some { s with launches := s.launches.set t (.running s.nextPid), procs := (s.nextPid, safe) :: s.procs,
                      nextPid := s.nextPid + 1, spawnLog := (s.nextPid, s.closed) :: s.spawnLog }
      else some { s with launches := s.launches.set t (.done .failed false) }
    else none
  | .reap t st =>
    match s.launches[t]? with
    | some (.running pid) =>
      some { s with launches := s.launches.set t (.done st true), procs := s.procs.filter (fun p => p.1 != pid) }
    | _ => none
  | .cancelCS =>
    if s.cancelled then some s else some { s with cancelled := true, closed := true }
  | .signalInt =>
    if s.cancelled && !s.intDone then
      some { s with intDone := true, intSent := (s.procs.filter (fun p => p.2)).map (·.1) ++ s.intSent }
    else none
  | .signalKill =>
    if s.intDone && !s.killDone then
      some { s with killDone := true, killSent := s.procs.map (·.1) ++ s.killSent }
    else none

inductive Reachable (n : Nat) : State → Prop
  | init : Reachable n (init n)
  | step {s s' : State} (a : Act) : Reachable n s → step s a = some s' → Reachable n s'

end Group

/-! ### environment assembly -/

def setIfMissing (env : List (Bytes × Bytes)) (k v : Bytes) : List (Bytes × Bytes) :=
  if env.any (fun e => e.1 == k) then env else env ++ [(k, v)]

def strBytes (s : String) : Bytes := s.toList.map (fun c => c.toNat.toUInt8)

structure EnvIn where
  buildId : Bytes
  laneId : Bytes
  taskId : Bytes
  controlFd : Option Bytes       -- only when a control pipe exists
  requested : List (Bytes × Bytes)
  inherited : List (Bytes × Bytes)   -- the queue's base environment, each entry split at the first '='
  inherit : Bool

def sourceEntries (i : EnvIn) : EnvSource → List (Bytes × Bytes)
  | .buildId => [(strBytes "LLBUILD_BUILD_ID", i.buildId)]
  | .laneId => [(strBytes "LLBUILD_LANE_ID", i.laneId)]
  | .requested => i.requested
  | .inherited => if i.inherit then i.inherited else []
  | .taskId => [(strBytes "LLBUILD_TASK_ID", i.taskId)]
  | .controlFd => match i.controlFd with
    | some fd => [(strBytes "LLBUILD_CONTROL_FD", fd)]
    | none => []

/-- every definition offered, in the order the code offers them (extracted) -/
def offered (i : EnvIn) : List (Bytes × Bytes) := Generated.LaneQueue.envOrder.flatMap (sourceEntries i)

def assembleFrom (l : List (Bytes × Bytes)) : List (Bytes × Bytes) :=
  l.foldl (fun e kv => setIfMissing e kv.1 kv.2) []

/-- the `envp` handed to posix_spawn, in order -/
def assemble (i : EnvIn) : List (Bytes × Bytes) := assembleFrom (offered i)

/-- `StringRef(*p).split('=')` -/
def splitEq (e : Bytes) : Bytes × Bytes :=
  (e.takeWhile (· != 61), (e.dropWhile (· != 61)).drop 1)

end LLBuild.ProcStatus
