/-
C16 (b) model: process accounting (lib/Basic/Subprocess.cpp, executeProcess of the queues,
include/llbuild/Basic/POSIXEnvironment.h).  CORE LEAN ONLY.

  * `classify`   — the status-classification expression of `cleanUpExecutedProcess`; the signal set,
                    the success test and the three statuses come from `Generated.ProcStatus` (extracted)
  * `spawnTrace` — the control-flow paths of `spawnProcess` / `cleanUpExecutedProcess` (POSIX,
                    HAVE_POSIX_SPAWN) as the sequence of delegate / completion / process-group events;
                    one `World` field per decision the environment makes.  Derived by hand from the
                    token sequence `expectedSpawnShape` / `expectedCleanupShape`; the extractor
                    regenerates that sequence from the preprocessed source and `Props/C16.lean` asserts
                    they are equal (fail closed).
  * `executeProcess` — the cancelled-before-spawn path of the queues
  * `Group`      — the two mutex-protected steps of `ProcessGroup` racing `cancelAllJobs`
  * `Esc`        — released lanes, the escalation thread (`killAfterTimeout`) and the destructor's hand-over
                    (`queueComplete`), steps = critical sections of `queueCompleteMutex` / `pgrp.mutex`
  * `assemble`   — environment assembly by `setIfMissing` in the extracted order
-/
import LLBuild.Model.Bytes
import LLBuild.Generated.ProcStatus
import LLBuild.Generated.LaneQueue

namespace LLBuild.ProcStatus
open LLBuild.Generated.ProcStatus (Status Tok)
open LLBuild.Generated.LaneQueue (EnvSource)

/-! ### wait statuses (glibc `bits/waitstatus.h`; the extractor checks this arithmetic against the C
library's macros on every 16-bit status) -/

def wTermSig (s : Nat) : Nat := s % 128
def wIfSignaled (s : Nat) : Bool := s % 128 != 0 && s % 128 != 127
def wIfExited (s : Nat) : Bool := s % 128 == 0
def wExitStatus (s : Nat) : Nat := s / 256 % 256

/-- `bool cancelled = WIFSIGNALED(exitCode) && (WTERMSIG(exitCode) == SIGINT || ...);`
    `cancelled ? Cancelled : (exitCode == 0) ? Succeeded : Failed` — on the RAW wait status -/
def classify (s : Nat) : Status :=
  let cancelled := (if Generated.ProcStatus.cancelRequiresSignaled then wIfSignaled s else true) &&
                   Generated.ProcStatus.cancelSignals.contains (wTermSig s)
  if cancelled then Generated.ProcStatus.statusIfCancelled
  else if s == Generated.ProcStatus.successRawStatus then Generated.ProcStatus.statusIfSuccessTest
  else Generated.ProcStatus.statusOtherwise

/-- what really happened to the child (wait4 with options 0 reports only these two) -/
inductive Fate
  | exited (code : Nat)
  | signaled (sig : Nat) (core : Bool)
  deriving DecidableEq, Repr

def Fate.valid : Fate → Prop
  | .exited c => c < 256
  | .signaled s _ => 1 ≤ s ∧ s ≤ 126

/-- the kernel's encoding of the fate into the wait status -/
def encode : Fate → Nat
  | .exited c => c * 256
  | .signaled s core => s + (if core then 128 else 0)

/-! ### control-flow paths of spawnProcess -/

inductive Ev
  | started (pidValid : Bool)
  | error
  | output
  | finished (st : Status)
  | completion (st : Status)
  | groupAdd
  | groupRemove
  | released
  deriving DecidableEq, Repr

/-- one field per decision point whose outcome the environment determines -/
structure World where
  noArgs : Bool            -- commandLine.size() == 0
  closed : Bool            -- pgrp.isClosed() read under pgrp.mutex
  pipeFail : Bool          -- createCommunicationPipes failed
  chdirUnsupported : Bool  -- working directory requested, no posix_spawn chdir support
  spawnFail : Bool         -- posix_spawn(...) != 0
  chunks : Nat             -- number of non-empty reads of the output pipe before EOF
  pollFail : Bool          -- poll() fails with an errno other than EAGAIN / EINTR
  release : Bool           -- the control channel asked for the lane to be released
  chunksAfterRelease : Nat
  waitFail : Bool          -- wait4 == -1
  status : Nat             -- the wait status
  deriving Repr

/-- `cleanUpExecutedProcess` (POSIX) -/
def cleanUp (w : World) : List Ev :=
  [.groupRemove] ++
  (if w.waitFail then [.error, .finished .failed, .completion .failed]
   else [.finished (classify w.status), .completion (classify w.status)])

def expectedCleanupShape : List Tok :=
  [.wait, .loop, .wait, .groupRemove, .error, .finished, .completion, .ret, .finished, .completion]

/-- `spawnProcess`; `pollAborts` = a poll failure returns without reaping (the code before fix F161) -/
def spawnTraceWith (pollAborts : Bool) (w : World) : List Ev :=
  if w.noArgs then [.started false, .error, .finished .failed, .completion .failed]
  else if w.closed then [.completion .cancelled]                     -- wasCancelled: break; makeCancelled
  else if w.pipeFail then [.started false, .error, .finished .failed, .completion .failed]
  else if w.chdirUnsupported || w.spawnFail then
    [.started false, .error, .finished .failed, .completion .failed]  -- pid = -1; makeFailed after the block
  else
    [.started true, .groupAdd] ++ List.replicate w.chunks .output ++
    (if w.pollFail then
      [.error] ++ (if pollAborts then [] else cleanUp w)
     else if w.release then
      [.released] ++ List.replicate w.chunksAfterRelease .output ++ cleanUp w   -- processWait(): capture + cleanUp
     else cleanUp w)

def expectedSpawnShape : List Tok :=
  [.started, .error, .finished, .completion, .ret, .cont, .doBlock, .lockGroup, .isClosed, .brk,
   .started, .error, .finished, .completion, .ret, .spawn, .started, .error, .finished, .groupAdd,
   .completion, .ret, .output, .ret, .error, .ret, .loop, .loop, .poll, .cont, .error, .brk, .brk,
   .error, .cont, .shouldRelease, .release, .moveCompletion, .capture, .cleanup, .moveCompletion, .ret,
   .cleanup, .moveCompletion]

/-- the code as it is now -/
def spawnTrace (w : World) : List Ev := spawnTraceWith Generated.ProcStatus.pollFailureAborts w

def completions (t : List Ev) : List Status := t.filterMap (fun | .completion st => some st | _ => none)
def startedCount (t : List Ev) : Nat := (t.filter (fun | .started _ => true | _ => false)).length
def finishedCount (t : List Ev) : Nat := (t.filter (fun | .finished _ => true | _ => false)).length
def spawned (t : List Ev) : Bool := t.contains .groupAdd

/-- `LaneBasedExecutionQueue::executeProcess` / `SerialExecutionQueue::executeProcess` (a completion
function is supplied): the `cancelled` flag is read first, under the queue's mutex -/
def executeProcess (queueCancelled : Bool) (w : World) : List Ev :=
  if queueCancelled then [.completion .cancelled] else spawnTrace w

/-! ### ProcessGroup vs cancelAllJobs: the mutex-protected steps -/
namespace Group

inductive Phase
  | start                   -- executeProcess entered
  | checked                 -- `cancelled` was false under readyJobsMutex
  | running (pid : Nat)     -- spawned and registered under pgrp.mutex
  | done (st : Status) (everSpawned : Bool)
  deriving DecidableEq, Repr

structure State where
  cancelled : Bool                 -- queue.cancelled
  closed : Bool                    -- pgrp.closed
  procs : List (Nat × Bool)        -- pgrp.processes: pid ↦ canSafelyInterrupt
  launches : List Phase
  intSent : List Nat               -- pids that were sent the interrupt signal
  killSent : List Nat
  intDone : Bool                   -- signalAll(SIGINT) of cancelAllJobs has run
  killDone : Bool                  -- signalAll(SIGKILL) of killAfterTimeout has run
  nextPid : Nat
  /-- ghost: for every posix_spawn, whether the group was closed at that moment -/
  spawnLog : List (Nat × Bool)
  deriving Repr

def init (n : Nat) : State :=
  { cancelled := false, closed := false, procs := [], launches := List.replicate n .start, intSent := [], killSent := [],
    intDone := false, killDone := false, nextPid := 1, spawnLog := [] }

inductive Act
  | newLaunch                                -- another job calls executeProcess
  | check (t : Nat)                          -- { lock(readyJobsMutex); if (cancelled) {complete Cancelled; return;} }
  | spawnCS (t : Nat) (safe ok : Bool)       -- { lock(pgrp.mutex); wasCancelled = isClosed(); ... posix_spawn; pgrp.add }
  | reap (t : Nat) (st : Status)             -- wait4; pgrp.remove(pid); completion
  | cancelCS                                 -- { lock both; if (cancelled) return; cancelled = true; close(); }
  | signalInt                                -- spawnedProcesses.signalAll(SIGINT)
  | signalKill                               -- killAfterTimeout: signalAll(SIGKILL)
  deriving Repr

def step (s : State) : Act → Option State
  | .newLaunch => some { s with launches := s.launches ++ [.start] }
  | .check t =>
    if s.launches[t]? = some .start then
      if s.cancelled then some { s with launches := s.launches.set t (.done .cancelled false) }
      else some { s with launches := s.launches.set t .checked }
    else none
  | .spawnCS t safe ok =>
    if s.launches[t]? = some .checked then
      if s.closed then some { s with launches := s.launches.set t (.done .cancelled false) }
      else if ok then
        some { s with launches := s.launches.set t (.running s.nextPid), procs := (s.nextPid, safe) :: s.procs,
                      nextPid := s.nextPid + 1, spawnLog := (s.nextPid, s.closed) :: s.spawnLog }
      else some { s with launches := s.launches.set t (.done .failed false) }
    else none
  | .reap t st =>
    match s.launches[t]? with
    | some (.running pid) =>
      some { s with launches := s.launches.set t (.done st true), procs := s.procs.filter (fun p => p.1 != pid) }
    | _ => none
  | .cancelCS =>
    if s.cancelled then some s else some { s with cancelled := true, closed := true }
  | .signalInt =>
    if s.cancelled && !s.intDone then
      some { s with intDone := true, intSent := (s.procs.filter (fun p => p.2)).map (·.1) ++ s.intSent }
    else none
  | .signalKill =>
    if s.intDone && !s.killDone then
      some { s with killDone := true, killSent := s.procs.map (·.1) ++ s.killSent }
    else none

inductive Reachable (n : Nat) : State → Prop
  | init : Reachable n (init n)
  | step {s s' : State} (a : Act) : Reachable n s → step s a = some s' → Reachable n s'

end Group

/-! ### released lanes, the escalation thread and the destructor

`cancelAllJobs` starts a thread running `killAfterTimeout`; the destructor joins the lanes, sets `queueComplete`
under `queueCompleteMutex`, notifies and joins that thread; `~ProcessGroup` then waits until every registered
process was reaped.  A process that released its lane over the control channel stays registered but no longer
keeps a lane busy, so the lanes can be joined while it runs.  Steps are the critical sections; the order of the
SIGINT round against launches is the subject of `Group` and not repeated here. -/
namespace Esc

inductive Thread
  | none                      -- cancelAllJobs has not run
  | created                   -- std::thread constructed; killAfterTimeout has not taken queueCompleteMutex yet
  | waiting                   -- found `!queueComplete`; sits in wait_for (mutex released)
  | finished (killed : Bool)  -- returned; `killed`: it ran signalAll(SIGKILL)
  deriving DecidableEq, Repr

structure State where
  procs : List (Nat × Bool)   -- pgrp.processes: pid ↦ still holds its lane
  nextPid : Nat
  closed : Bool               -- cancelAllJobs ran (group closed, thread started)
  thread : Thread
  lanesJoined : Bool          -- destructor: every lane joined
  queueComplete : Bool
  escJoined : Bool            -- destructor: killAfterTimeoutThread->join() returned
  killSent : List Nat
  /-- ghost: the escalation thread entered its wait, i.e. it took the mutex before the destructor stored `queueComplete` -/
  waited : Bool
  deriving DecidableEq, Repr

def init : State :=
  { procs := [], nextPid := 1, closed := false, thread := .none, lanesJoined := false, queueComplete := false,
    escJoined := false, killSent := [], waited := false }

inductive Act
  | spawn                -- a lane spawns and registers a process (it holds the lane)
  | release (pid : Nat)  -- control message seen: the lane is released, the process stays registered
  | reap (pid : Nat)     -- the process ended (by itself or by a signal): wait4; pgrp.remove
  | cancel               -- cancelAllJobs: close the group, (interrupt round,) start the escalation thread
  | escEnter             -- killAfterTimeout: lock; `if (!queueComplete)`
  | escWake              -- wait_for returned (deadline, notify_all or spuriously); signalAll(SIGKILL)
  | joinLanes            -- destructor: shutdown, join every lane — possible only when no process holds a lane
  | complete             -- destructor: `queueComplete = true; notify_all()` (only when a thread exists)
  | joinEsc              -- destructor: join returns once the thread has finished
  deriving Repr

/-- `fix` = `Generated.LaneQueue.escalatesWhenComplete`: the kill round is also run when the thread finds
`queueComplete` already set -/
def stepWith (fix : Bool) (s : State) : Act → Option State
  | .spawn =>
    if !s.closed && !s.lanesJoined then some { s with procs := (s.nextPid, true) :: s.procs, nextPid := s.nextPid + 1 } else none
  | .release pid =>
    if s.procs.contains (pid, true) then some { s with procs := s.procs.map (fun p => if p.1 == pid then (p.1, false) else p) } else none
  | .reap pid => some { s with procs := s.procs.filter (fun p => p.1 != pid) }
  | .cancel =>
    if !s.closed && !s.lanesJoined then some { s with closed := true, thread := .created } else none
  | .escEnter =>
    if s.thread = .created then
      if s.queueComplete then
        some { s with thread := .finished fix, killSent := if fix then s.procs.map (·.1) ++ s.killSent else s.killSent }
      else some { s with thread := .waiting, waited := true }
    else none
  | .escWake =>
    if s.thread = .waiting then some { s with thread := .finished true, killSent := s.procs.map (·.1) ++ s.killSent } else none
  | .joinLanes =>
    if !s.lanesJoined && s.procs.all (fun p => !p.2) then some { s with lanesJoined := true } else none
  | .complete =>
    if s.lanesJoined && !s.queueComplete && s.thread != .none then some { s with queueComplete := true } else none
  | .joinEsc =>
    match s.thread with
    | .finished _ => if s.queueComplete then some { s with escJoined := true } else none
    | _ => none

/-- the code in the tree -/
def step : State → Act → Option State := stepWith Generated.LaneQueue.escalatesWhenComplete

inductive Reachable (fix : Bool) : State → Prop
  | init : Reachable fix init
  | step {s s' : State} (a : Act) : Reachable fix s → stepWith fix s a = some s' → Reachable fix s'

def run (fix : Bool) (s : State) : List Act → Option State
  | [] => some s
  | a :: as => (stepWith fix s a).bind (fun s' => run fix s' as)

end Esc

/-! ### environment assembly -/

def setIfMissing (env : List (Bytes × Bytes)) (k v : Bytes) : List (Bytes × Bytes) :=
  if env.any (fun e => e.1 == k) then env else env ++ [(k, v)]

def strBytes (s : String) : Bytes := s.toList.map (fun c => c.toNat.toUInt8)

structure EnvIn where
  buildId : Bytes
  laneId : Bytes
  taskId : Bytes
  controlFd : Option Bytes       -- only when a control pipe exists
  requested : List (Bytes × Bytes)
  inherited : List (Bytes × Bytes)   -- the queue's base environment, each entry split at the first '='
  inherit : Bool

def sourceEntries (i : EnvIn) : EnvSource → List (Bytes × Bytes)
  | .buildId => [(strBytes "LLBUILD_BUILD_ID", i.buildId)]
  | .laneId => [(strBytes "LLBUILD_LANE_ID", i.laneId)]
  | .requested => i.requested
  | .inherited => if i.inherit then i.inherited else []
  | .taskId => [(strBytes "LLBUILD_TASK_ID", i.taskId)]
  | .controlFd => match i.controlFd with
    | some fd => [(strBytes "LLBUILD_CONTROL_FD", fd)]
    | none => []

/-- every definition offered, in the order the code offers them (extracted) -/
def offered (i : EnvIn) : List (Bytes × Bytes) := Generated.LaneQueue.envOrder.flatMap (sourceEntries i)

def assembleFrom (l : List (Bytes × Bytes)) : List (Bytes × Bytes) :=
  l.foldl (fun e kv => setIfMissing e kv.1 kv.2) []

/-- the `envp` handed to posix_spawn, in order -/
def assemble (i : EnvIn) : List (Bytes × Bytes) := assembleFrom (offered i)

/-- `StringRef(*p).split('=')` -/
def splitEq (e : Bytes) : Bytes × Bytes :=
  (e.takeWhile (· != 61), (e.dropWhile (· != 61)).drop 1)

end LLBuild.ProcStatus
