/-
C12 — executable model of directory-tree signatures.  CORE LEAN ONLY.

Anchors (lib/BuildSystem/BuildSystem.cpp): `DirectoryContentsTask` / `FilteredDirectoryContentsTask` (per-directory
listing: names, filtered by the exclusion patterns, sorted), `DirectoryTreeSignatureTask::inputsAvailable`,
`DirectoryTreeStructureSignatureTask::inputsAvailable` (the two signatures).

* `Tree`            a file-system tree as the build system can see it through `stat`:
                    `file info | dir info children | link target` (children in directory order, unsorted).
* `Cfg`             exclusion patterns with an ABSTRACT `fnmatch : Pattern → Name → Bool` (libc `fnmatch` is the
                    definition of matching; it is a parameter of every definition and theorem, never an axiom).
* `obs` / `observe` what the per-directory keys deliver: per node its stat record, per directory the filtered, sorted
                    listing, recursively.  `observeStruct` keeps names and `mode` only.
* `HashTerm`        the pre-hash free term fed to `llvm::hash_combine` / `hash_combine_range` (the 64-bit mixing is
                    out of scope for injectivity; `HashTerm.eval` re-implements it bit-exactly for correspondence only).
* `treeSig`, `structSig`   the two signatures as terms.  Their per-directory step functions are hand-written closed
                    forms; `runStmts` interprets the EXTRACTED recipes (LLBuild/Generated/DirTreeRecipe.lean) and
                    Props/C12.lean proves that the interpretation of the generated recipes equals the closed forms.

Values hashed "as bytes" are `BuildValue::toData()` encodings: `LLBuild.Codec.Value.encode` (C15 model, itself
generated from BuildValue.h / FileInfo.h).
-/
import LLBuild.Model.Codec
import LLBuild.Model.Signature
import LLBuild.Generated.DirTreeRecipe

namespace LLBuild.DirTree
open LLBuild.Codec (Value)
open LLBuild.Generated.Codec (VKind)
open LLBuild.Generated.DirTreeRecipe

abbrev Name := Bytes
abbrev Pattern := Bytes

/-- `FileInfo` as `getFileSystem().getFileInfo(path)` reports it: the fields of `struct stat` copied by
`FileInfo::getInfoForPath` and the 32-byte checksum.  In the `default` file-system mode the checksum stays zero;
`device-agnostic` zeroes device and inode; `checksum-only` zeroes device, inode and mtime and fills the checksum (MD5
of the content followed by 16 zero bytes for a non-directory, `01 00 … 00` for a directory).  The theorems quantify
over ALL records, so they cover the three modes alike. -/
structure Info where
  device : UInt64
  inode : UInt64
  mode : UInt64
  size : UInt64
  mtimeSec : UInt64
  mtimeNsec : UInt64
  checksum : Vector UInt8 32 := Vector.replicate 32 0
  deriving DecidableEq, Repr

def Info.toFileInfo (i : Info) : Codec.FileInfo :=
  ⟨i.device, i.inode, i.mode, i.size, i.mtimeSec, i.mtimeNsec, i.checksum.toList⟩

/-- A tree beneath (and including) the input directory.  `link target`: what `stat` reports THROUGH a symbolic link
that does not resolve to a directory (`none` = dangling); a link that resolves to a directory is seen by every task
as that directory and is modelled as `dir`. -/
inductive Tree where
  | file (i : Info)
  | dir (i : Info) (cs : List (Name × Tree))
  | link (target : Option Info)
  deriving Repr

/-- exclusion patterns; `fnmatch p n` is libc `fnmatch(pattern, name, 0) == 0` in the implementation -/
structure Cfg where
  fnmatch : Pattern → Name → Bool
  patterns : List Pattern

/-- `filters.isEmpty()` decides between `DirectoryContents` and `FilteredDirectoryContents` -/
def Cfg.filtered (c : Cfg) : Bool := !c.patterns.isEmpty

/-- the `excluded` flag of `getFilteredContents` after the pattern loop -/
def Cfg.excluded (c : Cfg) (n : Name) : Bool := c.patterns.any fun p => c.fnmatch p n == excludeWhenMatchIs

/-- is `n` left out of the listing?  (the unfiltered listing keeps every name) -/
def Cfg.hidden (c : Cfg) (n : Name) : Bool := c.filtered && (c.excluded n != keepWhenExcludedIs)

/-- The listing loops are `for (it = directory_iterator(path, ec, follow); it != end && !ec; it.increment(ec))`.
With `follow = true` the iterator takes `status()` of every entry, which fails for a dangling symbolic link: `ec` is
set and the loop ENDS — the dangling entry and every later entry (in directory order) are missing from the listing. -/
def Cfg.stopsAtDangling (c : Cfg) : Bool :=
  if c.filtered then filteredIteratorFollowsSymlinks else unfilteredIteratorFollowsSymlinks

def Tree.isDangling : Tree → Bool
  | .link none => true
  | _ => false

/-! ## sorting (`std::sort` with `a < b` on `std::string`: bytes compared as unsigned char) -/

def nameLt : Bytes → Bytes → Bool
  | [], [] => false
  | [], _ :: _ => true
  | _ :: _, [] => false
  | a :: as, b :: bs => if a < b then true else if b < a then false else nameLt as bs

def Cfg.before (c : Cfg) (a b : Name) : Bool :=
  if (if c.filtered then filteredSortAscending else unfilteredSortAscending) then nameLt a b else nameLt b a

def insertBy {α : Type} (lt : Name → Name → Bool) (x : Name × α) : List (Name × α) → List (Name × α)
  | [] => [x]
  | y :: ys => if lt x.1 y.1 then x :: y :: ys else y :: insertBy lt x ys

def sortBy {α : Type} (lt : Name → Name → Bool) : List (Name × α) → List (Name × α)
  | [] => []
  | x :: xs => insertBy lt x (sortBy lt xs)

/-! ## observations -/

/-- What the tree-signature task is told about a tree: per non-directory the value of its node key (`none` =
missing input), per directory its stat record and the listing with the observation of each listed child. -/
inductive Obs where
  | leaf (v : Option Info)
  | dir (i : Info) (cs : List (Name × Obs))
  deriving Repr

mutual
/-- observation of a subtree (every depth): filter, then sort, each directory's children -/
def obs (c : Cfg) : Tree → Obs
  | .file i => .leaf (some i)
  | .link v => .leaf v
  | .dir i cs => .dir i (sortBy c.before (obsList c cs))
def obsList (c : Cfg) : List (Name × Tree) → List (Name × Obs)
  | [] => []
  | (n, t) :: rest =>
    if c.stopsAtDangling && t.isDangling then []
    else if c.hidden n then obsList c rest else (n, obs c t) :: obsList c rest
end

/-- the per-directory listing the (Filtered)DirectoryContents key delivers for `dir i cs` -/
def listing (c : Cfg) (cs : List (Name × Tree)) : List Name := (sortBy c.before (obsList c cs)).map (·.1)

/-- the record without a checksum (`default` / `device-agnostic` file-system modes) -/
def Info.plain (device inode mode size mtimeSec mtimeNsec : UInt64) : Info :=
  { device, inode, mode, size, mtimeSec, mtimeNsec }

def Info.zero : Info := Info.plain 0 0 0 0 0 0

/-- `FilteredDirectoryContents` carries no stat record: with filters the ROOT directory's own record is not part of
what the signature sees (every other directory's record is seen as its parent's child value). -/
def Obs.dropRootInfo (c : Cfg) : Obs → Obs
  | .dir i cs => .dir (if c.filtered then Info.zero else i) cs
  | o => o

/-- the observation of the tree rooted at the input directory -/
def observe (c : Cfg) (t : Tree) : Obs := (obs c t).dropRootInfo c

/-- structure observation: names and `mode` only -/
inductive SObs where
  | leaf (mode : Option UInt64)
  | dir (mode : UInt64) (cs : List (Name × SObs))
  deriving Repr

mutual
def Obs.toS : Obs → SObs
  | .leaf v => .leaf (v.map (·.mode))
  | .dir i cs => .dir i.mode (Obs.toSList cs)
def Obs.toSList : List (Name × Obs) → List (Name × SObs)
  | [] => []
  | (n, o) :: rest => (n, o.toS) :: Obs.toSList rest
end

def observeStruct (c : Cfg) (t : Tree) : SObs := (observe c t).toS

/-! ## hash terms -/

/-- pre-hash terms.  `sig k t` is `hash_combine_range` over the encoded `BuildValue` of kind `k` carrying
`CommandSignature(uint64_t(t))` — how a sub-directory's signature value enters its parent's signature. -/
inductive HashTerm where
  | seed
  | str (b : Bytes)
  | num (n : Nat)
  | comb (a b : HashTerm)
  | sig (k : SigKind) (t : HashTerm)
  deriving DecidableEq, Repr

def vkindOf : SigKind → VKind
  | .DirectoryTreeSignature => .DirectoryTreeSignature
  | .DirectoryTreeStructureSignature => .DirectoryTreeStructureSignature

/-- bit-exact value (include/llvm/ADT/Hashing.h); used by the driver for correspondence only -/
def HashTerm.eval : HashTerm → UInt64
  | .seed => Signature.Hash.seed
  | .str b => Signature.Hash.hashBytes b
  | .num n => n.toUInt64
  | .comb a b => Signature.Hash.hashShort (Signature.Hash.le64 a.eval ++ Signature.Hash.le64 b.eval) Signature.Hash.seed
  | .sig k t => Signature.Hash.hashBytes (Value.encode ⟨vkindOf k, t.eval, [], []⟩)

/-! ## values delivered to the signature tasks -/

def missingInput : Value := ⟨.MissingInput, 0, [], []⟩
def existingInput (i : Info) : Value := ⟨.ExistingInput, 0, [i.toFileInfo], []⟩

/-- value of the listing key of a directory: `makeDirectoryContents(info, names)` or
`makeFilteredDirectoryContents(names)` -/
def dirValue (c : Cfg) (i : Info) (names : List Name) : Value :=
  if c.filtered then ⟨.FilteredDirectoryContents, 0, [], names⟩ else ⟨.DirectoryContents, 0, [i.toFileInfo], names⟩

/-- value of `Node(childPath)` (`FileInputNodeTask`): missing input or existing input with the stat record -/
def nodeValue : Obs → Value
  | .leaf none => missingInput
  | .leaf (some i) => existingInput i
  | .dir i _ => existingInput i

/-- value of the listing key when the input path is not a directory: `DirectoryContentsTask` lists nothing (the
error is ignored), `FilteredDirectoryContentsTask` passes the stat value on -/
def leafRootValue (c : Cfg) : Option Info → Value
  | none => missingInput
  | some i => if c.filtered then existingInput i else dirValue c i []

/-- `llvm::sys::path::append(childPath, name)` for a relative, separator-free `name` -/
def pathAppend (path : Bytes) (name : Name) : Bytes :=
  if path.isEmpty then name
  else if path.getLast? == some 0x2f then path ++ name
  else path ++ [0x2f] ++ name

/-! ## interpreter of the extracted recipes -/

structure ChildCtx where
  filename : Name
  value : Value
  /-- the sub-signature delivered for this child (`directory…SignatureValue`), as a term -/
  sub : Option HashTerm

def statField (fi : Codec.FileInfo) : StatField → Option Nat
  | .device => some fi.device.toNat
  | .inode => some fi.inode.toNat
  | .mode => some fi.mode.toNat
  | .size => some fi.size.toNat
  | .modTime => none          -- a struct: not hashable as one integer

/-- `getOutputInfo()`: defined (asserted) only for a value that carries exactly one output info -/
def outputField (v : Value) (f : StatField) : Option Nat :=
  match v.outputs with
  | [fi] => statField fi f
  | _ => none

def valueIs (v : Value) : ValuePred → Bool
  | .DirectoryContents => v.kind == .DirectoryContents
  | .FilteredDirectoryContents => v.kind == .FilteredDirectoryContents
  | .ExistingInput => v.kind == .ExistingInput
  | .MissingInput => v.kind == .MissingInput

def evalDatum (k : SigKind) (dirV : Value) (ch : Option ChildCtx) : Datum → Option HashTerm
  | .path => none
  | .dirValueBytes => some (.str dirV.encode)
  | .dirField f => (outputField dirV f).map .num
  | .childFilename => ch.map fun c => .str c.filename
  | .childValueBytes => ch.map fun c => .str c.value.encode
  | .childField f => ch.bind fun c => (outputField c.value f).map .num
  | .childSubSigBytes => ch.bind fun c => c.sub.map (.sig k)
  | .const n => some (.num n)

def evalCond (dirV : Value) (ch : Option ChildCtx) : Cond → Option Bool
  | .dirIs p => some (valueIs dirV p)
  | .childIs p => ch.map fun c => valueIs c.value p
  | .childHasSubSig => ch.map fun c => c.sub.isSome

/-- run a flattened statement list; the stack records, per open `if`, whether control is in the taken branch.
`none`: ill-formed nesting, or a datum evaluated outside its guard. -/
def runStmts (k : SigKind) (dirV : Value) (ch : Option ChildCtx) : List Stmt → List Bool → HashTerm → Option HashTerm
  | [], [], acc => some acc
  | [], _ :: _, _ => none
  | .comb d :: rest, st, acc =>
    if st.all id then
      match evalDatum k dirV ch d with
      | some x => runStmts k dirV ch rest st (.comb acc x)
      | none => none
    else runStmts k dirV ch rest st acc
  | .ifc c :: rest, st, acc =>
    if st.all id then
      match evalCond dirV ch c with
      | some b => runStmts k dirV ch rest (b :: st) acc
      | none => none
    else runStmts k dirV ch rest (false :: st) acc
  | .els :: rest, b :: st, acc => runStmts k dirV ch rest ((!b) :: st) acc
  | .els :: _, [], _ => none
  | .fi :: rest, _ :: st, acc => runStmts k dirV ch rest st acc
  | .fi :: _, [], _ => none

/-- `code = hash_value(path)` followed by the statements before the loop -/
def runRoot (r : Recipe) (path : Bytes) (dirV : Value) : Option HashTerm :=
  match r.init with
  | .path => runStmts r.resultKind dirV none r.root [] (.str path)
  | _ => none

/-- one iteration of `for (const auto& info : childResults)` -/
def runChild (r : Recipe) (dirV : Value) (c : ChildCtx) (acc : HashTerm) : Option HashTerm :=
  runStmts r.resultKind dirV (some c) r.perChild [] acc

/-! ## closed forms of the steps (Props/C12.lean: equal to the interpretation of the generated recipes) -/

/-- the constant "to represent nil" -/
def nilMarker : Nat := 0xC183979C3E98722E

def subOrNil (k : SigKind) : Option HashTerm → HashTerm
  | some s => .sig k s
  | none => .num nilMarker

def treeBase (path : Bytes) (dirV : Value) : HashTerm := .comb (.str path) (.str dirV.encode)

def treeStep (acc : HashTerm) (c : ChildCtx) : HashTerm :=
  .comb (.comb acc (.str c.value.encode)) (subOrNil .DirectoryTreeSignature c.sub)

/-- the `mode` of the only output info (0 is never used: callers guard on the kind) -/
def modeOf (v : Value) : Nat :=
  match v.outputs with
  | [fi] => fi.mode.toNat
  | _ => 0

def structBase (path : Bytes) (dirV : Value) : HashTerm :=
  .comb (.str path) (if dirV.kind == .DirectoryContents then .num (modeOf dirV) else .str dirV.encode)

def structStep (acc : HashTerm) (c : ChildCtx) : HashTerm :=
  .comb (.comb (.comb acc (.str c.filename))
      (if c.value.kind == .ExistingInput then .num (modeOf c.value) else .str c.value.encode))
    (subOrNil .DirectoryTreeStructureSignature c.sub)

/-! ## the signatures -/

def names {α : Type} (cs : List (Name × α)) : List Name := cs.map (·.1)

mutual
/-- the sub-signature delivered for a child (requested iff the child's value is an existing input whose info is a
directory), or nothing -/
def treeSub (c : Cfg) (path : Bytes) : Obs → Option HashTerm
  | .leaf _ => none
  | .dir i cs => some (treeChain c path (treeBase path (dirValue c i (names cs))) cs)
def treeChain (c : Cfg) (path : Bytes) : HashTerm → List (Name × Obs) → HashTerm
  | acc, [] => acc
  | acc, (n, o) :: rest =>
    treeChain c path (treeStep acc ⟨n, nodeValue o, treeSub c (pathAppend path n) o⟩) rest
end

/-- `DirectoryTreeSignatureTask` for `path`, as a term over the observation -/
def treeSigO (c : Cfg) (path : Bytes) : Obs → HashTerm
  | .leaf v => treeBase path (leafRootValue c v)
  | .dir i cs => treeChain c path (treeBase path (dirValue c i (names cs))) cs

/-! The structure signature reads only names and modes: it is defined over `SObs`.  `structBaseS` / `structStepS`
are `structBase` / `structStep` specialised to the values a structure observation determines (Props/C12.lean). -/

def structBaseS (c : Cfg) (path : Bytes) (mode : UInt64) (ns : List Name) : HashTerm :=
  .comb (.str path)
    (if c.filtered then .str (Value.encode ⟨.FilteredDirectoryContents, 0, [], ns⟩) else .num mode.toNat)

def structStepS (acc : HashTerm) (n : Name) (m : Option UInt64) (sub : Option HashTerm) : HashTerm :=
  .comb (.comb (.comb acc (.str n))
      (match m with
       | some m => .num m.toNat
       | none => .str missingInput.encode))
    (subOrNil .DirectoryTreeStructureSignature sub)

def SObs.mode? : SObs → Option UInt64
  | .leaf m => m
  | .dir m _ => some m

mutual
def structSub (c : Cfg) (path : Bytes) : SObs → Option HashTerm
  | .leaf _ => none
  | .dir m cs => some (structChain c path (structBaseS c path m (names cs)) cs)
def structChain (c : Cfg) (path : Bytes) : HashTerm → List (Name × SObs) → HashTerm
  | acc, [] => acc
  | acc, (n, o) :: rest =>
    structChain c path (structStepS acc n o.mode? (structSub c (pathAppend path n) o)) rest
end

/-- `DirectoryTreeStructureSignatureTask` for `path` over the observation `o` of the tree (`o.toS` when it is a
directory; a non-directory input path hashes its listing-key value) -/
def structSigO (c : Cfg) (path : Bytes) : Obs → HashTerm
  | .leaf v => structBase path (leafRootValue c v)
  | .dir i cs => structChain c path (structBaseS c path i.mode (names (Obs.toSList cs))) (Obs.toSList cs)

/-- signature term of a directory-tree input `path/` over tree `t` -/
def treeSig (c : Cfg) (path : Bytes) (t : Tree) : HashTerm := treeSigO c path (obs c t)

/-- signature term of a directory-structure input `path/` over tree `t` -/
def structSig (c : Cfg) (path : Bytes) (t : Tree) : HashTerm := structSigO c path (obs c t)

/-! ## well-formedness of names (what `readdir` returns) -/

/-- every listed name is NUL-free and each listing packs into fewer than 2^64 bytes (the preconditions of the
`StringList` wire format, C15) -/
def namesOK (ns : List Name) : Prop :=
  (∀ n ∈ ns, Codec.nulFree n = true) ∧ (Codec.packStrings ns).length < 2 ^ 64

mutual
def Obs.OK : Obs → Prop
  | .leaf _ => True
  | .dir _ cs => namesOK (names cs) ∧ Obs.OKs cs
def Obs.OKs : List (Name × Obs) → Prop
  | [] => True
  | (_, o) :: rest => o.OK ∧ Obs.OKs rest
end

end LLBuild.DirTree
