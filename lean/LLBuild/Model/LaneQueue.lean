/-
C16 (a) model: `LaneBasedExecutionQueue` (lib/Basic/LaneBasedExecutionQueue.cpp) as a
transition system whose atomic steps are the critical sections protected by
`readyJobsMutex`, plus a small model of `SerialQueueImpl` (lib/Basic/SerialQueue.cpp).
CORE LEAN ONLY.

    executeLane:   while (true) {
                     { lock(readyJobsMutex);
                       while (!shutdown && readyJobs->empty() && readyPriorityJobs.empty()) wait(lock);
                       if (shutdown && readyJobs->empty() && readyPriorityJobs.empty()) return;
                       job = !readyPriorityJobs.empty() ? readyPriorityJobs.getNextJob() : readyJobs->getNextJob(); }
                     if (!job.getDescriptor()) break;
                     queueJobStarted; job.execute(ctx); queueJobFinished; }
    addJob:        { lock; (High ? readyPriorityJobs : *readyJobs).addJob(job); notify_one(); }
    ~Queue:        { lock; shutdown = true; notify_all(); }  join every lane
    cancelAllJobs: { lock; lock(spawnedProcesses.mutex); if (cancelled) return; cancelled = true; close(); notify_all(); } ...

A lane is `idle` when it is outside the critical section (top of the loop, or woken and about to
re-acquire the mutex), `waiting` when blocked in `readyJobsCondition.wait`, `running j` while it
executes `j`, `exited` after `return` / `break`.  The ghost fields `executed`, `dropped`, `added`,
`inflight`, `peak` record history; they never influence a step.

Who may act (the hypotheses of the theorems, encoded in the enabledness of `step`):
  * `extAdd`  — a thread that is not a lane calls `addJob`; enabled only while `shutdown = false`
                (calling `addJob` concurrently with or after the destructor is a use-after-free
                in the client; "a pre-destructor caller").
  * `jobAdd l` — the job running on lane `l` calls `addJob` (any job may add any job, any number of times).
  * `destroy` — the critical section of the destructor (once).
  * `cancel`  — the first critical section of `cancelAllJobs` (idempotent), any time.
  * `spurious l` — a spurious wake-up of a waiting lane (allowed by `std::condition_variable`).
`notify_one` wakes one waiting lane if there is one (the action names which: `w`);
`notify_all` wakes all.

The conditions, the pop order, the comparison direction and the notify kinds are NOT written here:
they come from `LLBuild.Generated.LaneQueue`, regenerated from the source on every run
(extract/x_lanequeue.py), so the theorems are about what the code says now.
-/
import LLBuild.Generated.LaneQueue

namespace LLBuild.LaneQueue
open LLBuild.Generated.LaneQueue (Atom Notify)

/-- A queue job.  `key` abstracts `getDescriptor()->getOrdinalName()` to its rank in the
string order; `null` says that `getDescriptor() == nullptr` (the default-constructed sentinel). -/
structure Job where
  id : Nat
  key : Nat
  null : Bool
  deriving DecidableEq, Repr

inductive Lane
  | idle
  | waiting
  | running (j : Job)
  | exited
  deriving DecidableEq, Repr

structure State where
  /-- `SchedulerAlgorithm::FIFO` (true) or `NamePriority` (false) for the normal queue -/
  fifo : Bool
  /-- `readyPriorityJobs` (always a FIFO) -/
  prio : List Job
  /-- `readyJobs` (deque order for FIFO; heap contents for NamePriority) -/
  normal : List Job
  lanes : List Lane
  shutdown : Bool
  cancelled : Bool
  -- ghost history
  executed : List Job
  dropped : List Job
  added : List Job
  inflight : Nat
  peak : Nat
  /-- undefined behaviour reached: `getNextJob()` on an empty container -/
  ub : Bool
  deriving Repr

def init (n : Nat) (fifo : Bool) : State :=
  { fifo := fifo, prio := [], normal := [], lanes := List.replicate n .idle, shutdown := false,
    cancelled := false, executed := [], dropped := [], added := [], inflight := 0, peak := 0, ub := false }

inductive Act
  | extAdd (j : Job) (high : Bool) (w : Option Nat)
  | jobAdd (l : Nat) (j : Job) (high : Bool) (w : Option Nat)
  | enter (l : Nat) (i : Nat)
  | finish (l : Nat)
  | spurious (l : Nat)
  | destroy (w : Option Nat)
  | cancel (w : Option Nat)
  deriving Repr

def laneJobs : Lane → List Job
  | .running j => [j]
  | _ => []

/-- the jobs currently being executed -/
def runningJobs (lanes : List Lane) : List Job := lanes.flatMap laneJobs

def wake : Lane → Lane
  | .waiting => .idle
  | x => x

/-- `notify_all` -/
def wakeAll (lanes : List Lane) : List Lane := lanes.map wake

/-- `notify_one`: unblocks one waiting lane when there is one. -/
def notifyOne (lanes : List Lane) (w : Option Nat) : Option (List Lane) :=
  match w with
  | some k => if lanes[k]? = some .waiting then some (lanes.set k .idle) else none
  | none => if lanes.all (fun x => x != .waiting) then some lanes else none

def applyNotify (k : Notify) (lanes : List Lane) (w : Option Nat) : Option (List Lane) :=
  match k with
  | .one => notifyOne lanes w
  | .all => some (wakeAll lanes)

/-- `Scheduler::getNextJob` for the normal queue.  FIFO: the front.  NamePriority
(`std::priority_queue` with `QueueJobLess`): an element that is greatest w.r.t. the comparator
(direction extracted); `i` selects which one among equal names (the heap's tie-break is unspecified). -/
def isTop (q : List Job) (j : Job) : Bool :=
  q.all (fun k => if Generated.LaneQueue.namePopsGreatest then k.key ≤ j.key else j.key ≤ k.key)

def popNormal (fifo : Bool) (q : List Job) (i : Nat) : Option (Job × List Job) :=
  if fifo then
    match q with
    | [] => none
    | j :: r => some (j, r)
  else
    match q[i]? with
    | some j => if isTop q j then some (j, q.eraseIdx i) else none
    | none => none

/-- the body of `addJob` under the lock -/
def push (s : State) (j : Job) (high : Bool) : State :=
  if high then { s with prio := s.prio ++ [j], added := j :: s.added }
  else { s with normal := s.normal ++ [j], added := j :: s.added }

/-- after the critical section: `if (!job.getDescriptor()) break;` else run it -/
def start (s : State) (l : Nat) (j : Job) : State :=
  if j.null then { s with lanes := s.lanes.set l .exited, dropped := j :: s.dropped }
  else { s with lanes := s.lanes.set l (.running j), inflight := s.inflight + 1,
                peak := max s.peak (s.inflight + 1) }

def evalAtom (s : State) : Atom → Bool
  | .shutdown => s.shutdown
  | .notShutdown => !s.shutdown
  | .normalEmpty => s.normal.isEmpty
  | .prioEmpty => s.prio.isEmpty
  | .normalNonEmpty => !s.normal.isEmpty
  | .prioNonEmpty => !s.prio.isEmpty
  | .cancelled => s.cancelled
  | .notCancelled => !s.cancelled

def evalConj (s : State) (c : List Atom) : Bool := c.all (evalAtom s)

inductive Pop
  | ok (j : Job) (prio' normal' : List Job)
  | ub          -- front()/top() of an empty container
  | badChoice   -- the action's tie-break index does not name a greatest element

/-- the pop statement of executeLane -/
def take (s : State) (i : Nat) : Pop :=
  let fromPrio : Pop := match s.prio with
    | j :: r => .ok j r s.normal
    | [] => .ub
  let fromNorm : Pop :=
    if s.normal.isEmpty then .ub else
    match popNormal s.fifo s.normal i with
    | some (j, r) => .ok j s.prio r
    | none => .badChoice
  if Generated.LaneQueue.popPriorityFirst then (if !s.prio.isEmpty then fromPrio else fromNorm)
  else (if !s.normal.isEmpty then fromNorm else fromPrio)

def step (s : State) : Act → Option State
  | .extAdd j high w =>
    if s.shutdown then none else
    match applyNotify Generated.LaneQueue.addNotify s.lanes w with
    | some ls => some { push s j high with lanes := ls }
    | none => none
  | .jobAdd l j high w =>
    match s.lanes[l]? with
    | some (.running _) =>
      match applyNotify Generated.LaneQueue.addNotify s.lanes w with
      | some ls => some { push s j high with lanes := ls }
      | none => none
    | _ => none
  | .enter l i =>
    if s.lanes[l]? = some .idle then
      if evalConj s Generated.LaneQueue.waitWhile then some { s with lanes := s.lanes.set l .waiting }
      else if evalConj s Generated.LaneQueue.exitWhen then some { s with lanes := s.lanes.set l .exited }
      else
        match take s i with
        | .ok j p' n' => some (start { s with prio := p', normal := n' } l j)
        | .ub => some { s with ub := true }
        | .badChoice => none
    else none
  | .finish l =>
    match s.lanes[l]? with
    | some (.running j) =>
      some { s with lanes := s.lanes.set l .idle, executed := j :: s.executed, inflight := s.inflight - 1 }
    | _ => none
  | .spurious l =>
    if s.lanes[l]? = some .waiting then some { s with lanes := s.lanes.set l .idle } else none
  | .destroy w =>
    if s.shutdown then none else
    match applyNotify Generated.LaneQueue.destroyNotify s.lanes w with
    | some ls => some { s with shutdown := true, lanes := ls }
    | none => none
  | .cancel w =>
    if s.cancelled then some s else
    match applyNotify Generated.LaneQueue.cancelNotify s.lanes w with
    | some ls => some { s with cancelled := true, lanes := ls }
    | none => none

/-- every state reachable from a fresh queue with `n` lanes by any interleaving -/
inductive Reachable (n : Nat) (fifo : Bool) : State → Prop
  | init : Reachable n fifo (init n fifo)
  | step {s s' : State} (a : Act) : Reachable n fifo s → step s a = some s' → Reachable n fifo s'

def run (s : State) : List Act → Option State
  | [] => some s
  | a :: as => match step s a with
    | some s' => run s' as
    | none => none

def allExited (s : State) : Prop := ∀ x ∈ s.lanes, x = Lane.exited

def allExitedB (s : State) : Bool := s.lanes.all (fun x => x == .exited)

/-! ### `SerialQueueImpl` (lib/Basic/SerialQueue.cpp): one worker thread, a deque of
operations, the destructor enqueues an empty function as a sentinel and joins.

    run():  while (true) { { lock; while (operations.empty()) wait; fn = front; pop_front; }
                           if (!fn) { lock; if (operations.empty()) break; operations.push_back(fn); continue; }   // after fix F162
                           fn(); }                    // before: `if (!fn) break;` (= `stepWith false`)
    ~SerialQueueImpl(): addOperation({}); operationsThread->join();
-/
namespace Serial

inductive Op
  | job (id : Nat)
  | sentinel
  deriving DecidableEq, Repr

inductive Worker
  | idle
  | running (id : Nat)
  | exited
  deriving DecidableEq, Repr

structure State where
  ops : List Op
  worker : Worker
  destroyed : Bool
  executed : List Nat
  added : List Nat
  deriving Repr, DecidableEq

def init : State := { ops := [], worker := .idle, destroyed := false, executed := [], added := [] }

inductive Act
  | extAdd (id : Nat)     -- a thread other than the worker; only before the destructor
  | jobAdd (id : Nat)     -- the operation being executed adds an operation
  | take                   -- the worker's critical section (blocks while the deque is empty)
  | finish
  | destroy
  deriving Repr

def stepWith (requeue : Bool) (s : State) : Act → Option State
  | .extAdd id => if s.destroyed then none else some { s with ops := s.ops ++ [.job id], added := id :: s.added }
  | .jobAdd id =>
    match s.worker with
    | .running _ => some { s with ops := s.ops ++ [.job id], added := id :: s.added }
    | _ => none
  | .take =>
    match s.worker, s.ops with
    | .idle, .job id :: r => some { s with ops := r, worker := .running id }
    | .idle, .sentinel :: r =>
      if requeue && !r.isEmpty then some { s with ops := r ++ [.sentinel] }
      else some { s with ops := r, worker := .exited }
    | _, _ => none
  | .finish =>
    match s.worker with
    | .running id => some { s with worker := .idle, executed := id :: s.executed }
    | _ => none
  | .destroy => if s.destroyed then none else some { s with destroyed := true, ops := s.ops ++ [.sentinel] }

/-- the code as it is now (sentinel handling extracted) -/
def step (s : State) (a : Act) : Option State := stepWith Generated.LaneQueue.serialRequeuesSentinel s a

def runWith (requeue : Bool) (s : State) : List Act → Option State
  | [] => some s
  | a :: as => match stepWith requeue s a with
    | some s' => runWith requeue s' as
    | none => none

inductive Reachable : State → Prop
  | init : Reachable init
  | step {s s' : State} (a : Act) : Reachable s → step s a = some s' → Reachable s'

def pendingJobs (s : State) : List Nat := s.ops.filterMap (fun | .job id => some id | .sentinel => none)

end Serial

end LLBuild.LaneQueue
