/- PRIVATE test driver for C12 (not part of the deliverable; delete after integration). -/
import LLBuild.Drv.Common
import LLBuild.Drv.C12
open LLBuild.Drv
def main (args : List String) : IO UInt32 := do
  let stdin ← IO.getStdin
  let stdout ← IO.getStdout
  match args with
  | [m] =>
    match LLBuild.Drv.C12.modes.lookup m with
    | some f => f stdin stdout; return 0
    | none => IO.eprintln s!"unknown mode {m}"; return 2
  | _ => return 2
