/- PRIVATE test driver for C09 (deleted before hand-over). -/
import LLBuild.Drv.Common
import LLBuild.Drv.C09
open LLBuild.Drv
def allModes : List (String × Mode) := LLBuild.Drv.C09.modes
def main (args : List String) : IO UInt32 := do
  let stdin ← IO.getStdin
  let stdout ← IO.getStdout
  match args with
  | [m] =>
    match allModes.lookup m with
    | some f => f stdin stdout; return 0
    | none => IO.eprintln s!"unknown mode {m}"; return 2
  | _ => IO.eprintln "usage"; return 2
