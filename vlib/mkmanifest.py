"""Developer tool (not run by checks): rebuild MANIFEST.json from manifest_entries/*.json + properties.jsonl.
Entries for properties come from manifest_entries/<ID>.json; every property without an entry is listed
under not_applicable with the reason in manifest_entries/_pending.json."""
import json, os, glob
V = os.path.dirname(os.path.dirname(os.path.abspath(__file__)))
props = [json.loads(l)["id"] for l in open(os.path.join(V, "properties.jsonl"))]
entries = {}
for f in glob.glob(os.path.join(V, "manifest_entries", "C*.json")):
    o = json.load(open(f))
    entries[o["property_id"]] = o
pending = json.load(open(os.path.join(V, "manifest_entries", "_pending.json")))
base = json.load(open(os.path.join(V, "manifest_entries", "_base.json")))
base["checks"] = [entries[p] for p in props if p in entries]
base["not_applicable"] = [{"property_id": p, "reason": pending.get(p, "check under construction in this round; see DESIGN.md §9")}
                          for p in props if p not in entries]
base["engines"][0]["serves_properties"] = [p for p in props if p in entries]
json.dump(base, open(os.path.join(V, "MANIFEST.json"), "w"), indent=1)
print("claimed:", [p for p in props if p in entries])
