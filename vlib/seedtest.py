"""Developer tool: run checks against a seeded change without touching /repo.
usage: python3 -m vlib.seedtest <seeded-dir-name> <check-id> [<check-id> ...]
Uses the scratch worktree /tmp/wt-main (created with `git -C /repo worktree add --detach /tmp/wt-main HEAD`)
and the build directory /tmp/vb-main; prints the VIOLATION lines and the summary of each check."""
import os, subprocess, sys
V = os.path.dirname(os.path.dirname(os.path.abspath(__file__)))
TAG = os.environ.get("SEEDTEST_TAG", "main")      # several people can test at once with different tags
WT, VB = "/tmp/wt-" + TAG, "/tmp/vb-" + TAG


def sh(cmd, **kw):
    return subprocess.run(cmd, shell=True, stdout=subprocess.PIPE, stderr=subprocess.STDOUT, text=True, **kw)


def main():
    name, checks = sys.argv[1], sys.argv[2:]
    head = sh("git -C /repo rev-parse HEAD").stdout.strip()
    if not os.path.isdir(WT):
        sh("git -C /repo worktree add --detach %s %s" % (WT, head))
    sh("git -C %s checkout -q --detach %s && git -C %s checkout -- . && git -C %s clean -fdq -e _b" % (WT, head, WT, WT))
    if name != "none":
        r = sh("git -C %s apply %s/seeded/%s/patch.diff" % (WT, V, name))
        if r.returncode != 0:
            print("patch does not apply:", r.stdout)
            return 2
    # private copy of the Lean project: files regenerated from the changed tree stay out of /verif/lean
    os.makedirs(VB, exist_ok=True)
    sh("rsync -a --delete %s/lean/ %s/lean/" % (V, VB))
    env = dict(os.environ, VERIF_REPO=WT, VERIF_BUILD=VB, VERIF_LEAN=VB + "/lean")
    for c in checks:
        r = subprocess.run(["./check", c], cwd=V, env=env, stdout=subprocess.PIPE, stderr=subprocess.STDOUT, text=True)
        lines = [l for l in r.stdout.split("\n") if l.startswith("VIOLATION") or l.startswith("KNOWN") or " quick:" in l or "ERROR" in l]
        print("== %s on %s: exit %d" % (c, name, r.returncode), flush=True)
        for l in lines[:6]:
            print("   " + l[:220])
    sh("git -C %s checkout -- ." % WT)
    # regenerate extractor output from the real tree again
    return 0


if __name__ == "__main__":
    sys.exit(main())
