"""C02 — work happens at most once per build and only for a true, reported reason."""
from .engine_common import EngineCheck

E = "LLBuild.Engine."


class Check(EngineCheck):
    prop = "C02"
    # Props/C01Gen.lean imports Props/C02.lean; it holds the engine half of C09 ("a command re-runs exactly when
    # its definition changed": reason 1 of C02_reason_true over histories in which the client program changes)
    module = "LLBuild.Props.C02All"
    theorems = [E + "C02_once", E + "C02_create_needs_reason", E + "C02_reason_true",
                E + "C02_interrupted_is_never_built", E + "C02_invalid_is_rule_verdict", E + "C02_computedAt_changes_only_on_change",
                E + "C02_null_build_runs_nothing", E + "C02_null_build_after_build", E + "engine_fingerprint_matches_model",
                E + "C09_changed_definition_reruns", E + "C09_changed_definition_signature_differs", E + "C09_changed_definition_signature_differs_valid",
                E + "C09_unchanged_definition_needs_other_reason",
                # the concrete engine model: at most once (refinement + C02_once), and the executed set of a successful
                # build under ANY schedule is exactly the schedule-free reference set MustRun (in-order scan of recorded
                # dependencies up to the first changed one) — the "only if" of the property with its converse
                "LLBuild.Refine.EngineImpl_sound_C02_once", "LLBuild.Refine.EngineImpl_sound_C06_executed_reference",
                "LLBuild.Refine.EngineImpl_sound_C06_same_executed_set", "LLBuild.Refine.EngineImpl_sound_C06_in_order",
                "LLBuild.Refine.monitor_accepts_out_of_order",
                # the property's "consequently" clauses on the concrete model's printed traces (Props/EngineImplSched3.lean)
                "LLBuild.Refine.EngineImpl_sound_C02_executed_reference_concrete", "LLBuild.Refine.EngineImpl_sound_C02_identical_value_no_rerun",
                "LLBuild.Refine.EngineImpl_sound_C02_order_only_never_triggers", "LLBuild.Refine.EngineImpl_sound_C02_null_build",
                "LLBuild.Engine.C02_order_only_never_triggers", "LLBuild.Engine.C02_identical_value_no_rerun", "LLBuild.Engine.Ref_same_value",
                # token level (Props/EngineImplSched5.lean): the reported reason is true of the state the build started from and of
                # earlier tokens of the same trace; at most one T k; every T k preceded by an N k
                "LLBuild.Refine.EngineImpl_sound_C02_reason_true", "LLBuild.Refine.EngineImpl_sound_C02_at_most_once",
                "LLBuild.Refine.EngineImpl_sound_C02_run_needs_reason"]
    mix = [(0.45, {}), (0.2, {"cancel": True}), (0.15, {"threads": True}), (0.2, {"reprogram": True})]
    budget = (300, 3000)
    assumptions = EngineCheck.assumptions + [
        "C02_null_build_after_build: the only client fact assumed is that the rules still accept the values they hold (Program.valid) when the next build starts; signatures, epochs and recorded dependencies are covered by the invariants Inv and Inv2 of the abstract engine"]


CHECK = Check()
