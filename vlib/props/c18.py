"""C18 — Ninja builds converge to the clean-build state and do no unnecessary work.

End-to-end through the REAL `llbuild ninja build` on generated manifests and generated edit histories
(every edit and every generated command stamps the files it writes from one strictly increasing logical
clock), with the property's own oracles; differential against the installed `ninja` as specification
validation; the decision logic (Lean model, Props/C18.lean) is tied by the extractor x_ninjabuild and by
replaying every history through the model's build simulator (driver mode c18sim)."""
import json, os, re, shutil, sqlite3, struct, subprocess, sys
from concurrent.futures import ProcessPoolExecutor
from .. import common as C
from ..runner import PropertyCheck

CLOCK0 = 1600000000

T_SH = r"""#!/bin/sh
# t.sh NAME SALT FLAGS OUTS HDR DEP -- READS...   (deterministic: content = f(name, salt, contents read))
name=$1; salt=$2; flags=$3; outs=$4; hdr=$5; dep=$6; shift 7
echo "$name" >> .log
if [ -e ".fail-$name" ]; then exit 1; fi
case "$flags" in *G*) salt=0;; esac
sum=$({ echo "$name $salt"
  for f in "$@"; do if [ -f "$f" ]; then echo "<$f>"; cat "$f"; else echo "<$f:absent>"; fi; done
  if [ "$hdr" != "-" ]; then echo "<$hdr>"; cat "$hdr"; fi; } | cksum)
stamp() {
  n=$(flock .clock.lock sh -c 'n=$(cat .clock); n=$((n+1)); echo $n > .clock; echo $n')
  touch -d "@$n" "$1"
}
first=
IFS=,
for o in $outs; do
  [ -z "$first" ] && first=$o
  new="$o $sum"
  case "$flags" in *R*) if [ -f "$o" ] && [ "$(cat "$o")" = "$new" ]; then continue; fi;; esac
  echo "$new" > "$o"; stamp "$o"
done
if [ "$dep" != "-" ]; then echo "$first: $hdr" > "$dep"; stamp "$dep"; fi
exit 0
"""


# --------------------------------------------------------------------------------------------------
# scenario = manifest description + configuration + edit history (plain JSON-able dicts)
# --------------------------------------------------------------------------------------------------
def gen_scenario(rng, idx, thorough, force_cfg=None):
    ns = 2 + rng.below(3)
    sources = ["s%d" % i for i in range(ns)]
    headers = ["h%d.h" % i for i in range(1 + rng.below(2))]
    cmds = []
    avail = list(sources)          # things usable as inputs (sources, earlier outputs, phony names)
    nc = 3 + rng.below(5 if thorough else 4)
    np_ = 0
    for i in range(nc):
        if i >= 2 and rng.chance(1, 6):
            outs_prev = [x for x in avail if x not in sources]
            k = 1 + rng.below(2)
            ins = []
            for _ in range(k):
                x = rng.choice(outs_prev)
                if x not in ins:
                    ins.append(x)
            p = {"name": "p%d" % np_, "phony": True, "outs": ["p%d" % np_], "exp": ins, "imp": [], "oo": []}
            np_ += 1
            cmds.append(p)
            avail.append(p["name"])
            continue
        name = "c%d" % i
        outs = ["o%d" % i] + (["o%db" % i] if rng.chance(1, 7) else [])
        pick = lambda: rng.choice(avail) if rng.chance(2, 3) else rng.choice(avail[-3:])
        exp, imp, oo = [], [], []
        for _ in range(1 + rng.below(2)):
            x = pick()
            if x not in exp:
                exp.append(x)
        if rng.chance(1, 3):
            x = pick()
            if x not in exp:
                imp.append(x)
        if rng.chance(1, 3):
            x = pick()
            if x not in exp and x not in imp:
                oo.append(x)
        c = {"name": name, "phony": False, "outs": outs, "exp": exp, "imp": imp, "oo": oo, "salt": 0,
             "hdr": None, "depsgcc": False, "restat": rng.chance(1, 6), "generator": rng.chance(1, 10), "pool": None}
        if rng.chance(1, 4):
            c["hdr"] = rng.choice(headers)
            c["depsgcc"] = rng.chance(1, 2)
        r = rng.below(10)
        c["pool"] = "lp" if r == 0 else ("console" if r == 1 else None)
        cmds.append(c)
        avail += outs
    # a source that is used only as an order-only input, when there is none yet (so the clause is exercised)
    if rng.chance(1, 2):
        real = [c for c in cmds if not c["phony"]]
        c = rng.choice(real)
        sources.append("so")
        c["oo"].append("so")
    targets = []
    if rng.chance(1, 5):
        outs_all = [o for c in cmds for o in c["outs"]]
        targets = sorted({rng.choice(outs_all) for _ in range(1 + rng.below(2))})
    cfg = force_cfg or {"db": not rng.chance(1, 6), "jobs": 1 if rng.chance(1, 2) else 4, "k": 1 if rng.chance(5, 6) else 0,
                        "strict": False}
    scen = {"idx": idx, "sources": sources, "headers": headers, "cmds": cmds, "targets": targets, "cfg": cfg, "steps": []}
    scen["steps"] = gen_steps(rng, scen, 6 + rng.below(8 if thorough else 4))
    return scen


def gen_steps(rng, scen, n):
    G = Graph(scen)
    real = [c for c in scen["cmds"] if not c["phony"]]
    steps = [{"op": "init"}]
    failing = None
    only_oo = [s for s in scen["sources"] if G.role(s) == "order-only"]
    for _ in range(n):
        if failing is not None:
            if rng.chance(2, 3):
                steps.append({"op": "repair", "cmd": failing})
                failing = None
            else:
                steps.append({"op": "null"})
            continue
        r = rng.below(20)
        if r < 4:
            steps.append({"op": "edit", "file": rng.choice(scen["sources"] + scen["headers"])})
        elif r < 7:
            steps.append({"op": "touch", "file": rng.choice(scen["sources"] + scen["headers"])})
        elif r < 9 and only_oo:
            steps.append({"op": "touch", "file": rng.choice(only_oo)})
        elif r < 11:
            c = rng.choice(real)
            steps.append({"op": "rm", "file": rng.choice(c["outs"])})
        elif r < 14:
            steps.append({"op": "salt", "cmd": rng.choice(real)["name"]})
        elif r < 17:
            c = rng.choice(real)
            via = rng.below(3)
            if via == 0:
                ins = [x for x in c["exp"] + c["imp"] if x in scen["sources"]]
                v = {"op": "edit", "file": rng.choice(ins)} if ins else {"op": "rm", "file": c["outs"][0]}
            elif via == 1:
                v = {"op": "rm", "file": c["outs"][0]}
            else:
                v = {"op": "salt", "cmd": c["name"]}
                if c["generator"]:
                    v = {"op": "rm", "file": c["outs"][0]}
            steps.append({"op": "fail", "cmd": c["name"], "via": v})
            failing = c["name"]
        elif r < 18:
            steps.append({"op": "null"})
        else:
            steps.append({"op": "edit2", "files": [rng.choice(scen["sources"]), rng.choice(scen["sources"] + scen["headers"])]})
    if failing is not None:
        steps.append({"op": "repair", "cmd": failing})
    return steps


def model_cmd(mode):
    exe = C.model_exe()
    if os.path.exists(exe):
        p = subprocess.run([exe, mode], input=b"", stdout=subprocess.PIPE, stderr=subprocess.PIPE)
        if p.returncode == 0:
            return [exe, mode], None
    ok, out = C.lake_build(["LLBuild.Drv.C18"])     # not yet reachable from Driver.lean: build it ourselves
    if not ok:
        C.log(out[-1500:])
    d = os.path.join(C.BUILD, "drv")
    os.makedirs(d, exist_ok=True)
    path = os.path.join(d, "DriverC18.lean")
    with open(path, "w") as f:
        f.write("import LLBuild.Drv.Common\nimport LLBuild.Drv.C18\nopen LLBuild.Drv\n"
                "def main (args : List String) : IO UInt32 := do\n"
                "  let stdin ← IO.getStdin\n  let stdout ← IO.getStdout\n"
                "  match args with\n  | [m] =>\n    match LLBuild.Drv.C18.modes.lookup m with\n"
                "    | some f => f stdin stdout; return 0\n    | none => IO.eprintln s!\"unknown mode {m}\"; return 2\n"
                "  | _ => return 2\n")
    return ["lake", "env", "lean", "--run", path, mode], C.LEAN


def run_model(mode, lines):
    cmd, cwd = model_cmd(mode)
    data = ("\n".join(lines) + "\n").encode()
    p = subprocess.run(cmd, cwd=cwd, input=data, stdout=subprocess.PIPE, stderr=subprocess.PIPE)
    out = p.stdout.decode().split("\n")
    if out and out[-1] == "":
        out.pop()
    return p.returncode, out, p.stderr.decode()


class Graph:
    def __init__(self, scen):
        self.scen = scen
        self.cmds = {c["name"]: c for c in scen["cmds"]}
        self.prod = {o: c["name"] for c in scen["cmds"] for o in c["outs"]}

    def files_of(self, x, seen=None):
        """the real files a (possibly phony) input name stands for"""
        seen = seen or set()
        p = self.prod.get(x)
        if p is not None and self.cmds[p]["phony"]:
            if x in seen:
                return []
            seen.add(x)
            r = []
            for y in self.cmds[p]["exp"] + self.cmds[p]["imp"]:
                for f in self.files_of(y, seen):
                    if f not in r:
                        r.append(f)
            return r
        return [x]

    def reads(self, c):
        r = []
        for x in c["exp"] + c["imp"]:
            for f in self.files_of(x):
                if f not in r:
                    r.append(f)
        return r

    def consumers(self, x, oo=False):
        """non-phony commands that have x as an explicit/implicit input (through phony aliases) or read it as
        their depfile header; with oo=True also through order-only edges"""
        out = set()
        for c in self.scen["cmds"]:
            ins = c["exp"] + c["imp"] + (c["oo"] if oo else [])
            if x in ins or (not c["phony"] and c.get("hdr") == x):
                if c["phony"]:
                    out |= self.consumers(c["name"], oo)
                else:
                    out.add(c["name"])
        return out

    def down(self, cname, oo=False):
        """the command and every command downstream of it"""
        seen, todo = set(), [cname]
        while todo:
            n = todo.pop()
            if n in seen:
                continue
            seen.add(n)
            for o in self.cmds[n]["outs"]:
                todo += list(self.consumers(o, oo))
        return seen

    def affected(self, x, oo=False):
        r = set()
        for c in self.consumers(x, oo):
            r |= self.down(c, oo)
        return r

    def role(self, s):
        normal = bool(self.consumers(s))
        oo = bool(self.consumers(s, True))
        return "normal" if normal else ("order-only" if oo else "unused")

    def needed(self):
        """non-phony commands in the closure of the build targets (all edge kinds)"""
        tg = self.scen["targets"]
        if not tg:
            used = {x for c in self.scen["cmds"] for x in c["exp"] + c["imp"] + c["oo"]}
            tg = [o for c in self.scen["cmds"] for o in c["outs"] if o not in used]
        seen, todo = set(), list(tg)
        while todo:
            x = todo.pop()
            p = self.prod.get(x)
            if p is None or p in seen:
                continue
            seen.add(p)
            c = self.cmds[p]
            todo += c["exp"] + c["imp"] + c["oo"]
        return {n for n in seen if not self.cmds[n]["phony"]}


def manifest_text(scen):
    G = Graph(scen)
    L = ["pool lp", "  depth = 1", ""]
    for c in scen["cmds"]:
        if c["phony"]:
            L.append("build %s: phony %s" % (c["name"], " ".join(c["exp"])))
            continue
        flags = ("R" if c["restat"] else "") + ("G" if c["generator"] else "") or "-"
        dep = (c["outs"][0] + ".d") if c["hdr"] else "-"
        L.append("rule r_%s" % c["name"])
        L.append("  command = sh ./t.sh %s $salt %s %s %s %s -- %s" % (
            c["name"], flags, ",".join(c["outs"]), c["hdr"] or "-", dep, " ".join(G.reads(c))))
        L.append("  description = %s" % c["name"])
        if c["restat"]:
            L.append("  restat = 1")
        if c["generator"]:
            L.append("  generator = 1")
        if c["hdr"]:
            L.append("  depfile = %s" % dep)
            if c["depsgcc"]:
                L.append("  deps = gcc")
        if c["pool"]:
            L.append("  pool = %s" % c["pool"])
        line = "build %s: r_%s %s" % (" ".join(c["outs"]), c["name"], " ".join(c["exp"]))
        if c["imp"]:
            line += " | " + " ".join(c["imp"])
        if c["oo"]:
            line += " || " + " ".join(c["oo"])
        L.append(line)
        L.append("  salt = %d" % c["salt"])
    return "\n".join(L) + "\n"


# --------------------------------------------------------------------------------------------------
# a work directory driven by one tool (llbuild or ninja)
# --------------------------------------------------------------------------------------------------
class Dir:
    def __init__(self, path, tool, exe, scen):
        self.path, self.tool, self.exe, self.scen = path, tool, exe, scen
        shutil.rmtree(path, ignore_errors=True)
        os.makedirs(path)
        self.w(".clock", "%d\n" % CLOCK0)
        self.w(".clock.lock", "")
        self.w("t.sh", T_SH)
        self.w(".log", "")

    def p(self, f):
        return os.path.join(self.path, f)

    def w(self, f, txt):
        with open(self.p(f), "w") as fh:
            fh.write(txt)

    def tick(self):
        n = int(open(self.p(".clock")).read()) + 1
        self.w(".clock", "%d\n" % n)
        return n

    def stamp(self, f, n=None):
        n = self.tick() if n is None else n
        os.utime(self.p(f), ns=(n * 10**9, n * 10**9))
        return n

    def write_src(self, f, content, n=None):
        self.w(f, content)
        return self.stamp(f, n)

    def write_manifest(self):
        self.w("build.ninja", manifest_text(self.scen))
        self.stamp("build.ninja")

    def build(self, trace=False):
        cfg = self.scen["cfg"]
        open(self.p(".log"), "w").close()
        if self.tool == "llbuild":
            cmd = [self.exe, "ninja", "build", "--jobs", str(cfg["jobs"])]
            cmd += ["--db", "build.db"] if cfg["db"] else ["--no-db"]
            if cfg["k"] != 1:
                cmd += ["-k", str(cfg["k"])]
            if cfg.get("strict"):
                cmd += ["--strict"]
            if trace:
                cmd += ["--trace", "trace.txt"]
        else:
            cmd = [self.exe, "-j", str(cfg["jobs"]), "-k", str(cfg["k"])]
        cmd += self.scen["targets"]
        try:
            p = subprocess.run(cmd, cwd=self.path, stdin=subprocess.DEVNULL, stdout=subprocess.PIPE, stderr=subprocess.STDOUT, timeout=120)
            rc, out = p.returncode, p.stdout.decode("utf-8", "replace")
        except subprocess.TimeoutExpired:
            rc, out = -999, "TIMEOUT"
        log = [l for l in open(self.p(".log")).read().split("\n") if l]
        return rc, log, out

    def finfo(self, f):
        try:
            st = os.stat(self.p(f))
        except OSError:
            return (0, 0, 0, 0, 0, 0)
        return (st.st_dev, st.st_ino, st.st_mode, st.st_size, st.st_mtime_ns // 10**9, st.st_mtime_ns % 10**9)

    def stat_outs(self):
        return {o: self.finfo(o) for c in self.scen["cmds"] for o in c["outs"]}

    def snapshot_db(self):
        """key (path relative to the work directory) -> (kind, hash, [infos]) decoded from the stored BuildValue"""
        r = {}
        try:
            con = sqlite3.connect("file:%s?mode=ro" % self.p("build.db"), uri=True)
            rows = con.execute("select key_names.key, rule_results.value from rule_results join key_names on key_names.id = rule_results.key_id").fetchall()
            con.close()
        except sqlite3.Error:
            return r
        pre = os.path.realpath(self.path) + "/"
        for key, blob in rows:
            if isinstance(key, bytes):
                key = key.decode("utf-8", "replace")
            if len(blob) < 96 or (len(blob) - 96) % 80:
                continue
            kind, n = struct.unpack_from("<II", blob, 0)
            h = struct.unpack_from("<Q", blob, 88)[0]
            if n > 1:
                infos = [struct.unpack_from("<6Q", blob, 96 + 80 * i) for i in range(n)]
            elif n == 1:
                infos = [struct.unpack_from("<6Q", blob, 8)]
            else:
                infos = []
            r["&&".join(x[len(pre):] if x.startswith(pre) else x for x in key.split("&&"))] = (kind, h, infos)
        return r

    def parse_trace(self):
        """per rule key: was it checked, found invalid, never built, did its task run"""
        pre = os.path.realpath(self.path) + "/"
        names, t = {}, {"checked": set(), "invalid": set(), "never": set(), "task": set()}
        try:
            txt = open(self.p("trace.txt")).read()
        except OSError:
            return t
        for m in re.finditer(r'\{ "([a-z-]+)"((?:, "[^"]*")*)', txt):
            ev, args = m.group(1), re.findall(r'"([^"]*)"', m.group(2))
            if ev == "new-rule":
                names[args[0]] = "&&".join(x[len(pre):] if x.startswith(pre) else x for x in args[1].split("&&"))
            elif ev == "checking-rule-needs-to-run":
                t["checked"].add(names.get(args[0]))
            elif ev == "rule-needs-to-run":
                if args[1] == "invalid-value":
                    t["invalid"].add(names.get(args[0]))
                if args[1] == "never-built":
                    t["never"].add(names.get(args[0]))
            elif ev == "created-task-for-rule":
                t["task"].add(names.get(args[1]))
        return t

    def outputs(self):
        r = {}
        for c in self.scen["cmds"]:
            if c["phony"]:
                continue
            for o in c["outs"]:
                try:
                    r[o] = open(self.p(o)).read()
                except OSError:
                    r[o] = None
        return r

    def mtimes(self):
        r = {}
        for f in os.listdir(self.path):
            if f[0] in "sho" and not f.endswith(".d"):
                r[f] = os.stat(self.p(f)).st_mtime_ns // 10**9 - CLOCK0
        return r


def apply_edit(d, st, op, content_counter):
    """apply one history edit to directory `d` (identically for every tool directory)"""
    k = op["op"]
    if k == "edit":
        d.write_src(op["file"], "%s v%d\n" % (op["file"], content_counter))
    elif k == "edit2":
        for i, f in enumerate(op["files"]):
            d.write_src(f, "%s v%d.%d\n" % (f, content_counter, i))
    elif k == "touch":
        d.stamp(op["file"])
    elif k == "old":        # counter-history of the update-if-newer hypothesis: new content, OLD timestamp
        d.write_src(op["file"], "%s v%d\n" % (op["file"], content_counter), n=CLOCK0 - 5)
    elif k == "same":       # give an input exactly the mtime of a consumer's output (equal timestamps)
        st = os.stat(d.p(op["as"]))
        os.utime(d.p(op["file"]), ns=(st.st_mtime_ns, st.st_mtime_ns))
    elif k == "rm":
        try:
            os.unlink(d.p(op["file"]))
        except OSError:
            pass
    elif k == "salt":
        d.write_manifest()
    elif k == "fail":
        d.w(".fail-" + op["cmd"], "")
        apply_edit(d, st, op["via"], content_counter)
    elif k == "repair":
        try:
            os.unlink(d.p(".fail-" + op["cmd"]))
        except OSError:
            pass


def run_scenario(args):
    """Execute one scenario; returns dict(failures=[...], diffs=[...], stats={...}, simlines=[...], observed=[...])."""
    scen, llbuild, ninja, scratch = args
    G = Graph(scen)
    base = os.path.join(scratch, "case%d" % scen["idx"])
    cfg = scen["cfg"]
    D = Dir(os.path.join(base, "ll"), "llbuild", llbuild, scen)
    N = Dir(os.path.join(base, "nj"), "ninja", ninja, scen) if ninja else None
    dirs = [D] + ([N] if N else [])
    fails, diffs, observed = [], [], []
    vlines, dlines = [], []
    stats = {"builds": 0, "steps": 0, "ops": {}, "ran": 0, "nodb_rebuild_ran": 0, "clean_compares": 0, "failed_builds": 0}
    for d in dirs:
        for f in scen["sources"] + scen["headers"]:
            d.write_src(f, "%s v0\n" % f)
        d.write_manifest()
    counter = 0
    pending = set()          # commands allowed to run: downstream of a change not yet built successfully
    failing = None
    first = True
    needed = G.needed()

    def fail(what, kind, step_i, **kw):
        f = {"what": what, "kind": kind, "step": step_i, "op": scen["steps"][step_i],
             "cfg": "db=%s j=%d k=%d" % (cfg["db"], cfg["jobs"], cfg["k"]), "input": {"scenario": scen}}
        f.update(kw)
        fails.append(f)

    for i, op in enumerate(scen["steps"]):
        counter += 1
        k = op["op"]
        stats["ops"][k] = stats["ops"].get(k, 0) + 1
        if k in ("salt",) or (k == "fail" and op["via"]["op"] == "salt"):
            cn = op["cmd"] if k == "salt" else op["via"]["cmd"]
            G.cmds[cn]["salt"] += 1
        for d in dirs:
            apply_edit(d, None, op, counter)
        # what this edit makes necessary (property clauses) and what it may at most cause
        must, may = set(), set()
        e = op["via"] if k == "fail" else op
        ek = e["op"]
        if ek in ("edit", "touch", "old", "same"):
            must = G.consumers(e["file"]) if ek not in ("old", "same") else set()
            may = G.affected(e["file"])
        elif ek == "edit2":
            for f in e["files"]:
                must |= G.consumers(f)
                may |= G.affected(f)
        elif ek == "rm":
            must = {G.prod[e["file"]]}
            may = G.down(G.prod[e["file"]])
        elif ek == "salt":
            c = G.cmds[e["cmd"]]
            must = set() if c["generator"] else {c["name"]}
            may = G.down(c["name"])
        if k == "fail":
            failing = op["cmd"]
        if k == "repair":
            failing = None
        if first:
            may = set(needed)
            must = set(needed)
        pending |= may
        pre_mt = D.mtimes()
        tracing = cfg["db"]
        if tracing:
            pre_db, pre_stat = D.snapshot_db(), D.stat_outs()
        rc, log, out = D.build(trace=tracing)
        if tracing and rc >= 0:
            vl, dl = model_lines(G, pre_db, D.snapshot_db(), pre_stat, D.parse_trace(), set(log), rc == 0 and failing is None)
            vlines += vl
            dlines += dl
        stats["builds"] += 1
        stats["steps"] += 1
        stats["ran"] += len(log)
        ran = set(log)
        observed.append({"step": i, "op": op, "rc": rc, "ran": sorted(ran), "pre_mtimes": pre_mt})
        if rc == -999 or rc < 0:
            fail("llbuild ninja build %s" % ("hung (120 s)" if rc == -999 else "died with signal %d" % -rc), "crash", i, output=out[-400:])
            break
        dup = sorted({x for x in log if log.count(x) > 1})
        if dup:
            fail("command(s) %s ran more than once in one build" % dup, "ran-twice", i)
        blocked = set()
        if failing:
            blocked = G.down(failing, oo=True) - {failing}
        expect_fail = failing is not None and failing in needed and (failing in pending)
        if expect_fail:
            stats["failed_builds"] += 1
            if rc == 0:
                fail("command %s fails but the build exited 0" % failing, "exit-status", i)
            if failing not in ran:
                fail("failing command %s was not attempted (retried) in this build" % failing, "not-retried", i)
            normal = G.down(failing) - {failing}
            for edge, bad in (("normal", sorted(ran & normal)), ("order-only", sorted((ran & blocked) - normal))):
                if bad:
                    fail("dependents %s of the failing command %s ran (reached through %s edges)" % (bad, failing, edge),
                         "dependent-ran", i, edge=edge, keep_going=cfg["k"] != 1)
        else:
            if rc != 0:
                fail("build failed (exit %d) although no command fails: %s" % (rc, out[-300:]), "spurious-failure", i)
        # necessary work (only what is in the closure of the targets, and not behind the failing command)
        if cfg["db"] or first:
            for c in sorted((must & needed) - blocked - ran):
                if failing and cfg["k"] == 1 and c != failing:
                    continue        # the build stops at the first failure; unrelated work may be left undone
                why = {"edit": "input edited", "edit2": "input edited", "touch": "input touched (role %s)" % G.role(e.get("file", "")),
                       "rm": "output deleted", "salt": "command line changed", "init": "first build"}.get(ek, ek)
                fail("command %s did not run although: %s" % (c, why), "missing-run", i, reason=ek,
                     generator=G.cmds[c]["generator"], restat=G.cmds[c]["restat"])
        # no unnecessary work
        if cfg["db"]:
            extra = sorted(ran - pending)
            if extra:
                tag = "order-only-triggered" if (ek == "touch" and G.role(e["file"]) == "order-only") else "unnecessary-run"
                fail("command(s) %s ran although nothing they depend on changed (op %s)" % (extra, json.dumps(op)), tag, i,
                     via_phony_input=any(_has_phony_input(G, x) for x in extra))
        ok_build = rc == 0 and not expect_fail
        if ok_build:
            pending = set()
            # clean-build equality
            Cd = Dir(os.path.join(base, "clean"), "llbuild", llbuild, scen)
            for f in scen["sources"] + scen["headers"]:
                shutil.copyfile(D.p(f), Cd.p(f))
                Cd.stamp(f)
            Cd.write_manifest()
            crc, clog, cout = Cd.build()
            stats["builds"] += 1
            stats["clean_compares"] += 1
            if crc != 0:
                fail("clean build failed: " + cout[-300:], "clean-build-failed", i)
            else:
                want, got = Cd.outputs(), D.outputs()
                stale = sorted(o for o in want if want[o] is not None and got.get(o) != want[o])
                if stale:
                    fail("outputs %s differ from a clean build's after an incremental build" % stale, "stale-output", i,
                         stale=stale, producers=sorted({G.prod[o] for o in stale}))
            # immediate rebuild runs nothing
            if tracing:
                pre_db, pre_stat = D.snapshot_db(), D.stat_outs()
            rc2, log2, out2 = D.build(trace=tracing)
            if tracing and rc2 == 0:
                vl, dl = model_lines(G, pre_db, D.snapshot_db(), pre_stat, D.parse_trace(), set(log2), True)
                vlines += vl
                dlines += dl
            stats["builds"] += 1
            if cfg["db"]:
                if log2:
                    fail("an immediate rebuild ran %s" % sorted(set(log2)), "null-rebuild-ran", i,
                         via_phony_input=any(_has_phony_input(G, x) for x in set(log2)))
                if rc2 != 0:
                    fail("an immediate rebuild exited %d" % rc2, "null-rebuild-failed", i)
            else:
                stats["nodb_rebuild_ran"] += len(log2)
            observed.append({"step": i, "op": {"op": "null*"}, "rc": rc2, "ran": sorted(set(log2)), "pre_mtimes": None})
        # differential against real ninja (specification validation only)
        if N:
            nrc, nlog, nout = N.build()
            if set(nlog) != ran or (nrc == 0) != (rc == 0):
                diffs.append({"case": scen["idx"], "step": i, "op": op, "llbuild": sorted(ran), "ninja": sorted(set(nlog)),
                              "llbuild_rc": rc, "ninja_rc": nrc, "cfg": cfg,
                              "class": _diff_class(G, op, ran, set(nlog), failing)})
            if ok_build and nrc == 0:
                N.build()       # keep ninja's log in step with the immediate rebuild
        first = False
    if not fails and not os.environ.get("VERIF_KEEP"):
        shutil.rmtree(base, ignore_errors=True)
    return {"failures": fails, "diffs": diffs, "stats": stats, "observed": observed, "idx": scen["idx"],
            "vlines": vlines, "dlines": dlines}


def _fi(t):
    return ":".join(str(x) for x in t)


def model_lines(G, pre_db, post_db, pre_stat, tr, ran, clean_build):
    """op lines for the Lean driver (c18valid / c18decide) with what the real tool did"""
    vl, dl = [], []
    for c in G.scen["cmds"]:
        key = "&&".join(c["outs"])
        post = post_db.get(key)
        if post is None or post[0] != 2:
            continue                      # current command hash unknown (not a successful value after the build)
        cur = post[1]
        outs = ",".join(_fi(pre_stat[o]) for o in c["outs"])
        gen = 0 if c["phony"] else int(c["generator"])
        hasin = int(bool(c["exp"] + c["imp"] + c["oo"]))
        prior = pre_db.get(key)
        if key in tr["checked"] and prior is not None and key not in tr["never"]:
            line = "%d %d %d %d %d %d %s %s" % (gen, int(c["phony"]), hasin, cur, prior[0], prior[1],
                                                ",".join(_fi(i) for i in prior[2]) or ".", outs)
            vl.append((line, "invalid" if key in tr["invalid"] else "valid", key))
        if key in tr["task"] and clean_build:
            recv = []
            okv = True
            for x in c["exp"] + c["imp"]:
                if c["phony"] and x in c["outs"]:
                    continue
                v = post_db.get(x)
                if v is None:
                    okv = False
                    break
                recv.append("%d/%s" % (v[0], _fi(v[2][0]) if v[2] else "-"))
            if not okv:
                continue
            line = "0 0 %d %d %d %d %d %d %d %s %s %s" % (
                int(bool(G.scen["cfg"].get("strict"))), cur, gen, 0 if c["phony"] else int(c["restat"]), int(c["phony"]),
                0 if c["phony"] else int(bool(c["hdr"])), hasin,
                "-" if prior is None else "%d:%d" % (prior[0], prior[1]), ";".join(recv) or ".", outs)
            dl.append((line, "execute" if c["name"] in ran else "complete 2", key))
    return vl, dl


def _has_phony_input(G, cname):
    c = G.cmds[cname]
    return any(G.prod.get(x) and G.cmds[G.prod[x]]["phony"] for x in c["exp"] + c["imp"])


def _diff_class(G, op, ll, nj, failing):
    if not G.scen["cfg"]["db"]:
        return "no-db"
    if failing:
        return "failing-step"
    only_ll, only_nj = ll - nj, nj - ll
    tags = []
    for c in only_ll | only_nj:
        cc = G.cmds[c]
        side = "llbuild-only" if c in only_ll else "ninja-only"
        attr = "restat" if cc["restat"] else "generator" if cc["generator"] else "depfile" if cc["hdr"] else "plain"
        tags.append("%s:%s:%s" % (op["op"], side, attr))
    return ",".join(sorted(set(tags))) or "exit-status-only"


# --------------------------------------------------------------------------------------------------
# hand-written directed scenarios (every clause of the property text at least once per run)
# --------------------------------------------------------------------------------------------------
def cmd(name, outs, exp, imp=(), oo=(), **kw):
    c = {"name": name, "phony": False, "outs": list(outs), "exp": list(exp), "imp": list(imp), "oo": list(oo), "salt": 0,
         "hdr": None, "depsgcc": False, "restat": False, "generator": False, "pool": None}
    c.update(kw)
    return c


def phony(name, ins):
    return {"name": name, "phony": True, "outs": [name], "exp": list(ins), "imp": [], "oo": []}


def directed(cfgs):
    out = []
    base_cmds = lambda: [cmd("c0", ["o0"], ["s0"], imp=["s1"]), cmd("c1", ["o1"], ["o0"], oo=["so"], hdr="h0.h"),
                         cmd("c2", ["o2", "o2b"], ["o1"], restat=True), cmd("c3", ["o3"], ["o2b"], imp=["s1"], oo=["o0"]),
                         phony("p0", ["o0", "o1"]), cmd("c4", ["o4"], ["p0"], pool="lp"), cmd("c5", ["o5"], ["s0"], oo=["p0"], generator=True)]
    hist = [{"op": "init"}, {"op": "null"}, {"op": "touch", "file": "so"}, {"op": "touch", "file": "s1"}, {"op": "touch", "file": "h0.h"},
            {"op": "edit", "file": "h0.h"}, {"op": "edit", "file": "s0"}, {"op": "salt", "cmd": "c1"}, {"op": "salt", "cmd": "c5"},
            {"op": "rm", "file": "o2b"}, {"op": "rm", "file": "o0"},
            {"op": "fail", "cmd": "c1", "via": {"op": "edit", "file": "h0.h"}}, {"op": "null"}, {"op": "repair", "cmd": "c1"},
            {"op": "fail", "cmd": "c0", "via": {"op": "rm", "file": "o0"}}, {"op": "repair", "cmd": "c0"},
            {"op": "fail", "cmd": "c2", "via": {"op": "salt", "cmd": "c2"}}, {"op": "repair", "cmd": "c2"}, {"op": "edit", "file": "s1"}]
    # equal timestamps (input mtime == output mtime): up to date without --strict, like Ninja (differential only)
    out.append({"sources": ["s0"], "headers": ["h0.h"], "cmds": [cmd("c0", ["o0"], ["s0"]), cmd("c1", ["o1"], ["o0"])], "targets": [],
                "cfg": dict(cfgs[0]), "steps": [{"op": "init"}, {"op": "same", "file": "s0", "as": "o0"}, {"op": "null"}]})
    for cfg in cfgs:
        out.append({"sources": ["s0", "s1", "so"], "headers": ["h0.h"], "cmds": base_cmds(), "targets": [], "cfg": dict(cfg), "steps": list(hist)})
    return out


def counter_history(cfg):
    """the history that violates the update-if-newer hypothesis: new content with an OLD timestamp.  Documented
    Ninja-compatible behaviour; reported in the distribution, never as a violation."""
    return {"sources": ["s0"], "headers": ["h0.h"], "cmds": [cmd("c0", ["o0"], ["s0"])], "targets": [], "cfg": dict(cfg),
            "steps": [{"op": "init"}, {"op": "old", "file": "s0"}]}


# --------------------------------------------------------------------------------------------------
class Check(PropertyCheck):
    prop = "C18"
    module = "LLBuild.Props.C18"
    theorems = ["LLBuild.NinjaBuild." + n for n in (
        "C18_tables", "C18_valid_iff", "C18_valid_no_oob",
        "C18_unchanged_stays_valid", "C18_failure_values_never_valid", "C18_command_line_change_reruns",
        "C18_order_only_never_compared", "C18_failed_input_skips", "C18_failed_input_skips_full_false",
        "C18_restat_force", "C18_phony_never_executes", "C18_deps_never_shortcut",
        "C18_shortcut_outputs_not_older", "C18_equal_mtime", "C18_update_if_newer_sound",
        "C18_update_if_newer_counter_history")]
    extractors = ["x_ninjabuild"]
    harnesses = []
    level = "proof"
    assumptions = [
        "hand model of the Ninja driver's decision logic (commandIsResultValid, provideValue accumulation, inputsAvailable decision chain); "
        "table-like parts regenerated from lib/Commands/NinjaBuildCommand.cpp by x_ninjabuild (value kinds, guard order, comparison operators, request kinds)",
        "file-system history hypothesis of C18_update_if_newer_sound: every edit stamps an mtime strictly above all earlier ones and outputs are only "
        "written by their command (the harness guarantees it with a logical clock; the counter-history is exhibited and replayed on the real tool)",
        "composition with the engine (C01) is NOT instantiated for the Ninja client: convergence / null rebuild / failure clauses are checked end to end "
        "through the real `llbuild ninja build`, not proved",
        "commands of generated manifests are deterministic shell scripts (content = function of name, salt and the contents read); CommandSignature is treated as injective",
    ]
    trusted_base = ["extractor x_ninjabuild", "end-to-end harness (generated manifests + edit histories through the real llbuild ninja build)",
                    "python oracles (clean-build equality, null rebuild, order-only/implicit/depfile/command-line/failure clauses)",
                    "installed ninja 1.11.1 as specification reference (differential, reported separately)"]

    def correspond(self, ctx, res):
        llbuild = os.path.join(C.BUILD, "plain", "bin", "llbuild")
        ninja = shutil.which("ninja")
        scratch = os.path.join(C.BUILD, "scratch", "c18")
        os.makedirs(scratch, exist_ok=True)
        scens = []
        if getattr(ctx, "replay_path", None):
            rp = json.load(open(ctx.replay_path))
            sc = rp.get("failure", {}).get("input", {}).get("scenario")
            if sc:
                scens = [sc]
        if not scens:
            cfgs = [{"db": True, "jobs": 1, "k": 1}, {"db": True, "jobs": 4, "k": 1}, {"db": False, "jobs": 1, "k": 1},
                    {"db": False, "jobs": 4, "k": 1}, {"db": True, "jobs": 4, "k": 0}]
            scens = directed(cfgs)
            n = 1400 if ctx.thorough else 110
            for i in range(n):
                scens.append(gen_scenario(ctx.rng, 0, ctx.thorough))
        for i, s in enumerate(scens):
            s["idx"] = i
        jobs = [(s, llbuild, ninja, scratch) for s in scens]
        results = []
        with ProcessPoolExecutor(max_workers=int(os.environ.get("VERIF_JOBS", "10"))) as ex:
            for r in ex.map(run_scenario, jobs, chunksize=1):
                results.append(r)
        tot = {"builds": 0, "steps": 0, "ran": 0, "nodb_rebuild_ran": 0, "clean_compares": 0, "failed_builds": 0}
        ops, dclasses, dsamples = {}, {}, []
        for r in results:
            for k in tot:
                tot[k] += r["stats"][k]
            for k, v in r["stats"]["ops"].items():
                ops[k] = ops.get(k, 0) + v
            for f in r["failures"]:
                res.oracle_failures.append(f)
            for d in r["diffs"]:
                dclasses[d["class"]] = dclasses.get(d["class"], 0) + 1
                if len(dsamples) < 6:
                    dsamples.append({k: d[k] for k in ("op", "llbuild", "ninja", "llbuild_rc", "ninja_rc", "class")})
        # the documented counter-history, replayed on the real tool (and on ninja): not a violation
        ch = run_scenario((dict(counter_history({"db": True, "jobs": 1, "k": 1}), idx=len(scens)), llbuild, ninja, scratch))
        stale = [f for f in ch["failures"] if f["kind"] == "stale-output"]
        res.distribution["counter_history_old_mtime"] = {
            "llbuild_leaves_stale_output": bool(stale), "ninja_agrees": not ch["diffs"],
            "note": "new content stamped with an OLD mtime violates the hypothesis of C18_update_if_newer_sound; documented Ninja-compatible behaviour"}
        self.sim_correspond(ctx, res, scens, results)
        res.evaluations += tot["builds"]
        res.distinct_nontrivial += tot["steps"]
        res.distribution.update({"scenarios": len(scens), "history_steps": tot["steps"], "llbuild_builds": tot["builds"],
                                 "commands_run": tot["ran"], "clean_build_compares": tot["clean_compares"],
                                 "failed_builds": tot["failed_builds"], "ops": ops,
                                 "configs": _count(scens, lambda s: "db=%s j=%d k=%d" % (s["cfg"]["db"], s["cfg"]["jobs"], s["cfg"]["k"])),
                                 "features": {"phony": sum(any(c["phony"] for c in s["cmds"]) for s in scens),
                                              "multi_output": sum(any(len(c["outs"]) > 1 for c in s["cmds"]) for s in scens),
                                              "depfile": sum(any(c.get("hdr") for c in s["cmds"]) for s in scens),
                                              "restat": sum(any(c.get("restat") for c in s["cmds"]) for s in scens),
                                              "generator": sum(any(c.get("generator") for c in s["cmds"]) for s in scens),
                                              "pool": sum(any(c.get("pool") for c in s["cmds"]) for s in scens),
                                              "explicit_targets": sum(bool(s["targets"]) for s in scens)},
                                 "nodb_commands_rerun_by_immediate_rebuild": tot["nodb_rebuild_ran"],
                                 "ninja_differential": {"reference": ninja or "absent", "disagreeing_steps": sum(dclasses.values()),
                                                        "by_class": dclasses, "samples": dsamples}})
        res.rule = ("each case = one generated manifest + configuration (db/no-db, -j1/-j4, -k) + one generated edit history, driven step by step through the real "
                    "`llbuild ninja build`; evaluations = llbuild invocations (incremental, immediate rebuild, clean build in a fresh directory); "
                    "non-trivial = history steps (each applies an edit and checks the clauses it triggers)")
        res.samples.append({"manifest": manifest_text(scens[0]).split("\n")[:12], "steps": scens[0]["steps"][:6]})

    def sim_correspond(self, ctx, res, scens, results):
        """the decisions the real tool took (engine trace: invalid-value / task created; side-effect log: executed),
        on the values it really stored (decoded from build.db), against the Lean model's decision functions"""
        for mode, field, stream in (("c18valid", "vlines", "c18valid"), ("c18decide", "dlines", "c18decide")):
            recs = [(r["idx"], x) for r in results for x in r[field]]
            if not recs:
                continue
            rc, out, err = run_model(mode, [x[0] for _, x in recs])
            if rc != 0 or len(out) != len(recs):
                if ctx.model_ok:
                    res.mismatches.append({"stream": stream, "input": "model driver exit %d, %d/%d lines" % (rc, len(out), len(recs)), "model": err[-300:]})
                continue
            agree, dist = 0, {}
            for (idx, (line, impl, key)), m in zip(recs, out):
                mm = m if mode == "c18valid" else " ".join(m.split(" ")[:2])
                dist[mm] = dist.get(mm, 0) + 1
                if mm == impl:
                    agree += 1
                elif len(res.mismatches) < 20:
                    res.mismatches.append({"stream": stream, "input": "case %d rule %s: %s" % (idx, key, line), "model": m, "impl": impl})
            res.distribution[stream] = {"decisions_compared": len(recs), "agree": agree, "model_outcomes": dist}
            res.evaluations += len(recs)

    def match_known(self, failure, known):
        m = known.get("match", {})
        return all(failure.get(k) == v for k, v in m.items())


def _count(xs, f):
    r = {}
    for x in xs:
        r[f(x)] = r.get(f(x), 0) + 1
    return r


CHECK = Check()

if __name__ == "__main__":
    # debugging aid: python3 -m vlib.props.c18 <seed> [n]
    seed = int(sys.argv[1]) if len(sys.argv) > 1 else 0
    n = int(sys.argv[2]) if len(sys.argv) > 2 else 20
    rng = C.Rng(seed, "C18")
    llb = os.path.join(C.BUILD, "plain", "bin", "llbuild")
    scr = os.path.join(C.BUILD, "scratch", "c18dbg")
    scs = directed([{"db": True, "jobs": 1, "k": 1}, {"db": True, "jobs": 4, "k": 0}]) + [gen_scenario(rng, 0, False) for _ in range(n)]
    for i, s in enumerate(scs):
        s["idx"] = i
    with ProcessPoolExecutor(max_workers=10) as ex:
        for r in ex.map(run_scenario, [(s, llb, shutil.which("ninja"), scr) for s in scs]):
            for f in r["failures"]:
                print("FAIL case", r["idx"], f["kind"], f["what"], f["cfg"], json.dumps(f["op"]))
            for d in r["diffs"]:
                print("  diff case", r["idx"], d["cfg"], d["class"], json.dumps(d["op"]), d["llbuild"], d["ninja"], d["llbuild_rc"], d["ninja_rc"])
